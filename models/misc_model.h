/* opaque std::string and nlohmann::json models (A-models) */
#ifndef V_MISC_MODEL_H
#define V_MISC_MODEL_H
struct v_str { size_t size; int tag; };          /* contents abstract: equal strings have equal (size, tag) */
static inline _Bool v_str_eq(const struct v_str *a, const struct v_str *b) { return a->size == b->size && a->tag == b->tag; }
#define V_EXC_INVALID_ARGUMENT 1
#define V_EXC_OUT_OF_RANGE 3
static inline struct v_str v_str_any(void) { struct v_str r; __CPROVER_assume(r.size < V_MAXSZ); return r; }
#define V_EXC_LENGTH_ERROR 5
static inline struct v_str v_str_n(size_t n) { struct v_str r; r.size = n; if (n >= V_MAXSZ) { __exc = V_EXC_LENGTH_ERROR; r.size = 0; } return r; }   /* string(n, ch): absurd sizes throw */
/* substr(pos, n): out_of_range when pos > size, else min(n, size - pos) characters */
static inline struct v_str v_str_substr2(const struct v_str *s, size_t pos, size_t n) { struct v_str r; r.size = 0; if (pos > s->size) { __exc = V_EXC_OUT_OF_RANGE; return r; } r.size = n < s->size - pos ? n : s->size - pos; return r; }
#define V_NPOS ((size_t)-1)
/* find family: npos, or the position of a match of `len` characters that starts at or after pos and lies inside the string */
static _Bool v_find2_hit;      /* ghost: a search for a two-character pattern (CRLF) has succeeded */
static inline size_t v_str_find(const struct v_str *s, size_t pos, size_t len) { size_t r; if (len > s->size || pos > s->size - len) return V_NPOS; if (r == V_NPOS) return r; __CPROVER_assume(r >= pos && r <= s->size - len); if (len == 2) v_find2_hit = 1; return r; }
static inline int v_nondet_int(void) { int x; return x; }
static inline char v_str_at(const struct v_str *s, size_t i) { char c; if (i >= s->size) { __exc = V_EXC_OUT_OF_RANGE; return 0; } return c; }      /* std::string::at */
static inline struct v_str v_str_substr(const struct v_str *s) { struct v_str r; __CPROVER_assume(r.size <= s->size); return r; }   /* pos <= size is the caller's business */
static inline struct v_str v_str_cat(const struct v_str *a, const struct v_str *b) { struct v_str r; __CPROVER_assume(r.size < V_MAXSZ && (a == 0 || r.size >= a->size) && (b == 0 || r.size >= b->size)); return r; }
static inline _Bool v_str_eq_lit(const struct v_str *s) { (void)s; _Bool r; return r; }
static inline void v_str_clear(struct v_str *s) { s->size = 0; s->tag = 0; }
static inline char v_str_char(const struct v_str *s, size_t i) { __CPROVER_assert(i <= s->size, "std::string::operator[] index within [0, size]"); char c; return c; }
static inline void v_str_pop_back(struct v_str *s) { __CPROVER_assert(s->size > 0, "std::string::pop_back on a non-empty string"); s->size--; int t; s->tag = t; }
static inline void v_str_erase(struct v_str *s, size_t pos, size_t n) { if (pos > s->size) { __exc = V_EXC_OUT_OF_RANGE; return; } size_t k = n < s->size - pos ? n : s->size - pos; s->size -= k; int t; s->tag = t; }
static inline void v_str_insert(struct v_str *s, size_t pos) { if (pos > s->size) { __exc = V_EXC_OUT_OF_RANGE; return; } s->size++; int t; s->tag = t; }
static inline void v_str_push_back(struct v_str *s) { s->size++; int t; s->tag = t; }
/* std::stoi: any int, or one of the two exceptions the standard names */
static inline int v_stoi(const struct v_str *s) { (void)s; int r; unsigned char c; if (c == 1) { __exc = V_EXC_INVALID_ARGUMENT; return 0; } if (c == 2) { __exc = V_EXC_OUT_OF_RANGE; return 0; } return r; }
struct v_sstream { size_t n; };
static inline struct v_sstream *v_ss_put(struct v_sstream *s, int x) { (void)x; s->n++; return s; }
static inline struct v_str v_str_from(const char *p, size_t n) { __CPROVER_assert(p != NULL, "std::string(ptr, n): ptr is not null (libstdc++ throws logic_error)"); __CPROVER_assert(n == 0 || __CPROVER_r_ok(p, n), "std::string(ptr, n) reads n bytes inside a live object"); struct v_str r; r.size = n; return r; }
static struct v_sstream v_cerr;
struct v_json { char opaque; };
static inline _Bool v_json_parse_throws(void) { _Bool r; return r; }
static inline _Bool v_json_contains(const struct v_json *j) { (void)j; _Bool r; return r; }      /* any answer */
static struct v_json v_json_any;
#define V_EXC_JSON_TYPE 8
static inline _Bool v_json_is(const struct v_json *j) { (void)j; _Bool r; return r; }               /* is_object / is_array / ...: any answer */
static const struct v_json *v_json_obj_asked; static _Bool v_json_obj_answer;     /* ghost: the last is_object() question and its answer */
static inline _Bool v_json_is_object(const struct v_json *j) { _Bool r; v_json_obj_asked = j; v_json_obj_answer = r; return r; }
static inline size_t v_json_size(const struct v_json *j) { (void)j; size_t r; __CPROVER_assume(r < V_MAXSZ); return r; }
/* nlohmann::json::value(key, default): throws type_error.302 when the key is present with a value of another type */
static inline int v_json_value_int(const struct v_json *j, int dflt) { (void)j; _Bool t; if (t) { __exc = V_EXC_JSON_TYPE; return dflt; } int r; return r; }
static inline struct v_json *v_json_index(const struct v_json *j) { (void)j; return &v_json_any; }
#endif
