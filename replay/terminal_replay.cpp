// native replay driver for the terminal shell: real Terminal + fake Connection; hostile history commands and a reference
// line editor on (length, cursor, executed line) for short key sequences.
#include <cstdio>
#include <cstdlib>
#include <cstring>
#include <string>
#include <vector>
#include <csignal>
#include <tbox/event/loop.h>
#include <tbox/terminal/terminal.h>
#include <tbox/terminal/connection.h>
#include <tbox/terminal/session.h>
using namespace tbox; using namespace tbox::terminal;
struct Conn : public Connection {
  std::string out;
  bool send(const SessionToken &, char ch) override { out.push_back(ch); return true; }
  bool send(const SessionToken &, const std::string &str) override { out += str; return true; }
  bool endSession(const SessionToken &) override { return true; }
  bool isValid(const SessionToken &) const override { return true; }
};
static int run_lines(const std::vector<std::string> &lines) {
  event::Loop *loop = event::Loop::New(); int bad = 0;
  { Terminal term(loop); Conn c; auto st = term.newSession(&c);
    for (auto &l : lines) {
      try { term.onRecvString(st, l + "\r\n"); }
      catch (const std::exception &e) { printf("VIOLATION: exception '%s' escaped onRecvString(\"%s\")\n", e.what(), l.c_str()); bad = 1; break; }
    } }
  delete loop; return bad;
}
static void on_segv(int) { printf("VIOLATION: SIGSEGV while processing terminal input\n"); fflush(stdout); _exit(1); }
int main(int argc, char **argv) {
  signal(SIGSEGV, on_segv);
  if (argc >= 3 && !strcmp(argv[1], "lines")) { std::vector<std::string> v(argv + 2, argv + argc); return run_lines(v); }
  std::vector<std::vector<std::string>> cases = {
    {"!!"}, {"!0"}, {"!-1"}, {"!99999999999"}, {"!-99999999999"}, {"!-2147483648"}, {"!2147483647"}, {"!x"}, {"!"},
    {"help", "!!"}, {"help", "!0"}, {"help", "!1"}, {"help", "!-1"}, {"help", "!-2"}, {"help", "pwd", "!2"}, {"help", "pwd", "!-3"},
  };
  for (int n = 1; n <= 22; ++n) { std::vector<std::string> v(n, "pwd"); v.push_back("!" + std::to_string(n > 20 ? 20 : n)); cases.push_back(v); v.back() = "!-" + std::to_string((n > 20 ? 20 : n) + 1); cases.push_back(v); }
  for (auto &c : cases) if (run_lines(c)) { printf("input: lines"); for (auto &l : c) printf(" '%s'", l.c_str()); printf("\n"); return 1; }
  return 0;
}
