// a stopped action must not deliver a block (or finish) notification that was queued before the stop
#include <tbox/flow/action.h>
#include <tbox/event/loop.h>
#include <cstdio>
using namespace tbox; using namespace tbox::flow;
struct TestAction : public Action {
    TestAction(event::Loop &l) : Action(l, "Test") {}
    using Action::block; using Action::finish;
    virtual bool isReady() const override { return true; }
};
int main() {
    auto loop = event::Loop::New();
    int bad = 0;
    {
        TestAction a(*loop); int blocks = 0;
        a.setBlockCallback([&](const Action::Reason &, const Action::Trace &) { ++blocks; });
        a.start(); a.block(Action::Reason(1)); a.stop();
        loop->exitLoop(std::chrono::milliseconds(50)); loop->runLoop();
        printf("block notifications delivered after stop(): %d (state %d)\n", blocks, (int)a.state());
        if (blocks != 0) { printf("VIOLATION: a stopped action delivered a stale block notification\n"); bad = 1; }
    }
    delete loop;
    return bad;
}
