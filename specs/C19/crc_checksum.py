"""C19 — CRC-16/CCITT, CRC-32 (modules/util/crc.cpp) and the 8/16-bit one's-complement checksums (modules/util/checksum.cpp).

Method (DESIGN 4 / C19): the byte loop runs in lock-step with a ghost reference accumulator that is advanced by the
*published bitwise recurrence* (CRC: shift register with the generator polynomial, 8 rounds per byte; checksum:
end-around-carry addition).  Loop invariant: real accumulator == ghost accumulator, for any length (unbounded).
The table-step lemma (table[(crc ^ b) & 0xff] ^ shift == 8 rounds) is part of the invariant-step obligation and is also
stated on its own for all (crc, byte).  B(8) cross-check against a separately written whole-function reference.
"""
import os
from verif import UnitSpec, Target

PRELUDE = r'''
/* ---- published bitwise recurrences (8 rounds written out: no loop in the reference step) ---- */
static inline uint16_t CRC16_STEP(uint16_t crc, uint8_t b)      /* CCITT, poly 0x1021, MSB first */
{ crc ^= (uint16_t)((uint16_t)b << 8);
  crc = (crc & 0x8000u) ? (uint16_t)((crc << 1) ^ 0x1021u) : (uint16_t)(crc << 1);  crc = (crc & 0x8000u) ? (uint16_t)((crc << 1) ^ 0x1021u) : (uint16_t)(crc << 1);
  crc = (crc & 0x8000u) ? (uint16_t)((crc << 1) ^ 0x1021u) : (uint16_t)(crc << 1);  crc = (crc & 0x8000u) ? (uint16_t)((crc << 1) ^ 0x1021u) : (uint16_t)(crc << 1);
  crc = (crc & 0x8000u) ? (uint16_t)((crc << 1) ^ 0x1021u) : (uint16_t)(crc << 1);  crc = (crc & 0x8000u) ? (uint16_t)((crc << 1) ^ 0x1021u) : (uint16_t)(crc << 1);
  crc = (crc & 0x8000u) ? (uint16_t)((crc << 1) ^ 0x1021u) : (uint16_t)(crc << 1);  crc = (crc & 0x8000u) ? (uint16_t)((crc << 1) ^ 0x1021u) : (uint16_t)(crc << 1);
  return crc; }
static inline uint32_t CRC32_STEP(uint32_t crc, uint8_t b)      /* IEEE 802.3, reflected, poly 0xEDB88320 */
{ crc ^= b;
  crc = (crc & 1u) ? ((crc >> 1) ^ 0xEDB88320u) : (crc >> 1);  crc = (crc & 1u) ? ((crc >> 1) ^ 0xEDB88320u) : (crc >> 1);
  crc = (crc & 1u) ? ((crc >> 1) ^ 0xEDB88320u) : (crc >> 1);  crc = (crc & 1u) ? ((crc >> 1) ^ 0xEDB88320u) : (crc >> 1);
  crc = (crc & 1u) ? ((crc >> 1) ^ 0xEDB88320u) : (crc >> 1);  crc = (crc & 1u) ? ((crc >> 1) ^ 0xEDB88320u) : (crc >> 1);
  crc = (crc & 1u) ? ((crc >> 1) ^ 0xEDB88320u) : (crc >> 1);  crc = (crc & 1u) ? ((crc >> 1) ^ 0xEDB88320u) : (crc >> 1);
  return crc; }
/* one's-complement (end-around carry) addition, RFC 1071 style */
#define OC8_ADD(a, b) ((uint16_t)((((uint16_t)(a) + (uint16_t)(b)) & 0xffu) + (((uint16_t)(a) + (uint16_t)(b)) >> 8)))
#define OC16_ADD(a, w) ((uint32_t)((((uint32_t)(a) + (uint32_t)(w)) & 0xffffu) + (((uint32_t)(a) + (uint32_t)(w)) >> 16)))
static uint32_t g_ref;     /* ghost reference accumulator */
static size_t g_n0;        /* ghost: length at entry */
'''

def crc_spec(fn, step, ret):
    return {
        ('contract', fn): r'''
__CPROVER_requires(data_size < V_MAXSZ && (data_size > 0 ==> __CPROVER_is_fresh(data_ptr, data_size)))
__CPROVER_assigns(g_ref, g_n0)
__CPROVER_ensures(__CPROVER_return_value == %s)
''' % ret,
        ('ghost', fn, 'entry'): 'g_ref = init_seed; g_n0 = data_size;',
        ('loop', fn, 1): r'''
__CPROVER_assigns(crc, bytes, data_size, g_ref)
__CPROVER_loop_invariant(data_size <= g_n0 && (g_n0 > 0 ==> (__CPROVER_same_object(bytes, data_ptr) && __CPROVER_POINTER_OFFSET(bytes) == g_n0 - data_size)))
__CPROVER_loop_invariant(crc == g_ref)
__CPROVER_decreases(data_size)
''',
        ('ghost', fn, 'loop_body_start:1'): 'g_ref = %s(g_ref, *bytes);' % step,
    }

SPEC = {}
SPEC.update(crc_spec('util_CalcCrc16', 'CRC16_STEP', '(uint16_t)g_ref'))
SPEC.update(crc_spec('util_CalcCrc32', 'CRC32_STEP', '(uint32_t)~g_ref'))

H = lambda body: '\nvoid H(void)\n{\n' + body + '\n  __CPROVER_assert(0, "VACUITY-CANARY");\n}\n'

H_TABLES = H(r'''  uint16_t c16; uint32_t c32; uint8_t b;
  uint16_t r16 = CRC16_STEP(c16, b); uint32_t r32 = CRC32_STEP(c32, b);
  __CPROVER_assert((uint16_t)(util_ccitt16_table[((c16 >> 8) ^ b) & 0xff] ^ (uint16_t)(c16 << 8)) == r16, "CRC-16 table step == 8 rounds of the bitwise recurrence, all (crc, byte)");
  __CPROVER_assert((util_crc32_table[(c32 ^ b) & 0xff] ^ (c32 >> 8)) == r32, "CRC-32 table step == 8 rounds of the bitwise recurrence, all (crc, byte)");''')

H_CRC_REF = H(r'''  /* whole-function cross-check against a separately written bit-at-a-time reference, length <= 6 */
  size_t n; __CPROVER_assume(n <= 6); uint8_t *p = v_alloc_ok(n ? n : 1); uint16_t s16; uint32_t s32;
  uint16_t r16 = s16; uint32_t r32 = s32;
  for (size_t i = 0; i < n; ++i) { r16 ^= (uint16_t)p[i] << 8; for (int k = 0; k < 8; ++k) r16 = (r16 & 0x8000) ? (uint16_t)((r16 << 1) ^ 0x1021) : (uint16_t)(r16 << 1);
                                   r32 ^= p[i]; for (int k = 0; k < 8; ++k) r32 = (r32 & 1) ? (r32 >> 1) ^ 0xEDB88320u : r32 >> 1; }
  __CPROVER_assert(util_CalcCrc16(p, n, s16) == r16, "CalcCrc16 == bitwise CRC-16/CCITT reference");
  __CPROVER_assert(util_CalcCrc32(p, n, s32) == (uint32_t)~r32, "CalcCrc32 == bitwise CRC-32 reference");''')

CK_SPEC = {
    ('contract', 'util_CalcCheckSum8'): r'''
__CPROVER_requires(data_size < V_MAXSZ && (data_size > 0 ==> __CPROVER_is_fresh(data_ptr, data_size)))
__CPROVER_assigns(g_ref)
__CPROVER_ensures(__CPROVER_return_value == (uint8_t)~(uint8_t)g_ref)
''',
    ('ghost', 'util_CalcCheckSum8', 'entry'): 'g_ref = 0;',
    ('loop', 'util_CalcCheckSum8', 1): r'''
__CPROVER_assigns(i, acc, g_ref)
__CPROVER_loop_invariant(i <= data_size && acc == g_ref && acc <= 0xff)
__CPROVER_decreases(data_size - i)
''',
    ('ghost', 'util_CalcCheckSum8', 'loop_body_start:1'): 'g_ref = OC8_ADD(g_ref, byte_ptr[i]);',
    ('loop', 'util_CalcCheckSum8', 2): r'''
__CPROVER_assigns(acc)
__CPROVER_loop_invariant(acc <= 0x1fe && OC8_ADD(acc & 0xff, acc >> 8) == g_ref)
__CPROVER_decreases(acc)
''',
    ('contract', 'util_CalcCheckSum16'): r'''
__CPROVER_requires(data_size < V_MAXSZ && (data_size > 0 ==> __CPROVER_is_fresh(data_ptr, data_size)))
__CPROVER_assigns(g_ref, g_n0)
__CPROVER_ensures(__CPROVER_return_value == (uint16_t)~(uint16_t)g_ref)
''',
    ('ghost', 'util_CalcCheckSum16', 'entry'): 'g_ref = 0; g_n0 = data_size;',
    ('loop', 'util_CalcCheckSum16', 1): r'''
__CPROVER_assigns(acc, bytes, data_size, g_ref)
__CPROVER_loop_invariant(data_size <= g_n0 && ((g_n0 - data_size) & 1) == 0 && __CPROVER_same_object(bytes, data_ptr) && __CPROVER_POINTER_OFFSET(bytes) == g_n0 - data_size)
__CPROVER_loop_invariant(acc == g_ref && acc <= 0xffff)
__CPROVER_decreases(data_size)
''',
    ('ghost', 'util_CalcCheckSum16', 'loop_body_start:1'): 'g_ref = OC16_ADD(g_ref, ((uint32_t)bytes[0] << 8) | bytes[1]);',
    ('loop', 'util_CalcCheckSum16', 2): r'''
__CPROVER_assigns(acc)
__CPROVER_loop_invariant(acc <= 0x1fffe && OC16_ADD(acc & 0xffff, acc >> 16) == g_ref)
__CPROVER_decreases(acc)
''',
    ('ghost', 'util_CalcCheckSum16', 'before_loop:3'): 'g_ref = OC16_ADD(g_ref, (uint32_t)bytes[0] << 8);',
}
CK_SPEC[('loop', 'util_CalcCheckSum16', 3)] = r'''
__CPROVER_assigns(acc)
__CPROVER_loop_invariant(acc <= 0x1fffe && OC16_ADD(acc & 0xffff, acc >> 16) == g_ref)
__CPROVER_decreases(acc)
'''

H_CK_REF = H(r'''  /* whole-function cross-check against the textbook definition (sum, then fold), length <= 7 */
  size_t n; __CPROVER_assume(n <= 7); uint8_t *p = v_alloc_ok(n ? n : 1);
  uint32_t s8 = 0, s16 = 0;
  for (size_t i = 0; i < n; ++i) { s8 += p[i]; s16 += (i & 1) ? p[i] : ((uint32_t)p[i] << 8); }
  while (s8 >> 8) s8 = (s8 & 0xff) + (s8 >> 8);
  while (s16 >> 16) s16 = (s16 & 0xffff) + (s16 >> 16);
  __CPROVER_assert(util_CalcCheckSum8(p, n) == (uint8_t)~s8, "CalcCheckSum8 == one's-complement sum of bytes, complemented");
  __CPROVER_assert(util_CalcCheckSum16(p, n) == (uint16_t)~s16, "CalcCheckSum16 == RFC 1071 sum of big-endian words (odd tail padded), complemented");''')

REPLAY_SOURCES = ['modules/util/crc.cpp', 'modules/util/checksum.cpp']

def native_replay(u, t, o, w, workdir):
    import replay as rp
    return rp.attempt('crc_checksum', REPLAY_SOURCES, os.path.join(workdir, 'replay'), [('native-search', ['search', 1])])

UNITS = [
    UnitSpec(name='crc', tu='modules/util/crc.cpp', filter='tbox::util', emit=['tbox::util::CalcCrc16', 'tbox::util::CalcCrc32'],
             spec=SPEC, prelude=PRELUDE,
             targets=[
                 Target('CalcCrc16', H('  const void *p; size_t n; uint16_t s; util_CalcCrc16(p, n, s);'), enforce='util_CalcCrc16',
                        clause='CRC-16/CCITT == bitwise reference in lock-step, any length'),
                 Target('CalcCrc32', H('  const void *p; size_t n; uint32_t s; util_CalcCrc32(p, n, s);'), enforce='util_CalcCrc32',
                        clause='CRC-32 == bitwise reference in lock-step, any length'),
                 Target('table_step', H_TABLES, loops=False, clause='table step lemma for all 2^24 / 2^40 (crc, byte) pairs', functions=['util_ccitt16_table', 'util_crc32_table']),
                 Target('crc_vs_reference', H_CRC_REF, loops=False, unwind=9, bound='length <= 6', tier='thorough', clause='whole-function equality with a bit-at-a-time reference',
                        functions=['util_CalcCrc16', 'util_CalcCrc32']),
             ]),
    UnitSpec(name='checksum', tu='modules/util/checksum.cpp', filter='tbox::util', emit=['tbox::util::CalcCheckSum8', 'tbox::util::CalcCheckSum16'],
             spec=CK_SPEC, prelude=PRELUDE,
             targets=[
                 Target('CalcCheckSum8', H('  const void *p; size_t n; util_CalcCheckSum8(p, n);'), enforce='util_CalcCheckSum8',
                        clause='8-bit checksum == complemented end-around-carry sum in lock-step, any length'),
                 Target('CalcCheckSum16', H('  const void *p; size_t n; util_CalcCheckSum16(p, n);'), enforce='util_CalcCheckSum16',
                        clause='16-bit checksum == complemented RFC 1071 sum in lock-step, any length incl. odd tail'),
                 Target('checksum_vs_reference', H_CK_REF, loops=False, unwind=9, bound='length <= 7', tier='thorough', clause='whole-function equality with sum-then-fold definition',
                        functions=['util_CalcCheckSum8', 'util_CalcCheckSum16']),
             ]),
]
for u in UNITS: u.module_replay = True
