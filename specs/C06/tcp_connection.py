"""C06 — network::TcpConnection (modules/network/tcp_connection.cpp): the buffered descriptor of a connection goes away only by a deferred task.

BufferedFd is an opaque handle here (its own contracts: buffered_fd.py).  Decided:
 disconnect()        connected: the descriptor is disabled, detached (sp_buffered_fd_ = null) and its destruction POSTED to the loop (runNext),
                     in that order, once; never destroyed on the spot (delete stub: requires false); not reported as a peer close; a second
                     call is refused.
 onSocketClosed()    (read-zero callback of the descriptor, which is therefore on the stack) same three steps, THEN the disconnected
 onReadError()       callback, exactly once, with cb_level_ raised - "a peer close is reported exactly once, after all data that preceded it"
                     at this layer: after the descriptor stopped delivering.
 send()              forwarded once while connected, refused once the descriptor is gone.
"""
import os
from verif import UnitSpec, Target
from plugins import StdFunction, StdVector, OpaqueString, StringStreamSink, Syscalls
TU = 'modules/network/tcp_connection.cpp'
P = 'network_TcpConnection_'
R = {P + 'disconnect': 'Conn_disconnect', P + 'onSocketClosed': 'Conn_onSocketClosed', P + 'onReadError': 'Conn_onReadError', P + 'send': 'Conn_send', P + 'dtor': 'Conn_dtor',
     'network_BufferedFd_disable': 'BFd_disable', 'network_BufferedFd_send': 'BFd_send', 'event_Loop_runNext__tbox_event_Loop_Funcrr_Kstd_stringr': 'Loop_runNext'}
PRELUDE = r"""
typedef struct network_TcpConnection Conn;
#define T(x) ((x) != 0)
static Conn *g_c; static v_hbfd g_h; static size_t g_disables, g_posts, g_cb_calls, g_sends;
"""
EXTERN = r"""
_Bool BFd_disable(v_hbfd h) __CPROVER_requires(h != 0 && h == g_h && g_disables == 0) __CPROVER_assigns(g_disables) __CPROVER_ensures(g_disables == 1);
_Bool BFd_send(v_hbfd h, const void *p, size_t n) __CPROVER_requires(h != 0 && h == g_c->sp_buffered_fd_ && g_sends == 0) __CPROVER_assigns(g_sends) __CPROVER_ensures(g_sends == 1);
/* the deferred task that destroys the detached descriptor: posted after it was disabled and detached, exactly once */
unsigned long Loop_runNext(struct v_Loop *l, struct v_function *f, struct v_str *what)
__CPROVER_requires(l == g_c->wp_loop_ && T(f->engaged) && g_disables == 1 && g_c->sp_buffered_fd_ == 0 && g_posts == 0) __CPROVER_assigns(g_posts) __CPROVER_ensures(g_posts == 1);
/* the descriptor may be the caller (its own read-zero / error callback is running): never destroyed on the spot */
void v_delete__v_hbfd(v_hbfd h) __CPROVER_requires(0) __CPROVER_assigns() __CPROVER_ensures(1);
/* the disconnected notification: after the descriptor is detached and its destruction posted, once */
void v_fn_call__void(struct v_function *f) __CPROVER_requires(f == &g_c->disconnected_cb_ && T(f->engaged) && g_posts == 1 && g_cb_calls == 0 && g_c->cb_level_ >= 1 && g_c->sp_buffered_fd_ == 0)
  __CPROVER_assigns(g_cb_calls) __CPROVER_ensures(g_cb_calls == 1);
"""
FRESH = '__CPROVER_requires(__CPROVER_is_fresh(self, sizeof(*self)) && self->cb_level_ >= 0 && self->cb_level_ < 1000 && g_h == self->sp_buffered_fd_)\n'
FRAME = 'g_c, g_disables, g_posts, g_cb_calls, g_sends, self->sp_buffered_fd_, self->cb_level_'
ENTRY = 'g_c = self; g_disables = 0; g_posts = 0; g_cb_calls = 0; g_sends = 0;'
CLOSED_POST = r"""
__CPROVER_ensures(self->sp_buffered_fd_ == 0 && g_disables == 1 && g_posts == 1 && self->cb_level_ == __CPROVER_old(self->cb_level_))
__CPROVER_ensures(g_cb_calls == (T(self->disconnected_cb_.engaged) ? 1 : 0))          /* the close is reported exactly once */
"""
SPEC = {('stub', 'BFd_disable'): True, ('stub', 'BFd_send'): True, ('stub', 'Loop_runNext'): True,
    ('prelude_early',): 'struct v_Loop { char opaque; }; struct v_SockAddr { char opaque; }; typedef unsigned long v_hbfd;\n', ('prelude',): PRELUDE, ('after_protos',): EXTERN,
    ('contract', 'Conn_disconnect'): FRESH + '__CPROVER_assigns(' + FRAME + r""")
__CPROVER_ensures(__CPROVER_old(self->sp_buffered_fd_) == 0 ==> (!T(__CPROVER_return_value) && g_disables == 0 && g_posts == 0))
__CPROVER_ensures(__CPROVER_old(self->sp_buffered_fd_) != 0 ==> (T(__CPROVER_return_value) && self->sp_buffered_fd_ == 0 && g_disables == 1 && g_posts == 1))
__CPROVER_ensures(g_cb_calls == 0)                                                    /* a local disconnect is not reported as a peer close */
""",
    ('ghost', 'Conn_disconnect', 'entry'): ENTRY,
    ('contract', 'Conn_onSocketClosed'): FRESH + '__CPROVER_requires(self->sp_buffered_fd_ != 0)\n__CPROVER_assigns(' + FRAME + ')' + CLOSED_POST,
    ('ghost', 'Conn_onSocketClosed', 'entry'): ENTRY,
    ('contract', 'Conn_onReadError'): FRESH + '__CPROVER_requires(self->sp_buffered_fd_ != 0)\n__CPROVER_assigns(' + FRAME + ', v_errno)' + CLOSED_POST,
    ('ghost', 'Conn_onReadError', 'entry'): ENTRY,
    ('contract', 'Conn_send'): FRESH + '__CPROVER_assigns(' + FRAME + r""")
__CPROVER_ensures(g_sends == (self->sp_buffered_fd_ != 0 ? 1 : 0) && (self->sp_buffered_fd_ == 0 ==> !T(__CPROVER_return_value)))        /* after the close nothing is handed to a descriptor that is gone */
""",
    ('ghost', 'Conn_send', 'entry'): ENTRY,
}
ST = ['BFd_disable', 'BFd_send', 'Loop_runNext', 'v_delete__v_hbfd', 'v_fn_call__void']
H = lambda body: '\nvoid H(void)\n{\n' + body + '\n  __CPROVER_assert(0, "VACUITY-CANARY");\n}\n'
UNITS = [UnitSpec(name='tcp_connection', tu=TU, filter='tbox::network', more_filters=[(TU, 'tbox::event')], rename=R, spec=SPEC,
    plugins=[StdFunction(), StdVector(), OpaqueString(), StringStreamSink(), Syscalls()], model_headers=['fn_model.h', 'vec_model.h', 'misc_model.h'],
    opaque_records={'tbox::network::BufferedFd': 'handle:v_hbfd', 'tbox::network::SockAddr': 'struct v_SockAddr', 'tbox::event::Loop': 'struct v_Loop'},
    emit=['tbox::network::TcpConnection::disconnect', 'tbox::network::TcpConnection::onSocketClosed', 'tbox::network::TcpConnection::onReadError', 'tbox::network::TcpConnection::send'],
    targets=[Target('disconnect', H('  Conn *c; Conn_disconnect(c);'), enforce='Conn_disconnect', replace=ST, clause='disconnect: descriptor disabled, detached, its destruction POSTED (never on the spot), once; second call refused'),
             Target('onSocketClosed', H('  Conn *c; Conn_onSocketClosed(c);'), enforce='Conn_onSocketClosed', replace=ST, clause='peer close: descriptor disabled, detached, destruction posted, then reported exactly once'),
             Target('onReadError', H('  Conn *c; int e; Conn_onReadError(c, e);'), enforce='Conn_onReadError', replace=ST, clause='read error: same as a peer close'),
             Target('send', H('  Conn *c; const void *p; size_t n; Conn_send(c, p, n);'), enforce='Conn_send', replace=ST, clause='send: forwarded once while connected, refused after the close')])]
