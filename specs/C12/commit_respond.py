"""C12 — http::server::Server::Impl::commitRespond (modules/http/server/server_imp.cpp): in-order responses on one connection.

 invalid connection     the response is dropped (deleted), nothing is sent.
 index == res_index     this response is sent now, then parked responses are flushed for as long as the NEXT index in order is
                        parked; every response written carries exactly the index that is next in order (ghost: the parked map
                        is asked for res_index, the value it yields is what is sent), each is deleted once and erased from the map,
                        res_index advances by one per response written.
 close_index            NOTHING is written once the response to the request that asked for the connection to be closed has gone
                        out: every send happens while res_index <= close_index, also inside the flush loop.
 index != res_index     the response is parked under its index, nothing is sent, res_index unchanged.
"""
import os
from verif import UnitSpec, Target
from plugins import StdFunction, StdVector, OpaqueString, StringStreamSink, OpaqueTypes
TU = 'modules/http/server/server_imp.cpp'
R = {'http_server_Server_Impl_commitRespond': 'Srv_commitRespond', 'network_TcpServer_isClientValid': 'Tcp_isClientValid', 'network_TcpServer_getContext': 'Tcp_getContext',
     'network_TcpServer_send': 'Tcp_send', 'http_Respond_toString': 'Res_toString'}
EARLY = 'typedef unsigned long v_hres; struct v_TcpServer { char opaque; }; struct v_Server { char opaque; }; struct v_Parser { char opaque; };\n'
PRELUDE = r'''
typedef struct http_server_Server_Impl Srv; typedef struct http_server_Server_Impl_Connection Conn; typedef struct cabinet_Token Token;
#define T(x) ((x) != 0)
static Conn *g_conn; static _Bool g_valid;
static v_hres g_cur;            /* the response whose text was produced last (the one the next send writes) */
static int g_cur_index;         /* its index in the request order */
static size_t g_sends, g_deletes, g_erases, g_parked; static int g_first_index, g_res0;
static v_hres g_found_cell; static int g_first_cell;
'''
EXTERN = r'''
_Bool Tcp_isClientValid(struct v_TcpServer *s, Token *ct)
__CPROVER_assigns()
__CPROVER_ensures(T(__CPROVER_return_value) == T(g_valid))
;
void *Tcp_getContext(struct v_TcpServer *s, Token *ct)
__CPROVER_assigns()
__CPROVER_ensures(__CPROVER_return_value == (void *)g_conn)
;
struct v_str Res_toString(v_hres r)
__CPROVER_requires(r != 0 && r == g_cur)
__CPROVER_assigns()
__CPROVER_ensures(__CPROVER_return_value.size < V_MAXSZ)
;
_Bool Tcp_send(struct v_TcpServer *s, Token *ct, const void *data, size_t n)
__CPROVER_requires(g_cur_index == g_conn->res_index)                         /* responses leave in request order: only the one that is next */
__CPROVER_requires(g_conn->res_index <= g_conn->close_index)                 /* nothing after the response to the closing request */
__CPROVER_requires(g_sends == (size_t)(g_conn->res_index - g_res0))          /* exactly one send per index */
__CPROVER_assigns(g_sends)
__CPROVER_ensures(g_sends == __CPROVER_old(g_sends) + 1)
;
void v_delete__v_hres(v_hres r)
__CPROVER_requires(r != 0 && r == g_cur)
__CPROVER_assigns(g_deletes, g_cur)
__CPROVER_ensures(g_deletes == __CPROVER_old(g_deletes) + 1 && g_cur == 0)
;
long v_resmap__find(struct v_resmap *m, int index)
__CPROVER_requires(m == &g_conn->res_buff && index == g_conn->res_index)     /* the parked map is only ever asked for the next index in order */
__CPROVER_assigns(g_cur, g_cur_index, g_found_cell, g_first_cell)
__CPROVER_ensures(__CPROVER_return_value == 0 || (g_cur != 0 && g_first_cell == index && g_cur_index == index && g_found_cell == g_cur && index < 2147483647))      /* assumption: fewer than 2^31 - 1 requests per connection */
;
long v_resmap__end(struct v_resmap *m)
__CPROVER_assigns()
__CPROVER_ensures(__CPROVER_return_value == 0)
;
v_hres *v_map_it_second(long it)
__CPROVER_requires(it != 0)
__CPROVER_assigns()
__CPROVER_ensures(__CPROVER_return_value == &g_found_cell)
;
/* erase(it): returns the position after the erased one - the parked response with the next larger index, if any */
long v_resmap__erase(struct v_resmap *m, long it)
__CPROVER_requires(it != 0 && g_erases + 1 + 1 == g_sends)                   /* a parked response is erased right after it was sent */
__CPROVER_assigns(g_erases, g_cur, g_cur_index, g_found_cell, g_first_cell)
__CPROVER_ensures(g_erases == __CPROVER_old(g_erases) + 1)
__CPROVER_ensures(__CPROVER_return_value == 0 || (g_cur != 0 && g_found_cell == g_cur && g_cur_index > __CPROVER_old(g_cur_index) && g_first_cell == g_cur_index && g_cur_index < 2147483647))
;
const int *v_map_it_first(long it)
__CPROVER_requires(it != 0)
__CPROVER_assigns()
__CPROVER_ensures(__CPROVER_return_value == &g_first_cell)
;
v_hres *v_resmap__index(struct v_resmap *m, int index)
__CPROVER_requires(m == &g_conn->res_buff && index != g_conn->res_index && g_sends == 0)
__CPROVER_assigns(g_parked, g_first_index)
__CPROVER_ensures(g_parked == 1 && g_first_index == index && __CPROVER_return_value == &g_found_cell)
;
'''
SPEC = {
    ('prelude_early',): EARLY, ('prelude',): PRELUDE, ('after_protos',): EXTERN,
    ('stub', 'Tcp_isClientValid'): True, ('stub', 'Tcp_getContext'): True, ('stub', 'Tcp_send'): True, ('stub', 'Res_toString'): True,
    ('contract', 'Srv_commitRespond'): r'''
__CPROVER_requires(__CPROVER_is_fresh(self, sizeof(*self)) && __CPROVER_is_fresh(ct, sizeof(*ct)) && __CPROVER_is_fresh(g_conn, sizeof(Conn)) && res != 0 && (g_valid == 0 || g_valid == 1))
__CPROVER_requires(g_conn->res_index >= 0 && g_conn->res_index < 1000000 && g_conn->close_index >= g_conn->res_index)
__CPROVER_assigns(g_cur, g_cur_index, g_sends, g_deletes, g_erases, g_parked, g_first_index, g_res0, g_found_cell, g_first_cell, g_conn->res_index)
__CPROVER_ensures(!T(g_valid) ==> (g_sends == 0 && g_deletes == 1 && g_parked == 0 && g_conn->res_index == __CPROVER_old(g_conn->res_index)))
__CPROVER_ensures((T(g_valid) && index != __CPROVER_old(g_conn->res_index)) ==> (g_sends == 0 && g_deletes == 0 && g_parked == 1 && g_first_index == index && g_found_cell == res && g_conn->res_index == __CPROVER_old(g_conn->res_index)))
__CPROVER_ensures((T(g_valid) && index == __CPROVER_old(g_conn->res_index)) ==> (g_sends >= 1 && g_sends == (size_t)(g_conn->res_index - __CPROVER_old(g_conn->res_index)) && g_deletes == g_sends && g_erases + 1 == g_sends && g_parked == 0))
__CPROVER_ensures(g_conn->res_index - 1 <= g_conn->close_index)
''',
    ('ghost', 'Srv_commitRespond', 'entry'): 'g_cur = res; g_cur_index = index; g_sends = 0; g_deletes = 0; g_erases = 0; g_parked = 0; g_res0 = g_conn->res_index;',
    ('loop', 'Srv_commitRespond', 1): r'''
__CPROVER_assigns(iter, g_cur, g_cur_index, g_sends, g_deletes, g_erases, g_found_cell, g_first_cell, conn->res_index)
__CPROVER_loop_invariant(conn == g_conn && res_buff == &g_conn->res_buff && conn->res_index <= conn->close_index && conn->res_index > g_res0 &&
                         g_sends == (size_t)(conn->res_index - g_res0) && g_deletes == g_sends && g_erases + 1 == g_sends && g_parked == 0 && (iter == 0 || (g_cur != 0 && g_cur_index == conn->res_index && g_found_cell == g_cur && conn->res_index < 2147483647)))
''',
}
H = lambda body: '\nvoid H(void)\n{\n' + body + '\n  __CPROVER_assert(0, "VACUITY-CANARY");\n}\n'
ST = ['v_map_it_first', 'Tcp_isClientValid', 'Tcp_getContext', 'Tcp_send', 'Res_toString', 'v_delete__v_hres', 'v_resmap__find', 'v_resmap__end', 'v_map_it_second', 'v_resmap__erase', 'v_resmap__index']
UNITS = [UnitSpec(name='commit_respond', tu=TU, filter='tbox::http', more_filters=[(TU, 'tbox::network'), (TU, 'cabinet::Token')], rename=R, spec=SPEC, clang_flags=['-fdelayed-template-parsing'],
    plugins=[StdFunction(), StdVector(), OpaqueString(), StringStreamSink(),
             OpaqueTypes({r'^(std::)?map<int, .*Respond \*>$': 'v_resmap', r'^(std::)?map<.*>$': 'v_map', r'^std::set<.*>$': 'v_set', r'^std::_Rb_tree_(const_)?iterator<.*>$': 'long:v_map_it', r'^(std::)?map<.*>::(const_)?iterator$': 'long:v_map_it'})],
    model_headers=['fn_model.h', 'vec_model.h', 'misc_model.h'],
    opaque_records={'tbox::network::TcpServer': 'struct v_TcpServer', 'tbox::http::Respond': 'handle:v_hres', 'tbox::http::server::Server': 'struct v_Server', 'tbox::http::server::RequestParser': 'struct v_Parser'},
    emit=['tbox::http::server::Server::Impl::commitRespond'],
    targets=[Target('commitRespond', H('  Srv *s; Token *ct; int i; v_hres r; Srv_commitRespond(s, ct, i, r);'), enforce='Srv_commitRespond', replace=ST, timeout=300,
                    clause='responses are written in request order, once each; out-of-turn ones are parked; nothing is written after the response to the closing request')])]
