"""C18 — coroutine::Scheduler (modules/coroutine/scheduler.cpp): the bookkeeping around the context switches.

swapcontext(3) is a stub with a direction-specific contract: main -> routine (the routine runs until it waits, yields, joins or ends and
comes back Suspended, Ready or Dead) and routine -> main (other routines and the main context run; the routine continues Running).
The routine cabinet is an oracle (does the token resolve), std::queue<Token> a size-only model.  Decided per call:
 makeRoutineReady   a routine marked Ready IS in the ready queue and a scheduling pass is requested; Ready / Dead routines are left alone.
 resume / cancel    live token: made ready (cancel: marked cancelled first); stale token: refused.  cancel never lets a routine disappear while
                    another one waits in join() for it without resuming that one (delete contract).
 switchToRoutine    runs the routine exactly once; a finished routine leaves the cabinet, the routine joined on it is resumed, then it is
                    destroyed - once each, in that order; an unfinished one is neither released nor destroyed.
 wait / yield       the routine records WHY it stops before the switch: wait -> Suspended, yield -> queued as Ready (else it would never run
                    again); a cancelled routine does not suspend at all (its blocking calls fail at once).
 join               finished target: returns at once; otherwise the caller is registered as the joiner BEFORE it suspends; failure only when
                    cancelled, stale token, or somebody else already joins.
Not decided: schedule() / cleanup() loops over the cabinet, the context switch itself, stack memory.
"""
import os
from verif import UnitSpec, Target
from plugins import StdFunction, StdVector, OpaqueString, StringStreamSink, Syscalls, OpaqueTypes
TU = 'modules/coroutine/scheduler.cpp'
N = 'tbox::coroutine::Scheduler::'
P = 'coroutine_Scheduler_'
R = {P + 'cancel': 'Sch_cancel', P + 'resume': 'Sch_resume', P + 'makeRoutineReady': 'Sch_makeReady', P + 'wait': 'Sch_wait', P + 'yield': 'Sch_yield', P + 'join': 'Sch_join',
     P + 'switchToRoutine': 'Sch_switchTo', P + 'schedule': 'Sch_schedule', 'event_Loop_runNext__tbox_event_Loop_Funcrr_Kstd_stringr': 'Loop_runNext'}
EARLY = 'struct v_Loop { char opaque; };\nvoid v_q_hook(const void *v, int op);\n#undef V_ABS_HOOK\n#define V_ABS_HOOK(v, op) v_q_hook((const void *)(v), op)\n'
PRELUDE = r"""
typedef struct coroutine_Scheduler Sch; typedef struct coroutine_Scheduler_Data Data; typedef struct coroutine_Routine Rt; typedef struct cabinet_Token Token;
#define T(x) ((x) != 0)
#define K_SUSPEND coroutine_Routine_State_kSuspend
#define K_READY coroutine_Routine_State_kReady
#define K_RUNNING coroutine_Routine_State_kRunning
#define K_DEAD coroutine_Routine_State_kDead
#define NULLTOK(t) ((t).id_ == 0)
#define SAMETOK(a, b) ((a).id_ == (b).id_ && (a).pos_ == (b).pos_)
static Sch *g_s; static Rt *g_rt, *g_me; static _Bool g_found;
static size_t g_posts, g_pushes, g_swaps, g_ready_calls, g_resumes, g_frees, g_deletes; static _Bool g_made_ready; static int g_state_at_swap; static Token g_resumed_tok, g_pushed_tok;
"""
HOOK = r"""
void v_q_hook(const void *v, int op) { if (v == (const void *)&g_s->d_->ready_routines && op == 1) g_pushes++; }
unsigned long Loop_runNext(struct v_Loop *l, struct v_function *f, struct v_str *what) __CPROVER_requires(l == g_s->d_->wp_loop && T(f->engaged)) __CPROVER_assigns(g_posts) __CPROVER_ensures(g_posts == __CPROVER_old(g_posts) + 1);
Rt *v_rcab__at(struct v_rcab *c, Token *t) __CPROVER_requires(c == &g_s->d_->routine_cabinet) __CPROVER_assigns() __CPROVER_ensures(__CPROVER_return_value == (T(g_found) ? g_rt : (Rt *)0));
"""
READY_CONTRACT = r"""
__CPROVER_requires(self == g_s && __CPROVER_rw_ok(routine, sizeof(Rt)) && routine->state >= K_SUSPEND && routine->state <= K_DEAD && self->d_->ready_routines.size < V_MAXSZ - 1)
__CPROVER_assigns(g_posts, g_pushes, g_ready_calls, g_made_ready, routine->state, self->d_->ready_routines.size, v_vec_cabinet_Token_cell)
__CPROVER_ensures(g_ready_calls == __CPROVER_old(g_ready_calls) + 1 && T(__CPROVER_return_value) == T(g_made_ready))
__CPROVER_ensures(T(__CPROVER_return_value) == (__CPROVER_old(routine->state) != K_READY && __CPROVER_old(routine->state) != K_DEAD))
/* a routine marked Ready IS in the ready queue and a scheduling pass is requested: nothing ready is ever left behind */
__CPROVER_ensures(T(__CPROVER_return_value) ==> (routine->state == K_READY && self->d_->ready_routines.size == __CPROVER_old(self->d_->ready_routines.size) + 1 && g_pushes == __CPROVER_old(g_pushes) + 1 && g_posts == __CPROVER_old(g_posts) + 1))
__CPROVER_ensures(!T(__CPROVER_return_value) ==> (routine->state == __CPROVER_old(routine->state) && self->d_->ready_routines.size == __CPROVER_old(self->d_->ready_routines.size) && g_posts == __CPROVER_old(g_posts)))
"""
SFRESH = '__CPROVER_requires(__CPROVER_is_fresh(self, sizeof(*self)) && __CPROVER_is_fresh(self->d_, sizeof(Data)) && self->d_->ready_routines.size < V_MAXSZ - 1)\n'
RT = lambda r: '__CPROVER_requires(__CPROVER_is_fresh(%s, sizeof(Rt)) && %s->state >= K_SUSPEND && %s->state <= K_DEAD && (%s->is_canceled == 0 || %s->is_canceled == 1) && (%s->is_started == 0 || %s->is_started == 1))\n' % ((r,) * 7)
ENTRY = 'g_s = self; g_posts = 0; g_pushes = 0; g_swaps = 0; g_ready_calls = 0; g_resumes = 0; g_frees = 0; g_deletes = 0; g_made_ready = 0; g_state_at_swap = -1;'
FRAME = 'g_s, g_posts, g_pushes, g_swaps, g_ready_calls, g_resumes, g_frees, g_deletes, g_made_ready, g_state_at_swap, g_resumed_tok, v_vec_cabinet_Token_cell, self->d_->ready_routines.size, self->d_->curr_routine'
# ---------------------------------------------------------------- main-context side
EXTERN_M = HOOK + r"""
Rt *v_rcab__free(struct v_rcab *c, Token *t) __CPROVER_requires(c == &g_s->d_->routine_cabinet && SAMETOK(*t, g_rt->token) && g_frees == 0) __CPROVER_assigns(g_frees, g_found) __CPROVER_ensures(g_frees == 1 && !T(g_found) && __CPROVER_return_value == g_rt);
/* a routine object goes away only after it left the cabinet, and - if a routine waits in join() for it - after that routine has been resumed */
void coroutine_Routine__delete(Rt *r) __CPROVER_requires(r == g_rt && g_frees == 1 && g_deletes == 0 && (NULLTOK(g_rt->join_token) || (g_resumes == 1 && SAMETOK(g_resumed_tok, g_rt->join_token))))
  __CPROVER_assigns(g_deletes) __CPROVER_ensures(g_deletes == 1);
/* main -> routine: the routine runs until it waits, yields, joins or ends; it comes back Suspended, Ready (queued by itself) or Dead */
int v_sys_swapcontext(ucontext_t *from, const ucontext_t *to)
__CPROVER_requires(from == &g_s->d_->main_ctx && to == &g_rt->ctx && g_s->d_->curr_routine == g_rt && g_rt->state == K_RUNNING && g_swaps == 0)
__CPROVER_assigns(g_swaps, g_rt->state, g_rt->is_started, g_rt->join_token, g_s->d_->ready_routines.size)
__CPROVER_ensures(g_swaps == 1 && (g_rt->state == K_SUSPEND || g_rt->state == K_READY || g_rt->state == K_DEAD) && g_s->d_->ready_routines.size < V_MAXSZ - 1)
;
"""
RESUME_STUB = r"""
__CPROVER_requires(self == g_s && __CPROVER_r_ok(token, sizeof(Token)))
__CPROVER_assigns(g_resumes, g_resumed_tok)
__CPROVER_ensures(g_resumes == __CPROVER_old(g_resumes) + 1 && SAMETOK(g_resumed_tok, *token))
"""
SPEC_M = {('prelude_early',): EARLY, ('prelude',): PRELUDE, ('after_protos',): EXTERN_M, ('stub', 'Loop_runNext'): True,
    ('contract', 'Sch_makeReady'): SFRESH + RT('routine') + '\n'.join(l for l in READY_CONTRACT.split('\n') if 'g_ready_calls == __CPROVER_old' not in l and not l.startswith('__CPROVER_requires(self == g_s')).replace('__CPROVER_assigns(g_posts, g_pushes, g_ready_calls, g_made_ready,', '__CPROVER_assigns(g_s, g_posts, g_pushes, g_ready_calls,'),
    ('ghost', 'Sch_makeReady', 'entry'): 'g_s = self;',
}
SPEC_M2 = {('prelude_early',): EARLY, ('prelude',): PRELUDE, ('after_protos',): EXTERN_M, ('stub', 'Loop_runNext'): True,
    ('stub', 'Sch_makeReady'): True, ('contract', 'Sch_makeReady'): READY_CONTRACT,
    ('contract', 'Sch_resume'): SFRESH + RT('g_rt') + '__CPROVER_requires(__CPROVER_is_fresh(token, sizeof(*token)) && (g_found == 0 || g_found == 1) && (T(g_found) ==> SAMETOK(*token, g_rt->token)))\n__CPROVER_assigns(' + FRAME + r""", g_rt->state)
__CPROVER_ensures(T(g_found) ? (g_ready_calls == 1 && T(__CPROVER_return_value) == T(g_made_ready)) : (g_ready_calls == 0 && !T(__CPROVER_return_value)))
""",
    ('ghost', 'Sch_resume', 'entry'): ENTRY,
    ('contract', 'Sch_cancel'): SFRESH + RT('g_rt') + '__CPROVER_requires(__CPROVER_is_fresh(token, sizeof(*token)) && (g_found == 0 || g_found == 1) && (T(g_found) ==> SAMETOK(*token, g_rt->token)))\n__CPROVER_assigns(' + FRAME + r""", g_found, g_rt->state, g_rt->is_canceled)
__CPROVER_ensures(!T(__CPROVER_old(g_found)) ==> (!T(__CPROVER_return_value) && g_ready_calls == 0 && g_frees == 0))
/* the routine is marked cancelled and made ready (so that its blocking call returns with failure and it can finish) ... */
__CPROVER_ensures((T(__CPROVER_old(g_found)) && g_frees == 0) ==> (T(g_rt->is_canceled) && g_ready_calls == 1 && T(__CPROVER_return_value) == T(g_made_ready)))
/* ... or, if it is discarded on the spot, whoever waits in join() for it has been resumed (delete contract) */
__CPROVER_ensures(g_frees == 1 ==> g_deletes == 1)
""",
    ('ghost', 'Sch_cancel', 'entry'): ENTRY,
    ('contract', 'Sch_switchTo'): SFRESH + RT('routine') + '__CPROVER_requires(routine == g_rt && T(g_found) && self->d_->curr_routine == 0)\n__CPROVER_assigns(' + FRAME + r""", g_found, routine->state, routine->is_started, routine->join_token)
__CPROVER_ensures(self->d_->curr_routine == 0 && g_swaps == 1)
/* a finished routine leaves the cabinet, the routine joined on it (if any) is resumed, then it is destroyed - once each; an unfinished one stays */
__CPROVER_ensures(g_frees == g_deletes && g_frees <= 1 && (g_frees == 1 ==> (g_resumes == (NULLTOK(g_joiner_at_end) ? 0 : 1))))
""",
    ('ghost', 'Sch_switchTo', 'entry'): ENTRY,
    ('ghost', 'Sch_switchTo', 'after_call:v_sys_swapcontext:1'): 'g_dead_at_end = (routine->state == K_DEAD); g_joiner_at_end = routine->join_token;',
}
SPEC_M2[('prelude',)] = PRELUDE + 'static _Bool g_dead_at_end; static Token g_joiner_at_end;\n'
SPEC_M2[('contract', 'Sch_switchTo')] += '__CPROVER_ensures(g_frees == (T(g_dead_at_end) ? 1 : 0))\n'
SPEC_M2[('contract', 'Sch_switchTo')] = SPEC_M2[('contract', 'Sch_switchTo')].replace('g_found, routine->state', 'g_found, g_dead_at_end, g_joiner_at_end, routine->state')
SPEC_SW = {k: v for k, v in SPEC_M2.items() if not (len(k) > 1 and k[0] in ('contract', 'ghost') and k[1] in ('Sch_resume', 'Sch_cancel'))}
SPEC_SW[('stub', 'Sch_resume')] = True; SPEC_SW[('contract', 'Sch_resume')] = RESUME_STUB
for _k in [k for k in SPEC_M2 if len(k) > 1 and k[1] == 'Sch_switchTo']: del SPEC_M2[_k]
# ---------------------------------------------------------------- routine side
EXTERN_R = HOOK + r"""
/* routine -> main: only after the routine recorded why it stops running (Suspended, or Ready and queued); other routines and the main context run meanwhile */
int v_sys_swapcontext(ucontext_t *from, const ucontext_t *to)
__CPROVER_requires(from == &g_me->ctx && to == &g_s->d_->main_ctx && g_s->d_->curr_routine == g_me && (g_me->state == K_SUSPEND || g_me->state == K_READY) && g_swaps == 0)
__CPROVER_requires(!T(g_join_target) || SAMETOK(g_rt->join_token, g_me->token))         /* join(): registered as the joiner BEFORE suspending */
__CPROVER_assigns(g_swaps, g_state_at_swap, g_me->state, g_me->is_canceled, g_s->d_->ready_routines.size)
__CPROVER_ensures(g_swaps == 1 && g_state_at_swap == __CPROVER_old(g_me->state) && g_me->state == K_RUNNING && (g_me->is_canceled == 0 || g_me->is_canceled == 1) && g_s->d_->ready_routines.size < V_MAXSZ - 1)
;
"""
ME = SFRESH + RT('g_me') + '__CPROVER_requires(self->d_->curr_routine == g_me && g_me->state == K_RUNNING && !NULLTOK(g_me->token))\n'
SPEC_R = {('prelude_early',): EARLY, ('prelude',): PRELUDE + 'static _Bool g_join_target;\n', ('after_protos',): EXTERN_R, ('stub', 'Loop_runNext'): True,
    ('stub', 'Sch_makeReady'): True, ('contract', 'Sch_makeReady'): READY_CONTRACT,
    ('contract', 'Sch_wait'): ME + '__CPROVER_assigns(' + FRAME + r""", g_join_target, g_me->state, g_me->is_canceled)
/* a cancelled routine never suspends again (its blocking calls fail at once); otherwise it is Suspended when the main context takes over */
__CPROVER_ensures(T(__CPROVER_old(g_me->is_canceled)) ? (g_swaps == 0 && g_me->state == K_RUNNING) : (g_swaps == 1 && g_state_at_swap == K_SUSPEND))
""",
    ('ghost', 'Sch_wait', 'entry'): ENTRY + ' g_join_target = 0;',
    ('contract', 'Sch_yield'): ME + '__CPROVER_assigns(' + FRAME + r""", g_join_target, g_me->state, g_me->is_canceled)
/* yield: queued as Ready BEFORE giving up the processor (else nobody would ever run it again) */
__CPROVER_ensures(T(__CPROVER_old(g_me->is_canceled)) ? (g_swaps == 0 && g_ready_calls == 0) : (g_swaps == 1 && g_ready_calls == 1 && g_state_at_swap == K_READY))
""",
    ('ghost', 'Sch_yield', 'entry'): ENTRY + ' g_join_target = 0;',
    ('contract', 'Sch_join'): ME + RT('g_rt') + '__CPROVER_requires(__CPROVER_is_fresh(other_routine, sizeof(*other_routine)) && (g_found == 0 || g_found == 1))\n__CPROVER_assigns(' + FRAME + r""", g_join_target, g_me->state, g_me->is_canceled, g_rt->join_token)
__CPROVER_ensures((T(__CPROVER_old(g_me->is_canceled)) || !T(g_found)) ==> (g_swaps == 0 && !T(__CPROVER_return_value)))
__CPROVER_ensures((!T(__CPROVER_old(g_me->is_canceled)) && T(g_found) && __CPROVER_old(g_rt->state) == K_DEAD) ==> (g_swaps == 0 && T(__CPROVER_return_value)))      /* already finished: join returns at once */
__CPROVER_ensures((!T(__CPROVER_old(g_me->is_canceled)) && T(g_found) && __CPROVER_old(g_rt->state) != K_DEAD && !NULLTOK(__CPROVER_old(g_rt->join_token))) ==> (g_swaps == 0 && !T(__CPROVER_return_value)))
__CPROVER_ensures((!T(__CPROVER_old(g_me->is_canceled)) && T(g_found) && __CPROVER_old(g_rt->state) != K_DEAD && NULLTOK(__CPROVER_old(g_rt->join_token))) ==> (g_swaps == 1 && g_state_at_swap == K_SUSPEND && T(__CPROVER_return_value) == !T(g_me->is_canceled)))
""",
    ('ghost', 'Sch_join', 'entry'): ENTRY + ' g_join_target = 0;',
    ('ghost', 'Sch_join', 'before_call:v_sys_swapcontext:1'): 'g_join_target = 1;',
}
H = lambda body: '\nvoid H(void)\n{\n' + body + '\n  __CPROVER_assert(0, "VACUITY-CANARY");\n}\n'
def U(name, spec, emit, targets): return UnitSpec(name=name, tu=TU, filter='tbox::coroutine', more_filters=[(TU, 'cabinet::Token'), (TU, 'tbox::event')], rename=R, spec=spec,
    plugins=[StdFunction(), StdVector(abstract={'struct cabinet_Token': '1'}), OpaqueString(), StringStreamSink(), Syscalls(extra=('swapcontext',)), OpaqueTypes({r'^(tbox::)?cabinet::Cabinet<.*>$': 'v_rcab'})],
    model_headers=['fn_model.h', 'vec_model.h', 'misc_model.h'], opaque_records={'tbox::event::Loop': 'struct v_Loop'}, emit=emit, targets=targets)
STM = ['Loop_runNext', 'v_rcab__at', 'v_rcab__free', 'coroutine_Routine__delete', 'v_sys_swapcontext', 'Sch_makeReady']
STR = ['Loop_runNext', 'v_rcab__at', 'v_sys_swapcontext', 'Sch_makeReady']
UNITS = [
  U('scheduler_ready', SPEC_M, [N + 'makeRoutineReady'], [
    Target('makeRoutineReady', H('  Sch *s; Rt *r; Sch_makeReady(s, r);'), enforce='Sch_makeReady', replace=['Loop_runNext'], clause='makeRoutineReady: a routine marked Ready is queued and a scheduling pass is requested; Ready / Dead routines are left alone')]),
  U('scheduler_main', SPEC_M2, [N + 'resume', N + 'cancel'], [
    Target('resume', H('  Sch *s; Token *t; Sch_resume(s, t);'), enforce='Sch_resume', replace=STM, sat='cadical', clause='resume: a live token makes its routine ready; a stale one is refused'),
    Target('cancel', H('  Sch *s; Token *t; Sch_cancel(s, t);'), enforce='Sch_cancel', replace=STM, sat='cadical', clause='cancel: marked cancelled and made ready - or discarded only with its joiner resumed'),
    ]),
  U('scheduler_switch', SPEC_SW, [N + 'switchToRoutine'], [
    Target('switchToRoutine', H('  Sch *s; Rt *r; Sch_switchTo(s, r);'), enforce='Sch_switchTo', replace=STM + ['Sch_resume'], clause='switchToRoutine: runs the routine once; a finished one leaves the cabinet, its joiner is resumed, then it is destroyed - once each')]),
  U('scheduler_routine', SPEC_R, [N + 'wait', N + 'yield', N + 'join'], [
    Target('wait', H('  Sch *s; Sch_wait(s);'), enforce='Sch_wait', replace=STR, clause='wait: Suspended before the switch; a cancelled routine does not suspend'),
    Target('yield', H('  Sch *s; Sch_yield(s);'), enforce='Sch_yield', replace=STR, clause='yield: queued as Ready before the switch'),
    Target('join', H('  Sch *s; Token *t; Sch_join(s, t);'), enforce='Sch_join', replace=STR, sat='cadical', clause='join: finished target: at once; else registered as the joiner BEFORE suspending; failure only when cancelled / stale / already joined')]),
]

def native_replay(u, t, o, w, workdir):
    import replay as rp
    L = '/repo/_build/modules'
    libs = ['%s/%s/libtbox_%s.a' % (L, x, x) for x in ('coroutine', 'event', 'util', 'base')] + ['-ldl']
    return rp.attempt('co_scheduler', ['modules/coroutine/scheduler.cpp'], os.path.join(workdir, 'replay'), [('scenario', [])], extra=libs)
