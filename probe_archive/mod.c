#include <stddef.h>
#include <stdint.h>
#include <stdbool.h>
enum State { kNone, kInited, kRunning };
struct Module;
struct ModuleItem { struct Module *module_ptr; _Bool required; };
struct vec_ModuleItem { struct ModuleItem *data; size_t size; };
struct Module { int state_; struct vec_ModuleItem children_;
  /* ghost */ _Bool g_init_ok; unsigned g_init_stamp; };
unsigned g_clock;
size_t g_i;              /* tracked child index */

/* user hook stub: any result, stamps the clock */
_Bool Module_onInit(struct Module *self)
__CPROVER_requires(__CPROVER_rw_ok(self, sizeof(*self)) && !self->g_init_ok && g_clock < 1000000)
__CPROVER_assigns(self->g_init_ok, self->g_init_stamp, g_clock)
__CPROVER_ensures(self->g_init_ok == __CPROVER_return_value)
__CPROVER_ensures(g_clock == __CPROVER_old(g_clock) + 1 && (__CPROVER_return_value ==> self->g_init_stamp == g_clock))
;
void Module_onCleanup(struct Module *self)
__CPROVER_requires(__CPROVER_rw_ok(self, sizeof(*self)) && self->g_init_ok)
__CPROVER_assigns(self->g_init_ok)
__CPROVER_ensures(!self->g_init_ok)
;
#define INV(m) ((m)->g_init_ok == ((m)->state_ != kNone) && (m)->state_ >= kNone && (m)->state_ <= kRunning)

_Bool nondet_bool(void); unsigned nondet_small(void);
/* the recursive call seen from the parent: same ensures, structural requires dropped (tree well-formedness below is assumed) */
_Bool Module_initialize__child(struct Module *self)
__CPROVER_requires(__CPROVER_rw_ok(self, sizeof(*self)) && INV(self) && g_clock < 100000)
__CPROVER_assigns(self->state_, self->g_init_ok, self->g_init_stamp, g_clock)
__CPROVER_ensures(INV(self) && g_clock >= __CPROVER_old(g_clock) && g_clock <= __CPROVER_old(g_clock) + 200)
__CPROVER_ensures(__CPROVER_return_value ==> self->state_ == kInited)
;
_Bool Module_initialize(struct Module *self)
__CPROVER_requires(__CPROVER_is_fresh(self, sizeof(*self)) && INV(self) && g_clock < 1000)
__CPROVER_requires(self->children_.size < 100 && __CPROVER_is_fresh(self->children_.data, (self->children_.size ? self->children_.size : 1) * sizeof(struct ModuleItem)))
__CPROVER_requires(g_i < self->children_.size ==> (__CPROVER_is_fresh(self->children_.data[g_i].module_ptr, sizeof(struct Module)) && INV(self->children_.data[g_i].module_ptr)))
__CPROVER_assigns(self->state_, self->g_init_ok, self->g_init_stamp, g_clock;
   g_i < self->children_.size: *(self->children_.data[g_i].module_ptr))
__CPROVER_ensures(INV(self))
__CPROVER_ensures(__CPROVER_return_value ==> self->state_ == kInited)
{
    if (self->state_ != kNone)
        return 0;
    if (!Module_onInit(self))
        return 0;
    for (size_t i = 0; i < self->children_.size; ++i)
    __CPROVER_assigns(i, g_clock; g_i < self->children_.size: *(self->children_.data[g_i].module_ptr))
    __CPROVER_loop_invariant(i <= self->children_.size && self->g_init_ok && self->state_ == kNone && g_clock < 1000 + 2 + 200*i)
    __CPROVER_loop_invariant(g_i < self->children_.size ==> INV(self->children_.data[g_i].module_ptr))
    {
        struct ModuleItem *item = &self->children_.data[i];
        _Bool ok;
        if (i == g_i) ok = Module_initialize__child(item->module_ptr);   /* tracked child: real recursive contract */
        else { ok = nondet_bool(); unsigned d = nondet_small(); __CPROVER_assume(d <= 200); g_clock += d; }  /* anonymous child: weak model */
        if (!ok && item->required)
            return 0;
    }
    self->state_ = kInited;
    return 1;
}
void harness(void) { struct Module *m; Module_initialize(m); }
