"""C14/C15 — eventx::TimeoutMonitor<T> (modules/eventx/timeout_monitor_impl.hpp), instantiated with int by
drivers/timeout_monitor_tu.cpp (no logic in the driver): the deadline wheel behind Rpc and DnsRequest timeouts.

add(): the value joins the current slot, the counter grows by one, the tick timer runs iff the counter is non-zero.
onTimerTick(): the wheel advances by ONE slot; every value of that slot is reported exactly once, in order (ghost call counter
and tracked element); the slot is emptied BEFORE the callbacks, so values added by a callback (retry from a timeout handler)
stay in the wheel: afterwards the slot holds exactly the re-entrant adds, counter == old - reported + added, and
TINV: timer armed <=> counter > 0 (also when a callback re-adds after the counter dropped to zero).
The user callback is a stub that may call add() any number of times (havoc under TINV).  Ring shapes: one slot (next == self)
and >= 2 slots are separate targets.  "Reported exactly once at tick t+N" for a whole ring is the induction over ticks (paper).
"""
import os
from verif import UnitSpec, Target
from plugins import StdFunction, StdVector

C = 'tbox::eventx::TimeoutMonitor<int>::'
R = {'eventx_TimeoutMonitor_int__add': 'Tmo_add', 'eventx_TimeoutMonitor_int__onTimerTick': 'Tmo_onTimerTick', 'eventx_TimeoutMonitor_int__cleanup': 'Tmo_cleanup',
     'event_Event_enable': 'Tm_enable', 'event_Event_disable': 'Tm_disable'}
EARLY = 'struct v_TimerEvent { _Bool armed; }; struct v_Loop { char opaque; };\n'
PRELUDE = r'''
typedef struct eventx_TimeoutMonitor_int_ Tmo; typedef struct eventx_TimeoutMonitor_int__PollItem Slot;
static Tmo *g_tm;                    /* assigned at entry (for the callback stub) */
static size_t g_calls, g_added;      /* callbacks made by this tick / values added by those callbacks */
static size_t g_e; static int g_ev;  /* tracked element of the slot being reported */
#define T(x) ((x) != 0)
#define TINV(m) ((m)->value_number_ >= 0 && (((m)->value_number_ > 0) == T((m)->sp_timer_->armed)))
#define SLOT_OK(s) ((s)->items.size < 64)
'''
EXTERN = r'''
/* user callback: may call add() (retry from a timeout handler) any number of times */
void v_fn_call__void_int_r(struct v_function *f, const int *a0)
__CPROVER_requires(f->engaged && __CPROVER_r_ok(a0, sizeof(int)))
__CPROVER_requires(g_calls == g_e ==> *a0 == g_ev)                     /* the k-th callback reports the k-th value of the slot */
__CPROVER_assigns(g_calls, g_added, g_tm->value_number_, g_tm->curr_item_->items, g_tm->sp_timer_->armed)
__CPROVER_ensures(g_calls == __CPROVER_old(g_calls) + 1 && g_added >= __CPROVER_old(g_added) && g_added - __CPROVER_old(g_added) < 8)
__CPROVER_ensures(g_tm->curr_item_->items.size == __CPROVER_old(g_tm->curr_item_->items.size) + (g_added - __CPROVER_old(g_added)))
__CPROVER_ensures(g_tm->value_number_ == __CPROVER_old(g_tm->value_number_) + (int)(g_added - __CPROVER_old(g_added)))
__CPROVER_ensures(g_tm->curr_item_->items.size > 0 ==> __CPROVER_is_fresh(g_tm->curr_item_->items.data, g_tm->curr_item_->items.size * sizeof(int)))
__CPROVER_ensures(TINV(g_tm))
;
'''
REQ = r'''
__CPROVER_requires(__CPROVER_is_fresh(self, sizeof(*self)) && __CPROVER_is_fresh(self->sp_timer_, sizeof(struct v_TimerEvent)) && TINV(self) && self->value_number_ < 1000000)
__CPROVER_requires(__CPROVER_is_fresh(self->curr_item_, sizeof(Slot)) && SLOT_OK(self->curr_item_))
__CPROVER_requires(__CPROVER_is_fresh(self->curr_item_->items.data, (self->curr_item_->items.size > 0 ? self->curr_item_->items.size * sizeof(int) : 1)))
'''
def TICK(ring1):
    nxt = 'self->curr_item_' if ring1 else 'self->curr_item_->next'
    pre = ('__CPROVER_requires(self->curr_item_->next == self->curr_item_)\n' if ring1 else
           '__CPROVER_requires(__CPROVER_is_fresh(self->curr_item_->next, sizeof(Slot)) && SLOT_OK(self->curr_item_->next))\n'
           '__CPROVER_requires(__CPROVER_is_fresh(self->curr_item_->next->items.data, (self->curr_item_->next->items.size > 0 ? self->curr_item_->next->items.size * sizeof(int) : 1)))\n')
    return REQ + pre + r'''
__CPROVER_requires(self->cb_level_ >= 0 && self->cb_level_ < 100 && (size_t)self->value_number_ >= NXT->items.size)
__CPROVER_requires(g_e < NXT->items.size ==> NXT->items.data[g_e] == g_ev)
__CPROVER_assigns(g_tm, g_calls, g_added, v_mc_off, self->curr_item_, self->value_number_, self->cb_level_, self->sp_timer_->armed, NXT->items, __CPROVER_object_whole(NXT->items.data))
__CPROVER_frees(NXT->items.data)
__CPROVER_ensures(__CPROVER_pointer_equals(self->curr_item_, __CPROVER_old(NXT)))                       /* the wheel advances by exactly one slot */
__CPROVER_ensures(self->cb_.engaged ==> g_calls == __CPROVER_old(NXT->items.size))                       /* every value of the slot reported exactly once */
__CPROVER_ensures(self->curr_item_->items.size == g_added)                                             /* values added by the callbacks survive */
__CPROVER_ensures(self->value_number_ == __CPROVER_old(self->value_number_) - (int)__CPROVER_old(NXT->items.size) + (int)g_added)
__CPROVER_ensures(TINV(self) && self->cb_level_ == __CPROVER_old(self->cb_level_))
'''.replace('NXT', nxt)

SPEC = {
    ('prelude_early',): EARLY, ('after_protos',): EXTERN,
    ('stub', 'Tm_enable'): True, ('stub', 'Tm_disable'): True,
    ('contract', 'Tm_enable'): '__CPROVER_requires(__CPROVER_rw_ok(self, sizeof(*self)))\n__CPROVER_assigns(self->armed)\n__CPROVER_ensures(T(self->armed))\n',
    ('contract', 'Tm_disable'): '__CPROVER_requires(__CPROVER_rw_ok(self, sizeof(*self)))\n__CPROVER_assigns(self->armed)\n__CPROVER_ensures(!T(self->armed))\n',
    ('contract', 'Tmo_add'): REQ + r'''
__CPROVER_requires(__CPROVER_is_fresh(value, sizeof(int)))
__CPROVER_assigns(v_mc_off, self->value_number_, self->sp_timer_->armed, self->curr_item_->items, __CPROVER_object_whole(self->curr_item_->items.data))
__CPROVER_frees(self->curr_item_->items.data)
__CPROVER_ensures(self->curr_item_->items.size == __CPROVER_old(self->curr_item_->items.size) + 1 && self->curr_item_->items.data[self->curr_item_->items.size - 1] == *value)
__CPROVER_ensures(self->value_number_ == __CPROVER_old(self->value_number_) + 1 && TINV(self))
''',
    ('ghost', 'Tmo_onTimerTick', 'entry'): 'g_tm = self; g_calls = 0; g_added = 0;',
    ('loop', 'Tmo_onTimerTick', 1): r'''
__CPROVER_assigns(__i1, g_calls, g_added, self->value_number_, self->curr_item_->items, self->sp_timer_->armed)
__CPROVER_loop_invariant(__i1 <= __r1->size && g_calls == __i1 && self->curr_item_->items.size == g_added && g_added <= 8 * __i1 && TINV(self))
__CPROVER_loop_invariant(self->value_number_ == g_vn0 + (int)g_added)
__CPROVER_decreases(__r1->size - __i1)
''',
    ('ghost', 'Tmo_onTimerTick', 'before_loop:1'): 'int g_vn0 = self->value_number_;',
}
H = lambda body: '\nvoid H(void)\n{\n' + body + '\n  __CPROVER_assert(0, "VACUITY-CANARY");\n}\n'
STUBS = ['Tm_enable', 'Tm_disable', 'v_fn_call__void_int_r']

# ---- loop-structure independent cross-check: real bodies, concrete small ring, callback that re-adds (bounded stand-in) ----
H_SCEN = r'''
static Tmo g_m; static int g_seen[8]; static size_t g_nseen; static int g_readd;
void v_fn_call__void_int_r(struct v_function *f, const int *a0)
{ if (g_nseen < 8) g_seen[g_nseen] = *a0; g_nseen++;
  if (g_readd > 0) { g_readd--; int nv = *a0 + 100; Tmo_add(&g_m, &nv); } }      /* retry from the timeout handler */
_Bool Tm_enable(struct v_TimerEvent *self) { self->armed = 1; return 1; }
_Bool Tm_disable(struct v_TimerEvent *self) { self->armed = 0; return 1; }
void H(void)
{
  struct v_TimerEvent tm; tm.armed = 0; Slot s0, s1, s2; size_t ring = 2;
  s0.next = ring == 1 ? &s0 : &s1; s1.next = ring == 2 ? &s0 : &s2; s2.next = &s0;
  v_vec_int_init(&s0.items); v_vec_int_init(&s1.items); v_vec_int_init(&s2.items);
  g_m.sp_timer_ = &tm; g_m.cb_.engaged = 1; g_m.cb_level_ = 0; g_m.curr_item_ = &s0; g_m.value_number_ = 0; g_nseen = 0;
  size_t n = 2; int v0, v1; __CPROVER_assume(v0 < 1000 && v1 < 1000 && v0 > -1000 && v1 > -1000);
  Tmo_add(&g_m, &v0); if (n == 2) Tmo_add(&g_m, &v1);
  __CPROVER_assert(tm.armed && g_m.value_number_ == (int)n, "adds arm the timer and count");
  g_readd = 1; int readd0 = g_readd;
  for (size_t t = 0; t < ring; ++t) {
    __CPROVER_assert(g_nseen == 0, "nothing is reported before `ring` ticks have passed");
    Tmo_onTimerTick(&g_m);
  }
  __CPROVER_assert(g_nseen == n && g_seen[0] == v0 && (n < 2 || g_seen[1] == v1), "after `ring` ticks every value was reported exactly once, in order");
  __CPROVER_assert(g_m.value_number_ == readd0 && (tm.armed != 0) == (readd0 > 0), "a value re-added by the callback is still counted and keeps the timer armed");
  for (size_t t = 0; t < ring; ++t) Tmo_onTimerTick(&g_m);
  __CPROVER_assert(g_nseen == n + (size_t)readd0 && (readd0 == 0 || g_seen[n] == v0 + 100), "the re-added value is reported exactly once, `ring` ticks later");
  __CPROVER_assert(g_m.value_number_ == 0 && !tm.armed, "empty wheel: timer off");
  __CPROVER_assert(0, "VACUITY-CANARY");
}
'''

def mk(ring1):
    sp = dict(SPEC); sp[('contract', 'Tmo_onTimerTick')] = TICK(ring1)
    return UnitSpec(
        name='timeout_monitor_ring1' if ring1 else 'timeout_monitor', tu='/verif/drivers/timeout_monitor_tu.cpp', filter='tbox::eventx', more_filters=[('/verif/drivers/timeout_monitor_tu.cpp', 'tbox::event')],
        rename=R, spec=sp, prelude=PRELUDE, plugins=[StdFunction(), StdVector()], model_headers=['fn_model.h', 'vec_model.h'],
        opaque_records={'tbox::event::TimerEvent': 'struct v_TimerEvent', 'tbox::event::Event': 'struct v_TimerEvent', 'tbox::event::Loop': 'struct v_Loop'},
        emit=[C + 'add', C + 'onTimerTick'], trusted=['drivers/timeout_monitor_tu.cpp: explicit instantiation TimeoutMonitor<int> (no logic)'],
        targets=([Target('add', H('  Tmo *m; const int *v; Tmo_add(m, v);'), enforce='Tmo_add', replace=STUBS, clause='add: value joins the current slot; timer armed iff counter > 0')] if not ring1 else []) +
                [Target('onTimerTick', H('  Tmo *m; Tmo_onTimerTick(m);'), enforce='Tmo_onTimerTick', replace=STUBS, timeout=600,
                        clause='tick (%s): one slot forward, each value reported once in order, re-entrant adds survive, timer armed iff counter > 0' % ('ring of one slot' if ring1 else 'ring of >= 2 slots'))])
def mk_scen():
    sp = {('prelude_early',): EARLY, ('stub', 'Tm_enable'): True, ('stub', 'Tm_disable'): True}
    return UnitSpec(
        name='timeout_monitor_scenario', tu='/verif/drivers/timeout_monitor_tu.cpp', filter='tbox::eventx', more_filters=[('/verif/drivers/timeout_monitor_tu.cpp', 'tbox::event')],
        rename=R, spec=sp, prelude=PRELUDE, plugins=[StdFunction(), StdVector()], model_headers=['fn_model.h', 'vec_model.h'], defines=['V_VEC_LOOPCOPY'],
        opaque_records={'tbox::event::TimerEvent': 'struct v_TimerEvent', 'tbox::event::Event': 'struct v_TimerEvent', 'tbox::event::Loop': 'struct v_Loop'},
        emit=[C + 'add', C + 'onTimerTick'],
        targets=[Target('ring_scenario', H_SCEN, loops=False, unwind=4, bound='ring of 2 slots, 2 values, 1 re-add (values symbolic)', functions=['Tmo_add', 'Tmo_onTimerTick'], timeout=600,
                        clause='whole-ring scenario on the real bodies: reported exactly once after `ring` ticks, in order; re-entrant add survives; timer armed iff counter > 0')])
UNITS = [mk(False), mk(True), mk_scen()]

REPLAY_SOURCES = []
def native_replay(u, t, o, w, workdir):
    import replay as rp
    libs = [os.path.join(rp.REPO if os.path.isdir(os.path.join(rp.REPO, '_build')) else '/repo', '_build/modules/%s/libtbox_%s.a' % (m, m)) for m in ('event', 'util', 'base')]
    return rp.attempt('timeout_monitor', [], os.path.join(workdir, 'replay'), [('native-search', ['search'])], extra=libs + ['-ldl'])
