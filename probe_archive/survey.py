import json,sys,collections,subprocess,os
sys.path.insert(0,'/tmp/probe')
from cxx2c import load_docs
CORE=set('''AccessSpecDecl BinaryOperator CXXBoolLiteralExpr CXXConstructExpr CXXConstructorDecl CXXCtorInitializer CXXDefaultInitExpr CXXDeleteExpr CXXDestructorDecl CXXFunctionalCastExpr CXXMemberCallExpr CXXMethodDecl CXXNewExpr CXXNullPtrLiteralExpr CXXRecordDecl CXXThisExpr CallExpr CompoundAssignOperator CompoundStmt ConditionalOperator DeclRefExpr DeclStmt DoStmt FieldDecl IfStmt ImplicitCastExpr IntegerLiteral MemberExpr ParenExpr ParmVarDecl ReturnStmt UnaryOperator VarDecl ForStmt WhileStmt BreakStmt ContinueStmt ArraySubscriptExpr CStyleCastExpr CXXStaticCastExpr CXXReinterpretCastExpr SwitchStmt CaseStmt DefaultStmt CharacterLiteral StringLiteral NullStmt FunctionDecl ConstantExpr InitListExpr UnaryExprOrTypeTraitExpr CXXConstCastExpr'''.split())
units=[l.split() for l in open(sys.argv[1]) if l.strip() and not l.startswith('#')]
for prop,flt,src in units:
    out='/tmp/probe/sv.json'
    cmd=['clang++','-std=gnu++11','-DNDEBUG','-DMODULE_ID="x"','-I/repo/3rd-party','-I/repo/modules','-fsyntax-only','-Xclang','-ast-dump=json','-Xclang','-ast-dump-filter='+flt,src]
    r=subprocess.run(cmd,stdout=open(out,'w'),stderr=subprocess.DEVNULL)
    try: docs=load_docs(out)
    except Exception as e: print(prop,flt,'LOADFAIL',e); continue
    kinds=collections.Counter(); ext=collections.Counter(); ndef=0
    def walk(n):
        k=n.get('kind')
        if k and not k.endswith('Comment'): kinds[k]+=1
        if k=='CXXMemberCallExpr':
            me=n['inner'][0]
            if me.get('kind')=='MemberExpr':
                b=me['inner'][0]; t=b.get('type',{}).get('qualType','?')
                if 'std::' in t or 'Json' in t or 'basic_' in t: ext[(t.replace('const ','')[:40], me.get('name'))]+=1
        if k=='CXXOperatorCallExpr':
            c=n['inner'][0]
            while c.get('kind')=='ImplicitCastExpr': c=c['inner'][0]
            ext[('op', c.get('referencedDecl',{}).get('name'), n['inner'][1].get('type',{}).get('qualType','')[:36])]+=1
        if k=='CallExpr':
            c=n['inner'][0]
            while c.get('kind') in('ImplicitCastExpr','ParenExpr'): c=c['inner'][0]
            nm=c.get('referencedDecl',{}).get('name')
            if nm: ext[('fn',nm)]+=1
        for c in n.get('inner',[]): walk(c)
    for d in docs:
        if any(c.get('kind')=='CompoundStmt' for c in d.get('inner',[])): ndef+=1
        walk(d)
    extra=sorted(k for k in kinds if k not in CORE and not k.endswith('Decl') or k in('LambdaExpr',))
    print('==',prop,flt,'defs=%d'%ndef,'json=%dKB'%(os.path.getsize(out)//1024))
    print('   non-core kinds:',', '.join('%s:%d'%(k,kinds[k]) for k in extra))
    print('   callees:',', '.join('%s/%s'%(a[0] if a[0]!='fn' else '',a[1]) for a in sorted(ext,key=str)))
