"""C19 — Base64 (modules/util/base64.cpp), pointer overloads + size functions.

Reference (RFC 4648): alphabet A-Z a-z 0-9 + /, pad '='; output char 4q+j is sextet j of the 24-bit group built from
input bytes 3q..3q+2 (missing bytes are 0 and their chars are '=').  Ghost decomposition of indices (q, k) is carried
by ghost statements so that no invariant contains / or % (DESIGN C19).
"""
import os
from verif import UnitSpec, Target

ENC = 'util_base64_Encode__Kvoidp_size_t_charp_size_t'
DEC = 'util_base64_Decode__Kcharp_size_t_voidp_size_t'
DLEN = 'util_base64_DecodeLength__Kcharp_size_t'
RENAME = {ENC: 'b64_Encode', DEC: 'b64_Decode', DLEN: 'b64_DecodeLength', 'util_base64_EncodeLength': 'b64_EncodeLength'}

PRELUDE = r'''
/* RFC 4648 alphabet and its inverse, written from the RFC (not from the code's tables) */
#define B64_CH(k) ((char)((k) < 26 ? 'A' + (k) : (k) < 52 ? 'a' + ((k) - 26) : (k) < 62 ? '0' + ((k) - 52) : (k) == 62 ? '+' : '/'))
#define B64_VAL(c) (((c) >= 'A' && (c) <= 'Z') ? (c) - 'A' : ((c) >= 'a' && (c) <= 'z') ? (c) - 'a' + 26 : ((c) >= '0' && (c) <= '9') ? (c) - '0' + 52 : (c) == '+' ? 62 : (c) == '/' ? 63 : 255)
/* ghost decompositions chosen by the harness: n + 2 == 3*g_Q + g_R, tracked output index g_o == 4*g_oq + g_oj */
static size_t g_Q, g_R, g_o, g_oq, g_oj;
static size_t g_q, g_k;     /* loop ghosts: r_pos == 3*g_q + g_k (encode) / r_pos == 4*g_q + g_k (decode) */
/* the tracked group as ghost scalars (tied to memory by preconditions), so that spec expressions read no memory */
static uint8_t g_b0, g_b1, g_b2;      /* raw bytes 3*g_oq .. 3*g_oq+2 (0 beyond the data) */
static char g_c0, g_c1, g_c2, g_c3;   /* text chars 4*g_oq .. 4*g_oq+3 */
#define IN8(p, i) (((const uint8_t *)(p))[i])
#define TIE_RAW(p, n, q) ((3 * (q) < (n) ? IN8(p, 3 * (q)) == g_b0 : g_b0 == 0) && (3 * (q) + 1 < (n) ? IN8(p, 3 * (q) + 1) == g_b1 : g_b1 == 0) && \
                          (3 * (q) + 2 < (n) ? IN8(p, 3 * (q) + 2) == g_b2 : g_b2 == 0))
#define SEXTET_G(j) ((j) == 0 ? (g_b0 >> 2) : (j) == 1 ? (((g_b0 & 3) << 4) | (g_b1 >> 4)) : (j) == 2 ? (((g_b1 & 15) << 2) | (g_b2 >> 6)) : (g_b2 & 63))
/* char 4q+j of the encoding of n bytes: a data char if the group has a byte feeding it, else '=' */
#define ENC_CHAR_G(n, q, j) (((j) <= 1 || 3 * (q) + (j) - 1 < (n)) ? B64_CH(SEXTET_G(j)) : '=')
#define ELEN(Q) (4 * (Q))
/* decoding: output byte 3q+j from the four chars of group q (RFC 4648 section 4) */
#define TIE_TXT(p, n, q) ((4 * (q) < (n) ==> (p)[4 * (q)] == g_c0) && (4 * (q) + 1 < (n) ==> (p)[4 * (q) + 1] == g_c1) && \
                          (4 * (q) + 2 < (n) ==> (p)[4 * (q) + 2] == g_c2) && (4 * (q) + 3 < (n) ==> (p)[4 * (q) + 3] == g_c3))
#define CVG(c) ((unsigned)B64_VAL((int)(c)))
#define DEC_BYTE_G(j) ((uint8_t)((j) == 0 ? ((CVG(g_c0) << 2) | (CVG(g_c1) >> 4)) : (j) == 1 ? ((CVG(g_c1) << 4) | (CVG(g_c2) >> 2)) : ((CVG(g_c2) << 6) | CVG(g_c3))))
'''

SPEC = {
    ('contract', 'b64_EncodeLength'): r'''
__CPROVER_requires(plain_text_length < V_MAXSZ && g_Q < V_MAXSZ && plain_text_length + 2 == 3 * g_Q + g_R && g_R < 3)
__CPROVER_assigns()
__CPROVER_ensures(__CPROVER_return_value == 4 * g_Q)
''',
    ('contract', 'b64_DecodeLength'): r'''
__CPROVER_requires(base64_size < V_MAXSZ && (base64_size > 0 ==> __CPROVER_is_fresh(base64_ptr, base64_size)))
__CPROVER_assigns()
__CPROVER_ensures((base64_size == 0 || (base64_size & 3) != 0) ==> __CPROVER_return_value == 0)
__CPROVER_ensures((base64_size != 0 && (base64_size & 3) == 0) ==> __CPROVER_return_value == 3 * (base64_size >> 2) - (base64_ptr[base64_size - 1] == '=' ? 1 : 0) - (base64_ptr[base64_size - 2] == '=' ? 1 : 0))
''',
    ('contract', 'b64_Encode'): r'''
__CPROVER_requires(raw_data_len >= 1 && raw_data_len < V_MAXSZ && base64_size >= 1 && base64_size < V_MAXSZ)
__CPROVER_requires(__CPROVER_is_fresh(raw_data_ptr, raw_data_len) && __CPROVER_is_fresh(base64_ptr, base64_size))
__CPROVER_requires(g_Q < V_MAXSZ && raw_data_len + 2 == 3 * g_Q + g_R && g_R < 3)
__CPROVER_requires(g_o == 4 * g_oq + g_oj && g_oj < 4 && g_oq < V_MAXSZ && TIE_RAW(raw_data_ptr, raw_data_len, g_oq))
__CPROVER_assigns(g_q, g_k, __CPROVER_object_upto(base64_ptr, base64_size))
__CPROVER_ensures(__CPROVER_return_value == (ELEN(g_Q) > base64_size ? 0 : ELEN(g_Q)))
__CPROVER_ensures(g_o < __CPROVER_return_value ==> base64_ptr[g_o] == ENC_CHAR_G(raw_data_len, g_oq, g_oj))
''',
    ('ghost', 'b64_Encode', 'entry'): 'g_q = 0; g_k = 0;',
    ('loop', 'b64_Encode', 1): r'''
__CPROVER_assigns(r_pos, s, l, w_pos, g_q, g_k, __CPROVER_object_upto(base64_ptr, base64_size))
__CPROVER_loop_invariant(r_pos <= raw_data_len && g_q < V_MAXSZ && r_pos == 3 * g_q + g_k && g_k <= 2 && s == (int)g_k && w_pos == 4 * g_q + g_k)
__CPROVER_loop_invariant(g_k > 0 ==> l == in_bytes[r_pos - 1])
__CPROVER_loop_invariant(g_o < w_pos ==> base64_ptr[g_o] == ENC_CHAR_G(raw_data_len, g_oq, g_oj))
__CPROVER_decreases(raw_data_len - r_pos)
''',
    ('contract', 'b64_Decode'): r'''
__CPROVER_requires(base64_len < V_MAXSZ && raw_data_size < V_MAXSZ)
__CPROVER_requires(base64_len > 0 ==> __CPROVER_is_fresh(base64_ptr, base64_len))
__CPROVER_requires(raw_data_size > 0 ==> __CPROVER_is_fresh(raw_data_ptr, raw_data_size))
__CPROVER_requires(g_o == 3 * g_oq + g_oj && g_oj < 3 && g_oq < V_MAXSZ && TIE_TXT(base64_ptr, base64_len, g_oq))
__CPROVER_assigns(g_q, g_k; raw_data_size > 0: __CPROVER_object_upto(raw_data_ptr, raw_data_size))
__CPROVER_ensures(__CPROVER_return_value <= raw_data_size)
__CPROVER_ensures(__CPROVER_return_value <= 3 * (base64_len >> 2))
__CPROVER_ensures(g_o < __CPROVER_return_value ==> ((uint8_t *)raw_data_ptr)[g_o] == DEC_BYTE_G(g_oj))
''',
    ('ghost', 'b64_Decode', 'entry'): 'g_q = 0; g_k = 0;',
    ('loop', 'b64_Decode', 1): r'''
__CPROVER_assigns(r_pos, w_pos, tmp, g_q, g_k; raw_data_size > 0: __CPROVER_object_upto(raw_data_ptr, raw_data_size))
__CPROVER_loop_invariant(r_pos <= base64_len && g_q < V_MAXSZ && r_pos == 4 * g_q + g_k && g_k <= 3 && w_pos == 3 * g_q + (g_k == 0 ? 0 : g_k - 1))
__CPROVER_loop_invariant(w_pos <= raw_data_size && (r_pos >= 1 ==> base64_ptr[r_pos - 1] != '='))
__CPROVER_loop_invariant((g_q == g_oq && g_k == 1) ==> tmp == (uint8_t)(CVG(g_c0) << 2))
__CPROVER_loop_invariant((g_q == g_oq && g_k == 2) ==> tmp == (uint8_t)(CVG(g_c1) << 4))
__CPROVER_loop_invariant((g_q == g_oq && g_k == 3) ==> tmp == (uint8_t)(CVG(g_c2) << 6))
__CPROVER_loop_invariant(g_o < w_pos ==> out_bytes[g_o] == DEC_BYTE_G(g_oj))
__CPROVER_decreases(base64_len - r_pos)
''',
    ('ghost', 'b64_Decode', 'loop_body_end:1'): 'if (g_k == 3) { g_k = 0; g_q++; } else { g_k++; }',
    ('ghost', 'b64_Encode', 'loop_body_end:1'): 'if (g_k == 2) { g_k = 0; g_q++; } else { g_k++; }',
}

H = lambda body: '\nvoid H(void)\n{\n' + body + '\n  __CPROVER_assert(0, "VACUITY-CANARY");\n}\n'

H_ALPHA = H(r'''  /* the code's tables against the RFC alphabet, every entry */
  unsigned k; __CPROVER_assume(k < 64);
  __CPROVER_assert(util_base64_base64en[k] == B64_CH(k), "encode table entry == RFC 4648 alphabet");
  unsigned c; __CPROVER_assume(c < 128);
  __CPROVER_assert(util_base64_base64de[c] == B64_VAL((int)c), "decode table entry == inverse of the RFC 4648 alphabet (255 = invalid)");
  __CPROVER_assert(B64_VAL((int)B64_CH(k)) == k, "alphabet and inverse alphabet are inverse");''')

H_GROUP = H(r'''  /* inverse pair on the spec level: one group of 1, 2 or 3 bytes, every value */
  size_t n; __CPROVER_assume(n >= 1 && n <= 3);
  if (n < 2) g_b1 = 0; if (n < 3) g_b2 = 0;
  g_c0 = ENC_CHAR_G(n, 0, 0); g_c1 = ENC_CHAR_G(n, 0, 1); g_c2 = ENC_CHAR_G(n, 0, 2); g_c3 = ENC_CHAR_G(n, 0, 3);
  __CPROVER_assert(DEC_BYTE_G(0) == g_b0, "decode(encode(group)) byte 0");
  __CPROVER_assert(n < 2 || DEC_BYTE_G(1) == g_b1, "decode(encode(group)) byte 1");
  __CPROVER_assert(n < 3 || DEC_BYTE_G(2) == g_b2, "decode(encode(group)) byte 2");
  __CPROVER_assert((g_c3 == '=') == (n < 3) && (g_c2 == '=') == (n < 2), "pad chars exactly where the group is short");''')

H_E2E = H(r'''  /* end-to-end on the real functions, raw length 1..6 (bounded stand-in tying return values together) */
  size_t n; __CPROVER_assume(n >= 1 && n <= 6);
  uint8_t *raw = v_alloc_ok(n); char *enc = v_alloc_ok(8); uint8_t *dec = v_alloc_ok(n);
  g_Q = (n + 2) / 3; g_R = (n + 2) % 3;
  size_t e = b64_Encode(raw, n, enc, 8);
  __CPROVER_assert(e == b64_EncodeLength(n) && e == 4 * ((n + 2) / 3), "Encode returns EncodeLength");
  __CPROVER_assert(b64_DecodeLength(enc, e) == n, "DecodeLength(Encode(x)) == len(x)");
  size_t d = b64_Decode(enc, e, dec, n);
  __CPROVER_assert(d == n, "Decode into exactly DecodeLength bytes succeeds");
  size_t k; __CPROVER_assume(k < n);
  __CPROVER_assert(dec[k] == raw[k], "Decode(Encode(x)) == x");
  if (n >= 2) { __CPROVER_assert(b64_Decode(enc, e, dec, n - 1) == 0, "one byte short: Decode returns 0"); }
  __CPROVER_assert(b64_Encode(raw, n, enc, e - 1) == 0, "one char short: Encode returns 0");''')

UNITS = [UnitSpec(
    name='base64', tu='modules/util/base64.cpp', filter='tbox::util', rename=RENAME, spec=SPEC, prelude=PRELUDE,
    emit=[('tbox::util::base64::Encode', 'char *, size_t'), ('tbox::util::base64::Decode', 'const char *, size_t, void *'),
          ('tbox::util::base64::DecodeLength', 'const char *, size_t'), 'tbox::util::base64::EncodeLength'],
    targets=[
        Target('EncodeLength', H('  size_t n; b64_EncodeLength(n);'), enforce='b64_EncodeLength', clause='EncodeLength(n) == 4*ceil(n/3)'),
        Target('DecodeLength', H('  const char *p; size_t n; b64_DecodeLength(p, n);'), enforce='b64_DecodeLength', clause='DecodeLength reads only the last two chars; 3*n/4 minus trailing pads'),
        Target('Encode', H('  const void *p; size_t n; char *o; size_t c; b64_Encode(p, n, o, c);'), enforce='b64_Encode', replace=['b64_EncodeLength'],
               clause='Encode: writes exactly EncodeLength(n) chars or nothing; every output char equals the RFC 4648 encoding (tracked index)'),
        Target('Decode', H('  const char *p; size_t n; void *o; size_t c; b64_Decode(p, n, o, c);'), enforce='b64_Decode',
               clause='Decode: arbitrary (invalid, truncated, high-bit) input: reads inside the input, table indexed in range, writes inside the capacity; every output byte equals the RFC 4648 decoding of its group (tracked index)'),
        Target('group_inverse', H_GROUP, loops=False, unwind=5, clause='RFC encode/decode of one group are inverse (spec-level lemma; with the two functional contracts this is Decode(Encode(x)) == x)',
               functions=['b64_Encode', 'b64_Decode']),
        Target('roundtrip_e2e', H_E2E, loops=False, unwind=9, bound='raw length <= 6', clause='real Encode/Decode/size functions end to end, exact and one-short capacities',
               functions=['b64_Encode', 'b64_Decode', 'b64_DecodeLength', 'b64_EncodeLength']),
        Target('tables', H_ALPHA, loops=False, clause='alphabet tables == RFC 4648', functions=['util_base64_base64en', 'util_base64_base64de']),
    ],
)]

REPLAY_SOURCES = ['modules/util/base64.cpp']

def native_replay(u, t, o, w, workdir):
    """loop-contract counterexamples start in a havocked loop state, so they are not execution prefixes: the driver's
    own boundary family (every byte value at every group position, padded texts into exactly sized buffers) finds the input"""
    import replay as rp
    return rp.attempt('base64', REPLAY_SOURCES, os.path.join(workdir, 'replay'), [('native-search', ['search', 1])])
