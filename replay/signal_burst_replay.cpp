// A burst of deliveries of one signal queued in the loop's pipe before the loop drains it: one callback per delivery on the enabled event.
#include <tbox/event/loop.h>
#include <tbox/event/signal_event.h>
#include <csignal>
#include <cstdio>
#include <string>
#include <sys/wait.h>
#include <unistd.h>
using namespace tbox::event;
int main(int argc, char **argv) {
    std::string engine = argc > 1 ? argv[1] : "epoll";
    int bad = 0;
    if (argc > 2 && std::string(argv[2]) == "ign") {
        // the disposition before the first subscription is SIG_IGN (nohup, or the application ignored the signal): a delivery must reach the
        // subscriber, must not "call" SIG_IGN, and the disposition must be SIG_IGN again afterwards.  Run in a child: a wrong chain call kills it.
        pid_t pid = fork();
        if (pid == 0) {
            signal(SIGUSR1, SIG_IGN);
            Loop *loop = Loop::New(engine.c_str());
            SignalEvent *ev = loop->newSignalEvent();
            int calls = 0;
            ev->initialize(SIGUSR1, Event::Mode::kPersist);
            ev->setCallback([&](int) { ++calls; });
            ev->enable();
            raise(SIGUSR1);
            loop->exitLoop(std::chrono::milliseconds(100));
            loop->runLoop();
            delete ev; delete loop;
            struct sigaction now; sigaction(SIGUSR1, nullptr, &now);
            _exit((calls == 1 && now.sa_handler == SIG_IGN) ? 0 : 3);
        }
        int st = 0; waitpid(pid, &st, 0);
        if (WIFSIGNALED(st)) { printf("VIOLATION: with SIG_IGN as the previous disposition the process-wide handler crashed the process (signal %d) on the first delivery\n", WTERMSIG(st)); return 1; }
        if (WEXITSTATUS(st) != 0) { printf("VIOLATION: previous disposition SIG_IGN: callback count or restored disposition wrong\n"); return 1; }
        printf("previous disposition SIG_IGN: delivered once, disposition restored\n");
        return 0;
    }
    const int bursts[] = {1, 2, 3, 5, 10, 11, 25};
    for (int n : bursts) {
        Loop *loop = Loop::New(engine.c_str());
        if (!loop) { printf("no %s engine\n", engine.c_str()); return 0; }
        SignalEvent *ev = loop->newSignalEvent();
        int calls = 0;
        ev->initialize(SIGUSR1, Event::Mode::kPersist);
        ev->setCallback([&](int) { ++calls; });
        ev->enable();
        for (int i = 0; i < n; ++i) raise(SIGUSR1);          // delivered one at a time, synchronously: nothing is merged by the kernel
        loop->exitLoop(std::chrono::milliseconds(100));
        loop->runLoop();
        delete ev; delete loop;
        printf("burst of %d deliveries: %d callbacks\n", n, calls);
        if (calls != n) { printf("VIOLATION: %d deliveries of the signal produced %d callbacks on the enabled event\n", n, calls); bad = 1; }
    }
    return bad;
}
