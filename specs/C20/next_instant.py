"""C20 — calculateNextLocalTimeSec of OneshotAlarm / WeeklyAlarm / WorkdayAlarm: the earliest instant STRICTLY after the
current local time that satisfies the configuration.

Reference from the property: an instant t matches iff  t mod 86400 == seconds_of_day  and the day of t is selected
(weekly: bit ((t div 86400)+4) mod 7 of the mask, 1970-01-01 being a Thursday; workday: calendar(t div 86400) == wanted);
the result must match, be > curr, and no matching instant lies in (curr, result) - checked with a ghost witness instant g_w.
/ and % by 86400 / 604800 over full 32-bit words are out of reach of every back end here (DESIGN section 2), so the current
time carries a ghost decomposition  curr = 86400*g_day + g_sec  (every value has one) and the domain is bounded:
B(day < 32 quick / day < 1024 thorough) for all classes: every weekday, four week boundaries - every weekday, second of day, mask and calendar symbolic.
"""
import os
from verif import UnitSpec, Target
from plugins import StdFunction, Syscalls, Chrono, OpaqueString

PRELUDE = r'''
#define DAYSEC 86400u
static uint32_t g_day, g_sec, g_w;     /* ghost decomposition of curr; ghost witness instant */
static uint32_t g_d, g_wd; static _Bool g_dv;   /* ghost observed calendar day and its kind; ghost witness day */
#define T(x) ((x) != 0)
#ifndef DAYLIM
#define DAYLIM 32u
#endif
#define DECOMP(curr) ((curr) == DAYSEC * g_day + g_sec && g_sec < DAYSEC && g_day < DAYLIM)
#define WDAY(d) (((d) + 4u) % 7u)
'''
EARLY = r'''
struct v_TimerEvent { char opaque; }; struct v_Loop { char opaque; }; struct v_Calendar { uint8_t workday_bit[64]; };
'''
COMMON_REQ = r'''
__CPROVER_requires(__CPROVER_is_fresh(self, sizeof(*self)) && __CPROVER_is_fresh(next_local_ts, 4))
__CPROVER_requires(self->seconds_of_day_ >= 0 && self->seconds_of_day_ < 86400 && DECOMP(curr_local_ts))
'''
SPEC_ONE = {
    ('prelude_early',): EARLY,
    ('contract', 'alarm_OneshotAlarm_calculateNextLocalTimeSec'): COMMON_REQ + r'''
__CPROVER_assigns(*next_local_ts)
__CPROVER_ensures(__CPROVER_return_value)
__CPROVER_ensures(*next_local_ts > curr_local_ts && *next_local_ts - curr_local_ts <= DAYSEC)                /* strictly after, and the earliest */
__CPROVER_ensures(*next_local_ts == DAYSEC * (g_day + (g_sec >= (uint32_t)self->seconds_of_day_ ? 1u : 0u)) + (uint32_t)self->seconds_of_day_)   /* at the configured second of the day */
''',
}
SPEC_WEEK = {
    ('prelude_early',): EARLY,
    ('contract', 'alarm_WeeklyAlarm_calculateNextLocalTimeSec'): COMMON_REQ + r'''
__CPROVER_requires(self->week_mask_ < 128)
__CPROVER_requires(g_w > curr_local_ts && g_w - curr_local_ts <= 8 * DAYSEC)                                   /* any candidate instant in the window */
__CPROVER_assigns(*next_local_ts)
__CPROVER_ensures(__CPROVER_return_value == (self->week_mask_ != 0))
__CPROVER_ensures(__CPROVER_return_value ==> (*next_local_ts > curr_local_ts && *next_local_ts - curr_local_ts <= 7 * DAYSEC))
__CPROVER_ensures(__CPROVER_return_value ==> (*next_local_ts % DAYSEC == (uint32_t)self->seconds_of_day_ && ((self->week_mask_ >> WDAY(*next_local_ts / DAYSEC)) & 1)))   /* it matches */
__CPROVER_ensures((__CPROVER_return_value && g_w < *next_local_ts) ==> !(g_w % DAYSEC == (uint32_t)self->seconds_of_day_ && ((self->week_mask_ >> WDAY(g_w / DAYSEC)) & 1)))   /* nothing earlier matches */
''',
}

SPEC_WORK = {
    ('prelude_early',): EARLY,
    # the calendar is an arbitrary predicate on day numbers, observed at one ghost day g_d (value g_dv)
    ('contract', 'alarm_WorkdayCalendar_isWorkay'): r'''
__CPROVER_requires(1)
__CPROVER_assigns()
__CPROVER_ensures(__CPROVER_return_value == 0 || __CPROVER_return_value == 1)      /* a C++ bool is 0 or 1 (CBMC's nondeterministic _Bool may carry any byte) */
__CPROVER_ensures(day_index == (int)g_d ==> T(__CPROVER_return_value) == T(g_dv))
''',
    ('contract', 'alarm_WorkdayAlarm_calculateNextLocalTimeSec'): COMMON_REQ + r'''
__CPROVER_requires(g_wd >= g_day && g_wd < g_day + 400)          /* ghost witness day */
__CPROVER_requires(self->workday_ == 0 || self->workday_ == 1)
__CPROVER_assigns(*next_local_ts)
__CPROVER_ensures(__CPROVER_return_value ==> (*next_local_ts > curr_local_ts && *next_local_ts % DAYSEC == (uint32_t)self->seconds_of_day_))
__CPROVER_ensures((__CPROVER_return_value && *next_local_ts / DAYSEC == g_d) ==> T(g_dv) == T(self->workday_))                 /* the chosen day has the wanted kind */
__CPROVER_ensures((__CPROVER_return_value && g_wd == g_d && DAYSEC * g_wd + (uint32_t)self->seconds_of_day_ > curr_local_ts && DAYSEC * g_wd + (uint32_t)self->seconds_of_day_ < *next_local_ts) ==> T(g_dv) != T(self->workday_))   /* no earlier matching instant */
__CPROVER_ensures((!__CPROVER_return_value && g_wd == g_d && g_wd >= g_day + 1 && g_wd < g_day + 367) ==> T(g_dv) != T(self->workday_))   /* false only if no day of the next year matches */
''',
    ('loop', 'alarm_WorkdayAlarm_calculateNextLocalTimeSec', 1): r'''
__CPROVER_assigns(i, *next_local_ts)
__CPROVER_loop_invariant(i >= 0 && i <= 367 && *next_local_ts == DAYSEC * (g_day + (uint32_t)i) + (uint32_t)self->seconds_of_day_ && curr_days == g_day)
__CPROVER_loop_invariant((g_wd == g_d && g_wd < g_day + (uint32_t)i && DAYSEC * g_wd + (uint32_t)self->seconds_of_day_ > curr_local_ts) ==> T(g_dv) != T(self->workday_))
__CPROVER_decreases(367 - i)
''',
}

H = lambda body: '\nvoid H(void)\n{\n' + body + '\n  __CPROVER_assert(0, "VACUITY-CANARY");\n}\n'
OPQ = {'tbox::event::TimerEvent': 'struct v_TimerEvent', 'tbox::event::Event': 'struct v_TimerEvent', 'tbox::event::Loop': 'struct v_Loop', 'tbox::alarm::WorkdayCalendar': 'struct v_Calendar'}
PL = lambda: [StdFunction(), Syscalls(), Chrono(), OpaqueString()]

UNITS = [
    UnitSpec(name='oneshot_next', tu='modules/alarm/oneshot_alarm.cpp', filter='tbox::alarm', spec=SPEC_ONE, prelude=PRELUDE, plugins=PL(), model_headers=['fn_model.h', 'misc_model.h'],
             opaque_records=OPQ, emit=['tbox::alarm::OneshotAlarm::calculateNextLocalTimeSec'],
             targets=[Target('oneshot', H('  struct alarm_OneshotAlarm *a; uint32_t c; uint32_t *n; alarm_OneshotAlarm_calculateNextLocalTimeSec(a, c, n);'),
                             enforce='alarm_OneshotAlarm_calculateNextLocalTimeSec', bound='curr < 32 days', sat='cadical',
                             clause='one-shot: earliest instant strictly after curr at the configured second of day')]),
    UnitSpec(name='weekly_next', tu='modules/alarm/weekly_alarm.cpp', filter='tbox::alarm', spec=SPEC_WEEK, prelude=PRELUDE, plugins=PL(), model_headers=['fn_model.h', 'misc_model.h'],
             opaque_records=OPQ, emit=['tbox::alarm::WeeklyAlarm::calculateNextLocalTimeSec'],
             targets=[Target('weekly', H('  struct alarm_WeeklyAlarm *a; uint32_t c; uint32_t *n; alarm_WeeklyAlarm_calculateNextLocalTimeSec(a, c, n);'),
                             enforce='alarm_WeeklyAlarm_calculateNextLocalTimeSec', loops=False, unwind=9, bound='curr < 32 days', sat='cadical', timeout=600,
                             clause='weekly: matches mask and second of day, strictly after curr, no earlier match (ghost witness), false iff mask empty')]),
    UnitSpec(name='workday_next', tu='modules/alarm/workday_alarm.cpp', filter='tbox::alarm', spec=SPEC_WORK, prelude=PRELUDE, plugins=PL(), model_headers=['fn_model.h', 'misc_model.h'],
             opaque_records=OPQ, emit=['tbox::alarm::WorkdayAlarm::calculateNextLocalTimeSec'],
             targets=[Target('workday', H('  struct alarm_WorkdayAlarm *a; uint32_t c; uint32_t *n; alarm_WorkdayAlarm_calculateNextLocalTimeSec(a, c, n);'),
                             enforce='alarm_WorkdayAlarm_calculateNextLocalTimeSec', replace=['alarm_WorkdayCalendar_isWorkay'], bound='curr < 32 days', sat='cadical', timeout=600,
                             clause='workday: loop contract over the 367-day scan, arbitrary calendar predicate: strictly after curr, wanted kind of day, no earlier match')]),
]

import importlib.util
from verif import VERIF
def native_replay(u, t, o, w, workdir):
    sp = importlib.util.spec_from_file_location('c20_alarm', os.path.join(VERIF, 'specs', 'C20', 'alarm.py'))
    m = importlib.util.module_from_spec(sp); sp.loader.exec_module(m)
    return m.native_replay(u, t, o, w, workdir)
