#!/usr/bin/env python3
"""cxx2c: clang-AST(JSON) driven re-printer of a closed C++ subset as C.

The verified text is derived on every run from /repo's working tree:
  clang++ -fsyntax-only <build flags> -Xclang -ast-dump=json -Xclang -ast-dump-filter=<ns> file.cpp
and this printer walks the typed AST of the requested functions and prints C.
The rule set is closed: any node kind, cast kind, callee or type outside it
raises Unsupported (the caller turns that into exit 2 = undecided).

See DESIGN.md section 3.1 for the complete list of what is changed/dropped.
"""
import json, re, sys, os, subprocess, hashlib

class Unsupported(Exception):
    pass

REPO = os.environ.get('VERIF_REPO', '/repo')
CLANG_FLAGS = ['-std=gnu++11', '-DNDEBUG', '-I' + REPO + '/modules', '-I' + REPO + '/3rd-party', '-fsyntax-only', '-w']

def clang_ast(tu, flt, extra_flags=(), cache_dir=None):
    """Run clang on tu (absolute path) and return the list of JSON documents."""
    # ASLR off (setarch -R): node ids are heap addresses; with a deterministic layout several dumps of ONE translation unit
    # taken with different filters refer to each other consistently
    # `SUB@NAME`: clang filters by the substring SUB, only the declaration called NAME (global or anonymous namespace) is kept.
    # Filters of one unit must be 7..15 characters long: clang copies the filter to its heap, and a different allocation size
    # shifts every later node id (measured); the printer aborts when dumps disagree (e_DeclRefExpr).
    full = None
    if '@' in flt: flt, full = flt.split('@', 1)
    cmd = ['setarch', 'x86_64', '-R', 'clang++'] + CLANG_FLAGS + list(extra_flags) + ['-Xclang', '-ast-dump=json', '-Xclang', '-ast-dump-filter=' + flt, tu]
    p = subprocess.run(cmd, stdout=subprocess.PIPE, stderr=subprocess.PIPE, universal_newlines=True)
    if p.returncode != 0:
        raise Unsupported('clang failed on %s: %s' % (tu, p.stderr[-2000:]))
    docs = parse_docs(p.stdout)
    comps = (full or flt).split('::')
    placed = {}
    for d in docs:
        # the dump starts at the matching declaration: its enclosing namespaces are recovered from the filter
        nm = d.get('name')
        if nm in comps:
            i = len(comps) - 1 - comps[::-1].index(nm)
            d['__qual'] = '::'.join(comps[:i + 1])
            if d.get('kind') == 'NamespaceDecl': placed[d['id']] = d['__qual']
    for d in docs:
        if '__qual' in d: continue
        pid = d.get('parentDeclContextId')
        if pid in placed and d.get('name'):
            d['__qual'] = placed[pid] + '::' + d['name']     # e.g. an explicit template instantiation written outside the namespace
        else:
            d['__skip'] = True     # matched the filter only as a substring of something else (e.g. std::hash<tbox::...>): not part of the unit
    return [d for d in docs if not d.get('__skip')], ' '.join(cmd)

def parse_docs(txt):
    """clang prints 'Dumping <qualified name>:' before each matching declaration's JSON document"""
    dec = json.JSONDecoder(); i = 0; docs = []; n = len(txt); qual = None
    while i < n:
        while i < n and txt[i] in ' \n\r\t': i += 1
        if i >= n: break
        if txt[i] != '{':
            j = txt.find('\n', i)
            if j < 0: j = n
            line = txt[i:j].strip()
            m = re.match(r'^Dumping (.*):$', line)
            if m: qual = m.group(1)
            i = j + 1; continue
        d, j = dec.raw_decode(txt, i)
        if qual is not None: d['__qual'] = qual
        docs.append(d); i = j
    return docs

def load_docs(path):
    return parse_docs(open(path).read())

SCALARS = {
    'size_t': 'size_t', 'uint8_t': 'uint8_t', 'uint16_t': 'uint16_t', 'uint32_t': 'uint32_t', 'uint64_t': 'uint64_t',
    'int8_t': 'int8_t', 'int16_t': 'int16_t', 'int32_t': 'int32_t', 'int64_t': 'int64_t', 'ssize_t': 'ssize_t',
    'std::size_t': 'size_t', 'std::uint8_t': 'uint8_t', 'std::uint16_t': 'uint16_t', 'std::uint32_t': 'uint32_t', 'std::uint64_t': 'uint64_t',
    'bool': '_Bool', 'int': 'int', 'unsigned int': 'unsigned int', 'unsigned': 'unsigned int', 'char': 'char', 'unsigned char': 'unsigned char',
    'long': 'long', 'unsigned long': 'unsigned long', 'short': 'short', 'unsigned short': 'unsigned short', 'void': 'void',
    'unsigned long long': 'unsigned long long', 'long long': 'long long', 'signed char': 'signed char',
    'float': 'float', 'double': 'double', 'time_t': 'long', 'uintptr_t': 'uintptr_t', 'intptr_t': 'intptr_t',
    'ptrdiff_t': 'ptrdiff_t', 'std::ptrdiff_t': 'ptrdiff_t', 'off_t': 'long', 'pid_t': 'int', 'socklen_t': 'unsigned int',
    'iovec': 'struct iovec', 'timezone': 'struct timezone', 'tm': 'struct tm', 'epoll_event': 'struct epoll_event', 'fd_set': 'fd_set', '__fd_mask': 'long', '__sigset_t': 'sigset_t', 'sigset_t': 'sigset_t', 'sigaction': 'struct sigaction', 'siginfo_t': 'siginfo_t', 'timeval': 'struct timeval', 'timespec': 'struct timespec', 'sockaddr_in': 'struct sockaddr_in', 'sockaddr': 'struct sockaddr', 'socklen_t': 'socklen_t', 'ucontext_t': 'ucontext_t', 'stack_t': 'stack_t',
    '__uint8_t': 'uint8_t', '__uint16_t': 'uint16_t', '__uint32_t': 'uint32_t', '__uint64_t': 'uint64_t',
}
INT_RANGE = {
    '_Bool': (0, 1), 'char': (-128, 127), 'signed char': (-128, 127), 'unsigned char': (0, 255), 'uint8_t': (0, 255), 'int8_t': (-128, 127),
    'short': (-2**15, 2**15 - 1), 'unsigned short': (0, 2**16 - 1), 'uint16_t': (0, 2**16 - 1), 'int16_t': (-2**15, 2**15 - 1),
    'int': (-2**31, 2**31 - 1), 'unsigned int': (0, 2**32 - 1), 'uint32_t': (0, 2**32 - 1), 'int32_t': (-2**31, 2**31 - 1),
    'long': (-2**63, 2**63 - 1), 'unsigned long': (0, 2**64 - 1), 'uint64_t': (0, 2**64 - 1), 'int64_t': (-2**63, 2**63 - 1),
    'long long': (-2**63, 2**63 - 1), 'unsigned long long': (0, 2**64 - 1), 'size_t': (0, 2**64 - 1), 'ssize_t': (-2**63, 2**63 - 1),
}

FUNC_KINDS = ('FunctionDecl', 'CXXMethodDecl', 'CXXConstructorDecl', 'CXXDestructorDecl', 'CXXConversionDecl')
REC_KINDS = ('CXXRecordDecl', 'RecordDecl', 'ClassTemplateSpecializationDecl')
PASS_THROUGH = ('ExprWithCleanups', 'MaterializeTemporaryExpr', 'CXXBindTemporaryExpr', 'ConstantExpr', 'SubstNonTypeTemplateParmExpr', 'FullExpr')

def split_top(s, sep=','):
    out = []; depth = 0; cur = ''
    for ch in s:
        if ch in '(<[': depth += 1
        elif ch in ')>]': depth -= 1
        if ch == sep and depth == 0:
            out.append(cur.strip()); cur = ''
        else:
            cur += ch
    if cur.strip(): out.append(cur.strip())
    return out

def fn_param_types(qt):
    """'size_t (const char *, size_t) const noexcept' -> (ret, [params], is_const)"""
    depth = 0; start = None; end = None
    # find the top-level parameter list: the first '(' at depth 0 that is not '(*)' / '(&)'
    i = 0
    while i < len(qt):
        ch = qt[i]
        if ch == '<': depth += 1
        elif ch == '>': depth -= 1
        elif ch == '(' and depth == 0:
            # find matching
            d2 = 0; j = i
            while j < len(qt):
                if qt[j] == '(': d2 += 1
                elif qt[j] == ')':
                    d2 -= 1
                    if d2 == 0: break
                j += 1
            inner = qt[i + 1:j]
            if inner.strip() in ('*', '&', '*const'):
                i = j + 1; continue
            start, end = i, j; break
        i += 1
    if start is None:
        raise Unsupported('function type ' + qt)
    ret = qt[:start].strip(); params = split_top(qt[start + 1:end]); tail = qt[end + 1:]
    if params == ['void']: params = []
    return ret, params, bool(re.search(r'\bconst\b', tail))


class Unit:
    """One extraction unit: AST docs + selection + models + spec insertions -> C text."""

    def __init__(self, docs, models=None, strip_prefix='tbox::', drop_calls=(), spec=None, stubs=(), opaque_records=None, rename=None):
        self.docs = docs
        self.models = models
        self.strip_prefix = strip_prefix
        self.drop_calls = set(drop_calls) | {'LogPrintfFunc', 'LogPrintf'}
        self.spec = spec or {}
        self.stub_names = set(stubs)       # emitted C names that are declared only (contract supplied by spec)
        self.opaque_records = opaque_records or {}  # qualified name -> C type text
        self.rename = rename or {}
        self.by_id = {}        # decl id -> node
        self.qname = {}        # decl id -> qualified name
        self.parent = {}       # decl id -> parent decl node (record / namespace)
        self.canon = {}        # decl id -> canonical id (first declaration)
        self.defn = {}         # canonical id -> node with body (functions) / complete definition (records)
        self.records = {}      # qualified name -> node (complete definition)
        self.enums = {}        # qualified name -> node
        self.typedefs = {}     # qualified name -> underlying qualType
        self.cname = {}        # canonical id -> emitted C name
        self.dropped = []      # dropped calls (for evidence)
        self.kinds_seen = {}
        self.emitted_types = {}   # C struct name -> text
        self.type_order = []
        self.emitted_globals = {} # C name -> text
        self.global_order = []
        self.emitted_protos = {}
        self.emitted_funcs = {}
        self.func_order = []
        self.work = []
        self.lifted = []          # lifted lambdas
        self.local_decls = {}     # VarDecl id -> node (locals, for lambda captures)
        self.member_alias = {}; self.alias_names = {}
        self.tmp_counter = 0
        self._index()

    # ------------------------------------------------------------------ indexing
    def _index(self):
        def walk(n, ctx, parent):
            k = n.get('kind')
            if k is None: return
            nid = n.get('id')
            name = n.get('name')
            if nid and k.endswith('Decl'):
                self.by_id[nid] = n
                self.parent[nid] = parent
                if k == 'NamespaceDecl':
                    q = ctx + [name] if name else ctx   # anonymous namespace is transparent
                    for c in n.get('inner', []): walk(c, q, parent)
                    return
                q = '::'.join(ctx + [name]) if name else '::'.join(ctx + ['<anon>'])
                pid0 = n.get('parentDeclContextId')
                if k in REC_KINDS and name and pid0 in self.qname and pid0 in self.by_id and self.by_id[pid0].get('kind') in REC_KINDS and parent is None:
                    q = self.qname[pid0] + '::' + name      # out-of-line definition of a nested class (class Outer::Inner { ... })
                    ctx = self.qname[pid0].split('::')
                self.qname[nid] = q
                if k in REC_KINDS:
                    if n.get('completeDefinition') or any(c.get('kind') == 'FieldDecl' for c in n.get('inner', [])):
                        if k == 'ClassTemplateSpecializationDecl':
                            q = q + self._targs(n)
                            self.qname[nid] = q
                        self.records.setdefault(q, n)
                    for c in n.get('inner', []):
                        if c.get('kind') == k and c.get('isImplicit'): continue   # injected class name
                        walk(c, ctx + [name or '<anon>'] if k != 'ClassTemplateSpecializationDecl' else ctx + [(name or '') + self._targs(n)], n)
                    return
                if k == 'EnumDecl':
                    if not name:
                        first = [c['name'] for c in n.get('inner', []) if c.get('kind') == 'EnumConstantDecl']
                        q = '::'.join(ctx + ['anon_enum_' + (first[0] if first else nid)]); self.qname[nid] = q
                    self.enums[q] = n
                    for c in n.get('inner', []):
                        if c.get('kind') == 'EnumConstantDecl':
                            self.by_id[c['id']] = c; self.parent[c['id']] = n
                            scoped = n.get('scopedEnumTag')
                            self.qname[c['id']] = (q + '::' + c['name']) if scoped else '::'.join(ctx + [c['name']])
                    return
                if k in ('TypedefDecl', 'TypeAliasDecl'):
                    t = n.get('type', {})
                    self.typedefs[q] = t.get('desugaredQualType') or t.get('qualType')
                    self.typedefs.setdefault(name, self.typedefs[q])
                    return
                if k in ('ClassTemplateDecl', 'FunctionTemplateDecl'):
                    for c in n.get('inner', []): walk(c, ctx, parent)
                    return
                if k in FUNC_KINDS:
                    # out-of-line definitions: qualified by parentDeclContextId
                    pid = n.get('parentDeclContextId')
                    if pid and pid in self.qname and pid in self.by_id and self.by_id[pid].get('kind') in REC_KINDS:
                        self.qname[nid] = self.qname[pid] + '::' + name
                        self.parent[nid] = self.by_id[pid]
                    for c in n.get('inner', []):
                        if c.get('kind') == 'ParmVarDecl': self.by_id[c['id']] = c
                    return
                return
            for c in n.get('inner', []): walk(c, ctx, parent)
        for d in self.docs:
            q = d.get('__qual')
            ctx = []
            if q and d.get('name') and (q == d['name'] or q.endswith('::' + d['name'])):
                ctx = [x for x in q.split('::')[:-1] if x and x != '(anonymous namespace)' and x != '(anonymous)']
            walk(d, ctx, None)
        # canonical ids
        for nid, n in self.by_id.items():
            if n.get('kind') in FUNC_KINDS or n.get('kind') == 'VarDecl':
                c = nid; seen = set()
                while c in self.by_id and self.by_id[c].get('previousDecl') and c not in seen:
                    seen.add(c); c = self.by_id[c]['previousDecl']
                self.canon[nid] = c
        for nid, n in self.by_id.items():
            if n.get('kind') in FUNC_KINDS and any(c.get('kind') in ('CompoundStmt', 'CXXTryStmt') for c in n.get('inner', [])):
                self.defn[self.canon[nid]] = n
            # explicitly defaulted functions have no body: treat as defined with empty body when constructors
        # out-of-line method defs may precede being matched to the in-class decl only through previousDecl (already handled)

    def _targs(self, n):
        args = []
        for c in n.get('inner', []):
            if c.get('kind') == 'TemplateArgument':
                if 'type' in c: args.append(c['type']['qualType'])
                elif 'value' in c: args.append(str(c['value']))
        return '<' + ', '.join(args) + '>'

    # ------------------------------------------------------------------ names
    def mangle(self, q):
        if q in self.rename: return self.rename[q]
        if self.strip_prefix and q.startswith(self.strip_prefix): q = q[len(self.strip_prefix):]
        q = q.replace('operator==', 'op_eq').replace('operator!=', 'op_ne').replace('operator<<', 'op_shl').replace('operator>>', 'op_shr')
        q = q.replace('operator=', 'assign').replace('operator[]', 'op_index').replace('operator()', 'op_call').replace('operator<', 'op_lt')
        q = q.replace('operator bool', 'op_bool').replace('operator+=', 'op_addassign').replace('operator+', 'op_add').replace('operator-', 'op_sub')
        q = q.replace('operator', 'op_')
        q = q.replace('~', 'dtor_')
        return re.sub(r'[^A-Za-z0-9_]', '_', q.replace('::', '_'))

    def type_abbrev(self, t):
        t = t.replace('const ', 'K').replace(' const', 'K').replace('unsigned ', 'u')
        t = t.replace('*', 'p').replace('&&', 'rr').replace('&', 'r').replace('::', '_')
        return re.sub(r'[^A-Za-z0-9_]', '', t)

    def func_cname(self, cid):
        if cid in self.cname: return self.cname[cid]
        n = self.by_id[cid]
        q = self.qname.get(cid)
        if q is None: raise Unsupported('function without qualified name: ' + n.get('name', '?'))
        if n['kind'] == 'CXXConstructorDecl': q = q.rsplit('::', 1)[0] + '::ctor'
        elif n['kind'] == 'CXXDestructorDecl': q = q.rsplit('::', 1)[0] + '::dtor'
        elif n['kind'] == 'CXXConversionDecl': q = q.rsplit('::', 1)[0] + '::conv_' + self.type_abbrev(n['name'].replace('operator ', ''))
        # overloaded?
        sibs = set()
        for oid, on in self.by_id.items():
            if on.get('kind') in FUNC_KINDS and self.canon.get(oid) != cid:
                oq = self.qname.get(oid)
                if on['kind'] == 'CXXConstructorDecl' and oq: oq = oq.rsplit('::', 1)[0] + '::ctor'
                if oq == q and not on.get('isImplicit'): sibs.add(self.canon.get(oid))
        base = self.mangle(q)
        if sibs:
            _, params, is_const = fn_param_types(n['type']['qualType'])
            base = base + '__' + ('_'.join(self.type_abbrev(p) for p in params) if params else 'void') + ('_K' if is_const and n['kind'] == 'CXXMethodDecl' and self._has_nonconst_twin(cid, q, params) else '')
        if base in self.rename: base = self.rename[base]
        self.cname[cid] = base
        return base

    def _has_nonconst_twin(self, cid, q, params):
        for oid, on in self.by_id.items():
            if on.get('kind') == 'CXXMethodDecl' and self.canon.get(oid) != cid and self.qname.get(oid) == q:
                _, p2, c2 = fn_param_types(on['type']['qualType'])
                if p2 == params and not c2: return True
        return False

    # ------------------------------------------------------------------ types
    def resolve_named(self, name):
        """base type name (no cv/ptr/ref) -> C type text, or None"""
        name = name.strip()
        for kw in ('struct ', 'class ', 'enum ', 'union '):
            if name.startswith(kw): name = name[len(kw):]
        if name in SCALARS: return SCALARS[name]
        mm = re.match(r'^std::(?:unordered_)?map<(.*)>::mapped_type$', name)
        if mm:
            # the mapped type of a std::map: its second template argument (top-level comma split)
            depth = 0; parts = ['']
            for ch in mm.group(1):
                if ch == '<': depth += 1
                if ch == '>': depth -= 1
                if ch == ',' and depth == 0: parts.append(''); continue
                parts[-1] += ch
            if len(parts) >= 2:
                try: return self.ctype(parts[1].strip())
                except Unsupported: return None
        if name.endswith('::size_type'): return 'size_t'
        if name.endswith('::difference_type'): return 'ptrdiff_t'
        if name in self.opaque_records: return self.opaque_records[name]
        for oq, oc in self.opaque_records.items():
            if oq.endswith('::' + name) or name.endswith('::' + oq): return oc
        if self.models:
            m = self.models.type_for(name, self)
            if m: return m
        cands = [q for q in self.records if q == name or q.endswith('::' + name)]
        if not cands: cands = [q for q in self.records if name.endswith('::' + q)]     # dumped through a partial filter (e.g. cabinet::Token)
        if len(cands) >= 1:
            q = sorted(cands, key=len)[0] if name not in self.records else name
            self.need_record(q)
            return 'struct ' + self.mangle(q)
        cands = [q for q in self.enums if q == name or q.endswith('::' + name)]
        if cands:
            q = sorted(cands, key=len)[0] if name not in self.enums else name
            return self.enum_ctype(q)
        if name in self.typedefs:
            return self.ctype(self.typedefs[name])
        cands = [q for q in self.typedefs if q.endswith('::' + name)]
        if cands:
            return self.ctype(self.typedefs[sorted(cands, key=len)[0]])
        return None

    def enum_ctype(self, q):
        n = self.enums[q]
        u = n.get('fixedUnderlyingType', {}).get('qualType')
        self.need_enum(q)
        if u:
            r = self.resolve_named(u)
            if r: return r
        return 'int'

    def ctype(self, qt):
        """C++ type string -> C declarator prefix text (no trailing space). References become pointers."""
        t, _ = self.ctype2(qt)
        return t

    def ctype2(self, qt):
        qt = qt.strip().replace('(anonymous namespace)::', '')
        if re.match(r'^[^()]*\(\*(const)?\)\s*\(.*\)$', qt):
            return 'v_fnptr', False       # pointer to function: an opaque code address; calls through it are stubs (models.indirect_call)
        is_ref = False
        if qt.endswith('&&'): qt = qt[:-2].strip(); is_ref = True
        elif qt.endswith('&'): qt = qt[:-1].strip(); is_ref = True
        # arrays are handled by decl printing (ctype_decl)
        suffix = ''
        while True:
            m = re.search(r'\*\s*(const|volatile|__restrict)?\s*$', qt)
            if m:
                qt = qt[:m.start()].strip(); suffix = '*' + suffix; continue
            break
        const = ''
        if qt.startswith('const '): qt = qt[6:].strip(); const = 'const '
        if qt.endswith(' const'): qt = qt[:-6].strip(); const = 'const '
        if qt.startswith('volatile '): qt = qt[9:].strip()
        if re.search(r'\((unnamed|anonymous) enum at [^)]*\)$', qt):
            return (const + 'int' + (' ' + suffix if suffix else '') + ('*' if is_ref else '')), is_ref
        if '(' in qt and not qt.endswith('>'):
            raise Unsupported('function/pointer-to-function type ' + qt)
        base = self.resolve_named(qt)
        if base is None: raise Unsupported('type ' + qt)
        if base.startswith('handle:'):
            # opaque record that the unit only ever holds by pointer: T* is an integer handle (never dereferenced)
            if not suffix: raise Unsupported('opaque handle type %s used by value' % qt)
            base = base[len('handle:'):]; suffix = suffix[1:]; const = ''
        if base.startswith('struct ') or '*' in base: const = ''     # cv on records is dropped
        return (const + base + (' ' + suffix if suffix else '') + ('*' if is_ref else '')).replace(' **', ' **'), is_ref

    def type_of(self, n):
        t = n.get('type', {})
        return t.get('qualType', '')

    def ctype_node(self, n):
        """C type for a node's type, trying qualType first then the desugared form."""
        t = n.get('type', {})
        try:
            return self.ctype2(t['qualType'])
        except Unsupported:
            if 'desugaredQualType' in t: return self.ctype2(t['desugaredQualType'])
            raise

    def decl_text(self, n, name):
        """declaration text 'T name' / 'T name[N]' for a Var/Field/Parm node"""
        t = n.get('type', {})
        last = None
        for qt in (t.get('qualType'), t.get('desugaredQualType')):
            if not qt: continue
            try:
                m = re.match(r'^(.*?)((\s*\[\d*\])+)$', qt.strip())
                if m:
                    return '%s %s%s' % (self.ctype(m.group(1)), name, m.group(2).replace(' ', '')), False
                mv = re.match(r'^(.*?)\[([^\[\]]+)\]$', qt.strip())
                if mv and n.get('kind') == 'VarDecl' and re.match(r'^[A-Za-z_0-9 +\-*()]+$', mv.group(2)):
                    # variable-length array (GNU C++ extension, C99): the size expression is printed as written (local names are kept)
                    return '%s %s[%s]' % (self.ctype(mv.group(1)), name, mv.group(2)), False
                ct, is_ref = self.ctype2(qt)
                return '%s %s' % (ct, name), is_ref
            except Unsupported as e:
                last = e
        raise last

    # ------------------------------------------------------------------ records / enums / globals
    def need_enum(self, q):
        cn = 'enum_' + self.mangle(q)
        if cn in self.emitted_types: return
        n = self.enums[q]
        lines = []; val = -1
        for c in n.get('inner', []):
            if c.get('kind') != 'EnumConstantDecl': continue
            ks = self.kids(c)
            if ks:
                val = self.const_int(ks[0])
                if val is None: raise Unsupported('enum initialiser of ' + c['name'])
            else:
                val += 1
            lines.append('  %s = %d' % (self.mangle(self.qname[c['id']]), val))
        vals = [int(l.rsplit('=', 1)[1]) for l in lines] or [0]
        self.emitted_types[cn] = 'enum %s {\n%s\n};\nenum { %s__MAX = %d, %s__MIN = %d };' % (cn, ',\n'.join(lines), cn, max(vals), cn, min(vals))
        self.type_order.append(cn)

    def record_fields(self, n):
        return [f for f in n.get('inner', []) if f.get('kind') == 'FieldDecl']

    def record_bases(self, n):
        return [b['type'].get('desugaredQualType') or b['type']['qualType'] for b in n.get('bases', [])]

    def need_record(self, q):
        cn = self.mangle(q)
        if cn in self.emitted_types: return
        self.emitted_types[cn] = None     # in progress
        n = self.records[q]
        lines = []
        for b in self.record_bases(n):
            bt = self.resolve_named(b)
            if bt is None: raise Unsupported('base class ' + b)
            lines.append('  %s __base_%s;' % (bt, re.sub(r'\W', '_', bt.replace('struct ', ''))))
        if n.get('tagUsed') == 'union':
            kw = 'union'
        else:
            kw = 'struct'
        named_unnamed = {}; last_unnamed = None      # field id -> the unnamed record that is its type (struct { ... } name;)
        for c in n.get('inner', []):
            if c.get('kind') in REC_KINDS and not c.get('name'): last_unnamed = c
            elif c.get('kind') == 'FieldDecl' and c.get('name') and re.search(r'\((unnamed|anonymous) (struct|union) at ', c.get('type', {}).get('qualType', '')) and last_unnamed is not None:
                named_unnamed[c['id']] = last_unnamed
        consumed = set(id(x) for x in named_unnamed.values())
        for f in self.record_fields(n):
            if not f.get('name'): continue      # the implicit field of an anonymous union/struct
            if f['id'] in named_unnamed:
                c = named_unnamed[f['id']]
                inner = ['    %s;' % self.decl_text(g, g['name'])[0] for g in self.record_fields(c)]
                lines.append('  %s {\n%s\n  } %s;' % (c.get('tagUsed', 'struct'), '\n'.join(inner), f['name']))
                continue
            txt, is_ref = self.decl_text(f, f['name'])
            lines.append('  %s;' % txt)
        anon_done = set()
        for c in n.get('inner', []):
            if c.get('kind') in REC_KINDS and not c.get('name') and self.record_fields(c) and id(c) not in consumed:
                inner = []
                for f in self.record_fields(c):
                    txt, _ = self.decl_text(f, f['name']); inner.append('    %s;' % txt)
                # C11 anonymous union/struct: members are accessed directly, exactly as in C++
                lines = [l for l in lines if not re.match(r'^  \S.* ;$', l)]
                W8 = ('unsigned long', 'long', 'size_t', 'uint64_t', 'int64_t', 'v_handle_t', 'ssize_t')
                tys = [self.decl_text(f, f['name'])[0].rsplit(' ', 1)[0] for f in self.record_fields(c)]
                if c.get('tagUsed') == 'union' and len(tys) > 1 and all(t in W8 for t in tys):
                    # a union of same-width integers (after opaque pointers became handles) is ONE 64-bit cell: the other member
                    # names alias the first one.  (CBMC gives the members of a nondeterministic union inside an array
                    # inconsistent values, measured; the aliasing is exact for equal-width integer members.)
                    fs = self.record_fields(c)
                    lines.append('  %s %s;' % (tys[0], fs[0]['name']))
                    for f in fs[1:]: self.member_alias[(cn, f['name'])] = fs[0]['name']; self.alias_names[f['name']] = fs[0]['name']
                else:
                    lines.append('  %s {\n%s\n  };' % (c.get('tagUsed', 'struct'), '\n'.join(inner)))
        if not lines: lines.append('  char __empty;')
        extra = self.spec.get(('ghost_fields', cn))
        if extra: lines.append(extra)
        self.emitted_types[cn] = '%s %s {\n%s\n};' % ('struct', cn, '\n'.join(lines)) if kw == 'struct' else 'struct %s { union {\n%s\n}; };' % (cn, '\n'.join(lines))
        self.type_order.append(cn)

    def need_global(self, vid):
        cid = self.canon.get(vid, vid)
        n = self.by_id[cid]
        # find the declaration carrying the initialiser
        cands = [x for i, x in self.by_id.items() if self.canon.get(i) == cid and x.get('kind') == 'VarDecl' and self.kids(x)]
        if cands: n = cands[0]
        cn = self.mangle(self.qname[cid])
        if cn in self.emitted_globals: return cn
        self.emitted_globals[cn] = None
        txt, is_ref = self.decl_text(n, cn)
        if is_ref: raise Unsupported('global reference ' + cn)
        ks = self.kids(n)
        qt = n['type']['qualType']
        is_const = qt.startswith('const ') or n.get('constexpr')
        m = re.match(r'^(.*?)\[(\d*)\]$', qt.strip())
        if n.get('constexpr') and not txt.startswith('const '): txt = 'const ' + txt
        ctg = txt.rsplit(' ', 1)[0].replace('const ', '')
        if ks and self.models and self.models.is_model_type(ctg):
            self.emitted_globals[cn] = 'static %s;   /* global of a modelled type: contents abstract */' % txt.replace('const ', '')
        elif ks:
            try:
                init = self.static_init(ks[0], qt)
                self.emitted_globals[cn] = 'static %s = %s;' % (txt, init)
            except Unsupported:
                if not ctg.startswith('struct ') or is_const: raise
                # a mutable record global with a dynamic initialiser: declared without it.  goto-instrument --dfcc makes every mutable
                # static nondeterministic at the start of the harness anyway; what the code relies on must be a precondition of the spec.
                self.dropped.append('dynamic initialiser of global %s (contents: spec precondition)' % cn)
                self.emitted_globals[cn] = 'static %s;' % txt
        else:
            self.emitted_globals[cn] = 'static %s;' % txt
        self.global_order.append(cn)
        return cn

    def static_init(self, e, qt):
        while e['kind'] in PASS_THROUGH or e['kind'] in ('ImplicitCastExpr',) and e.get('castKind') in ('NoOp', 'IntegralCast', 'LValueToRValue', 'ArrayToPointerDecay') and e['kind'] != 'InitListExpr':
            v = self.const_int(e)
            if v is not None: return self.int_lit(v, self.type_of(e))
            e = self.kids(e)[0]
        if e['kind'] == 'InitListExpr':
            items = []
            elems = self.kids(e)
            if 'array_filler' in e:
                elems = [x for x in e['array_filler'] if x.get('kind') != 'ImplicitValueInitExpr']
            for x in elems:
                items.append(self.static_init(x, self.type_of(x)))
            return '{' + ', '.join(items) + '}'
        if e['kind'] == 'StringLiteral': return e['value']
        if e['kind'] == 'ImplicitValueInitExpr': return '0'
        v = self.const_int(e)
        if v is None: raise Unsupported('non-constant static initialiser (%s)' % e['kind'])
        return self.int_lit(v, self.type_of(e))

    def int_lit(self, v, qt):
        try: ct = self.ctype(qt)
        except Unsupported: ct = 'int'
        ct = ct.replace('const ', '')
        if ct in ('unsigned long', 'uint64_t', 'size_t', 'unsigned long long'): return '%dUL' % v
        if ct in ('long', 'int64_t', 'ssize_t', 'long long'):
            return '%dL' % v if v > -2**63 else '(-9223372036854775807L-1)'
        if ct in ('unsigned int', 'uint32_t'): return '%dU' % v
        if ct == 'int' and v == -2**31: return '(-2147483647-1)'
        return str(v)

    def const_int(self, e):
        """fold an integer constant expression; None if not constant"""
        k = e['kind']
        if k == 'ConstantExpr' and 'value' in e:
            try: return int(e['value'])
            except ValueError: pass
        if k in PASS_THROUGH or k == 'ParenExpr': return self.const_int(self.kids(e)[0])
        if k == 'IntegerLiteral': return int(e['value'])
        if k == 'CharacterLiteral': return int(e['value'])
        if k == 'CXXBoolLiteralExpr': return 1 if e['value'] else 0
        if k in ('ImplicitCastExpr', 'CStyleCastExpr', 'CXXStaticCastExpr', 'CXXFunctionalCastExpr'):
            v = self.const_int(self.kids(e)[-1])
            if v is None: return None
            return self.wrap(v, self.type_of(e))
        if k == 'DeclRefExpr':
            r = e['referencedDecl']
            if r['kind'] == 'EnumConstantDecl':
                return self.enum_value(r['id'])
            if r['kind'] == 'VarDecl' and r['id'] in self.by_id:
                vn = self.by_id[r['id']]
                qt = vn['type']['qualType']
                if (qt.startswith('const ') or vn.get('constexpr')) and '[' not in qt and '*' not in qt:
                    ks = self.kids(vn)
                    if ks: return self.const_int(ks[0])
            return None
        if k == 'UnaryOperator':
            v = self.const_int(self.kids(e)[0])
            if v is None: return None
            op = e['opcode']
            if op == '-': return self.wrap(-v, self.type_of(e))
            if op == '~': return self.wrap(~v, self.type_of(e))
            if op == '+': return v
            if op == '!': return 0 if v else 1
            return None
        if k == 'BinaryOperator':
            a, b = [self.const_int(x) for x in self.kids(e)]
            if a is None or b is None: return None
            op = e['opcode']
            try:
                r = {'+': lambda: a + b, '-': lambda: a - b, '*': lambda: a * b, '<<': lambda: a << b, '>>': lambda: a >> b,
                     '|': lambda: a | b, '&': lambda: a & b, '^': lambda: a ^ b,
                     '/': lambda: int(a / b) if b else None, '%': lambda: (a - int(a / b) * b) if b else None,
                     '==': lambda: int(a == b), '!=': lambda: int(a != b), '<': lambda: int(a < b), '>': lambda: int(a > b),
                     '<=': lambda: int(a <= b), '>=': lambda: int(a >= b), '&&': lambda: int(bool(a) and bool(b)), '||': lambda: int(bool(a) or bool(b))}[op]()
            except KeyError:
                return None
            if r is None: return None
            return self.wrap(r, self.type_of(e))
        if k == 'UnaryExprOrTypeTraitExpr':
            return None
        return None

    def enum_value(self, cid):
        en = self.parent.get(cid)
        if en is None: return None
        val = -1
        for c in en.get('inner', []):
            if c.get('kind') != 'EnumConstantDecl': continue
            ks = self.kids(c)
            if ks:
                val = self.const_int(ks[0])
                if val is None: return None
            else: val += 1
            if c['id'] == cid: return val
        return None

    def wrap(self, v, qt):
        try: ct = self.ctype(qt).replace('const ', '')
        except Unsupported: return v
        if ct.startswith('enum') or ct not in INT_RANGE: return v
        lo, hi = INT_RANGE[ct]
        if ct == '_Bool': return 1 if v else 0
        span = hi - lo + 1
        return (v - lo) % span + lo

    # ------------------------------------------------------------------ helpers
    def kids(self, n):
        return [c for c in n.get('inner', []) if c.get('kind') and not c['kind'].endswith('Comment')]

    def strip(self, n):
        while n['kind'] in PASS_THROUGH or n['kind'] == 'ParenExpr' or (n['kind'] == 'ImplicitCastExpr'):
            n = self.kids(n)[0]
        return n

    def strip_tmp(self, n):
        while n['kind'] in PASS_THROUGH:
            n = self.kids(n)[0]
        return n

    def new_tmp(self, prefix='__t'):
        self.tmp_counter += 1
        return '%s%d' % (prefix, self.tmp_counter)

    def seen(self, k): self.kinds_seen[k] = self.kinds_seen.get(k, 0) + 1

    # ------------------------------------------------------------------ expressions
    def expr(self, n):
        k = n['kind']; self.seen(k)
        m = getattr(self, 'e_' + k, None)
        if m is None: raise Unsupported('expression kind %s (in %s)' % (k, self.cur))
        return m(n)

    def e_ParenExpr(self, n): return '(' + self.expr(self.kids(n)[0]) + ')'
    def e_ExprWithCleanups(self, n): return self.expr(self.kids(n)[0])
    e_MaterializeTemporaryExpr = e_CXXBindTemporaryExpr = e_SubstNonTypeTemplateParmExpr = e_FullExpr = e_ExprWithCleanups
    def e_ConstantExpr(self, n):
        v = self.const_int(n)
        if v is not None and self.is_intlike(n): return self.int_lit(v, self.type_of(n))
        return self.expr(self.kids(n)[0])
    def is_intlike(self, n):
        try: ct = self.ctype_node(n)[0].replace('const ', '')
        except Unsupported: return False
        return ct in INT_RANGE
    def e_IntegerLiteral(self, n): return self.int_lit(int(n['value']), self.type_of(n))
    def e_CharacterLiteral(self, n): return str(int(n['value']))
    def e_StringLiteral(self, n): return n['value']
    def e_FloatingLiteral(self, n): return n['value']
    def e_CXXBoolLiteralExpr(self, n): return '1' if n['value'] else '0'
    def e_CXXNullPtrLiteralExpr(self, n): return '((void*)0)'
    def null_of(self, n):
        try: ct = self.ctype_node(n)[0]
        except Unsupported: return '((void*)0)'
        return '((void*)0)' if ct.strip().endswith('*') else '((%s)0)' % ct
    def e_GNUNullExpr(self, n): return '((void*)0)'
    def e_CXXThisExpr(self, n): return 'self'
    def e_ImplicitValueInitExpr(self, n): return '0'
    def e_CXXScalarValueInitExpr(self, n): return '0'
    def e_CXXDefaultArgExpr(self, n):
        ks = self.kids(n)
        if ks: return self.expr(ks[0])
        raise Unsupported('default argument without expression (in %s)' % self.cur)
    def e_UnaryExprOrTypeTraitExpr(self, n):
        if n.get('name') != 'sizeof': raise Unsupported('trait ' + str(n.get('name')))
        ks = self.kids(n)
        if ks: return 'sizeof(%s)' % self.expr(ks[0])
        at = n.get('argType', {})
        return 'sizeof(%s)' % self.ctype(at.get('qualType'))
    def e_DeclRefExpr(self, n):
        r = n['referencedDecl']; rk = r['kind']
        if rk in FUNC_KINDS:
            return self.func_ref(r)
        if rk == 'EnumConstantDecl':
            v = self.enum_value(r['id'])
            if v is None:
                if self.models:
                    mv = self.models.enum_constant(r['name'])
                    if mv is not None: return mv
                if re.match(r'^(MSG_[A-Z]+|SHUT_(RD|WR|RDWR)|SOCK_(STREAM|DGRAM|NONBLOCK|CLOEXEC)|IPPROTO_[A-Z]+)$', r['name']):
                    return r['name']         # enumerator of <sys/socket.h> / <netinet/in.h> (included by models/libc_model.h): the C compiler resolves it
                raise Unsupported('enumerator %s outside the unit' % r['name'])
            en = self.parent[r['id']]
            self.need_enum(self.qname[en['id']])
            return self.mangle(self.qname[r['id']])
        if rk in ('VarDecl', 'ParmVarDecl', 'BindingDecl'):
            name = r['name']
            vid = r['id']
            if vid in self.local_names:
                nm, is_ref = self.local_names[vid]
                return '(*%s)' % nm if is_ref else nm
            if vid in self.capture_map:
                return self.capture_map[vid]
            if vid in self.by_id and self.by_id[vid]['kind'] == 'VarDecl':
                vn = self.by_id[vid]
                # file-scope constant scalars are folded
                v = self.const_int(n)
                if v is not None and self.is_intlike(n): return self.int_lit(v, self.type_of(n))
                return self.need_global(vid)
            if self.models:
                mv = self.models.global_var(name)
                if mv is not None: return mv
            if any(x.get('kind') == 'VarDecl' and x.get('name') == name for x in self.by_id.values()):
                raise Unsupported('the AST dumps disagree on node ids for %s (filters of one unit must have lengths 7..22 so that clang lays its heap out identically) (in %s)' % (name, self.cur))
            raise Unsupported('reference to %s %s outside the unit (in %s)' % (rk, name, self.cur))
        raise Unsupported('DeclRefExpr to ' + rk)

    def func_ref(self, r):
        cid = self.canon.get(r['id'])
        if cid is not None and (cid in self.defn or self.func_cname(cid) in self.stub_names or self.want_stub(cid)):
            self.need_func(cid)
            return self.func_cname(cid)
        raise Unsupported('function reference %s outside the unit (in %s)' % (r['name'], self.cur))

    def want_stub(self, cid):
        nm = self.func_cname(cid)
        return ('stub', nm) in self.spec or nm in self.stub_names or (('contract', nm) in self.spec and cid not in self.defn)

    def e_MemberExpr(self, n):
        base = self.kids(n)[0]
        bt = self.strip_tmp(base)
        b = self.expr(base)
        md = n.get('referencedMemberDecl')
        if md in self.by_id and self.by_id[md]['kind'] in FUNC_KINDS:
            raise Unsupported('bound member function as value')
        if md in self.by_id and self.by_id[md]['kind'] == 'VarDecl':   # static data member
            return self.need_global(md)
        if not n.get('name'):
            # member access through the implicit field of an anonymous union/struct: transparent
            return '(*%s)' % b if n.get('isArrow') else b
        if md not in self.by_id:
            if self.models:
                r = self.models.member_access(self, n, b)
                if r is not None: return r
            raise Unsupported('member %s of a type outside the unit (in %s)' % (n.get('name'), self.cur))
        txt = '%s%s%s' % (b, '->' if n.get('isArrow') else '.', self.alias_names.get(n['name'], n['name']))
        if self.by_id[md].get('type', {}).get('qualType', '').rstrip().endswith('&'):
            txt = '(*%s)' % txt        # a reference member is stored as a pointer: using it means the object it refers to
        # guarded-by discipline (spec key ('guarded_by', <C struct>): {field: condition over B = pointer to the object}):
        # every read or write of the field, anywhere in the unit, is preceded by an assertion of the condition
        rec = self.parent.get(md)
        if rec is not None and rec.get('id') in self.qname:
            g = self.spec.get(('guarded_by', self.mangle(self.qname[rec['id']])))
            if g and n['name'] in g and not self.spec.get(('unguarded', self.cur)):
                self.used_keys.add(('guarded_by', self.mangle(self.qname[rec['id']])))
                bp = b if n.get('isArrow') else self.addr_text(b)
                fn = 'v_guarded__%s__%s' % (self.mangle(self.qname[rec['id']]), n['name'])
                if fn not in self.emitted_protos:
                    self.emitted_protos[fn] = 'static inline void %s(_Bool ok) { __CPROVER_assert(ok, "guarded-by: %s is only accessed with its guard held"); }' % (fn, n['name'])
                    self.emitted_funcs[fn] = ''
                return '(*(%s(%s), &(%s)))' % (fn, g[n['name']].replace('B', '(%s)' % bp), txt)
        return txt

    def cast_to(self, n, inner):
        ct, _ = self.ctype_node(n)
        return '((%s)(%s))' % (ct, inner)

    def e_ImplicitCastExpr(self, n):
        ck = n.get('castKind'); sub = self.kids(n)[0]
        if ck in ('LValueToRValue', 'NoOp', 'ArrayToPointerDecay', 'FunctionToPointerDecay', 'ConstructorConversion', 'UserDefinedConversion'):
            return self.expr(sub)
        if ck == 'NullToPointer':
            try: ct = self.ctype_node(n)[0]
            except Unsupported: ct = 'void *'
            return '((void*)0)' if ct.strip().endswith('*') else '((%s)0)' % ct
        if ck in ('IntegralCast', 'IntegralToBoolean', 'PointerToBoolean', 'IntegralToPointer', 'PointerToIntegral', 'BitCast', 'IntegralToFloating', 'FloatingToIntegral', 'FloatingCast', 'BooleanToSignedIntegral', 'FloatingToBoolean'):
            v = self.const_int(n)
            if v is not None and self.is_intlike(n): return self.int_lit(v, self.type_of(n)) if ck != 'BitCast' else self.cast_to(n, self.expr(sub))
            return self.cast_to(n, self.expr(sub))
        if ck in ('DerivedToBase', 'UncheckedDerivedToBase'):
            return self.to_base(n, sub)
        if ck == 'ToVoid': return '((void)(%s))' % self.expr(sub)
        raise Unsupported('implicit cast kind %s (in %s)' % (ck, self.cur))

    def to_base(self, n, sub):
        inner = self.expr(sub)
        path = n.get('path', [])
        st = self.type_of(sub)
        is_ptr = st.strip().endswith('*')
        e = inner
        try: dt = self.ctype_node(sub)[0]
        except Unsupported: dt = ''
        if dt and self.models and self.models.is_model_type(dt.replace('*', '').strip()):
            return inner        # model types have no base-class layout: the conversion is the identity
        if dt and not dt.replace('const ', '').strip().startswith('struct ') and dt.replace('const ', '').strip() not in ('', 'void'):
            return inner        # a library class modelled as a scalar (opaque iterator): no layout either
        if any(dt.replace('*', '').strip() == oc for oc in self.opaque_records.values()):
            # opaque records have no layout here: a derived-to-base conversion is a plain pointer cast
            bt = self.resolve_named(path[-1]['name']) if path else None
            if bt is None: raise Unsupported('base of opaque record')
            return '((%s *)(%s))' % (bt, inner) if is_ptr else '(*(%s *)&(%s))' % (bt, inner)
        for p in path:
            bt = self.resolve_named(p['name'])
            if bt is None: raise Unsupported('base ' + p['name'])
            fld = '__base_' + re.sub(r'\W', '_', bt.replace('struct ', ''))
            if is_ptr: e = '(&(%s)->%s)' % (e, fld)
            else: e = '(%s).%s' % (e, fld)
        return e

    def e_CStyleCastExpr(self, n):
        ck = n.get('castKind'); sub = self.kids(n)[-1]
        if ck == 'ConstructorConversion' and self.models:
            r = self.models.construct_expr(self, self.strip_tmp(sub)) if self.strip_tmp(sub)['kind'] in ('CXXConstructExpr', 'CXXTemporaryObjectExpr') else None
            if r is not None: return r
        if ck == 'ToVoid': return '((void)(%s))' % self.expr(sub)
        if ck in ('NoOp', 'LValueToRValue'):
            # still print the cast when the types differ syntactically (e.g. const removal)
            try: return self.cast_to(n, self.expr(sub))
            except Unsupported: return self.expr(sub)
        if ck in ('ConstructorConversion', 'UserDefinedConversion'): return self.expr(sub)
        if ck in ('DerivedToBase', 'UncheckedDerivedToBase', 'BaseToDerived'):
            return self.cast_to(n, self.expr(sub))
        return self.cast_to(n, self.expr(sub))
    e_CXXStaticCastExpr = e_CXXReinterpretCastExpr = e_CXXFunctionalCastExpr = e_CXXConstCastExpr = e_CStyleCastExpr

    def e_BinaryOperator(self, n):
        a, b = self.kids(n); op = n['opcode']
        if op == ',': return '(%s, %s)' % (self.expr(a), self.expr(b))
        if op in ('.*', '->*'): raise Unsupported('pointer to member')
        if op == '=' and self.is_record_type(n):
            return self.record_assign(a, b)
        return '(%s %s %s)' % (self.expr(a), op, self.expr(b))
    e_CompoundAssignOperator = e_BinaryOperator

    def is_record_type(self, n):
        try: ct, is_ref = self.ctype_node(n)
        except Unsupported: return False
        return ct.startswith('struct ') and not ct.strip().endswith('*')

    def record_assign(self, a, b):
        return '(%s = %s)' % (self.expr(a), self.expr(b))

    def e_UnaryOperator(self, n):
        x = self.expr(self.kids(n)[0]); op = n['opcode']
        if op in ('__extension__',): return x
        if op in ('__real', '__imag'): raise Unsupported('complex')
        return '(%s%s)' % (x, op) if n.get('isPostfix') else '(%s%s)' % (op, x)
    def e_ConditionalOperator(self, n):
        c, a, b = self.kids(n); return '(%s ? %s : %s)' % (self.expr(c), self.expr(a), self.expr(b))
    def e_ArraySubscriptExpr(self, n):
        a, b = self.kids(n); return '%s[%s]' % (self.expr(a), self.expr(b))
    def e_InitListExpr(self, n):
        if re.search(r'\((unnamed|anonymous) (struct|union) at ', self.type_of(n)): ct = None      # nested initialiser of an unnamed member type: plain braces
        else: ct, _ = self.ctype_node(n) if '[' not in self.type_of(n) else (None, None)
        items = [self.expr(x) for x in self.kids(n)]
        if ct: return '((%s){%s})' % (ct, ', '.join(items))
        return '{%s}' % ', '.join(items)

    def e_CXXNewExpr(self, n):
        ct, _ = self.ctype_node(n)
        elem = ct.strip()
        ks = self.kids(n)
        if not elem.endswith('*') and not n.get('isArray') and not n.get('isPlacement'):
            # new of an opaque-handle record: the allocation + constructor is a stub the spec gives a contract
            ce = None
            for c in ks:
                if self.strip_tmp(c)['kind'] == 'CXXConstructExpr': ce = self.strip_tmp(c)
            args = self.call_args(self.ctor_type(ce), self.kids(ce)) if ce is not None else []
            self.count_call('v_new__' + elem)
            return 'v_new__%s(%s)' % (elem, ', '.join(args))
        assert elem.endswith('*'); elem = elem[:-1].strip()
        if n.get('isPlacement'):
            if self.models:
                r = self.models.placement_new(self, n)
                if r is not None: return r
            # new (p) T(args) of a record of the unit, p a plain variable: the constructor runs on the storage p points to
            ce = None; place = []
            for c in ks:
                if self.strip_tmp(c)['kind'] == 'CXXConstructExpr': ce = self.strip_tmp(c)
                else: place.append(c)
            if ce is not None and len(place) == 1 and elem.startswith('struct '):
                pv = self.strip(place[0])
                while pv.get('kind') in ('ImplicitCastExpr', 'CStyleCastExpr', 'CXXStaticCastExpr', 'CXXReinterpretCastExpr') and self.kids(pv): pv = self.strip(self.kids(pv)[0])
                if pv.get('kind') == 'DeclRefExpr':
                    ptxt = self.expr(pv)
                    ctor = self.ctor_call_name(ce)
                    args = self.call_args(self.ctor_type(ce), self.kids(ce))
                    return '(%s(%s), (%s)%s)' % (ctor, ', '.join(['(%s)%s' % (ct, ptxt)] + args), ct, ptxt)
            raise Unsupported('placement new (in %s)' % self.cur)
        if n.get('isArray'):
            return '((%s)v_new_array(sizeof(%s), %s))' % (ct, elem, self.expr(ks[0]))
        # scalar new: of a unit record -> allocate + ctor
        ce = None
        for c in ks:
            if self.strip_tmp(c)['kind'] == 'CXXConstructExpr': ce = self.strip_tmp(c)
        if self.models and self.models.is_model_type(elem):
            r = self.models.new_expr(self, n, elem)
            if r is not None: return r
        if elem.startswith('struct '):
            if ce is None: raise Unsupported('new of record without constructor (in %s)' % self.cur)
            ctor = self.ctor_call_name(ce)
            args = self.call_args(self.ctor_type(ce), self.kids(ce))
            fn = self.helper_new(elem, ctor, ce)
            return '%s(%s)' % (fn, ', '.join(args))
        init = self.expr(ks[0]) if ks else None
        if init is None: return '((%s)v_new(sizeof(%s)))' % (ct, elem)
        raise Unsupported('scalar new with initialiser (in %s)' % self.cur)

    def helper_new(self, elem, ctor, ce):
        """emit a static helper `T *new_T_ctor(args){ T *p = v_new(sizeof(T)); ctor(p,args); return p; }`"""
        name = 'v_new__' + ctor
        if name not in self.emitted_funcs:
            _, params, _ = fn_param_types(self.ctor_type(ce))
            ps = []; an = []
            for i, p in enumerate(params):
                ps.append('%s a%d' % (self.ctype(p), i)); an.append('a%d' % i)
            proto = 'static %s *%s(%s)' % (elem, name, ', '.join(ps) or 'void')
            self.emitted_protos[name] = proto + ';'
            self.emitted_funcs[name] = '%s\n{\n  %s *p = (%s *)v_new(sizeof(%s));\n  %s(%s);\n  return p;\n}\n' % (proto, elem, elem, elem, ctor, ', '.join(['p'] + an))
            self.func_order.append(name)
        return name

    def e_CXXDeleteExpr(self, n):
        sub = self.kids(n)[0]
        x = self.expr(sub)
        if n.get('isArray'): return 'v_delete_array(%s)' % x
        try: ct, _ = self.ctype_node(self.strip(sub) if self.strip(sub).get('type') else sub)
        except Unsupported: ct = ''
        st = self.ctype_node(sub)[0].strip()
        if not st.endswith('*') and not n.get('isArray'):
            self.count_call('v_delete__' + st)
            return 'v_delete__%s(%s)' % (st, x)      # opaque-handle record: stub supplied by the spec
        if st.endswith('*') and self.models and self.models.is_model_type(st[:-1].strip()):
            nm = 'v_delete__' + st[:-1].strip()[len('struct '):]
            self.count_call(nm); return '%s(%s)' % (nm, x)          # delete of a modelled library object: stub supplied by the spec
        if st.endswith('*') and st[:-1].strip().startswith('struct '):
            rec = st[:-1].strip()[len('struct '):]
            d = self.dtor_of_cname(rec)
            if d: return '%s__delete(%s)' % (rec, x) if self.helper_delete(rec, d) else None
        return 'v_delete(%s)' % x

    def helper_delete(self, rec, dtor):
        name = rec + '__delete'
        if name not in self.emitted_funcs:
            proto = 'static void %s(struct %s *p)' % (name, rec)
            self.emitted_protos[name] = proto + ';'
            self.emitted_funcs[name] = '%s\n{\n  if (p != ((void*)0)) { %s(p); v_delete(p); }\n}\n' % (proto, dtor)
            self.func_order.append(name)
        return True

    def record_by_cname(self, rec):
        """the record node whose emitted C name is `rec` (None if it is not a record of the unit)"""
        for q, rn in self.records.items():
            if self.mangle(q) == rec: return rn
        return None

    def dtor_of_cname(self, rec):
        """C name of the destructor of emitted record `rec`, if it has a user-provided one"""
        for q, rn in self.records.items():
            if self.mangle(q) == rec:
                for c in rn.get('inner', []):
                    if c.get('kind') == 'CXXDestructorDecl' and not c.get('isImplicit'):
                        cid = self.canon.get(c['id'], c['id'])
                        if cid in self.defn or self.want_stub(cid):
                            self.need_func(cid); return self.func_cname(cid)
                        if c.get('explicitlyDefaulted'): return None
                        raise Unsupported('destructor of %s declared but not defined in the unit' % q)
                return None
        return None

    # ---- calls
    def call_args(self, fn_qt, argnodes, param_decls=None, callee=None):
        _, ptypes, _ = fn_param_types(fn_qt)
        outs = []
        for i, a in enumerate(argnodes):
            pt = ptypes[i] if i < len(ptypes) else None
            if a.get('kind') == 'CXXDefaultArgExpr' and not self.kids(a):
                d = self.default_arg(callee, i)
                if d is None: raise Unsupported('default argument %d of a callee whose declaration is outside the dumps (in %s)' % (i, self.cur))
                a = d
            outs.append(self.bind_arg(pt, a))
        return outs

    def default_arg(self, callee, i):
        """default-argument expression of parameter i, taken from whichever declaration of the callee carries it"""
        if callee is None: return None
        for did, dn in self.by_id.items():
            if dn.get('kind') in FUNC_KINDS and self.canon.get(did) == callee:
                ps = [c for c in dn.get('inner', []) if c.get('kind') == 'ParmVarDecl']
                if i < len(ps) and self.kids(ps[i]): return self.kids(ps[i])[0]
        return None

    def bind_arg(self, pt, a):
        if pt is not None and (pt.endswith('&')):
            return self.addr_of(a)
        return self.expr(a)

    def addr_of(self, a):
        """address of the object denoted by expression a (binding a reference)"""
        s = self.strip_tmp(a)
        if a['kind'] == 'MaterializeTemporaryExpr' or s.get('valueCategory') == 'prvalue':
            # temporary: scalars via compound literal
            try: ct, _ = self.ctype_node(s)
            except Unsupported: ct = None
            if ct and not ct.startswith('struct '):
                return '(&(%s){%s})' % (ct.replace('const ', ''), self.expr(s))
            is_model = bool(ct and self.models and self.models.is_model_type(ct))
            if ct and s['kind'] in ('CXXConstructExpr', 'CXXTemporaryObjectExpr') and not is_model:
                return self.temp_object(s)
            if ct:
                # any other record-valued prvalue (call result, model-type conversion): materialise it in a named temporary
                t = self.new_tmp()
                self.pre.append('%s %s = %s;' % (ct, t, self.expr(s)))
                self.note_tmp_object(t, ct)
                return '(&%s)' % t
            raise Unsupported('binding a reference to a temporary of kind %s (in %s)' % (s['kind'], self.cur))
        sp = self.strip_tmp(a)
        while sp['kind'] == 'ParenExpr': sp = self.strip_tmp(self.kids(sp)[0])
        if sp['kind'] == 'ConditionalOperator' and sp.get('valueCategory') == 'lvalue':
            c, t, f = self.kids(sp)      # C has no lvalue conditional: take the address in both arms
            return '(%s ? %s : %s)' % (self.expr(c), self.addr_of(t), self.addr_of(f))
        x = self.expr(a)
        m = re.match(r'^\(\*([A-Za-z_]\w*)\)$', x)
        if m: return m.group(1)
        return '(&(%s))' % x

    def note_tmp_object(self, t, ct):
        pass

    def temp_object(self, ce):
        ct, _ = self.ctype_node(ce)
        t = self.new_tmp()
        rec = ct[len('struct '):].strip()
        self.pre.append('%s %s;' % (ct, t))
        self.pre.append(self.ctor_stmt(ce, '&' + t))
        d = self.dtor_of_cname(rec)
        if d: self.post.append('%s(&%s);' % (d, t))
        return '(&%s)' % t

    def callee_decl(self, callee):
        ref = callee
        while ref['kind'] in ('ImplicitCastExpr', 'ParenExpr'): ref = self.kids(ref)[0]
        return ref

    def body_throws(self, cid):
        """does the body of unit function `cid` contain a throw statement outside any try block (direct throws only)"""
        memo = getattr(self, '_throws_memo', None)
        if memo is None: memo = self._throws_memo = {}
        if cid in memo: return memo[cid]
        def scan(n, in_try):
            if not isinstance(n, dict): return False
            k = n.get('kind')
            if k == 'CXXThrowExpr' and not in_try: return True
            if k == 'LambdaExpr': return False
            if k == 'CXXTryStmt':
                inner = n.get('inner', [])
                return any(scan(c, True) for c in inner[:1]) or any(scan(c, in_try) for c in inner[1:])
            return any(scan(c, in_try) for c in n.get('inner', []) if isinstance(c, dict))
        fn = self.defn.get(cid) if isinstance(self.defn, dict) else self.by_id.get(cid)
        memo[cid] = bool(fn) and scan(fn, False)
        return memo[cid]

    def e_CallExpr(self, n):
        ks = self.kids(n); ref = self.callee_decl(ks[0])
        if ref['kind'] == 'DeclRefExpr' and ref['referencedDecl']['kind'] in FUNC_KINDS:
            rd = ref['referencedDecl']; name = rd['name']
            if name in self.drop_calls:
                self.dropped.append('%s in %s' % (name, self.cur)); return '((void)0)'
            cid = self.canon.get(rd['id'])
            if cid is not None and (cid in self.defn or self.want_stub(cid)):
                fcn = self.func_cname(cid)
                alt = self.spec.get(('call_as_free', self.cur, fcn))       # child-view symbol for a recursive free function
                if alt: self.used_keys.add(('call_as_free', self.cur, fcn))
                self.count_call(alt or fcn)
                self.need_func(cid)
                a = self.call_args(rd['type']['qualType'], ks[1:], callee=cid)
                call = '%s(%s)' % (alt or fcn, ', '.join(a))
                if cid in self.defn and self.body_throws(cid): self.stmt_may_throw = True      # a unit function with a throw statement: the caller's statement is abandoned when it throws
                return self.deref_if_ref_return(rd['type']['qualType'], call)
            if self.models:
                r = self.models.free_call(self, name, rd, ks[1:], n)
                if r is not None:
                    self.count_call(name); return r
            raise Unsupported('call of %s: not in the unit and not in the model table (in %s)' % (name, self.cur))
        if self.models:
            r = self.models.indirect_call(self, n, ks[0], ks[1:])
            if r is not None: return r
        ct = None
        try: ct = self.ctype_node(self.strip(ks[0]))[0].strip()
        except Unsupported: pass
        if ct is not None and ct.replace('const ', '').strip() == 'v_fnptr':
            # call through a pointer to function: stub v_indirect__<ret>_<params>(fp, args...) whose contract the spec supplies
            t = self.strip(ks[0]).get('type', {}); fq = t.get('desugaredQualType') or t.get('qualType')
            m = re.match(r'^(.*?)\(\*(?:const)?\)\s*\((.*)\)$', fq.strip())
            sig = '%s (%s)' % (m.group(1).strip(), m.group(2))
            nm = 'v_indirect__' + re.sub(r'_+', '_', re.sub(r'\W', '_', sig.replace('*', 'p').replace('&', 'r'))).strip('_')
            self.count_call(nm)
            _, ptypes, _ = fn_param_types(sig)
            a = [self.bind_arg(ptypes[i] if i < len(ptypes) else None, x) for i, x in enumerate(ks[1:])]
            return '%s(%s)' % (nm, ', '.join([self.expr(ks[0])] + a))
        raise Unsupported('indirect call (in %s)' % self.cur)

    def deref_if_ref_return(self, fn_qt, call):
        ret, _, _ = fn_param_types(fn_qt)
        if ret.endswith('&'): return '(*%s)' % call
        return call

    def count_call(self, name):
        self.call_counts[name] = self.call_counts.get(name, 0) + 1
        self.last_calls.append((name, self.call_counts[name]))

    def e_CXXMemberCallExpr(self, n):
        ks = self.kids(n); me = ks[0]
        while me['kind'] in ('ParenExpr', 'ImplicitCastExpr'): me = self.kids(me)[0]
        if me['kind'] != 'MemberExpr': raise Unsupported('member call shape %s (in %s)' % (me['kind'], self.cur))
        base = self.kids(me)[0]
        mid = me.get('referencedMemberDecl')
        cid = self.canon.get(mid)
        if me['name'] in self.drop_calls:
            self.dropped.append('%s in %s' % (me['name'], self.cur)); return '((void)0)'
        if cid is not None and (cid in self.defn or self.want_stub(cid)):
            b = self.expr(base)
            sb = self.strip_tmp(base)
            if not me.get('isArrow') and re.match(r'^[A-Za-z_]\w*\(.*\)$', b) and not b.startswith('v_vec') :
                # method called on a temporary (the record returned by a call): materialise it
                ct0, _ = self.ctype_node(base); t0 = self.new_tmp('__t')
                self.pre.append('%s %s = %s;' % (ct0, t0, b)); b = t0
            obj = b if me.get('isArrow') else self.addr_text(b)
            self.need_func(cid)
            cn = self.func_cname(cid)
            # child-view contracts (DESIGN 3.4): a recursive call through a child pointer is printed as a call of the
            # child-view symbol named by the spec; the symbol is declared (with its contract) by the spec
            alt = self.spec.get(('call_as', self.cur, cn))
            if alt and not (base.get('kind') == 'CXXThisExpr' or self.strip(base).get('kind') == 'CXXThisExpr'):
                self.used_keys.add(('call_as', self.cur, cn)); cn = alt
            else:
                # recursion on the same object with a structurally smaller ARGUMENT (a sub-document): child view by request of the spec
                alt = self.spec.get(('call_as_this', self.cur, cn))
                if alt: self.used_keys.add(('call_as_this', self.cur, cn)); cn = alt
            self.count_call(cn)
            fq = self.by_id[cid]['type']['qualType']
            call = '%s(%s)' % (cn, ', '.join([obj] + self.call_args(fq, ks[1:], callee=cid)))
            return self.deref_if_ref_return(fq, call)
        if self.models:
            r = self.models.member_call(self, n, me, base, ks[1:])
            if r is not None:
                self.count_call(me['name']); return r
        if cid is not None and cid in self.by_id and re.search(r'\)\s*const(\s+noexcept)?\s*$', self.by_id[cid].get('type', {}).get('qualType', '')) and len(ks) == 1:
            # a const, argument-less member function of a unit class that is defined in another translation unit: an observer.
            # It is declared with the trivial contract "any result, no side effect" and replaced by it in every target (listed as assumption).
            rq, _, _ = fn_param_types(self.by_id[cid]['type']['qualType'])
            if self.ctype(rq) in ('_Bool', 'int', 'unsigned int', 'size_t', 'long', 'unsigned long', 'uint64_t', 'int64_t', 'uint32_t'):
                cn = self.func_cname(cid)
                self.spec[('stub', cn)] = True
                self.spec.setdefault(('contract', cn), '__CPROVER_requires(1)\n__CPROVER_assigns()\n__CPROVER_ensures(1)\n')
                self.auto_stubs = getattr(self, 'auto_stubs', []); 
                if cn not in self.auto_stubs: self.auto_stubs.append(cn)
                b = self.expr(base); obj = b if me.get('isArrow') else self.addr_text(b)
                self.need_func(cid); self.count_call(cn)
                return '%s(%s)' % (cn, obj)
        raise Unsupported('method %s [%s]: not defined in the unit and not in the model table (in %s)' % (me.get('name'), self.func_cname(cid) if cid in self.by_id else 'decl outside the dumps', self.cur))

    def addr_text(self, b):
        m = re.match(r'^\(\*([A-Za-z_]\w*)\)$', b)
        if m: return m.group(1)
        return '(&(%s))' % b

    def e_CXXOperatorCallExpr(self, n):
        ks = self.kids(n); ref = self.callee_decl(ks[0])
        rd = ref.get('referencedDecl', {})
        cid = self.canon.get(rd.get('id'))
        if cid is not None and (cid in self.defn or self.want_stub(cid)):
            self.need_func(cid)
            fn = self.by_id[cid]
            cn = self.func_cname(cid); self.count_call(cn)
            fq = fn['type']['qualType']
            if fn['kind'] == 'CXXMethodDecl':
                obj = self.addr_of(ks[1]) if not self.type_of(ks[1]).strip().endswith('*') else self.expr(ks[1])
                call = '%s(%s)' % (cn, ', '.join([obj] + self.call_args(fq, ks[2:])))
            else:
                call = '%s(%s)' % (cn, ', '.join(self.call_args(fq, ks[1:])))
            return self.deref_if_ref_return(fq, call)
        if self.models:
            r = self.models.operator_call(self, n, rd, ks[1:])
            if r is not None: return r
        raise Unsupported('operator call %s outside the unit/model table (in %s)' % (rd.get('name'), self.cur))

    # ---- construction
    def ctor_type(self, ce):
        return ce.get('ctorType', {}).get('qualType') or 'void ()'

    def find_ctor(self, ce):
        """canonical id of the constructor used by a CXXConstructExpr (matched by record + signature)"""
        want = self.ctor_type(ce)
        rt = (ce['type'].get('desugaredQualType') or ce['type']['qualType']).replace('const ', '').strip()
        for cid, fn in self.by_id.items():
            if fn.get('kind') == 'CXXConstructorDecl' and fn['type']['qualType'] == want:
                q = self.qname.get(cid, '')
                rq = q.rsplit('::', 1)[0]
                if rq == rt or rq.endswith('::' + rt) or rt.endswith('::' + rq.split('::')[-1]) or rt == rq.split('::')[-1]:
                    return self.canon.get(cid, cid)
        return None

    def ctor_call_name(self, ce):
        cid = self.find_ctor(ce)
        if cid is None: raise Unsupported('constructor %s of %s not in the unit (in %s)' % (self.ctor_type(ce), self.type_of(ce), self.cur))
        fn = self.by_id[cid]
        if cid in self.defn or self.want_stub(cid):
            self.need_func(cid); return self.func_cname(cid)
        if fn.get('isImplicit') or fn.get('explicitlyDefaulted'):
            return self.implicit_ctor(cid, ce)
        raise Unsupported('constructor %s [%s] declared but not defined in the unit' % (self.qname.get(cid), self.func_cname(cid)))

    def implicit_ctor(self, cid, ce):
        """implicit default / copy constructors of PODs in the unit"""
        fn = self.by_id[cid]
        rec = self.parent.get(cid)
        q = self.qname[rec['id']]
        self.need_record(q)
        cn = self.mangle(q)
        _, params, _ = fn_param_types(fn['type']['qualType'])
        if not params:
            name = cn + '_ctor_default'
            if name not in self.emitted_funcs:
                body = self.default_field_inits(rec, {})
                proto = 'static void %s(struct %s *self)' % (name, cn)
                self.emitted_protos[name] = proto + ';'
                self.emitted_funcs[name] = None
                self.emitted_funcs[name] = '%s\n{\n%s\n}\n' % (proto, '\n'.join('  ' + b for b in body))
                self.func_order.append(name)
            return name
        if len(params) == 1 and params[0].endswith('&'):
            name = cn + '_ctor_copy'
            if name not in self.emitted_funcs:
                for f in self.record_fields(rec):
                    ft = self.decl_text(f, 'x')[0]
                    if ft.startswith('struct ') and '*' not in ft:
                        raise Unsupported('implicit copy of record with record fields: ' + q)
                proto = 'static void %s(struct %s *self, struct %s *other)' % (name, cn, cn)
                self.emitted_protos[name] = proto + ';'
                self.emitted_funcs[name] = '%s\n{\n  *self = *other;\n}\n' % proto
                self.func_order.append(name)
            return name
        raise Unsupported('implicit constructor ' + fn['type']['qualType'])

    def ctor_stmt(self, ce, target):
        """statement text constructing into `target` (a pointer expression)"""
        name = self.ctor_call_name(ce)
        self.count_call(name)
        args = self.call_args(self.ctor_type(ce), self.kids(ce), callee=self.find_ctor(ce))
        return '%s(%s);' % (name, ', '.join([target] + args))

    def e_CXXConstructExpr(self, n):
        # copy/move elision of a record prvalue in expression position: only scalars-through-models are supported here
        if self.models:
            r = self.models.construct_expr(self, n)
            if r is not None: return r
        ks = self.kids(n)
        if len(ks) == 1 and n.get('elidable'):
            return self.expr(ks[0])
        ct, _ = self.ctype_node(n)
        if ct.startswith('struct '):
            t = self.new_tmp()
            self.pre.append('%s %s;' % (ct, t))
            self.pre.append(self.ctor_stmt(n, '&' + t))
            rec = ct[len('struct '):].strip()
            d = self.dtor_of_cname(rec)
            if d: self.post.append('%s(&%s);' % (d, t))
            return t
        raise Unsupported('construct expression of %s in expression position (in %s)' % (self.type_of(n), self.cur))
    e_CXXTemporaryObjectExpr = e_CXXConstructExpr

    def e_LambdaExpr(self, n):
        if self.models:
            r = self.models.lambda_expr(self, n)
            if r is not None: return r
        raise Unsupported('lambda (in %s)' % self.cur)

    _EMIT_STATE = ('cur', 'local_names', 'capture_map', 'ret_t', 'ret_is_ref', 'ret_record', 'out', 'loop_no', 'scopes', 'call_counts',
                   'last_calls', 'pre', 'post', 'uses_exc', 'stmt_may_throw', 'try_depth', 'try_labels', 'body_node', 'cur_self_t')

    def lift_lambda(self, n):
        """Print the lambda's operator() as a static C function `<enclosing>__lambda<k>` (lambda lifting): captured
        variables become pointer parameters (by-copy captures too: the lifted function is only ever called while the
        enclosing frame is live and, for the algorithm/wait helpers that use it, before the enclosing function touches
        the variable again), a captured `this` becomes the leading `self` parameter.
        Returns (function name, [argument texts for the captures], return ctype)."""
        n = self.strip_tmp(n)
        while n['kind'] in ('ImplicitCastExpr', 'CXXConstructExpr', 'MaterializeTemporaryExpr', 'CXXBindTemporaryExpr', 'CXXFunctionalCastExpr') and self.kids(n): n = self.strip_tmp(self.kids(n)[0])
        if n['kind'] == 'DeclRefExpr' and (n.get('referencedDecl') or {}).get('id') in getattr(self, 'lambda_vars', {}):
            return self.lift_lambda(self.lambda_vars[n['referencedDecl']['id']])
        if n['kind'] != 'LambdaExpr': raise Unsupported('expected a lambda, got %s (in %s)' % (n['kind'], self.cur))
        rec = [c for c in n.get('inner', []) if c.get('kind') == 'CXXRecordDecl'][0]
        op = [c for c in rec.get('inner', []) if c.get('kind') == 'CXXMethodDecl' and c.get('name') == 'operator()'][0]
        body = [c for c in op.get('inner', []) if c.get('kind') == 'CompoundStmt'][0]
        caps = []; uses_this = [False]
        def walk(x):
            if not isinstance(x, dict): return
            if x.get('kind') == 'CXXThisExpr': uses_this[0] = True
            if x.get('kind') == 'DeclRefExpr':
                vid = (x.get('referencedDecl') or {}).get('id')
                if vid in self.local_names and vid not in caps: caps.append(vid)
            for c in x.get('inner', []) or []: walk(c)
        walk(body)
        self.lambda_no = getattr(self, 'lambda_no', {}); k = self.lambda_no.get(self.cur, 0); self.lambda_no[self.cur] = k + 1
        name = '%s__lambda%d' % (self.cur, k)
        outer = {a: getattr(self, a, None) for a in self._EMIT_STATE}
        params = []; args = []; inner_names = {}
        if uses_this[0]:
            if not outer['cur_self_t']: raise Unsupported('lambda captures this outside a method (in %s)' % self.cur)
            params.append('%s *self' % outer['cur_self_t']); args.append('self')
        for vid in caps:
            nm, is_ref = outer['local_names'][vid]
            d = self.by_id.get(vid) or self.local_decls.get(vid)
            if d is None: raise Unsupported('captured variable %s has no declaration node (in %s)' % (nm, self.cur))
            txt, r2 = self.decl_text(d, 'cap_' + nm)
            if '[' in txt: raise Unsupported('captured array %s (in %s)' % (nm, self.cur))
            if is_ref:
                params.append(txt); args.append(nm)
            else:
                m = re.match(r'^(.*\S)\s+(\w+)$', txt)
                params.append('%s *%s' % (m.group(1).replace('const ', ''), m.group(2))); args.append('&' + nm)
            inner_names[vid] = ('cap_' + nm, True)
        oq = op['type']['qualType']
        if '->' in oq and oq.startswith('auto '): ret_qt = oq.rsplit('->', 1)[1].strip()
        else: ret_qt, _, _ = fn_param_types(oq)
        rt, rref = self.ctype2(ret_qt)
        self.cur = name; self.local_names = inner_names; self.capture_map = {}
        self.ret_t = rt.strip(); self.ret_is_ref = rref; self.ret_record = self.ret_t.startswith('struct ') and not self.ret_t.endswith('*')
        pi = 0
        for pdecl in op.get('inner', []):
            if pdecl.get('kind') == 'ParmVarDecl':
                pn = pdecl.get('name') or '_p%d' % pi
                txt, is_ref = self.decl_text(pdecl, pn)
                params.append(txt); self.local_names[pdecl['id']] = (pn, is_ref); pi += 1
        self.out = []; self.loop_no = 0; self.scopes = [{'vars': [], 'kind': 'func'}]; self.call_counts = {}; self.last_calls = []
        self.pre = []; self.post = []; self.uses_exc = False; self.stmt_may_throw = False; self.try_depth = 0; self.try_labels = []
        sig = 'static %s %s(%s)' % (self.ret_t, name, ', '.join(params) or 'void')
        self.w(sig)
        contract = self.spec.get(('contract', name))
        if contract:
            self.used_keys.add(('contract', name))
            for l in contract.strip('\n').split('\n'): self.w(l)
        self.w('{')
        self.ghost('entry', '  ')
        self.body_node = body
        self.stmt(body, 1)
        self.ghost('exit', '  ')
        self.w('}'); self.w('')
        text = '\n'.join(self.out)
        for a, v in outer.items(): setattr(self, a, v)
        self.emitted_protos[name] = sig + ';'
        self.emitted_funcs[name] = text
        self.func_order.append(name)
        return name, args, rt.strip()

    def add_helper(self, name, proto, text):
        if name not in self.emitted_funcs:
            self.emitted_protos[name] = proto + ';'
            self.emitted_funcs[name] = text
            self.func_order.append(name)
        return name

    def e_CXXThrowExpr(self, n):
        ks = self.kids(n)
        code = 1
        if ks and self.models:
            code = self.models.exception_code(self, ks[0])
        self.uses_exc = True
        return '(__exc = %s)' % code

    def e_PredefinedExpr(self, n): return '""'
    def e_CXXDefaultInitExpr(self, n):
        ks = self.kids(n)
        if ks: return self.expr(ks[0])
        raise Unsupported('default member initialiser reference (in %s)' % self.cur)
    def e_StmtExpr(self, n): raise Unsupported('statement expression')
    def e_OpaqueValueExpr(self, n):
        ks = self.kids(n)
        if ks: return self.expr(ks[0])
        raise Unsupported('opaque value')

    # ------------------------------------------------------------------ statements
    def w(self, s): self.out.append(s)

    def ghost(self, anchor, p=''):
        g = self.spec.get(('ghost', self.cur, anchor))
        if g:
            self.used_keys.add(('ghost', self.cur, anchor))
            for ln in g.strip('\n').split('\n'): self.w(p + ln)

    def flush_expr_stmt(self, text, p):
        """emit a statement whose expression evaluation produced pre/post statements"""
        pre, post = self.pre, self.post
        self.pre, self.post = [], []
        calls = self.last_calls; self.last_calls = []
        for (name, k) in calls: self.ghost('before_call:%s:%d' % (name, k), p)
        if pre or post:
            self.w(p + '{')
            for s in pre: self.w(p + '  ' + s)
            self.w(p + '  ' + text)
            for s in reversed(post): self.w(p + '  ' + s)
            self.w(p + '}')
        else:
            self.w(p + text)
        for (name, k) in calls: self.ghost('after_call:%s:%d' % (name, k), p)

    def cond_expr(self, n, p):
        """expression used as a condition; temporaries are not allowed here (they would need hoisting)"""
        s = self.expr(n)
        if self.pre or self.post:
            pre, post = self.pre, self.post; self.pre, self.post = [], []
            # hoist: evaluate into a temp before the statement (valid for if/switch/return, not for loop conditions)
            return s, pre, post
        return s, [], []

    def stmt(self, n, ind):
        k = n['kind']; p = '  ' * ind; self.seen(k)
        if k == 'CompoundStmt':
            self.scopes.append({'vars': [], 'kind': 'block'})
            self.w(p + '{')
            ks = self.kids(n)
            top = n is getattr(self, 'body_node', None)
            blk = 0
            for c in ks:
                self.stmt(c, ind + 1)
                if top and c['kind'] == 'CompoundStmt':
                    blk += 1; self.ghost('after_block:%d' % blk, p + '  ')   # n-th nested block of the function body (macro-expanded steps)
            if not ks or ks[-1]['kind'] not in ('ReturnStmt', 'BreakStmt', 'ContinueStmt'):
                for d in reversed(self.scopes[-1]['vars']): self.w(p + '  ' + d)
            self.scopes.pop()
            self.w(p + '}')
        elif k == 'IfStmt':
            ks = self.kids(n)
            if n.get('hasInit') or n.get('hasVar'): raise Unsupported('if with init/condition variable (in %s)' % self.cur)
            c, pre, post = self.cond_expr(ks[0], p)
            calls = self.last_calls; self.last_calls = []
            for (name, kk) in calls: self.ghost('before_call:%s:%d' % (name, kk), p)
            if pre or post or any(self.spec.get(('ghost', self.cur, 'after_call:%s:%d' % (nm, kk))) for (nm, kk) in calls):
                t = self.new_tmp('__c')
                self.w(p + '_Bool %s;' % t)
                self.w(p + '{')
                for s in pre: self.w(p + '  ' + s)
                self.w(p + '  %s = %s;' % (t, c))
                for s in reversed(post): self.w(p + '  ' + s)
                self.w(p + '}')
                for (name, kk) in calls: self.ghost('after_call:%s:%d' % (name, kk), p)
                c = t
            if len(ks) == 2 and not pre and not post and self.pure_expr(ks[0]):
                # an `if` whose body consisted only of dropped (log) calls and whose condition has no call/assignment: the whole
                # statement has no effect and is dropped together with its condition (recorded under dropped_calls)
                mark = len(self.out); self.w(p + 'if (%s)' % c); self.block(ks[1], ind)
                body_lines = [l.strip() for l in self.out[mark + 1:]]
                if body_lines and all(l in ('{', '}', ';', '((void)0);', '') for l in body_lines):
                    del self.out[mark:]; self.dropped.append('if-statement around dropped calls only (in %s)' % self.cur)
                return
            self.w(p + 'if (%s)' % c); self.block(ks[1], ind)
            if len(ks) > 2: self.w(p + 'else'); self.block(ks[2], ind)
        elif k == 'ReturnStmt':
            self.ghost('before_return', p)
            ks = self.kids(n)
            dt = [d for sc in self.scopes for d in sc['vars']]
            val = None
            if ks:
                if self.ret_is_ref: val = self.addr_of(ks[0])
                elif self.ret_record: val = self.record_value(ks[0])
                else: val = self.expr(ks[0])
            pre, post = self.pre, self.post; self.pre, self.post = [], []
            calls = self.last_calls; self.last_calls = []
            for (name, kk) in calls: self.ghost('before_call:%s:%d' % (name, kk), p)
            if dt or pre or post:
                self.w(p + '{')
                for s in pre: self.w(p + '  ' + s)
                if ks: self.w(p + '  %s __ret = %s;' % (self.ret_t, val))
                for s in reversed(post): self.w(p + '  ' + s)
                for d in reversed(dt): self.w(p + '  ' + d)
                self.w(p + ('  return __ret; }' if ks else '  return; }'))
            else:
                self.w(p + 'return%s;' % ((' ' + val) if ks else ''))
        elif k == 'DeclStmt':
            for v in self.kids(n):
                if v['kind'] == 'VarDecl': self.vardecl(v, ind)
                elif v['kind'] in ('TypedefDecl', 'TypeAliasDecl', 'StaticAssertDecl', 'UsingDecl', 'UsingDirectiveDecl'): pass
                else: raise Unsupported('local declaration kind ' + v['kind'])
        elif k == 'DoStmt':
            body, cond = self.kids(n)
            if self.const_int(cond) == 0 and not self.has_jump(body):
                self.block(body, ind)   # do { S } while (0) macro idiom
            else:
                self.loop_no += 1; ln = self.loop_no
                f = self.new_tmp('__first')
                c = self.loop_cond(cond)
                self.w(p + '_Bool %s = 1;' % f)
                self.ghost('before_loop:%d' % ln, p)
                self.w(p + 'while (%s || %s)' % (f, c)); self.loopc(ln, p)
                self.loop_body(body, ind, ln, first_stmt='%s = 0;' % f)
                self.ghost('after_loop:%d' % ln, p)
        elif k == 'WhileStmt':
            ks = self.kids(n)
            if len(ks) != 2: raise Unsupported('while with condition variable')
            cond, body = ks
            self.loop_no += 1; ln = self.loop_no
            self.ghost('before_loop:%d' % ln, p)
            self.w(p + 'while (%s)' % self.loop_cond(cond)); self.loopc(ln, p); self.loop_body(body, ind, ln)
            self.ghost('after_loop:%d' % ln, p)
        elif k == 'ForStmt':
            ks = n.get('inner', [])
            init, condvar, cond, inc, body = ks
            if condvar and condvar.get('kind'): raise Unsupported('for with condition variable')
            self.loop_no += 1; ln = self.loop_no
            self.scopes.append({'vars': [], 'kind': 'block'})
            self.w(p + '{')
            if init and init.get('kind'): self.stmt(init, ind + 1)
            c = self.loop_cond(cond) if cond and cond.get('kind') else '1'     # `for(;;)` silently loses its loop contract in CBMC 6.11; `for(;1;)` keeps it
            i = ''
            if inc and inc.get('kind'):
                i = self.expr(inc)
                if self.pre or self.post: raise Unsupported('temporaries in for-increment (in %s)' % self.cur)
                self.last_calls = []
            self.ghost('before_loop:%d' % ln, p + '  ')
            self.w(p + '  for (; %s; %s)' % (c, i))
            self.loopc(ln, p + '  '); self.loop_body(body, ind + 1, ln)
            self.ghost('after_loop:%d' % ln, p + '  ')
            self.scopes.pop()
            self.w(p + '}')
        elif k == 'CXXForRangeStmt':
            if not self.models: raise Unsupported('range-for (in %s)' % self.cur)
            self.models.range_for(self, n, ind)
        elif k == 'BreakStmt':
            self.unwind_to(('loop', 'switch'), p); self.w(p + 'break;')
        elif k == 'ContinueStmt':
            self.unwind_to(('loop',), p); self.w(p + 'continue;')
        elif k == 'NullStmt': self.w(p + ';')
        elif k == 'SwitchStmt':
            ks = self.kids(n)
            if len(ks) != 2: raise Unsupported('switch with init/condition variable')
            c, pre, post = self.cond_expr(ks[0], p)
            if pre or post: raise Unsupported('temporaries in switch condition')
            self.last_calls = []
            self.w(p + 'switch (%s)' % c)
            self.scopes.append({'vars': [], 'kind': 'switch'})
            self.block(ks[1], ind)
            self.scopes.pop()
        elif k == 'CaseStmt':
            ks = self.kids(n)
            v = self.const_int(ks[0])
            if v is None: raise Unsupported('non-constant case label')
            self.w(p + 'case %d:' % v)
            self.stmt(ks[-1], ind + 1)
        elif k == 'DefaultStmt':
            self.w(p + 'default:')
            self.stmt(self.kids(n)[0], ind + 1)
        elif k == 'CXXTryStmt':
            self.try_stmt(n, ind)
        elif k == 'GotoStmt' or k == 'LabelStmt':
            raise Unsupported(k)
        else:
            text = self.expr(n)
            if k == 'CXXThrowExpr':
                self.flush_expr_stmt(text + ';', p)
                self.emit_exc_exit(p)
            else:
                self.flush_expr_stmt(text + ';', p)
                if self.stmt_may_throw:
                    self.stmt_may_throw = False
                    self.w(p + 'if (__exc != 0)'); self.w(p + '{'); self.emit_exc_exit(p + '  '); self.w(p + '}')

    EXC_CODES = {'invalid_argument': [1], 'out_of_range': [3], 'logic_error': [1, 3, 4], 'length_error': [5], 'runtime_error': [6], 'bad_alloc': [7]}
    def try_stmt(self, n, ind):
        """try/catch on the ghost exception code: a throwing statement jumps to the handler chain; a handler whose type does not match
        lets the code propagate (to the enclosing try or out of the function)"""
        p = '  ' * ind
        ks = self.kids(n); body = ks[0]; handlers = ks[1:]
        self.try_counter = getattr(self, 'try_counter', 0) + 1; L = self.try_counter
        self.uses_exc = True
        self.w(p + '{')
        self.try_depth += 1; self.try_labels.append(L)
        self.scopes.append({'vars': [], 'kind': 'try'})
        self.stmt(body, ind + 1)
        self.scopes.pop(); self.try_labels.pop(); self.try_depth -= 1
        self.w(p + '  goto __endtry_%d;' % L)
        self.w(p + '  __catch_%d: ;' % L)
        for h in handlers:
            hk = self.kids(h)
            decl = [c for c in hk if c['kind'] == 'VarDecl']; hb = [c for c in hk if c['kind'] == 'CompoundStmt'][0]
            if decl:
                tn = decl[0]['type']['qualType'].replace('const ', '').replace('&', '').replace('std::', '').strip()
                codes = self.EXC_CODES.get(tn)
                if tn == 'exception': cond = '__exc != 0'
                elif codes: cond = ' || '.join('__exc == %d' % c for c in codes)
                else: raise Unsupported('catch of type ' + tn)
            else: cond = '__exc != 0'
            self.w(p + '  if (%s)' % cond); self.w(p + '  {'); self.w(p + '    __exc = 0;')
            self.stmt(hb, ind + 2)
            self.w(p + '    goto __endtry_%d;' % L); self.w(p + '  }')
        self.emit_exc_exit(p + '  ')
        self.w(p + '  __endtry_%d: ;' % L)
        self.w(p + '}')

    def emit_exc_exit(self, p):
        """leave the function (or jump to the handler) with __exc set"""
        self.uses_exc = True
        if self.try_depth > 0:
            dt = []
            for sc in reversed(self.scopes):
                if sc['kind'] == 'try': break
                dt += list(reversed(sc['vars']))
            for d in dt: self.w(p + d)
            self.w(p + 'goto __catch_%d;' % self.try_labels[-1])
            return
        dt = [d for sc in self.scopes for d in sc['vars']]
        for d in reversed(dt): self.w(p + d)
        if self.ret_t == 'void': self.w(p + 'return;')
        else: self.w(p + 'return (%s){0};' % self.ret_t if self.ret_t.startswith('struct ') else p + 'return (%s)0;' % self.ret_t)

    def has_jump(self, n):
        k = n.get('kind')
        if k in ('BreakStmt', 'ContinueStmt'): return True
        if k in ('ForStmt', 'WhileStmt', 'DoStmt', 'CXXForRangeStmt'):
            return False
        if k == 'SwitchStmt':
            # a `continue` inside a switch still targets the loop; `break` does not
            return any(self.has_continue(c) for c in n.get('inner', []))
        return any(self.has_jump(c) for c in n.get('inner', []) if c.get('kind'))

    def has_continue(self, n):
        k = n.get('kind')
        if k == 'ContinueStmt': return True
        if k in ('ForStmt', 'WhileStmt', 'DoStmt', 'CXXForRangeStmt'): return False
        return any(self.has_continue(c) for c in n.get('inner', []) if c.get('kind'))

    def pure_expr(self, n):
        if not isinstance(n, dict): return True
        k = n.get('kind')
        if k == 'CXXMemberCallExpr':
            me = self.kids(n)[0]
            while me.get('kind') in ('ParenExpr', 'ImplicitCastExpr'): me = self.kids(me)[0]
            if me.get('name') in ('count', 'size', 'empty', 'c_str') and len(self.kids(n)) == 1: return self.pure_expr(self.kids(me)[0])     # const observers of modelled library types
            return False
        if k in ('CallExpr', 'CXXOperatorCallExpr', 'CXXConstructExpr', 'CXXNewExpr', 'CXXDeleteExpr', 'LambdaExpr', 'CompoundAssignOperator', 'CXXThrowExpr'): return False
        if k == 'BinaryOperator' and n.get('opcode') in ('=', ','): return False
        if k == 'UnaryOperator' and n.get('opcode') in ('++', '--'): return False
        return all(self.pure_expr(c) for c in n.get('inner', []) or [])

    def loop_cond(self, cond):
        c = self.expr(cond)
        if self.pre or self.post: raise Unsupported('temporaries in loop condition (in %s)' % self.cur)
        self.last_calls = []
        return c

    def unwind_to(self, kinds, p):
        dt = []
        for sc in reversed(self.scopes):
            dt += list(reversed(sc['vars']))
            if sc['kind'] in kinds: break
        for d in dt: self.w(p + d)

    def block(self, n, ind):
        if n['kind'] == 'CompoundStmt': self.stmt(n, ind)
        else:
            self.scopes.append({'vars': [], 'kind': 'block'})
            self.w('  ' * ind + '{'); self.stmt(n, ind + 1)
            if n['kind'] not in ('ReturnStmt', 'BreakStmt', 'ContinueStmt'):
                for d in reversed(self.scopes[-1]['vars']): self.w('  ' * ind + '  ' + d)
            self.scopes.pop()
            self.w('  ' * ind + '}')

    def loop_body(self, body, ind, ln, first_stmt=None):
        p = '  ' * ind
        self.scopes.append({'vars': [], 'kind': 'loop'})
        self.w(p + '{')
        if first_stmt: self.w(p + '  ' + first_stmt)
        self.ghost('loop_body_start:%d' % ln, p + '  ')
        if body['kind'] == 'CompoundStmt':
            ks = self.kids(body)
            self.scopes.append({'vars': [], 'kind': 'block'})
            for c in ks: self.stmt(c, ind + 1)
            if not ks or ks[-1]['kind'] not in ('ReturnStmt', 'BreakStmt', 'ContinueStmt'):
                for d in reversed(self.scopes[-1]['vars']): self.w(p + '  ' + d)
            self.scopes.pop()
        else:
            self.stmt(body, ind + 1)
        self.ghost('loop_body_end:%d' % ln, p + '  ')
        self.scopes.pop()
        self.w(p + '}')

    def loopc(self, ln, p):
        c = self.spec.get(('loop', self.cur, ln))
        if c:
            self.used_keys.add(('loop', self.cur, ln))
            for l in c.strip('\n').split('\n'): self.w(p + l)

    def record_value(self, e):
        return self.expr(e)

    def vardecl(self, v, ind):
        p = '  ' * ind
        name = v['name']
        if v.get('storageClass') == 'static':
            # function-local static: hoisted to file scope (constant initialisers only)
            self.by_id[v['id']] = v; self.canon[v['id']] = v['id']
            self.qname[v['id']] = self.cur + '::' + name
            self.local_names[v['id']] = (self.need_global(v['id']), False)
            return
        if v.get('type', {}).get('qualType', '').startswith('(lambda at') and self.kids(v):
            # `auto pred = [..](..){..};`: nothing is emitted here; the lambda is lifted where the variable is used (algorithm / wait helpers)
            self.lambda_vars = getattr(self, 'lambda_vars', {}); self.lambda_vars[v['id']] = self.kids(v)[0]
            return
        txt, is_ref = self.decl_text(v, name)
        self.local_names[v['id']] = (name, is_ref); self.local_decls[v['id']] = v
        hl = self.spec.get(('hoist_locals', self.cur)) or ()
        ks = self.kids(v)
        if name in hl and (not ks or (self.strip_tmp(ks[0])['kind'] == 'CXXConstructExpr' and not self.kids(self.strip_tmp(ks[0])))) and hasattr(self, 'hoisted'):
            # an uninitialised (trivially constructed) local declared at function scope instead of inside a loop body: nothing observable
            # changes; dfcc loses track of address-taken locals declared in a contracted loop body that is left by break (measured)
            self.used_keys.add(('hoist_locals', self.cur)); self.hoisted.append('%s;' % txt); return
        mvla = re.match(r'^(.*) (\w+)\[([^\[\]]*[A-Za-z_][^\[\]]*)\]$', txt)
        if mvla and self.spec.get(('vla_as_heap', self.cur)):
            # variable-length array printed as a dynamic object of exactly that many elements, released at scope exit
            # (dfcc mis-tracks locals that appear in a VLA bound, measured); sizeof(array) would differ and is not used
            self.used_keys.add(('vla_as_heap', self.cur))
            self.w(p + '%s *%s = (%s *)v_alloc_ok((size_t)(%s) * sizeof(%s));' % (mvla.group(1), name, mvla.group(1), mvla.group(3), mvla.group(1)))
            self.scopes[-1]['vars'].append('free(%s);' % name)
            return
        ks = self.kids(v)
        ct = txt.rsplit(' ', 1)[0]
        if self.models and self.models.is_model_type(ct) and not is_ref and '*' not in ct:
            self.models.local_object(self, v, ct, name, ks, p)
            return
        SYS = ('struct iovec', 'struct timeval', 'struct timespec', 'struct timezone', 'struct tm', 'struct epoll_event', 'fd_set', 'sigset_t', 'struct sigaction', 'struct sockaddr_in', 'struct sockaddr', 'ucontext_t', 'stack_t')
        if ct.startswith('struct ') and not ct.strip().endswith('*') and not is_ref and '[' not in txt and ct not in SYS:
            rec = ct[len('struct '):].strip()
            ce = self.strip_tmp(ks[0]) if ks else None
            if ce is not None and ce['kind'] in ('CXXConstructExpr', 'CXXTemporaryObjectExpr'):
                self.w(p + '%s;' % txt)
                self.flush_expr_stmt(self.ctor_stmt(ce, '&' + name), p)
            elif ce is not None and ce['kind'] == 'InitListExpr':
                init = '{' + ', '.join(self.expr(x) for x in self.kids(ce)) + '}'
                if self.pre or self.post:
                    # the initialisers need temporaries (printed in their own block): declared first, assigned inside that block
                    self.w(p + '%s;' % txt.replace('const ', ''))
                    self.flush_expr_stmt('%s = (%s)%s;' % (name, ct.replace('const ', ''), init), p)
                else:
                    self.w(p + '%s = %s;' % (txt, init))
            elif ce is not None:
                val = self.expr(ce)
                self.flush_expr_stmt('%s = %s;' % (txt, val), p)
            else:
                self.w(p + '%s;' % txt)
            d = self.dtor_of_cname(rec)
            if d: self.scopes[-1]['vars'].append('%s(&%s);' % (d, name))
            return
        if ks and self.strip_tmp(ks[0])['kind'] == 'CXXConstructExpr' and not self.kids(self.strip_tmp(ks[0])) and ('[' in txt or not ct.startswith('struct ') or ct in SYS):
            self.w(p + '%s;' % txt)      # trivial default initialisation: left uninitialised exactly like C++
            return
        if ks:
            if is_ref: init = self.addr_of(ks[0])
            elif '[' in txt and self.strip_tmp(ks[0])['kind'] == 'InitListExpr':
                init = '{' + ', '.join(self.expr(x) for x in self.kids(self.strip_tmp(ks[0]))) + '}'
            else: init = self.expr(ks[0])
            if is_ref and (self.pre or self.post):
                # a reference bound to a temporary: the temporary lives as long as the reference (lifetime extension), so it is
                # declared in the enclosing scope, not in a block of its own
                for st in self.pre: self.w(p + st)
                self.w(p + '%s = %s;' % (txt, init))
                for st in self.post: self.scopes[-1]['vars'].append(st)
                self.pre = []; self.post = []; self.last_calls = []
            elif (self.pre or self.post) and '[' not in txt and not is_ref:
                # the initialiser needs temporaries (printed in their own block): the variable itself is declared before that block
                self.w(p + '%s;' % txt.replace('const ', ''))
                self.flush_expr_stmt('%s = %s;' % (name, init), p)
            else:
                self.flush_expr_stmt('%s = %s;' % (txt, init), p)
            if self.stmt_may_throw:
                self.stmt_may_throw = False
                self.w(p + 'if (__exc != 0)'); self.w(p + '{'); self.emit_exc_exit(p + '  '); self.w(p + '}')
        else:
            self.w(p + '%s;' % txt)

    # ------------------------------------------------------------------ functions
    def need_func(self, cid):
        name = self.func_cname(cid)
        if name in self.emitted_funcs or name in self.emitted_protos: return
        self.emitted_protos[name] = None
        self.work.append(cid)

    def default_field_inits(self, rec, inits):
        """statements initialising every field (ctor-initialiser, else default member initialiser)"""
        body = []
        direct = set(f.get('name') for f in self.record_fields(rec))
        for f in self.record_fields(rec):
            if not f.get('name'): continue
            fname = f['name']; e = inits.get(fname)
            ks = self.kids(f)
            dflt = ks[0] if ks else None
            if e is not None and e['kind'] == 'CXXDefaultInitExpr': e = dflt
            if e is None: e = dflt
            if (e is None or (self.strip_tmp(e)['kind'] == 'CXXConstructExpr' and not self.kids(self.strip_tmp(e)))) and re.search(r'\((unnamed|anonymous) (struct|union) at ', f.get('type', {}).get('qualType', '')):
                continue    # member of an unnamed plain struct type without initialiser: left uninitialised exactly like C++
            ft, _ = self.decl_text(f, fname)
            ct = ft.rsplit(' ', 1)[0]
            if self.models and self.models.is_model_type(ct) and '*' not in ct:
                body += self.models.field_init(self, f, ct, 'self->' + fname, e)
                continue
            if e is None:
                if ct.startswith('struct ') and '*' not in ct:
                    raise Unsupported('member object %s without initialiser' % fname)
                continue    # left uninitialised exactly like C++
            se = self.strip_tmp(e)
            if se['kind'] in ('CXXConstructExpr', 'CXXTemporaryObjectExpr') and ct.startswith('struct '):
                body.append(self.ctor_stmt(se, '&self->' + fname))
            elif se['kind'] == 'InitListExpr' and '[' in ft:
                for i, x in enumerate(self.kids(se)): body.append('self->%s[%d] = %s;' % (fname, i, self.expr(x)))
            else:
                body.append('self->%s = %s;' % (fname, self.expr(e)))
        anon_defaults = {}
        for c in rec.get('inner', []):
            # default member initialisers inside an anonymous union/struct (at most one member of a union has one)
            if c.get('kind') in REC_KINDS and not c.get('name'):
                for f in self.record_fields(c):
                    ks = self.kids(f)
                    if ks and f.get('name'): anon_defaults[f['name']] = ks[0]
        for iname, e in inits.items():
            if iname not in direct:     # member of an anonymous union/struct (IndirectFieldDecl)
                if e['kind'] == 'CXXDefaultInitExpr' and not self.kids(e):
                    if iname not in anon_defaults: continue
                    e = anon_defaults[iname]
                body.append('self->%s = %s;' % (iname, self.expr(e)))
        for iname, e in anon_defaults.items():
            if iname not in inits: body.append('self->%s = %s;' % (iname, self.expr(e)))
        return body

    def emit_func(self, cid):
        d = self.defn.get(cid)
        decl = self.by_id[cid]
        name = self.func_cname(cid)
        node = d or decl
        rec = self.parent.get(node['id']) or self.parent.get(cid)
        is_method = node['kind'] in ('CXXMethodDecl', 'CXXConstructorDecl', 'CXXDestructorDecl', 'CXXConversionDecl') and rec is not None and node.get('storageClass') != 'static' and decl.get('storageClass') != 'static'
        ret_qt, ptypes, _ = fn_param_types(node['type']['qualType'])
        if node['kind'] in ('CXXConstructorDecl', 'CXXDestructorDecl'): ret_qt = 'void'
        if node['kind'] == 'CXXConversionDecl': ret_qt = node['name'].replace('operator ', '')
        self.cur = name
        self.local_names = {}; self.capture_map = getattr(self, 'capture_map', {}) if False else {}
        try:
            rt, self.ret_is_ref = self.ctype2(ret_qt)
        except Unsupported:
            rt, self.ret_is_ref = self.ctype2(node['type'].get('desugaredQualType', ret_qt).split('(')[0])
        self.ret_t = rt.strip(); self.ret_record = self.ret_t.startswith('struct ') and not self.ret_t.endswith('*')
        params = []
        if is_method:
            q = self.qname[rec['id']]
            rt_self = self.resolve_named(q)
            if rt_self is not None and rt_self.startswith('handle:'): params.append('%s self' % rt_self[len('handle:'):])
            elif rt_self is None or not rt_self.startswith('struct '): raise Unsupported('receiver type ' + q)
            else: params.append('%s *self' % rt_self)
        self.cur_self_t = params[0][:-len(' *self')] if params and params[0].endswith(' *self') else None
        pi = 0
        pnames = self.spec.get(('params', name))     # a contract written on the definition's parameter names, attached to a declaration
        for pdecl in node.get('inner', []):
            if pdecl.get('kind') == 'ParmVarDecl':
                pn = pdecl.get('name') or '_p%d' % pi
                if pnames and d is None and pi < len(pnames): pn = pnames[pi]
                txt, is_ref = self.decl_text(pdecl, pn)
                m = re.match(r'^(.*) (\w+)((\[\d*\])+)$', txt)
                if m: txt = '%s *%s' % (m.group(1), m.group(2))    # array parameter decays
                params.append(txt)
                self.local_names[pdecl['id']] = (pn, is_ref)
                pi += 1
        if node.get('variadic'): params.append('...')
        sig = '%s %s(%s)' % (self.ret_t, name, ', '.join(params) or 'void')
        self.emitted_protos[name] = sig + ';'
        contract = self.spec.get(('contract', name))
        if contract: self.used_keys.add(('contract', name))
        if d is None or name in self.stub_names or ('stub', name) in self.spec:
            # declaration only: contract attached to the prototype
            if contract: self.emitted_protos[name] = sig + '\n' + contract.strip('\n') + ';'
            self.emitted_funcs[name] = ''
            return
        self.out = []
        self.loop_no = 0; self.scopes = []; self.call_counts = {}; self.last_calls = []
        self.pre = []; self.post = []; self.uses_exc = False; self.stmt_may_throw = False
        self.try_depth = 0; self.try_labels = []
        self.w(sig)
        if contract:
            for l in contract.strip('\n').split('\n'): self.w(l)
        body = [c for c in d.get('inner', []) if c.get('kind') in ('CompoundStmt', 'CXXTryStmt')][0]
        self.w('{')
        self.scopes.append({'vars': [], 'kind': 'func'})
        if d['kind'] == 'CXXConstructorDecl':
            inits = {}
            for ci in d.get('inner', []):
                if ci.get('kind') == 'CXXCtorInitializer':
                    if 'anyInit' in ci: inits[ci['anyInit']['name']] = self.kids(ci)[0]
                    elif 'baseInit' in ci:
                        raise Unsupported('base-class initialiser (in %s)' % name)
            for s in self.default_field_inits(rec, inits):
                self.flush_expr_stmt(s, '  ')
        self.ghost('entry', '  ')
        self.body_node = body
        self.hoisted = []; hoist_at = len(self.out)
        self.stmt(body, 1)
        if self.hoisted: self.out[hoist_at:hoist_at] = ['  ' + h for h in self.hoisted]     # model objects declared at function scope (see Sync.local_object)
        if d['kind'] == 'CXXDestructorDecl':
            self.ghost('dtor_members', '  ')
            for f in reversed(self.record_fields(rec)):
                ft, _ = self.decl_text(f, f['name']); ct = ft.rsplit(' ', 1)[0]
                if self.models and self.models.is_model_type(ct) and '*' not in ct:
                    for s in self.models.field_dtor(self, f, ct, 'self->' + f['name']): self.w('  ' + s)
                elif ct.startswith('struct ') and '*' not in ct:
                    dd = self.dtor_of_cname(ct[len('struct '):].strip())
                    if dd: self.w('  %s(&self->%s);' % (dd, f['name']))
        self.ghost('exit', '  ')
        self.scopes.pop()
        self.w('}')
        self.w('')
        self.emitted_funcs[name] = '\n'.join(self.out)
        self.func_order.append(name)

    def select(self, qualified, sig=None):
        """canonical ids of functions with that qualified name (and parameter-list substring)"""
        out = []
        for cid in set(self.canon.values()):
            n = self.by_id.get(cid)
            if n is None or n.get('kind') not in FUNC_KINDS: continue
            q = self.qname.get(cid)
            if n['kind'] == 'CXXConstructorDecl': q = q.rsplit('::', 1)[0] + '::ctor' if q else q
            if n['kind'] == 'CXXDestructorDecl': q = q.rsplit('::', 1)[0] + '::dtor' if q else q
            if q != qualified: continue
            if n.get('isImplicit'): continue
            if sig is not None and sig not in n['type']['qualType']: continue
            out.append(cid)
        return sorted(out)

    def emit(self, selectors):
        """selectors: list of qualified names or (qualified name, signature substring)"""
        self.used_keys = set()
        self.cur = '<top>'
        self.local_names = {}; self.capture_map = {}
        self.pre = []; self.post = []; self.call_counts = {}; self.last_calls = []
        for s in selectors:
            q, sig = (s, None) if isinstance(s, str) else s
            ids = self.select(q, sig)
            if not ids: raise Unsupported('selector %s%s matches no function in the AST dump' % (q, ' [%s]' % sig if sig else ''))
            for cid in ids: self.need_func(cid)
        for rname in self.spec.get(('need_records',), []):
            # record types that only the contracts mention (so that a changed body that no longer uses them still compiles against the spec)
            if self.resolve_named(rname) is None: raise Unsupported('record %s named by the spec is not in the AST dump' % rname)
        for gname in self.spec.get(('need_globals',), []):
            # globals that only the contracts mention (the function bodies that use them are replaced by contracts in this unit)
            vids = [i for i, x in self.by_id.items() if x.get('kind') == 'VarDecl' and self.qname.get(i) == gname]
            if not vids: raise Unsupported('global %s named by the spec is not in the AST dump' % gname)
            self.need_global(vids[0])
        while self.work:
            cid = self.work.pop(0)
            self.emit_func(cid)
        # unresolved spec keys -> error (a renamed function / changed loop count must not silently drop a contract)
        for key in self.spec:
            if key[0] in ('contract', 'loop', 'ghost') and key not in self.used_keys:      # (call_as routes are optional: a missing recursive call shows up as a failed postcondition)
                if key[0] == 'contract' and key[1] not in self.emitted_protos:
                    if self.spec.get(('optional', key[1])): continue
                    if self.spec.get(('stub', key[1])):
                        # the contract of a callee stub that the (changed) code no longer calls: nothing to attach it to; what the call
                        # used to establish is then missing from the ghost state, so the caller's postcondition fails rather than passes
                        self.dropped.append('stub contract %s: no call left in the extracted code' % key[1]); continue
                if key[0] in ('loop', 'ghost') and re.search(r'__(find|find_if|remove_if|cvwait|cvwait_bind|lambda)\d+$', key[1]) and key[1] not in self.emitted_funcs:
                    # annotations of a printer-generated helper (algorithm / wait / lambda) that the (changed) code no longer gives rise to:
                    # dropped; what the helper's ghost code used to establish is then missing, so dependent obligations fail rather than pass
                    self.dropped.append('annotation %r: the helper no longer exists in the extracted code' % (key,))
                    if key[0] == 'loop': self.dropped_loops = getattr(self, 'dropped_loops', []) + [(key[1], key[2])]
                    else: self.dropped_helper_ghosts = getattr(self, 'dropped_helper_ghosts', []) + [key[1]]
                    continue
                if key[0] == 'loop' and self.emitted_funcs.get(key[1]):
                    # the function is there but has fewer loops than the spec annotates: a loop contract is only a proof hint, so it is
                    # dropped and the function's own contract is checked as it stands (a changed body then fails its postcondition)
                    self.dropped.append('loop contract %s #%d: no such loop in the extracted function any more' % (key[1], key[2]))
                    self.dropped_loops = getattr(self, 'dropped_loops', []) + [(key[1], key[2])]; continue
                raise Unsupported('spec key %r does not resolve in the extracted code' % (key,))
        return self.assemble()

    def assemble(self):
        parts = []
        if self.models: parts.append(self.models.prelude(self))
        early = self.spec.get(('prelude_early',))
        if early: parts.append(early)
        # enums first, then records in dependency (emission) order
        for cn in self.type_order:
            if cn.startswith('enum_'): parts.append(self.emitted_types[cn])
        for cn in self.type_order:
            if not cn.startswith('enum_') and not cn.startswith('~'): parts.append('struct %s;' % cn)
        for cn in self.sorted_records(): parts.append(self.emitted_types[cn])
        pre = self.spec.get(('prelude',))
        if pre: parts.append(pre)
        for cn in self.global_order: parts.append(self.emitted_globals[cn])
        for name, proto in self.emitted_protos.items():
            if proto: parts.append(proto)
        mid = self.spec.get(('after_protos',))
        if mid: parts.append(mid)
        for l in self.lifted: parts.append(l)
        for name in self.func_order:
            if self.emitted_funcs.get(name): parts.append(self.emitted_funcs[name])
        return '\n'.join(parts) + '\n'

    def sorted_records(self):
        recs = [cn for cn in self.type_order if not cn.startswith('enum_')]
        done = []; seen = set()
        def visit(cn):
            if cn in seen: return
            seen.add(cn)
            txt = self.emitted_types[cn] or ''
            for m in re.finditer(r'struct (\w+) (?!\*)', txt):
                dep = m.group(1)
                if dep != cn and dep in self.emitted_types: visit(dep)
                if dep != cn and ('~' + dep) in self.emitted_types: visit('~' + dep)
            if cn.startswith('~'):
                # a container model over a record element needs the element first
                for m in re.finditer(r'struct (\w+)', txt):
                    if m.group(1) in self.emitted_types: visit(m.group(1))
            done.append(cn)
        for cn in recs: visit(cn)
        return done


def sha256_file(path):
    h = hashlib.sha256()
    with open(path, 'rb') as f: h.update(f.read())
    return h.hexdigest()

if __name__ == '__main__':
    import argparse
    ap = argparse.ArgumentParser()
    ap.add_argument('tu'); ap.add_argument('filter'); ap.add_argument('funcs', nargs='+')
    a = ap.parse_args()
    sys.path.insert(0, os.path.dirname(os.path.abspath(__file__)))
    import models
    docs, cmd = clang_ast(a.tu, a.filter)
    try:
        u = Unit(docs, models=models.Models())
        print(u.emit(a.funcs))
    except Unsupported as e:
        sys.stderr.write('cxx2c: unsupported: %s\n' % e); sys.exit(2)
