"""C03 — SelectLoop::fillFdSets (modules/event/engines/select/loop.cpp): what the select back end asks the kernel to watch.

For an arbitrary tracked descriptor g_tfd: its bit is in the read / write / except set handed to select() IF AND ONLY IF the loop holds a
shared record for it with at least one enabled event of that kind, and the returned nfds covers it.  So every enabled event is watched
(descriptor 0 included) and nothing else is.  The map is iterated through position stubs: every element is visited exactly once, keys
are unique (the tracked key appears only as the tracked element), keys are below FD_SETSIZE (the inherent limit of select(2): assumed).
"""
import os, importlib.util
from verif import UnitSpec, Target, VERIF
_s = importlib.util.spec_from_file_location('c03_select', os.path.join(VERIF, 'specs', 'C03', 'select_loop.py'))
m = importlib.util.module_from_spec(_s); _s.loader.exec_module(m)
PRELUDE = r'''
typedef struct event_SelectLoop SL; typedef struct event_SelectFdSharedData SD;
#define T(x) ((x) != 0)
static SL *g_l;
static int g_tfd; static SD *g_trec; static _Bool g_in;      /* tracked descriptor, its record, whether the map holds it */
static _Bool g_visited, g_cur_tracked; static int g_curkey; static SD *g_currec, *g_other;
#define BIT(set, fd) ((((set)->fds_bits[(fd) / 64]) >> ((fd) % 64)) & 1)
/* the tracked element has been processed: handed out, and not the one being processed now */
#define DONE(it) (T(g_visited) && !((it) != 0 && T(g_cur_tracked)))
#define REC_OK(r) ((r)->read_event_num >= 0 && (r)->write_event_num >= 0 && (r)->except_event_num >= 0)
#define USED(r) ((r)->read_event_num > 0 || (r)->write_event_num > 0 || (r)->except_event_num > 0)
'''
POS_POST = r'''
__CPROVER_ensures((g_cur_tracked == 0 || g_cur_tracked == 1) && (g_visited == 0 || g_visited == 1))
__CPROVER_ensures(__CPROVER_return_value == 0 ==> ((!T(g_in) || T(g_visited)) && g_visited == __CPROVER_old(g_visited)))        /* the end is reached only after every element, the tracked one included */
__CPROVER_ensures(__CPROVER_return_value != 0 ==> (T(g_cur_tracked) ? (T(g_in) && !T(__CPROVER_old(g_visited)) && T(g_visited) && g_curkey == g_tfd && g_currec == g_trec)
                                                                      : (g_visited == __CPROVER_old(g_visited) && g_curkey != g_tfd && g_currec == g_other)))
__CPROVER_ensures(g_curkey < 1024)                          /* select(2) cannot watch descriptors >= FD_SETSIZE: assumed of the registered descriptors */
'''
EXTERN = r'''
long v_umap__begin(struct v_umap *c)
__CPROVER_requires(c == &g_l->fd_data_map_ && !T(g_visited))
__CPROVER_assigns(g_visited, g_cur_tracked, g_curkey, g_currec)
''' + POS_POST + r''';
long v_umap__next(struct v_umap *c, long it)
__CPROVER_requires(c == &g_l->fd_data_map_ && it != 0)
__CPROVER_assigns(g_visited, g_cur_tracked, g_curkey, g_currec)
''' + POS_POST + r''';
int *v_map_it_first(long it)
__CPROVER_requires(it != 0)
__CPROVER_assigns()
__CPROVER_ensures(__CPROVER_return_value == &g_curkey)
;
SD **v_map_it_second(long it)
__CPROVER_requires(it != 0)
__CPROVER_assigns()
__CPROVER_ensures(__CPROVER_return_value == &g_currec)
;
'''
WATCH = lambda s, f: '(T(BIT(%s, g_tfd)) == (T(g_in) && g_trec->%s > 0))' % (s, f)
SPEC = {
    ('prelude_early',): m.EARLY, ('prelude',): PRELUDE, ('after_protos',): EXTERN, ('need_records',): ['tbox::event::SelectFdSharedData'],
    ('contract', 'SL_fill'): r'''
__CPROVER_requires(__CPROVER_is_fresh(self, sizeof(*self)) && __CPROVER_is_fresh(read_set, sizeof(fd_set)) && __CPROVER_is_fresh(write_set, sizeof(fd_set)) && __CPROVER_is_fresh(except_set, sizeof(fd_set)))
__CPROVER_requires(__CPROVER_is_fresh(g_trec, sizeof(SD)) && __CPROVER_is_fresh(g_other, sizeof(SD)) && REC_OK(g_trec) && REC_OK(g_other) && g_tfd >= 0 && g_tfd < 1024 && (g_in == 0 || g_in == 1))
__CPROVER_assigns(g_l, g_visited, g_cur_tracked, g_curkey, g_currec, *read_set, *write_set, *except_set)
__CPROVER_ensures(''' + WATCH('read_set', 'read_event_num') + ' && ' + WATCH('write_set', 'write_event_num') + ' && ' + WATCH('except_set', 'except_event_num') + r''')
__CPROVER_ensures(__CPROVER_return_value >= 0 && __CPROVER_return_value <= 1024 && ((T(g_in) && USED(g_trec)) ==> __CPROVER_return_value > g_tfd))
''',
    ('ghost', 'SL_fill', 'entry'): 'g_l = self; g_visited = 0;',
    # loops 1-3 are the 16-word FD_ZERO loops of <sys/select.h>: only the word of the tracked descriptor matters; loop 4 walks the map
    ('loop', 'SL_fill', 1): r'''
__CPROVER_assigns(__i, __CPROVER_object_whole(__arr))
__CPROVER_loop_invariant(__i <= 16 && ((unsigned)(g_tfd / 64) < __i ==> __arr->fds_bits[g_tfd / 64] == 0))
__CPROVER_decreases(16 - __i)
''',
    ('loop', 'SL_fill', 2): r'''
__CPROVER_assigns(__i, __CPROVER_object_whole(__arr))
__CPROVER_loop_invariant(__i <= 16 && ((unsigned)(g_tfd / 64) < __i ==> __arr->fds_bits[g_tfd / 64] == 0))
__CPROVER_decreases(16 - __i)
''',
    ('loop', 'SL_fill', 3): r'''
__CPROVER_assigns(__i, __CPROVER_object_whole(__arr))
__CPROVER_loop_invariant(__i <= 16 && ((unsigned)(g_tfd / 64) < __i ==> __arr->fds_bits[g_tfd / 64] == 0))
__CPROVER_decreases(16 - __i)
''',
    ('loop', 'SL_fill', 4): r'''
__CPROVER_assigns(__it4, max_fd, g_visited, g_cur_tracked, g_curkey, g_currec, *read_set, *write_set, *except_set)
__CPROVER_loop_invariant((g_cur_tracked == 0 || g_cur_tracked == 1) && (g_visited == 0 || g_visited == 1) && (T(g_visited) ==> T(g_in)) && max_fd >= -1 && max_fd < 1024)
__CPROVER_loop_invariant(__it4 == 0 ==> (!T(g_in) || T(g_visited)))
__CPROVER_loop_invariant(__it4 != 0 ==> (g_curkey < 1024 && (T(g_cur_tracked) ? (T(g_visited) && g_curkey == g_tfd && g_currec == g_trec) : (g_curkey != g_tfd && g_currec == g_other))))
__CPROVER_loop_invariant(T(BIT(read_set, g_tfd)) == (DONE(__it4) && g_trec->read_event_num > 0))
__CPROVER_loop_invariant(T(BIT(write_set, g_tfd)) == (DONE(__it4) && g_trec->write_event_num > 0))
__CPROVER_loop_invariant(T(BIT(except_set, g_tfd)) == (DONE(__it4) && g_trec->except_event_num > 0))
__CPROVER_loop_invariant((DONE(__it4) && USED(g_trec)) ==> max_fd >= g_tfd)
''',
}
H = m.H
UNITS = [UnitSpec(name='select_fill', tu=m.TU, filter='tbox::event', rename=m.R, spec=SPEC, emit=['tbox::event::SelectLoop::fillFdSets'],
    plugins=m.UNITS[0].plugins, model_headers=m.UNITS[0].model_headers, opaque_records=m.UNITS[0].opaque_records,
    targets=[Target('fillFdSets', H('  SL *l; fd_set *r, *w, *e; SL_fill(l, r, w, e);'), enforce='SL_fill', replace=['v_umap__begin', 'v_umap__next', 'v_map_it_first', 'v_map_it_second'], timeout=600,
                    clause='select registration: a descriptor is watched for a kind of readiness iff the loop holds enabled events of that kind for it (descriptor 0 included); nfds covers it')])]
def native_replay(u, t, o, w, workdir):
    import replay as rp
    L = '/repo/_build/modules'
    libs = ['%s/event/libtbox_event.a' % L, '%s/util/libtbox_util.a' % L, '%s/base/libtbox_base.a' % L, '-ldl']
    return rp.attempt('select_fd0', ['modules/event/engines/select/fd_event.cpp', 'modules/event/engines/select/loop.cpp'], os.path.join(workdir, 'replay'), [('scenario', ['select'])], extra=libs)
