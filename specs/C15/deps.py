"""C15 rests on the deadline wheel (eventx::TimeoutMonitor, units of C14) and on util::Deserializer (unit of C19): the same units
are part of this property's check, so a change that breaks them is reported here as well."""
import os, importlib.util
from verif import VERIF
def _load(prop, name):
    s = importlib.util.spec_from_file_location('dep_%s_%s' % (prop, name), os.path.join(VERIF, 'specs', prop, name + '.py'))
    m = importlib.util.module_from_spec(s); s.loader.exec_module(m); return m
_t = _load('C14', 'timeout_monitor'); _s = _load('C19', 'serializer')
UNITS = _t.UNITS + _s.UNITS
def native_replay(u, t, o, w, workdir):
    if u.name.startswith('timeout_monitor'): return _t.native_replay(u, t, o, w, workdir)
    return {'reproduced': False, 'note': 'no native driver for this unit'}
