"""C08 (cabinet tokens) — cabinet::Cabinet<T> (modules/base/cabinet.hpp), explicitly instantiated with a POD by
drivers/cabinet_tu.cpp (no logic in the driver).

B(capacity 8): the cell vector is the fixed-capacity model (the union inside Cell rules out symbolic-size arrays, DESIGN
section 2); every cell content, id, free-list shape, counter and token is symbolic.  With a constant capacity the
representation invariant is written out over all cells / cell pairs (no ghost indices):
  ids of occupied cells are <= last_id_ and pairwise distinct; first_free_ / next_free form a well-formed free list
  (targets are free cells, no two free cells share a successor, nobody points at first_free_);
  count_ == number of occupied cells.
Each operation: INV preserved + effect on the abstract map  token -> object  observed through an arbitrary ghost token u:
only the addressed token changes; a token that resolves to nothing and whose id is <= last_id_ stays dead for ever
(also across slot reuse and across clear()).
"""
import os
from verif import UnitSpec, Target
from plugins import StdVector

CAP = 8
C = 'tbox::cabinet::Cabinet<VObj>::'
R = {'cabinet_Cabinet_VObj__alloc': 'Cab_alloc', 'cabinet_Cabinet_VObj__update': 'Cab_update', 'cabinet_Cabinet_VObj__free': 'Cab_free',
     'cabinet_Cabinet_VObj__at': 'Cab_at', 'cabinet_Cabinet_VObj__clear': 'Cab_clear', 'cabinet_Cabinet_VObj__size': 'Cab_size',
     'cabinet_Cabinet_VObj__allocId': 'Cab_allocId', 'cabinet_Cabinet_VObj__allocPos': 'Cab_allocPos'}

PRELUDE = r'''
typedef unsigned long v_handle_t;   /* T* of the instantiation: an opaque handle, the cabinet never dereferences it */
#define VNULL ((v_handle_t)0)
'''
AFTER = r'''
#define CAB_CAP 8
#define NOPOS 0xffffffffffffffffUL
typedef struct cabinet_Cabinet_VObj_ Cab;
#define CELL(c, i) ((c)->cells_.data[i])
/* representation invariant, written out over the constant capacity */
static _Bool cab_inv(const Cab *c)
{
  size_t n = c->cells_.size;
  if (n > CAB_CAP) return 0;
  if (c->last_id_ == NOPOS) return 0;                       /* id wrap after 2^64 allocations: stated limit of the mechanism */
  if (!(c->first_free_ == NOPOS || (c->first_free_ < n && CELL(c, c->first_free_).id == 0))) return 0;
  size_t occupied = 0;
  for (size_t i = 0; i < CAB_CAP; ++i) {
    if (i >= n) continue;
    if (CELL(c, i).id != 0) {
      occupied++;
      if (CELL(c, i).id > c->last_id_) return 0;
      for (size_t j = 0; j < CAB_CAP; ++j) if (j < n && j != i && CELL(c, j).id == CELL(c, i).id) return 0;
    } else {
      size_t nx = CELL(c, i).obj_ptr /* == next_free (same 64-bit cell) */;
      if (!(nx == NOPOS || (nx < n && CELL(c, nx).id == 0 && nx != i))) return 0;
      if (nx != NOPOS && nx == c->first_free_) return 0;     /* nobody points at the head */
      for (size_t j = 0; j < CAB_CAP; ++j) if (j < n && j != i && CELL(c, j).id == 0 && nx != NOPOS && CELL(c, j).obj_ptr == nx) return 0;
      /* every free cell is on the list: it is the head or some free cell points at it */
      _Bool reached = (c->first_free_ == i);
      for (size_t j = 0; j < CAB_CAP; ++j) if (j < n && j != i && CELL(c, j).id == 0 && CELL(c, j).obj_ptr == i) reached = 1;
      if (!reached) return 0;
    }
  }
  return c->count_ == occupied;
}
/* abstraction: what a token resolves to (specification of at(), from the property: the object stored with it, else nothing) */
static v_handle_t cab_lookup(const Cab *c, unsigned long id, unsigned long pos)
{
  if (id == 0 || pos >= c->cells_.size || pos >= CAB_CAP) return VNULL;
  return CELL(c, pos).id == id ? CELL(c, pos).obj_ptr : VNULL;
}
static _Bool cab_live(const Cab *c, unsigned long id, unsigned long pos)
{ return id != 0 && pos < c->cells_.size && pos < CAB_CAP && CELL(c, pos).id == id; }
'''

H = lambda body: '\nvoid H(void)\n{\n  Cab c; __CPROVER_assume(cab_inv(&c)); __exc = 0;\n  unsigned long uid, upos; /* arbitrary observer token */\n  v_handle_t before_u = cab_lookup(&c, uid, upos); _Bool live_u = cab_live(&c, uid, upos); size_t count0 = c.count_; unsigned long last0 = c.last_id_;\n' + body + '\n  __CPROVER_assert(0, "VACUITY-CANARY");\n}\n'

H_ALLOC = H(r'''  __CPROVER_assume(c.cells_.size < CAB_CAP || c.first_free_ != NOPOS);     /* room within the modelled capacity */
  __CPROVER_assume(c.last_id_ < NOPOS - 2);                                 /* id wrap after 2^64 allocations: stated limit of the mechanism */
  v_handle_t obj; struct cabinet_Token t = Cab_alloc(&c, obj);
  __CPROVER_assert(__exc == 0, "alloc throws nothing");
  __CPROVER_assert(cab_inv(&c), "alloc preserves the representation invariant");
  __CPROVER_assert(t.id_ != 0 && cab_live(&c, t.id_, t.pos_) && cab_lookup(&c, t.id_, t.pos_) == obj, "the new token resolves to the stored object");
  __CPROVER_assert(c.count_ == count0 + 1, "size grows by one");
  __CPROVER_assert(!(uid == t.id_ && upos == t.pos_) ==> (cab_live(&c, uid, upos) == live_u && cab_lookup(&c, uid, upos) == before_u), "every other token resolves as before (live entries keep their object, dead tokens stay dead)");
  __CPROVER_assert((uid == t.id_ && upos == t.pos_) ==> !live_u, "the new token is distinct from every live token");
  __CPROVER_assert((uid != 0 && uid <= last0 && !live_u) ==> !cab_live(&c, uid, upos), "a token that was handed out earlier and is dead is not resurrected by slot reuse");''')

H_FREE = H(r'''  struct cabinet_Token t; v_handle_t want = cab_lookup(&c, t.id_, t.pos_); _Bool was = cab_live(&c, t.id_, t.pos_);
  v_handle_t r = Cab_free(&c, &t);
  __CPROVER_assert(__exc == 0, "free throws nothing");
  __CPROVER_assert(cab_inv(&c), "free preserves the representation invariant");
  __CPROVER_assert(r == want, "free returns the stored object, or nothing for a dead / null / foreign token");
  __CPROVER_assert(!cab_live(&c, t.id_, t.pos_), "the freed token resolves to nothing");
  __CPROVER_assert(c.count_ == count0 - (was ? 1 : 0) && c.last_id_ == last0, "size shrinks by one exactly when an entry was freed");
  __CPROVER_assert(!(uid == t.id_ && upos == t.pos_) ==> (cab_live(&c, uid, upos) == live_u && cab_lookup(&c, uid, upos) == before_u), "every other token resolves as before");''')

H_UPDATE = H(r'''  struct cabinet_Token t; v_handle_t obj; _Bool was = cab_live(&c, t.id_, t.pos_);
  _Bool r = Cab_update(&c, &t, obj);
  __CPROVER_assert(__exc == 0 && cab_inv(&c) && r == was, "update succeeds exactly for live tokens and keeps the invariant");
  __CPROVER_assert(was ==> cab_lookup(&c, t.id_, t.pos_) == obj, "the token now resolves to the new object");
  __CPROVER_assert(c.count_ == count0 && c.last_id_ == last0, "size unchanged");
  __CPROVER_assert(!(uid == t.id_ && upos == t.pos_) ==> (cab_live(&c, uid, upos) == live_u && cab_lookup(&c, uid, upos) == before_u), "every other token resolves as before");''')

H_AT = H(r'''  struct cabinet_Token t; v_handle_t r = Cab_at(&c, &t);
  __CPROVER_assert(__exc == 0 && r == cab_lookup(&c, t.id_, t.pos_), "at() resolves a token to the object stored with it, else to nothing");
  __CPROVER_assert(Cab_size(&c) == count0 && cab_inv(&c), "at()/size() change nothing");''')

H_CLEAR = H(r'''  Cab_clear(&c);
  __CPROVER_assert(cab_inv(&c) && c.count_ == 0 && c.cells_.size == 0, "clear empties the cabinet");
  __CPROVER_assert(!cab_live(&c, uid, upos), "no token resolves after clear");
  __CPROVER_assert(c.last_id_ >= last0, "clear keeps the id counter, so tokens handed out before clear() stay dead when slots and ids are handed out again");''')

H_SEQ = H(r'''  /* the lemma spelled out on the real code: alloc, free, alloc again reuses the slot with a new id; the old token stays dead */
  __CPROVER_assume(c.cells_.size < CAB_CAP || c.first_free_ != NOPOS); __CPROVER_assume(c.last_id_ < NOPOS - 3);
  v_handle_t o1, o2; struct cabinet_Token t1 = Cab_alloc(&c, o1);
  __CPROVER_assert(Cab_free(&c, &t1) == o1, "free returns what alloc stored");
  struct cabinet_Token t2 = Cab_alloc(&c, o2);
  __CPROVER_assert(t2.pos_ == t1.pos_ && t2.id_ != t1.id_, "the slot is reused under a fresh id");
  __CPROVER_assert(Cab_at(&c, &t1) == VNULL && Cab_free(&c, &t1) == VNULL && !Cab_update(&c, &t1, o1), "the stale token resolves to nothing");
  __CPROVER_assert(Cab_at(&c, &t2) == o2 && cab_inv(&c), "the new token resolves to the new object");''')

REPLAY_SOURCES = []
def native_replay(u, t, o, w, workdir):
    import replay as rp
    return rp.attempt('cabinet', REPLAY_SOURCES, os.path.join(workdir, 'replay'), [('native-search', ['search'])])

FN = ['Cab_alloc', 'Cab_allocId', 'Cab_allocPos']
UNITS = [UnitSpec(
    name='cabinet', tu='/verif/drivers/cabinet_tu.cpp', filter='tbox::cabinet', rename=R,
    spec={('after_protos',): AFTER, ('prelude_early',): PRELUDE}, opaque_records={'VObj': 'handle:v_handle_t'},
    plugins=[StdVector(fixed={'struct cabinet_Cabinet_VObj__Cell': CAP})], model_headers=['vec_model.h'],
    emit=[C + 'alloc', C + 'update', C + 'free', C + 'at', C + 'clear', C + 'size'],
    trusted=['drivers/cabinet_tu.cpp: explicit instantiation Cabinet<VObj> (no logic)', 'std::vector<Cell> as fixed-capacity model (capacity 8, growth cut off by assume)'],
    targets=[
        Target('alloc', H_ALLOC, loops=False, unwind=CAP + 2, bound='capacity 8', functions=FN, clause='alloc: invariant, fresh distinct token, others unchanged, dead tokens stay dead'),
        Target('free', H_FREE, loops=False, unwind=CAP + 2, bound='capacity 8', functions=['Cab_free'], clause='free: only the addressed live entry goes; null/stale/foreign tokens are no-ops'),
        Target('update', H_UPDATE, loops=False, unwind=CAP + 2, bound='capacity 8', functions=['Cab_update'], clause='update: only the addressed live entry changes'),
        Target('at', H_AT, loops=False, unwind=CAP + 2, bound='capacity 8', functions=['Cab_at', 'Cab_size'], clause='at/size: pure, resolve per abstraction'),
        Target('clear', H_CLEAR, loops=False, unwind=CAP + 2, bound='capacity 8', functions=['Cab_clear'], clause='clear: everything dead, ids not reused afterwards'),
        Target('reuse_sequence', H_SEQ, loops=False, unwind=CAP + 2, bound='capacity 8', functions=FN + ['Cab_free', 'Cab_at', 'Cab_update'], clause='alloc/free/alloc: slot reuse under a fresh id, stale token dead'),
    ],
)]
