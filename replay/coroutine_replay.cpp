// two routines wait on a semaphore (count 0); a third releases twice in one go; when the scheduler is idle again, count_ must not be
// positive with a routine still suspended on it.  Same for a channel (two sends) .
#include <tbox/coroutine/scheduler.h>
#include <tbox/coroutine/semaphore.hpp>
#include <tbox/coroutine/channel.hpp>
#include <tbox/coroutine/mutex.hpp>
#include <tbox/event/loop.h>
#include <cstdio>
using namespace tbox; using namespace tbox::coroutine;
int main(int argc, char **argv) {
    auto loop = event::Loop::New();
    int bad = 0;
    {
        Scheduler sch(loop);
        Semaphore sem(sch, 0);
        int got = 0;
        auto waiter = [&](Scheduler &) { if (sem.acquire()) ++got; };
        sch.create(waiter); sch.create(waiter);
        sch.create([&](Scheduler &s) { s.yield(); s.yield(); sem.release(); sem.release(); });
        loop->exitLoop(std::chrono::milliseconds(200)); loop->runLoop();
        printf("semaphore: acquired=%d of 2 after 2 releases\n", got);
        if (got != 2) { printf("VIOLATION: a routine is left suspended on a semaphore whose count is positive (lost wake-up)\n"); bad = 1; }
        sch.cleanup();
    }
    {
        Scheduler sch(loop);
        Channel<int> ch(sch);
        int got = 0;
        auto reader = [&](Scheduler &) { int v; if (ch >> v) ++got; };
        sch.create(reader); sch.create(reader);
        sch.create([&](Scheduler &s) { s.yield(); s.yield(); ch << 1; ch << 2; });
        loop->exitLoop(std::chrono::milliseconds(200)); loop->runLoop();
        printf("channel: received=%d of 2 after 2 sends\n", got);
        if (got != 2) { printf("VIOLATION: a routine is left suspended on a non-empty channel (lost wake-up)\n"); bad = 1; }
        sch.cleanup();
    }
    {
        Scheduler sch(loop);
        Mutex mu(sch);
        int a_got = 0;
        sch.create([&](Scheduler &s) { mu.lock(); s.yield(); s.yield(); mu.unlock(); mu.lock(); s.yield(); mu.unlock(); });   // holder re-locks right after unlocking
        sch.create([&](Scheduler &s) { s.yield(); if (mu.lock()) { ++a_got; mu.unlock(); } });
        loop->exitLoop(std::chrono::milliseconds(200)); loop->runLoop();
        printf("mutex: waiter got the lock %d time(s)\n", a_got);
        if (a_got != 1) { printf("VIOLATION: a routine is left suspended on a mutex that is free (lost wake-up)\n"); bad = 1; }
        sch.cleanup();
    }
    delete loop;
    return bad;
}
