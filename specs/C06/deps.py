"""C06 depends on the contracts of util::Buffer (C07) and util::Fd (C08): BufferedFd is proved AGAINST those contracts, so a
change that breaks them breaks C06 as well.  The same units are therefore part of this property's check."""
import os, importlib.util
from verif import VERIF
def _load(prop, name):
    s = importlib.util.spec_from_file_location('dep_%s_%s' % (prop, name), os.path.join(VERIF, 'specs', prop, name + '.py'))
    m = importlib.util.module_from_spec(s); s.loader.exec_module(m); return m
_b = _load('C07', 'buffer'); _f = _load('C08', 'fd')
UNITS = _b.UNITS + _f.UNITS
native_replay = None
def _dispatch(u, t, o, w, workdir):
    return (_b if u.name == 'buffer' else _f).native_replay(u, t, o, w, workdir)
native_replay = _dispatch
REPLAY_SOURCES = ['modules/util/buffer.cpp', 'modules/util/fd.cpp', 'modules/base/log_impl.cpp']
