"""C09 — log::AsyncSink::onLogBackEnd (modules/log/async_sink.cpp): formatting one record into the output cache.

snprintf is a model with the man-page semantics that matter here: it writes at most n bytes and returns the length the COMPLETE text
would have had (any non-negative int, possibly >= n).  append(str, len) is a stub that requires all len bytes to lie inside the object
str points into.  Decided: the cached timestamp string is refreshed for this record's second before anything is written; every append
stays inside its source object - in particular the 1 KiB formatting buffer, whatever the lengths of module, function and file name
[found: the untruncated length was appended, reading past the stack buffer - fixed 82be40c]; exactly one end of line per record.
Not decided: the text that is produced (format strings, field order).
"""
import os, importlib.util
from verif import UnitSpec, Target, VERIF
_s = importlib.util.spec_from_file_location('c09_back', os.path.join(VERIF, 'specs', 'C09', 'async_sink_back.py'))
b = importlib.util.module_from_spec(_s); _s.loader.exec_module(b)
from plugins import StdFunction, StdVector, Sync, Chrono, StringStreamSink, Syscalls
R = {'log_AsyncSink_onLogBackEnd': 'Sink_onLogBackEnd', 'log_AsyncSink_append__Kcharp_size_t': 'Sink_append', 'log_AsyncSink_append__char': 'Sink_append_ch', 'log_AsyncSink_endline': 'Sink_endline', 'log_Sink_updateTimestampStr': 'Sink_updateTs'}
STUBS = ['Sink_append', 'Sink_append_ch', 'Sink_endline', 'Sink_updateTs']
PRELUDE = r"""
typedef struct LogContent LogContent; typedef struct log_AsyncSink Sink;
#define T(x) ((x) != 0)
static Sink *g_s; static size_t g_appends, g_endlines, g_ts; static unsigned g_ts_sec;
"""
EXTERN = r"""
/* snprintf(3): writes at most n bytes (NUL included) and RETURNS THE LENGTH THE COMPLETE TEXT WOULD HAVE HAD - any non-negative number,
   possibly >= n when the text did not fit (a model with a body: contracts on variadic functions are not instrumented) */
int v_sys_snprintf(char *buf, size_t n, const char *fmt, ...)
{
  __CPROVER_assert(n > 0 && __CPROVER_w_ok(buf, n), "snprintf: buffer of n bytes is writable");
  int r; __CPROVER_assume(r >= 0);
  /* what is written into buf is not modelled: no obligation here depends on the text */
  return r;
}
/* append(str, len) copies len bytes starting at str: all of them must lie inside the object str points into */
void Sink_append(Sink *self, const char *str, size_t len) __CPROVER_requires(self == g_s && g_endlines == 0 && (len == 0 || __CPROVER_r_ok(str, len))) __CPROVER_assigns(g_appends) __CPROVER_ensures(g_appends == __CPROVER_old(g_appends) + 1);
void Sink_append_ch(Sink *self, char ch) __CPROVER_requires(self == g_s && g_endlines == 0) __CPROVER_assigns(g_appends) __CPROVER_ensures(g_appends == __CPROVER_old(g_appends) + 1);
void Sink_endline(Sink *self) __CPROVER_requires(self == g_s && g_endlines == 0 && g_ts == 1) __CPROVER_assigns(g_endlines) __CPROVER_ensures(g_endlines == 1);
void Sink_updateTs(struct v_Sink *s, uint32_t sec) __CPROVER_requires(s == &g_s->__base_v_Sink && g_ts == 0 && g_appends == 0) __CPROVER_assigns(g_ts, g_ts_sec) __CPROVER_ensures(g_ts == 1 && g_ts_sec == sec);
"""
SPEC = {('prelude_early',): b.SPEC[('prelude_early',)].replace('struct v_Sink { char timestamp_str_[32]; }', 'struct v_Sink { char timestamp_str_[32]; _Bool enable_color_; }'), ('prelude',): PRELUDE, ('after_protos',): EXTERN,
    ('contract', 'Sink_onLogBackEnd'): r"""
__CPROVER_requires(__CPROVER_is_fresh(self, sizeof(*self)) && __CPROVER_is_fresh(content, sizeof(*content)) && content->level >= 0 && content->level < 8)       /* level: clamped by LogPrintfFunc (unit log_printf) */
__CPROVER_requires(content->text_len < 0x10000000u && (content->text_len == 0 || __CPROVER_is_fresh(content->text_ptr, content->text_len)))
__CPROVER_assigns(g_s, g_appends, g_endlines, g_ts, g_ts_sec, v_strlen_len)
/* one record: the timestamp string refreshed for THIS record's second before anything is written, one end of line, nothing read outside the
   objects handed to append (in particular not outside the 1 KiB formatting buffer when a name is too long for it) */
__CPROVER_ensures(g_endlines == 1 && g_ts == 1 && g_ts_sec == content->timestamp.sec)
""",
    ('ghost', 'Sink_onLogBackEnd', 'entry'): 'g_s = self; g_appends = 0; g_endlines = 0; g_ts = 0;',
    ('ghost', 'Sink_onLogBackEnd', 'before_call:strlen:1'): 'v_strlen_len = 12;      /* strlen("(TRUNCATED) ") */',
}
SPEC.update({('stub', n): True for n in STUBS})
H = b.H
U0 = b.UNITS[0]
UNITS = [UnitSpec(name='async_sink_format', tu=b.m.TU, filter='tbox::log', more_filters=[(b.m.TU, 'LogContent'), (b.m.TU, 'tbox::util'), (b.m.TU, 'LEVEL_COLOR@LOG_LEVEL_COLOR_CODE'), (b.m.TU, 'LEVEL_LEVEL@LOG_LEVEL_LEVEL_CODE')], spec=SPEC, rename=R,
    plugins=[StdFunction(), StdVector(), Sync(), Chrono(abstract_time=True), StringStreamSink(), Syscalls(extra=('snprintf',))], model_headers=U0.model_headers, opaque_records=U0.opaque_records,
    emit=['tbox::log::AsyncSink::onLogBackEnd'],
    targets=[Target('onLogBackEnd', H('  Sink *s; const LogContent *c; Sink_onLogBackEnd(s, c);'), enforce='Sink_onLogBackEnd', replace=STUBS, clause='formatting: timestamp refreshed first, exactly one end of line, every append reads inside the object it is given (no read past the 1 KiB formatting buffer when snprintf reports a longer text)')])]
def native_replay(u, t, o, w, workdir):
    import replay as rp
    L = '/repo/_build/modules'
    libs = ['%s/%s/libtbox_%s.a' % (L, x, x) for x in ('log', 'util', 'event', 'base')] + ['-ldl']
    return rp.attempt('async_sink_back', ['modules/log/async_sink.cpp'], os.path.join(workdir, 'replay'), [('scenario', ['longname'])], extra=libs)
