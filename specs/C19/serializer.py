"""C19 — big/little-endian Serializer / Deserializer (modules/util/serializer.cpp), raw-buffer mode.

Representation invariants: Deserializer: pos_ <= size_, start_ is a live block of size_ bytes.  Serializer (raw): same.
Every fetch/append: succeeds iff pos + width <= size; on success the value / the bytes are the big- or little-endian
image at the old position and pos advances by the width; on failure nothing changes.  fetch o append == identity for all
values, widths and both byte orders (loop-free => complete).  Vector mode of the Serializer goes through the
std::vector model (lemma target, bounded by the model).
"""
import os
from verif import UnitSpec, Target
from plugins import StdVector

R = {
 'util_Serializer_ctor__voidp_size_t_tbox_util_Endian': 'Ser_ctor_raw', 'util_Serializer_ctor__std_vectoruint8_tr_tbox_util_Endian': 'Ser_ctor_vec',
 'util_Serializer_append__uint8_t': 'Ser_append_u8', 'util_Serializer_append__uint16_t': 'Ser_append_u16', 'util_Serializer_append__uint32_t': 'Ser_append_u32',
 'util_Serializer_append__uint64_t': 'Ser_append_u64', 'util_Serializer_append__Kvoidp_size_t': 'Ser_append_raw', 'util_Serializer_appendPOD': 'Ser_appendPOD',
 'util_Serializer_extendSize': 'Ser_extendSize', 'util_Deserializer_ctor': 'Des_ctor', 'util_Deserializer_fetch__uint8_tr': 'Des_fetch_u8',
 'util_Deserializer_fetch__uint16_tr': 'Des_fetch_u16', 'util_Deserializer_fetch__uint32_tr': 'Des_fetch_u32', 'util_Deserializer_fetch__uint64_tr': 'Des_fetch_u64',
 'util_Deserializer_fetch__voidp_size_t': 'Des_fetch_raw', 'util_Deserializer_fetchPOD': 'Des_fetchPOD', 'util_Deserializer_fetchNoCopy': 'Des_fetchNoCopy',
 'util_Deserializer_skip': 'Des_skip', 'op_shr__tbox_util_Deserializerr_uint8_tr': 'Des_shr_u8', 'op_shr__tbox_util_Deserializerr_uint16_tr': 'Des_shr_u16',
 'op_shr__tbox_util_Deserializerr_uint32_tr': 'Des_shr_u32', 'op_shr__tbox_util_Deserializerr_uint64_tr': 'Des_shr_u64', 'util_Deserializer_set_pos': 'Des_set_pos', 'util_Deserializer_checkSize': 'Des_checkSize', 'util_Deserializer_setEndian': 'Des_setEndian',
}

PRELUDE = r'''
static size_t g_j; static uint8_t g_byte;     /* tracked offset / byte */
#define BIG 0
#define LITTLE 1
#define DWF(d) ((d)->size_ < V_MAXSZ && (d)->pos_ <= (d)->size_ && ((d)->endian_ == BIG || (d)->endian_ == LITTLE))
#define SWF(s) ((s)->type_ == util_Serializer_kRaw && (s)->size_ < V_MAXSZ && (s)->pos_ <= (s)->size_ && ((s)->endian_ == BIG || (s)->endian_ == LITTLE))
#define B_(p, i) ((uint64_t)(p)[i])
/* value of the W-byte field at p in byte order e (written from the definition of big/little endian) */
#define VAL16(p, e) ((e) == BIG ? (B_(p, 0) << 8 | B_(p, 1)) : (B_(p, 1) << 8 | B_(p, 0)))
#define VAL32(p, e) ((e) == BIG ? (B_(p, 0) << 24 | B_(p, 1) << 16 | B_(p, 2) << 8 | B_(p, 3)) : (B_(p, 3) << 24 | B_(p, 2) << 16 | B_(p, 1) << 8 | B_(p, 0)))
#define VAL64(p, e) ((e) == BIG ? (B_(p, 0) << 56 | B_(p, 1) << 48 | B_(p, 2) << 40 | B_(p, 3) << 32 | B_(p, 4) << 24 | B_(p, 5) << 16 | B_(p, 6) << 8 | B_(p, 7)) : \
                                  (B_(p, 7) << 56 | B_(p, 6) << 48 | B_(p, 5) << 40 | B_(p, 4) << 32 | B_(p, 3) << 24 | B_(p, 2) << 16 | B_(p, 1) << 8 | B_(p, 0)))
#define OLDPOS __CPROVER_old(self->pos_)
'''
REQ_D = r'''
__CPROVER_requires(__CPROVER_is_fresh(self, sizeof(*self)) && DWF(self))
__CPROVER_requires(__CPROVER_is_fresh(self->start_, (self->size_ > 0 ? self->size_ : 1)))   /* size 0: a valid pointer to an empty range (C++ also allows nullptr + 0) */
'''
REQ_S = r'''
__CPROVER_requires(__CPROVER_is_fresh(self, sizeof(*self)) && SWF(self))
__CPROVER_requires(self->size_ > 0 ==> __CPROVER_is_fresh(self->start_, self->size_))
__CPROVER_requires(g_j < self->size_ ==> self->start_[g_j] == g_byte)
'''
def fetch_c(T, W, val):
    return REQ_D + r'''
__CPROVER_requires(__CPROVER_is_fresh(out, sizeof(%s)))
__CPROVER_assigns(self->pos_, *out)
__CPROVER_ensures(DWF(self))
__CPROVER_ensures(__CPROVER_return_value == (OLDPOS + %d <= self->size_))
__CPROVER_ensures(__CPROVER_return_value ==> (self->pos_ == OLDPOS + %d && *out == (%s)(%s)))
__CPROVER_ensures(!__CPROVER_return_value ==> (self->pos_ == OLDPOS && *out == __CPROVER_old(*out)))
''' % (T, W, W, T, val)
def shr_c(T, W, val):
    # stream form: the result of fetch is discarded - on a short buffer the output simply keeps its old value
    return REQ_D.replace('self', 's') + r'''
__CPROVER_requires(__CPROVER_is_fresh(out, sizeof(%s)))
__CPROVER_assigns(s->pos_, *out)
__CPROVER_ensures(DWF(s) && __CPROVER_return_value == s)
__CPROVER_ensures((__CPROVER_old(s->pos_) + %d <= s->size_) ? (s->pos_ == __CPROVER_old(s->pos_) + %d && *out == (%s)(%s)) : (s->pos_ == __CPROVER_old(s->pos_) && *out == __CPROVER_old(*out)))
''' % (T, W, W, T, val.replace('self->', 's->').replace('OLDPOS', '__CPROVER_old(s->pos_)'))
DES_CTOR = r'''
__CPROVER_requires(__CPROVER_is_fresh(self, sizeof(*self)) && size < V_MAXSZ && V_PREBLK_R_Des_ctor(start, (size > 0 ? size : 1)))
__CPROVER_assigns(*self)
__CPROVER_ensures(__CPROVER_pointer_equals(self->start_, (const uint8_t *)start) && self->size_ == size && self->endian_ == endian && self->pos_ == 0)   /* pointer_equals: a caller may dereference through start_ */
'''
def append_c(W, bytes_clause):
    return REQ_S + r'''
__CPROVER_assigns(self->pos_; self->size_ > 0: __CPROVER_object_whole(self->start_))
__CPROVER_ensures(SWF(self))
__CPROVER_ensures(__CPROVER_return_value == (OLDPOS + %d <= self->size_))
__CPROVER_ensures(self->pos_ == (__CPROVER_return_value ? OLDPOS + %d : OLDPOS))
__CPROVER_ensures(__CPROVER_return_value ==> (%s))
__CPROVER_ensures((g_j < self->size_ && (!__CPROVER_return_value || g_j < OLDPOS || g_j >= OLDPOS + %d)) ==> self->start_[g_j] == g_byte)
''' % (W, W, bytes_clause, W)

SPEC = {
    ('contract', 'Des_fetch_u8'): fetch_c('uint8_t', 1, 'self->start_[OLDPOS]'),
    ('contract', 'Des_fetch_u16'): fetch_c('uint16_t', 2, 'VAL16(self->start_ + OLDPOS, self->endian_)'),
    ('contract', 'Des_fetch_u32'): fetch_c('uint32_t', 4, 'VAL32(self->start_ + OLDPOS, self->endian_)'),
    ('contract', 'Des_fetch_u64'): fetch_c('uint64_t', 8, 'VAL64(self->start_ + OLDPOS, self->endian_)'),
    ('contract', 'Des_ctor'): DES_CTOR,
    ('contract', 'Des_shr_u8'): shr_c('uint8_t', 1, 'self->start_[OLDPOS]'),
    ('contract', 'Des_shr_u16'): shr_c('uint16_t', 2, 'VAL16(self->start_ + OLDPOS, self->endian_)'),
    ('contract', 'Des_shr_u32'): shr_c('uint32_t', 4, 'VAL32(self->start_ + OLDPOS, self->endian_)'),
    ('contract', 'Des_fetch_raw'): REQ_D + r'''
__CPROVER_requires(size < V_MAXSZ && (size > 0 ==> __CPROVER_is_fresh(p, size)))
__CPROVER_assigns(self->pos_, v_mc_off; size > 0: __CPROVER_object_upto(p, size))
__CPROVER_ensures(DWF(self))
__CPROVER_ensures(__CPROVER_return_value == (OLDPOS + size <= self->size_))
__CPROVER_ensures(self->pos_ == (__CPROVER_return_value ? OLDPOS + size : OLDPOS))
__CPROVER_ensures((__CPROVER_return_value && g_j < size) ==> ((uint8_t *)p)[g_j] == self->start_[OLDPOS + g_j])
''',
    ('ghost', 'Des_fetch_raw', 'entry'): 'v_mc_off[0] = g_j; v_mc_off[1] = g_j;',
    ('contract', 'Des_fetchPOD'): REQ_D + r'''
__CPROVER_requires(size >= 1 && size < V_MAXSZ && __CPROVER_is_fresh(p, size))
__CPROVER_assigns(self->pos_, v_mc_off; size > 0: __CPROVER_object_upto(p, size))
__CPROVER_ensures(DWF(self))
__CPROVER_ensures(__CPROVER_return_value == (OLDPOS + size <= self->size_))
__CPROVER_ensures(self->pos_ == (__CPROVER_return_value ? OLDPOS + size : OLDPOS))
__CPROVER_ensures((__CPROVER_return_value && g_j < size) ==> ((uint8_t *)p)[g_j] == self->start_[OLDPOS + (self->endian_ == LITTLE ? g_j : size - 1 - g_j)])
''',
    ('ghost', 'Des_fetchPOD', 'entry'): 'v_mc_off[0] = g_j; v_mc_off[1] = g_j;',
    ('loop', 'Des_fetchPOD', 1): r'''
__CPROVER_assigns(times, p_out, p_in; size > 0: __CPROVER_object_upto(p, size))
__CPROVER_loop_invariant(times <= size && __CPROVER_same_object(p_in, self->start_) && __CPROVER_POINTER_OFFSET(p_in) == self->pos_ + (size - times))
__CPROVER_loop_invariant(times > 0 ==> (__CPROVER_same_object(p_out, p) && __CPROVER_POINTER_OFFSET(p_out) == times - 1))
__CPROVER_loop_invariant((g_j < size && g_j >= times) ==> ((uint8_t *)p)[g_j] == self->start_[self->pos_ + size - 1 - g_j])
__CPROVER_decreases(times)
''',
    ('contract', 'Des_fetchNoCopy'): REQ_D + r'''
__CPROVER_requires(size < V_MAXSZ)
__CPROVER_assigns(self->pos_)
__CPROVER_ensures(DWF(self))
__CPROVER_ensures((OLDPOS + size <= self->size_) ? (__CPROVER_pointer_equals(__CPROVER_return_value, self->start_ + OLDPOS) && self->pos_ == OLDPOS + size) : (__CPROVER_return_value == NULL && self->pos_ == OLDPOS))
''',
    ('contract', 'Des_skip'): REQ_D + r'''
__CPROVER_requires(size < V_MAXSZ)
__CPROVER_assigns(self->pos_)
__CPROVER_ensures(DWF(self))
__CPROVER_ensures(__CPROVER_return_value == (OLDPOS + size <= self->size_) && self->pos_ == (__CPROVER_return_value ? OLDPOS + size : OLDPOS))
''',
    ('contract', 'Des_checkSize'): r'''
__CPROVER_requires(__CPROVER_is_fresh(self, sizeof(*self)) && DWF(self) && need_size < V_MAXSZ)
__CPROVER_assigns()
__CPROVER_ensures((__CPROVER_return_value != 0) == (self->pos_ + need_size <= self->size_))
''',
    ('contract', 'Des_setEndian'): r'''
__CPROVER_requires(__CPROVER_is_fresh(self, sizeof(*self)) && DWF(self) && (e == BIG || e == LITTLE))
__CPROVER_assigns(self->endian_)
__CPROVER_ensures(self->endian_ == e && __CPROVER_return_value == __CPROVER_old(self->endian_) && DWF(self))
''',
    ('contract', 'Des_set_pos'): REQ_D + r'''
__CPROVER_assigns(self->pos_)
__CPROVER_ensures(DWF(self))
__CPROVER_ensures(__CPROVER_return_value ? self->pos_ == pos : self->pos_ == OLDPOS)
''',
    ('contract', 'Ser_append_u8'): append_c(1, 'self->start_[OLDPOS] == in'),
    ('contract', 'Ser_append_u16'): append_c(2, 'VAL16(self->start_ + OLDPOS, self->endian_) == in'),
    ('contract', 'Ser_append_u32'): append_c(4, 'VAL32(self->start_ + OLDPOS, self->endian_) == in'),
    ('contract', 'Ser_append_u64'): append_c(8, 'VAL64(self->start_ + OLDPOS, self->endian_) == in'),
}

H = lambda body: '\nvoid H(void)\n{\n' + body + '\n  __CPROVER_assert(0, "VACUITY-CANARY");\n}\n'
def HD(fn, T): return H('  struct util_Deserializer *d; %s *o; %s(d, o);' % (T, fn))
def HS(fn, T): return H('  struct util_Serializer *s; %s v; %s(s, v);' % (T, fn))

H_INV = H(r'''  /* fetch o append == identity: every width, both byte orders, every position (loop-free) */
  size_t n; __CPROVER_assume(n <= 24); int e; __CPROVER_assume(e == BIG || e == LITTLE);
  uint8_t *buf = v_alloc_ok(n ? n : 1);
  uint8_t a; uint16_t b; uint32_t c; uint64_t d;
  struct util_Serializer s; Ser_ctor_raw(&s, buf, n, e);
  _Bool r1 = Ser_append_u8(&s, a), r2 = Ser_append_u16(&s, b), r3 = Ser_append_u32(&s, c), r4 = Ser_append_u64(&s, d);
  __CPROVER_assert(s.pos_ <= n, "Serializer never advances past its buffer");
  __CPROVER_assert(r4 == (n >= 15) && r3 == (n >= 7) && r2 == (n >= 3) && r1 == (n >= 1), "append succeeds iff the field fits");
  struct util_Deserializer q; Des_ctor(&q, buf, n, e);
  uint8_t a2 = 0; uint16_t b2 = 0; uint32_t c2 = 0; uint64_t d2 = 0;
  _Bool f1 = Des_fetch_u8(&q, &a2), f2 = Des_fetch_u16(&q, &b2), f3 = Des_fetch_u32(&q, &c2), f4 = Des_fetch_u64(&q, &d2);
  __CPROVER_assert(f1 == r1 && f2 == r2 && f3 == r3 && f4 == r4, "fetch succeeds exactly where append did");
  __CPROVER_assert((!r1 || a2 == a) && (!r2 || b2 == b) && (!r3 || c2 == c) && (!r4 || d2 == d), "fetch(append(v)) == v for u8/u16/u32/u64, big and little endian");
  if (n >= 3) { __CPROVER_assert(e == BIG ? (buf[1] == (uint8_t)(b >> 8) && buf[2] == (uint8_t)b) : (buf[1] == (uint8_t)b && buf[2] == (uint8_t)(b >> 8)), "u16 wire image is the named byte order"); }''')

H_POD = H(r'''  /* appendPOD / fetchPOD are inverse and mirror the bytes for big endian; sizes 1..8 */
  size_t w; __CPROVER_assume(w >= 1 && w <= 8); int e; __CPROVER_assume(e == BIG || e == LITTLE);
  uint8_t src[8], dst[8], buf[8]; size_t k; __CPROVER_assume(k < w);
  struct util_Serializer s; Ser_ctor_raw(&s, buf, w, e);
  __CPROVER_assert(Ser_appendPOD(&s, src, w), "appendPOD fits exactly");
  __CPROVER_assert(buf[k] == src[e == LITTLE ? k : w - 1 - k], "wire image: little = as is, big = reversed");
  struct util_Deserializer q; Des_ctor(&q, buf, w, e);
  __CPROVER_assert(Des_fetchPOD(&q, dst, w) && dst[k] == src[k], "fetchPOD(appendPOD(x)) == x");
  __CPROVER_assert(!Ser_appendPOD(&s, src, 1) && !Des_fetchPOD(&q, dst, 1), "a full buffer rejects further fields");''')

H_VEC = H(r'''  /* vector mode: the block grows to exactly pos bytes and holds the big/little-endian image */
  struct v_vec_uint8_t blk; v_vec_uint8_t_init(&blk); int e; __CPROVER_assume(e == BIG || e == LITTLE);
  struct util_Serializer s; Ser_ctor_vec(&s, &blk, e); uint32_t c; uint8_t a;
  __CPROVER_assert(Ser_append_u8(&s, a) && Ser_append_u32(&s, c), "vector mode always has room");
  __CPROVER_assert(blk.size == 5 && s.pos_ == 5, "block size == bytes appended");
  struct util_Deserializer q; Des_ctor(&q, blk.data, blk.size, e); uint8_t a2; uint32_t c2;
  __CPROVER_assert(Des_fetch_u8(&q, &a2) && Des_fetch_u32(&q, &c2) && c2 == c, "u32 round trip through the vector block");''')

UNITS = [UnitSpec(
    name='serializer', tu='modules/util/serializer.cpp', filter='tbox::util', rename=R, spec=SPEC, prelude=PRELUDE,
    plugins=[StdVector()], model_headers=['vec_model.h'], more_filters=[('modules/util/serializer.cpp', 'operator>>')],
    emit=[('operator>>', 'tbox::util::Deserializer &, uint8_t &'), ('operator>>', 'tbox::util::Deserializer &, uint16_t &'), ('operator>>', 'tbox::util::Deserializer &, uint32_t &'), 'tbox::util::Serializer::ctor', 'tbox::util::Serializer::append', 'tbox::util::Serializer::appendPOD', 'tbox::util::Deserializer::ctor',
          'tbox::util::Deserializer::fetch', 'tbox::util::Deserializer::fetchPOD', 'tbox::util::Deserializer::fetchNoCopy', 'tbox::util::Deserializer::skip',
          'tbox::util::Deserializer::set_pos', 'tbox::util::Deserializer::checkSize', 'tbox::util::Deserializer::setEndian'],
    targets=[
        Target('fetch_u8', HD('Des_fetch_u8', 'uint8_t'), enforce='Des_fetch_u8', clause='fetch u8: bounds, value, position'),
        Target('fetch_u16', HD('Des_fetch_u16', 'uint16_t'), enforce='Des_fetch_u16', clause='fetch u16 in both byte orders'),
        Target('fetch_u32', HD('Des_fetch_u32', 'uint32_t'), enforce='Des_fetch_u32', clause='fetch u32 in both byte orders'),
        Target('fetch_u64', HD('Des_fetch_u64', 'uint64_t'), enforce='Des_fetch_u64', clause='fetch u64 in both byte orders'),
        Target('ctor', H('  struct util_Deserializer *d; const void *p; size_t n; int e; Des_ctor(d, p, n, e);'), enforce='Des_ctor', clause='Deserializer(start, size, endian): position 0'),
        Target('shr_u8', H('  struct util_Deserializer *d; uint8_t *o; Des_shr_u8(d, o);'), enforce='Des_shr_u8', replace=['Des_fetch_u8'], clause='operator>> u8 (proved against the fetch contract)'),
        Target('shr_u16', H('  struct util_Deserializer *d; uint16_t *o; Des_shr_u16(d, o);'), enforce='Des_shr_u16', replace=['Des_fetch_u16'], clause='operator>> u16 (proved against the fetch contract)'),
        Target('shr_u32', H('  struct util_Deserializer *d; uint32_t *o; Des_shr_u32(d, o);'), enforce='Des_shr_u32', replace=['Des_fetch_u32'], clause='operator>> u32 (proved against the fetch contract)'),
        Target('fetch_raw', H('  struct util_Deserializer *d; void *p; size_t n; Des_fetch_raw(d, p, n);'), enforce='Des_fetch_raw', clause='fetch(void*, n): bounds + tracked byte'),
        Target('fetchPOD', H('  struct util_Deserializer *d; void *p; size_t n; Des_fetchPOD(d, p, n);'), enforce='Des_fetchPOD', no_checks=['--pointer-overflow-check'],
               clause='fetchPOD: reverse loop with loop contract, any size (one-before-begin pointer value of the final decrement not checked)'),
        Target('fetchNoCopy', H('  struct util_Deserializer *d; size_t n; Des_fetchNoCopy(d, n);'), enforce='Des_fetchNoCopy', clause='fetchNoCopy: pointer inside the input or NULL'),
        Target('skip', H('  struct util_Deserializer *d; size_t n; Des_skip(d, n);'), enforce='Des_skip', clause='skip never moves past the end'),
        Target('checkSize', H('  struct util_Deserializer *d; size_t n; Des_checkSize(d, n);'), enforce='Des_checkSize', clause='checkSize: true iff that many bytes are left'),
        Target('setEndian', H('  struct util_Deserializer *d; int e; Des_setEndian(d, e);'), enforce='Des_setEndian', clause='setEndian: switches the byte order, returns the old one'),
        Target('set_pos', H('  struct util_Deserializer *d; size_t n; Des_set_pos(d, n);'), enforce='Des_set_pos', clause='set_pos keeps pos <= size'),
        Target('append_u8', HS('Ser_append_u8', 'uint8_t'), enforce='Ser_append_u8', clause='append u8: bounds, image, frame'),
        Target('append_u16', HS('Ser_append_u16', 'uint16_t'), enforce='Ser_append_u16', clause='append u16: bounds, image, frame'),
        Target('append_u32', HS('Ser_append_u32', 'uint32_t'), enforce='Ser_append_u32', clause='append u32: bounds, image, frame'),
        Target('append_u64', HS('Ser_append_u64', 'uint64_t'), enforce='Ser_append_u64', clause='append u64: bounds, image, frame'),
        Target('inverse', H_INV, loops=False, clause='fetch o append == identity, all widths / byte orders / positions',
               functions=['Ser_append_u8', 'Ser_append_u16', 'Ser_append_u32', 'Ser_append_u64', 'Des_fetch_u8', 'Des_fetch_u16', 'Des_fetch_u32', 'Des_fetch_u64']),
        Target('pod_inverse', H_POD, loops=False, unwind=10, no_checks=['--pointer-overflow-check'], defines=['V_MEM_PRECISE'], clause='appendPOD/fetchPOD inverse, POD sizes 1..8 (complete for the widths used: <= 8)',
               bound='POD size <= 8', functions=['Ser_appendPOD', 'Des_fetchPOD']),
        Target('vector_mode', H_VEC, loops=False, defines=['V_MEM_PRECISE'], clause='vector mode grows the block and keeps the image (std::vector model)',
               bound='std::vector model, 5 bytes', functions=['Ser_ctor_vec', 'Ser_extendSize']),
    ],
)]
