"""C03 — SelectLoop::runLoop (modules/event/engines/select/loop.cpp): the per-pass dispatch of the select back end.

Descriptors are dispatched only when select() reported readiness (return value > 0: on -1/EINTR the sets are whatever they were
before the call and nothing is dispatched), only for descriptors with at least one bit set, with exactly the three readiness flags
read from the sets; the shared record is looked up per ready descriptor in this pass, a descriptor whose record is gone is skipped
(no exception) [found: unordered_map::at threw - fixed e73a330], and the record is kept alive (ref + 1) during its dispatch and
released afterwards.  EBADF: invalid descriptors are removed; any other error than EINTR leaves the loop.
"""
import os
from verif import UnitSpec, Target
from plugins import StdFunction, StdVector, Sync, Chrono, StringStreamSink, OpaqueString, Syscalls, OpaqueTypes
TU = 'modules/event/engines/select/loop.cpp'
R = {'event_SelectLoop_runLoop': 'SL_runLoop', 'event_SelectFdEvent_OnEventCallback': 'SEv_OnEventCallback', 'event_SelectLoop_unrefFdSharedData': 'SL_unref', 'event_SelectLoop_fillFdSets': 'SL_fill',
     'event_SelectLoop_removeInvalidFds': 'SL_removeInvalid', 'event_CommonLoop_runThisBeforeLoop': 'CL_before', 'event_CommonLoop_runThisAfterLoop': 'CL_after', 'event_CommonLoop_beginLoopProcess': 'CL_begin',
     'event_CommonLoop_endLoopProcess': 'CL_end', 'event_CommonLoop_handleExpiredTimers': 'CL_timers', 'event_CommonLoop_handleNextFunc': 'CL_next', 'event_CommonLoop_getWaitTime': 'CL_wait'}
EARLY = 'typedef unsigned long v_handle; struct v_CLoop { char opaque; }; struct v_Loop { char opaque; };\n'
PRELUDE = r'''
typedef struct event_SelectLoop SL; typedef struct event_SelectFdSharedData SD;
#define T(x) ((x) != 0)
static SL *g_l; static SD *g_rec; static _Bool g_present;
static int g_phase, g_step, g_lookup_fd, g_ref_before, g_select_ret; static size_t g_dispatches;
'''
EXTERN = r'''
int SL_fill(SL *self, fd_set *r, fd_set *w, fd_set *e)
__CPROVER_requires(g_phase == 0)
__CPROVER_assigns(*r, *w, *e)
__CPROVER_ensures(__CPROVER_return_value >= 0 && __CPROVER_return_value <= 1024)
;
int v_sys_select(int nfds, fd_set *r, fd_set *w, fd_set *e, struct timeval *tv)
__CPROVER_requires(g_phase == 0 && nfds >= 0 && nfds <= 1024)
__CPROVER_assigns(*r, *w, *e, g_select_ret, v_errno)
__CPROVER_ensures(__CPROVER_return_value == g_select_ret && g_select_ret >= -1 && g_select_ret <= 3 * nfds)
;
long CL_wait(struct v_CLoop *l)
__CPROVER_assigns()
__CPROVER_ensures(__CPROVER_return_value >= -1)
;
void CL_before(struct v_CLoop *l)
__CPROVER_assigns()
__CPROVER_ensures(1)
;
void CL_after(struct v_CLoop *l)
__CPROVER_assigns()
__CPROVER_ensures(1)
;
void CL_begin(struct v_CLoop *l)
__CPROVER_requires(g_phase == 0)
__CPROVER_assigns(g_phase)
__CPROVER_ensures(g_phase == 1)
;
void CL_timers(struct v_CLoop *l)
__CPROVER_requires(g_phase == 1)
__CPROVER_assigns(g_phase, g_l->keep_running_)
__CPROVER_ensures(g_phase == 2 && (g_l->keep_running_ == 0 || g_l->keep_running_ == 1))
;
void CL_next(struct v_CLoop *l)
__CPROVER_requires(g_phase == 2 && g_step == 0)
__CPROVER_assigns(g_phase, g_l->keep_running_)
__CPROVER_ensures(g_phase == 3 && (g_l->keep_running_ == 0 || g_l->keep_running_ == 1))
;
void CL_end(struct v_CLoop *l)
__CPROVER_requires(g_phase == 3)
__CPROVER_assigns(g_phase)
__CPROVER_ensures(g_phase == 0)
;
void SL_removeInvalid(SL *self)
__CPROVER_requires(g_phase == 2 && g_select_ret == -1)
__CPROVER_assigns()
__CPROVER_ensures(1)
;
long v_umap__find(struct v_umap *m, int fd)
__CPROVER_requires(m == &g_l->fd_data_map_ && g_phase == 2 && g_step == 0 && g_select_ret > 0)        /* only when select() reported readiness */
__CPROVER_assigns(g_step, g_lookup_fd)
__CPROVER_ensures(g_step == (T(g_present) ? 1 : 0) && g_lookup_fd == fd && (__CPROVER_return_value != 0) == T(g_present))
;
SD **v_umap__at(struct v_umap *m, const int *fd)
__CPROVER_requires(T(g_present))                                       /* unordered_map::at on a missing key throws std::out_of_range */
__CPROVER_assigns(g_step, g_lookup_fd, g_ref_before)
__CPROVER_ensures(g_step == 1 && g_lookup_fd == *fd && g_ref_before == g_rec->ref && __CPROVER_return_value == &g_rec)
;
long v_umap__end(struct v_umap *m)
__CPROVER_assigns()
__CPROVER_ensures(__CPROVER_return_value == 0)
;
SD **v_map_it_second(long it)
__CPROVER_requires(it != 0 && g_step == 1)
__CPROVER_assigns(g_ref_before)
__CPROVER_ensures(__CPROVER_return_value == &g_rec && g_ref_before == g_rec->ref)
;
void SEv_OnEventCallback(_Bool rd, _Bool wr, _Bool ex, SD *data)
__CPROVER_requires(g_step == 1 && data == g_rec && g_select_ret > 0 && (T(rd) || T(wr) || T(ex)))     /* ready, found in this pass */
__CPROVER_requires(g_rec->ref == g_ref_before + 1)
__CPROVER_assigns(g_step, g_dispatches, g_present, g_l->keep_running_)
__CPROVER_ensures(g_step == 2 && g_dispatches == __CPROVER_old(g_dispatches) + 1 && (g_l->keep_running_ == 0 || g_l->keep_running_ == 1) && (g_present == 0 || g_present == 1))
;
void SL_unref(SL *self, int fd)
__CPROVER_requires(g_step == 2 && fd == g_lookup_fd && self == g_l)
__CPROVER_assigns(g_step, g_rec->ref)
__CPROVER_ensures(g_step == 0 && g_rec->ref == __CPROVER_old(g_rec->ref) - 1)
;
'''
SPEC = {
    ('prelude_early',): EARLY, ('prelude',): PRELUDE, ('after_protos',): EXTERN, ('need_records',): ['tbox::event::SelectFdSharedData'],
    ('stub', 'SEv_OnEventCallback'): True, ('stub', 'SL_unref'): True, ('stub', 'SL_fill'): True, ('stub', 'SL_removeInvalid'): True, ('stub', 'CL_before'): True, ('stub', 'CL_after'): True,
    ('stub', 'CL_begin'): True, ('stub', 'CL_end'): True, ('stub', 'CL_timers'): True, ('stub', 'CL_next'): True, ('stub', 'CL_wait'): True,
    ('contract', 'SL_runLoop'): r'''
__CPROVER_requires(__CPROVER_is_fresh(self, sizeof(*self)) && __CPROVER_is_fresh(g_rec, sizeof(SD)) && g_rec->ref >= 1 && g_rec->ref < 1000 && (g_present == 0 || g_present == 1))
__CPROVER_assigns(g_l, g_phase, g_step, g_lookup_fd, g_ref_before, g_select_ret, g_dispatches, g_present, v_errno, self->keep_running_, g_rec->ref)
__CPROVER_ensures(g_step == 0 && g_rec->ref == __CPROVER_old(g_rec->ref))
''',
    ('hoist_locals', 'SL_runLoop'): ('read_set', 'write_set', 'except_set', 'tv'),
    ('ghost', 'SL_runLoop', 'entry'): 'g_l = self; g_phase = 0; g_step = 0; g_dispatches = 0; int g_ref0 = g_rec->ref;',
    ('loop', 'SL_runLoop', 1): r'''
__CPROVER_assigns(__first1, g_phase, g_step, g_lookup_fd, g_ref_before, g_select_ret, g_dispatches, g_present, v_errno, self->keep_running_, g_rec->ref, read_set, write_set, except_set, tv)
__CPROVER_loop_invariant(g_phase == 0 && g_step == 0 && g_rec->ref == g_ref0 && (self->keep_running_ == 0 || self->keep_running_ == 1) && (__first1 == 0 || __first1 == 1) && (g_present == 0 || g_present == 1))
''',
    ('loop', 'SL_runLoop', 2): r'''
__CPROVER_assigns(fd, g_step, g_lookup_fd, g_ref_before, g_dispatches, g_present, self->keep_running_, g_rec->ref)
__CPROVER_loop_invariant(fd >= 0 && fd <= nfds && nfds <= 1024 && g_phase == 2 && g_step == 0 && g_select_ret > 0 && g_rec->ref == g_ref0 && (self->keep_running_ == 0 || self->keep_running_ == 1) && (g_present == 0 || g_present == 1))
__CPROVER_decreases(nfds - fd)
''',
}
H = lambda body: '\nvoid H(void)\n{\n' + body + '\n  __CPROVER_assert(0, "VACUITY-CANARY");\n}\n'
ST = ['v_umap__at', 'SL_fill', 'v_sys_select', 'CL_wait', 'CL_before', 'CL_after', 'CL_begin', 'CL_timers', 'CL_next', 'CL_end', 'SL_removeInvalid', 'v_umap__find', 'v_umap__end', 'v_map_it_second', 'SEv_OnEventCallback', 'SL_unref']
UNITS = [UnitSpec(name='select_loop', tu=TU, filter='tbox::event', rename=R, spec=SPEC, emit=['tbox::event::SelectLoop::runLoop'],
    plugins=[StdFunction(), StdVector(), Sync(), Chrono(abstract_time=True), StringStreamSink(), OpaqueString(), Syscalls(extra=('select',)),
             OpaqueTypes({r'^std::unordered_map<.*>$': 'v_umap', r'^std::__detail::_Node_(const_)?iterator(_base)?<.*>$': 'long:v_umap_it', r'^(tbox::)?ObjectPool<.*>$': 'v_pool'})],
    model_headers=['fn_model.h', 'vec_model.h', 'sync_model.h', 'misc_model.h'],
    opaque_records={'tbox::event::CommonLoop': 'struct v_CLoop', 'tbox::event::Loop': 'struct v_Loop', 'tbox::event::TimerEvent': 'handle:v_handle', 'tbox::event::SignalSubscribuer': 'handle:v_handle'},
    targets=[Target('runLoop', H('  SL *l; int m; SL_runLoop(l, m);'), enforce='SL_runLoop', replace=ST, timeout=300, sat='cadical', object_bits=12,
                    clause='select pass: dispatch only when select() reported readiness and only for descriptors with a bit set; record looked up per descriptor, skipped if gone, kept alive during dispatch')])]
def native_replay(u, t, o, w, workdir):
    import replay as rp
    L = '/repo/_build/modules'
    libs = ['%s/event/libtbox_event.a' % L, '%s/util/libtbox_util.a' % L, '%s/base/libtbox_base.a' % L, '-ldl']
    return rp.attempt('fd_event_pass', ['modules/event/engines/select/fd_event.cpp', 'modules/event/engines/select/loop.cpp'], os.path.join(workdir, 'replay'), [('scenario', ['select'])], extra=libs)
