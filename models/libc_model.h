/* libc / allocator models for the extracted C (trusted base A-models, A-alloc).
 *
 * Contract models are deliberately WEAKER than the real functions: whatever is
 * proved against them holds for libc.  v_memcpy / v_memmove havoc the
 * destination and restore only the bytes at the (at most two) ghost offsets
 * v_mc_off[0..1] (relative to the start of the copy).  The offsets are ghost
 * state: a spec sets them before a call; when left unconstrained they are
 * nondeterministic, which is sound (the real function preserves every offset).
 *
 * With -DV_MEM_PRECISE the CBMC built-in (byte-precise) versions are used
 * instead; that is for small constant sizes only.
 */
#ifndef V_LIBC_MODEL_H
#define V_LIBC_MODEL_H
#ifndef _GNU_SOURCE
#define _GNU_SOURCE      /* the extracted code was compiled as GNU C++ (g++ defines it): same names of system struct members (fd_set::fds_bits) */
#endif
#include <stddef.h>
#include <stdint.h>
#include <stdbool.h>
#include <stdlib.h>
#include <string.h>
#include <sys/types.h>
#include <sys/uio.h>
#include <sys/time.h>
#include <sys/epoll.h>
#include <sys/select.h>
#include <signal.h>
#include <sys/socket.h>
#include <netinet/in.h>
#include <ucontext.h>

#ifndef V_MAXSZ
#define V_MAXSZ ((size_t)1 << 40)   /* object sizes are below this by precondition of the specs */
#endif

typedef int v_va_list;               /* va_list: abstract */
typedef unsigned long v_fnptr;     /* pointer to function: opaque code address */
static inline int64_t v_nondet_i64(void) { int64_t x; return x; }
static inline _Bool v_nondet_bool(void) { _Bool b; return b; }
static int __exc;                  /* ghost exception code of the extracted code: 0 = none (DESIGN 3.1) */
static size_t v_mc_off[2];          /* ghost: tracked offsets inside the next copies */
static int v_errno;

#ifdef V_MEM_PRECISE
#define v_memcpy(d, s, n) memcpy((d), (s), (n))
#define v_memmove(d, s, n) memmove((d), (s), (n))
#define v_memset(d, c, n) memset((d), (c), (n))
#else
static void *v_memcpy(void *d, const void *s, size_t n)
{
  /* memcpy(x, NULL, 0) / memcpy(NULL, x, 0): accepted (glibc no-op), DESIGN C07 */
  __CPROVER_assert(n == 0 || __CPROVER_r_ok(s, n), "memcpy source region readable");
  __CPROVER_assert(n == 0 || __CPROVER_w_ok(d, n), "memcpy destination region writable");
  __CPROVER_assert(n == 0 || !__CPROVER_same_object(d, s) ||
                   __CPROVER_POINTER_OFFSET(d) + n <= __CPROVER_POINTER_OFFSET(s) ||
                   __CPROVER_POINTER_OFFSET(s) + n <= __CPROVER_POINTER_OFFSET(d), "memcpy regions do not overlap");
  uint8_t k0 = 0, k1 = 0;
  _Bool h0 = v_mc_off[0] < n, h1 = v_mc_off[1] < n;
  if (h0) k0 = ((const uint8_t *)s)[v_mc_off[0]];
  if (h1) k1 = ((const uint8_t *)s)[v_mc_off[1]];
  if (n) __CPROVER_havoc_slice(d, n);
  if (h0) ((uint8_t *)d)[v_mc_off[0]] = k0;
  if (h1) ((uint8_t *)d)[v_mc_off[1]] = k1;
  return d;
}
static void *v_memmove(void *d, const void *s, size_t n)
{
  __CPROVER_assert(n == 0 || __CPROVER_r_ok(s, n), "memmove source region readable");
  __CPROVER_assert(n == 0 || __CPROVER_w_ok(d, n), "memmove destination region writable");
  uint8_t k0 = 0, k1 = 0;
  _Bool h0 = v_mc_off[0] < n, h1 = v_mc_off[1] < n;
  if (h0) k0 = ((const uint8_t *)s)[v_mc_off[0]];
  if (h1) k1 = ((const uint8_t *)s)[v_mc_off[1]];
  if (n) __CPROVER_havoc_slice(d, n);
  if (h0) ((uint8_t *)d)[v_mc_off[0]] = k0;
  if (h1) ((uint8_t *)d)[v_mc_off[1]] = k1;
  return d;
}
static void *v_memset(void *d, int c, size_t n)
{
  __CPROVER_assert(n == 0 || __CPROVER_w_ok(d, n), "memset destination region writable");
  _Bool h0 = v_mc_off[0] < n, h1 = v_mc_off[1] < n;
  if (n) __CPROVER_havoc_slice(d, n);
  if (h0) ((uint8_t *)d)[v_mc_off[0]] = (uint8_t)c;
  if (h1) ((uint8_t *)d)[v_mc_off[1]] = (uint8_t)c;
  return d;
}
#endif

/* allocator: C++ new never returns NULL (bad_alloc is out of scope) */
/* A-alloc is the one assume of the trusted base: allocation succeeds */
static inline void *v_alloc_ok(size_t sz) { void *p = malloc(sz); __CPROVER_assume(p != NULL); return p; }
static inline void *v_new_array(size_t elem, size_t n) { return v_alloc_ok(elem * n); }
static inline void *v_new(size_t sz) { return v_alloc_ok(sz); }
static inline void *v_malloc(size_t sz) { return malloc(sz); }   /* C malloc may fail (CBMC 6 default: returns NULL nondeterministically) */
#define v_delete_array(p) free(p)
#define v_delete(p) free(p)
#define v_free(p) free(p)

#define V_SWAP(T, a, b) do { T __sw = (a); (a) = (b); (b) = __sw; } while (0)
#define V_MIN(T, a, b) (((b) < (a)) ? (b) : (a))
#define V_MAX(T, a, b) (((a) < (b)) ? (b) : (a))
#define V_BUILTIN_EXPECT(x, y) (x)

static inline int v_isprint(int c) { return c >= 0x20 && c <= 0x7e; }
static inline int v_isgraph(int c) { return c >= 0x21 && c <= 0x7e; }   /* C locale; glibc tolerates negative char values */
static inline int v_islower(int c) { return c >= 'a' && c <= 'z'; }
static inline int v_isupper(int c) { return c >= 'A' && c <= 'Z'; }
static inline int v_isdigit(int c) { return c >= '0' && c <= '9'; }
static inline int v_isalpha(int c) { return v_islower(c) || v_isupper(c); }
static inline int v_isalnum(int c) { return v_isalpha(c) || v_isdigit(c); }
static inline int v_isspace(int c) { return c == ' ' || (c >= 9 && c <= 13); }
static inline int v_isxdigit(int c) { return v_isdigit(c) || (c >= 'a' && c <= 'f') || (c >= 'A' && c <= 'F'); }
static inline int v_toupper(int c) { return v_islower(c) ? c - 32 : c; }
static inline int v_tolower(int c) { return v_isupper(c) ? c + 32 : c; }
static inline uint16_t v_bswap16(uint16_t x) { return (uint16_t)((x << 8) | (x >> 8)); }
static inline uint32_t v_bswap32(uint32_t x) { return ((x & 0xffu) << 24) | ((x & 0xff00u) << 8) | ((x >> 8) & 0xff00u) | (x >> 24); }
static inline void v_abort(void) { __CPROVER_assert(0, "abort() reached"); __CPROVER_assume(0); }

/* strlen: the caller's spec supplies the NUL position through ghost v_strlen_len */
static size_t v_strlen_len;
static inline size_t v_strlen(const char *s)
{
  __CPROVER_assert(__CPROVER_r_ok(s, v_strlen_len + 1), "strlen argument is a readable NUL-terminated string");
  __CPROVER_assert(s[v_strlen_len] == 0, "strlen ghost length names the terminator");
  return v_strlen_len;
}
#endif
