#!/bin/bash
# run_seeds.sh [seed...]: apply each seeded change to a scratch worktree and run the check of its property; one line per seed in seeded/RESULTS.txt
cd /verif
OUT=${SEED_OUT:-/verif/seeded/RESULTS.txt}
[ $# -eq 0 ] && : > $OUT
for d in ${@:-$(ls seeded | grep -v RESULTS)}; do
  [ -f seeded/$d/patch.diff ] || continue
  P=$(python3 -c "import json;print(json.load(open('seeded/$d/meta.json'))['property'])")
  python3 -c "import json,sys;m=json.load(open('MANIFEST.json'));sys.exit(0 if any(c['property_id']=='$P' for c in m['checks']) else 1)" || { echo "$d $P not-claimed (property is not applicable)" >> $OUT; continue; }
  R=$(timeout 2400 tools/try_seed.sh $d $P 2>&1)
  if echo "$R" | grep -q "cannot apply"; then V="does-not-apply-any-more"
  elif echo "$R" | grep -q "^VIOLATION"; then V="VIOLATION $(echo "$R" | grep '^VIOLATION' | head -1 | sed 's/.*target=\([^ ]*\) obligations=\([^ ]*\).*/\1 \2/' | cut -c1-160)$(echo "$R" | grep '^VIOLATION' | head -1 | grep -q no-failing-input-found && echo ' [no native input]' || echo ' [replayed natively]')"
  elif echo "$R" | grep -q "exit 2"; then V="UNDECIDED $(echo "$R" | grep UNDECIDED | head -1 | cut -c1-140)"
  elif echo "$R" | grep -q "exit 0"; then V="not-detected"
  else V="error $(echo "$R" | tail -1 | cut -c1-100)"; fi
  echo "$d $P $V" >> $OUT
done
