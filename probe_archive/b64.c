#include <stddef.h>
#include <stdint.h>
#include <stdbool.h>
#define BASE64_PAD '='
const uint8_t base64de[128] = {
    255, 255, 255, 255, 255, 255, 255, 255, 255, 255, 255, 255, 255, 255, 255, 255,
    255, 255, 255, 255, 255, 255, 255, 255, 255, 255, 255, 255, 255, 255, 255, 255,
    255, 255, 255, 255, 255, 255, 255, 255, 255, 255, 255,  62, 255, 255, 255,  63,
     52,  53,  54,  55,  56,  57,  58,  59, 60,  61, 255, 255, 255, 255, 255, 255,
    255,   0,   1,   2,   3,   4,   5,   6, 7,   8,   9,  10,  11,  12,  13,  14,
     15,  16,  17,  18,  19,  20,  21,  22, 23,  24,  25, 255, 255, 255, 255, 255,
    255,  26,  27,  28,  29,  30,  31,  32, 33,  34,  35,  36,  37,  38,  39,  40,
     41,  42,  43,  44,  45,  46,  47,  48, 49,  50,  51, 255, 255, 255, 255, 255
};
size_t DecodeLength(const char *base64_ptr, size_t base64_size)
__CPROVER_requires(base64_size < ((size_t)1<<40))
__CPROVER_requires(base64_size == 0 || __CPROVER_r_ok(base64_ptr, base64_size))
__CPROVER_assigns()
__CPROVER_ensures(__CPROVER_return_value <= base64_size / 4 * 3)
{
    if (base64_size == 0 || (base64_size & 0x3) != 0)
        return 0;
    size_t len = base64_size / 4 * 3;
    if (base64_ptr[base64_size - 1] == BASE64_PAD)
        --len;
    if (base64_ptr[base64_size - 2] == BASE64_PAD)
        --len;
    return len;
}
size_t Decode(const char *base64_ptr, size_t base64_len, void *raw_data_ptr, size_t raw_data_size)
__CPROVER_requires(base64_len < ((size_t)1<<40) && raw_data_size < ((size_t)1<<40))
__CPROVER_requires(__CPROVER_is_fresh(base64_ptr, base64_len ? base64_len : 1))
__CPROVER_requires(__CPROVER_is_fresh(raw_data_ptr, raw_data_size ? raw_data_size : 1))
__CPROVER_assigns(__CPROVER_object_upto(raw_data_ptr, raw_data_size))
__CPROVER_ensures(__CPROVER_return_value <= raw_data_size)
{
    if (base64_len & 0x3)
        return 0;

    if (DecodeLength(base64_ptr, base64_len) > raw_data_size)
        return 0;

    size_t w_pos = 0;
    uint8_t *out_bytes = (uint8_t*)(raw_data_ptr);

    for (size_t r_pos = 0; r_pos < base64_len; r_pos++)
    __CPROVER_assigns(r_pos, w_pos, __CPROVER_object_upto(raw_data_ptr, raw_data_size))
    __CPROVER_loop_invariant(r_pos <= base64_len && w_pos == r_pos / 4 * 3 + ((r_pos & 3) == 0 ? 0 : (r_pos & 3) - 1))
    __CPROVER_decreases(base64_len - r_pos)
    {
        char c = base64_ptr[r_pos];
        if (c == BASE64_PAD)
            break;

        uint8_t v = base64de[(int)(c)];
        if (v == 255)
            return 0;

        switch (r_pos & 0x3) {
            case 0:
                out_bytes[w_pos] = v << 2;
                break;
            case 1:
                out_bytes[w_pos++] |= v >> 4;
                out_bytes[w_pos] = v << 4;
                break;
            case 2:
                out_bytes[w_pos++] |= v >> 2;
                out_bytes[w_pos] = v << 6;
                break;
            case 3:
                out_bytes[w_pos++] |= v;
                break;
        }
    }
    return w_pos;
}
void harness(void) { const char *p; size_t n; void *o; size_t m; Decode(p, n, o, m); }
