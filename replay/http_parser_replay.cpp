// RequestParser: (1) any byte sequence must not throw; (2) the result must not depend on how the stream is cut into segments
#include <tbox/http/server/request_parser.h>
#include <tbox/http/request.h>
#include <cstdio>
#include <cstring>
#include <string>
#include <exception>
using namespace tbox::http; using namespace tbox::http::server;
static int feed_all(const std::string &s, size_t cut) {          // returns 1 if a complete request came out, 0 if not, -1 on parser failure
    RequestParser p; std::string buf;
    size_t cuts[3] = {0, cut, s.size()};
    for (int k = 0; k < 2; ++k) {
        buf += s.substr(cuts[k], cuts[k + 1] - cuts[k]);
        size_t n = p.parse(buf.data(), buf.size());
        if (n > buf.size()) { printf("VIOLATION: parse() claims %zu bytes of %zu\n", n, buf.size()); return -2; }
        buf.erase(0, n);
        if (p.state() == RequestParser::State::kFail) return -1;
        if (p.state() == RequestParser::State::kFinishedAll) { delete p.getRequest(); return 1; }
    }
    return 0;
}
int main() {
    int bad = 0;
    const std::string req = "GET /index.html HTTP/1.1\r\nContent-Length: 3\r\n\r\nabc";
    int whole = feed_all(req, req.size());
    for (size_t cut = 1; cut < req.size(); ++cut) {
        int r = feed_all(req, cut);
        if (r != whole) { printf("VIOLATION: cut after %zu bytes gives %d, unsegmented gives %d (segmentation changes the result)\n", cut, r, whole); bad = 1; break; }
    }
    const char *evil[] = {"POST / HTTP/1.1\r\nContent-Length: abc\r\n\r\n", "POST / HTTP/1.1\r\nContent-Length: 99999999999999999999\r\n\r\n"};
    for (const char *e : evil) {
        try { RequestParser p; p.parse(e, strlen(e)); }
        catch (const std::exception &ex) { printf("VIOLATION: parse() threw %s on a malformed Content-Length\n", ex.what()); bad = 1; }
    }
    {   // a declared body length close to SIZE_MAX: the body can never be complete, whatever follows the head
        const std::string big = "POST /x HTTP/1.1\r\nContent-Length: 18446744073709551600\r\n\r\nabcdefgh";
        for (size_t cut = 1; cut <= big.size(); ++cut) {
            int r = feed_all(big, cut);
            if (r == 1) { printf("VIOLATION: a request declaring 18446744073709551600 body bytes was reported complete with 8 body bytes given (cut %zu)\n", cut); bad = 1; break; }
        }
    }
    if (!bad) printf("ok\n");
    return bad;
}
