"""C09 — log::AsyncSink::onLogFrontEnd (modules/log/async_sink.cpp): a record enters the pipe as the fixed header immediately followed
by exactly text_len bytes of text (nothing for an empty text), both taken from the record it was given; the two appends are
only atomic with respect to other logging threads because the caller (Dispatch, unit log_dispatch) holds the dispatch lock - that
is this function's precondition (ghost flag), and Dispatch's contract is what establishes it.
The back end's re-framing loop (onLogBackEndReadPipe) is not under contract (DESIGN C09)."""
from verif import UnitSpec, Target
from plugins import StdFunction, StdVector, Sync, Chrono, StringStreamSink
EARLY = 'struct v_Sink { char opaque; }; struct v_Pipe { char opaque; }; struct v_Buffer { char opaque; }; struct v_PipeCfg { char opaque; };\n'
PRELUDE = r'''
typedef struct LogContent LogContent;
static _Bool g_dispatch_lock_held;       /* ghost: the caller holds the log dispatch lock (established by Dispatch) */
static int g_step; static const LogContent *g_rec;
'''
EXTERN = r'''
void Pipe_append(struct v_Pipe *self, const void *data_ptr, size_t data_size)
__CPROVER_requires(g_dispatch_lock_held)                                              /* header+text of one record must not interleave with another thread's */
__CPROVER_requires(g_step == 0 ? (data_ptr == (const void *)g_rec && data_size == sizeof(LogContent))
                               : (g_step == 1 && g_rec->text_len != 0 && data_ptr == (const void *)g_rec->text_ptr && data_size == g_rec->text_len))
__CPROVER_assigns(g_step)
__CPROVER_ensures(g_step == __CPROVER_old(g_step) + 1)
;
'''
SPEC = {('prelude_early',): EARLY, ('prelude',): PRELUDE, ('after_protos',): EXTERN, ('stub', 'Pipe_append'): True,
  ('contract', 'Sink_onLogFrontEnd'): r'''
__CPROVER_requires(__CPROVER_is_fresh(self, sizeof(*self)) && __CPROVER_is_fresh(content, sizeof(*content)) && g_dispatch_lock_held)
__CPROVER_assigns(g_step, g_rec)
__CPROVER_ensures(g_step == (content->text_len != 0 ? 2 : 1))
''',
  ('ghost', 'Sink_onLogFrontEnd', 'entry'): 'g_step = 0; g_rec = content;',
}
H = lambda body: '\nvoid H(void)\n{\n' + body + '\n  __CPROVER_assert(0, "VACUITY-CANARY");\n}\n'
TU = 'modules/log/async_sink.cpp'
UNITS = [UnitSpec(name='async_sink_front', tu=TU, filter='tbox::log', more_filters=[(TU, 'LogContent'), (TU, 'tbox::util')], spec=SPEC,
    rename={'log_AsyncSink_onLogFrontEnd': 'Sink_onLogFrontEnd', 'util_AsyncPipe_append': 'Pipe_append'},
    plugins=[StdFunction(), StdVector(), Sync(), Chrono(), StringStreamSink()], model_headers=['fn_model.h', 'vec_model.h', 'sync_model.h', 'misc_model.h'],
    opaque_records={'tbox::log::Sink': 'struct v_Sink', 'tbox::util::AsyncPipe': 'struct v_Pipe', 'tbox::util::Buffer': 'struct v_Buffer', 'tbox::util::AsyncPipe::Config': 'struct v_PipeCfg'},
    emit=['tbox::log::AsyncSink::onLogFrontEnd'],
    targets=[Target('onLogFrontEnd', H('  struct log_AsyncSink *s; const struct LogContent *c; Sink_onLogFrontEnd(s, c);'), enforce='Sink_onLogFrontEnd', replace=['Pipe_append'],
                    clause='front end: header then exactly text_len bytes of text, from the given record, under the dispatch lock')])]
