"""C09 — log::AsyncSink::onLogBackEndReadPipe (modules/log/async_sink.cpp): the back end re-frames the byte stream of the pipe into records.

The receive buffer is abstract: the stream is a sequence of frames [LogContent header][text_len bytes of text]; ghost state says how many
bytes are unconsumed, whether the read position is at a header or at the text of the header just consumed, and what the header at the front
is.  Decided for every batch size and every frame sequence:
 - the stream is consumed frame-wise: a header (exactly sizeof(LogContent)), then exactly its text_len bytes, only after the record was emitted;
 - a record is emitted only when its header AND its whole text are in the buffer, with the header fields of the stream and the text pointer
   at the text - so records are never split or mixed;
 - nothing complete is held back: on return less than one whole frame is left (a record with empty text included), position at a header;
 - one flush per batch that emitted something.
"""
import os, importlib.util
from verif import UnitSpec, Target, VERIF
_s = importlib.util.spec_from_file_location('c09_front', os.path.join(VERIF, 'specs', 'C09', 'async_sink.py'))
m = importlib.util.module_from_spec(_s); _s.loader.exec_module(m)
from plugins import StdFunction, StdVector, Sync, Chrono, StringStreamSink
R = {'log_AsyncSink_onLogBackEndReadPipe': 'Sink_readPipe', 'log_AsyncSink_onLogBackEnd': 'Sink_onLogBackEnd', 'log_AsyncSink_flush': 'Sink_flush',
     'util_Buffer_append': 'Buf_append', 'util_Buffer_readableSize': 'Buf_readableSize', 'util_Buffer_readableBegin': 'Buf_readableBegin', 'util_Buffer_hasRead': 'Buf_hasRead'}
STUBS = ['Sink_onLogBackEnd', 'Sink_flush', 'Buf_append', 'Buf_readableSize', 'Buf_readableBegin', 'Buf_hasRead']
PRELUDE = r"""
typedef struct LogContent LogContent; typedef struct log_AsyncSink Sink;
#define T(x) ((x) != 0)
#define HDR sizeof(LogContent)
static Sink *g_s;
/* abstract receive buffer: a stream of frames [header][text_len bytes of text].  Ghost: unconsumed bytes, whether the read position is at a
   header (phase 0) or at the text that belongs to the header just consumed (phase 1), and the header at the front of the stream */
static size_t g_readable; static int g_phase; static LogContent *g_front; static const char *g_text;
static size_t g_emitted, g_flushes;
#define LEN_OK(h) ((h)->text_len <= 0x10000000u)      /* what the front end writes: text_len is bounded by the configured maximum */
"""
EXTERN = r"""
size_t Buf_append(struct v_Buffer *b, const void *p, size_t n) __CPROVER_requires(b == &g_s->buffer_ && g_phase == 0 && g_emitted == 0) __CPROVER_assigns(g_readable) __CPROVER_ensures(g_readable == __CPROVER_old(g_readable) + n);
size_t Buf_readableSize(struct v_Buffer *b) __CPROVER_requires(b == &g_s->buffer_) __CPROVER_assigns() __CPROVER_ensures(__CPROVER_return_value == g_readable);
/* at a header: the bytes of the header at the front of the stream (readable only if a whole header is there); at the text: the text */
uint8_t *Buf_readableBegin(struct v_Buffer *b)
__CPROVER_requires(b == &g_s->buffer_ && (g_phase == 0 ? g_readable >= HDR : g_readable >= g_front->text_len))
__CPROVER_assigns() __CPROVER_ensures(__CPROVER_return_value == (g_phase == 0 ? (uint8_t *)g_front : (uint8_t *)g_text));
void Buf_hasRead(struct v_Buffer *b, size_t n)
__CPROVER_requires(b == &g_s->buffer_ && n <= g_readable && (g_phase == 0 ? n == HDR : (n == g_front->text_len && g_emitted_this == 1)))       /* consumed frame-wise: header, then exactly its text, after the record was emitted */
__CPROVER_assigns(g_readable, g_phase, *g_front, g_emitted_this)
__CPROVER_ensures(g_readable == __CPROVER_old(g_readable) - n && g_phase == 1 - __CPROVER_old(g_phase) && g_emitted_this == 0)
__CPROVER_ensures(g_phase == 1 ? (g_front->text_len == __CPROVER_old(g_front->text_len) && g_front->level == __CPROVER_old(g_front->level) && g_front->line == __CPROVER_old(g_front->line) && g_front->thread_id == __CPROVER_old(g_front->thread_id))
                               : LEN_OK(g_front))            /* after the text: the next header of the stream is at the front */
;
/* one complete record: header fields as they were in the stream, text pointing at exactly text_len available bytes */
void Sink_onLogBackEnd(Sink *self, const LogContent *c)
__CPROVER_requires(self == g_s && g_phase == 1 && g_emitted_this == 0 && c->text_ptr == g_text && c->text_len == g_front->text_len && g_readable >= c->text_len)
__CPROVER_requires(c->level == g_front->level && c->line == g_front->line && c->thread_id == g_front->thread_id)
__CPROVER_assigns(g_emitted, g_emitted_this) __CPROVER_ensures(g_emitted == __CPROVER_old(g_emitted) + 1 && g_emitted_this == 1);
void Sink_flush(Sink *self) __CPROVER_requires(self == g_s && g_emitted > 0 && g_flushes == 0) __CPROVER_assigns(g_flushes) __CPROVER_ensures(g_flushes == 1);
"""
SPEC = {('prelude_early',): m.EARLY.replace('struct v_Sink { char opaque; }', 'struct v_Sink { char timestamp_str_[32]; }'), ('prelude',): PRELUDE + 'static int g_emitted_this;\n', ('after_protos',): EXTERN,
    ('contract', 'Sink_readPipe'): r"""
__CPROVER_requires(__CPROVER_is_fresh(self, sizeof(*self)) && __CPROVER_is_fresh(g_front, sizeof(LogContent)) && LEN_OK(g_front) && g_text != 0 && g_phase == 0 && g_readable < V_MAXSZ && data_size < V_MAXSZ)
__CPROVER_assigns(g_s, g_readable, g_phase, *g_front, g_emitted, g_emitted_this, g_flushes, v_cerr)
/* nothing complete is held back: what stays in the buffer is less than one whole frame, and the read position is at a header */
__CPROVER_ensures(g_phase == 0 && (g_readable < HDR || g_readable < HDR + g_front->text_len))
/* flushed once iff at least one record was emitted */
__CPROVER_ensures(g_flushes == (g_emitted > 0 ? 1 : 0))
""",
    ('ghost', 'Sink_readPipe', 'entry'): 'g_s = self; g_emitted = 0; g_emitted_this = 0; g_flushes = 0;',
    ('ghost', 'Sink_readPipe', 'before_loop:1'): 'size_t g_rd1 = g_readable;',
    ('loop', 'Sink_readPipe', 1): r"""
__CPROVER_assigns(is_need_flush, g_readable, g_phase, *g_front, g_emitted, g_emitted_this)
__CPROVER_loop_invariant(g_phase == 0 && g_emitted_this == 0 && g_readable <= g_rd1 && g_emitted <= g_rd1 && g_emitted + g_readable <= g_rd1 && LEN_OK(g_front) && g_flushes == 0 && T(is_need_flush) == (g_emitted > 0) && (is_need_flush == 0 || is_need_flush == 1))
__CPROVER_decreases(g_readable)
""",
}
SPEC.update({('stub', n): True for n in STUBS})
H = m.H
U0 = m.UNITS[0]
UNITS = [UnitSpec(name='async_sink_back', tu=m.TU, filter='tbox::log', more_filters=[(m.TU, 'LogContent'), (m.TU, 'tbox::util')], spec=SPEC, rename=R,
    plugins=[StdFunction(), StdVector(), Sync(), Chrono(abstract_time=True), StringStreamSink()], model_headers=U0.model_headers, opaque_records=U0.opaque_records,
    emit=['tbox::log::AsyncSink::onLogBackEndReadPipe'],
    targets=[Target('readPipe', H('  struct log_AsyncSink *s; const void *p; size_t n; Sink_readPipe(s, p, n);'), enforce='Sink_readPipe', replace=STUBS, defines=['V_MEM_PRECISE'],      # the one memcpy copies sizeof(LogContent) = 56 bytes: byte-precise built-in
        clause='back end: the pipe stream is consumed frame-wise (header, then exactly its text); a record is emitted only when header and text are completely there, with the header fields of the stream; nothing complete is held back; one flush per batch')])]
def native_replay(u, t, o, w, workdir):
    import replay as rp
    L = '/repo/_build/modules'
    libs = ['%s/%s/libtbox_%s.a' % (L, x, x) for x in ('log', 'util', 'event', 'base')] + ['-ldl']
    return rp.attempt('async_sink_back', ['modules/log/async_sink.cpp'], os.path.join(workdir, 'replay'), [('scenario', [])], extra=libs)
