// HTTP server over loopback.  One segment carries [GET /a, Connection: close][GET /b].  Nothing may be written after the response to the
// request that asked for the connection to be closed: the client must read exactly one response (to /a) and then EOF.
#include <tbox/event/loop.h>
#include <tbox/event/timer_event.h>
#include <tbox/network/sockaddr.h>
#include <tbox/http/server/server.h>
#include <sys/socket.h>
#include <netinet/in.h>
#include <arpa/inet.h>
#include <unistd.h>
#include <fcntl.h>
#include <cstdio>
#include <cstring>
#include <string>
#include <vector>
using namespace tbox; using namespace tbox::http; using namespace tbox::http::server;
int main(int argc, char **argv) {
    std::string mode = argc > 1 ? argv[1] : "sync";      // sync: handlers answer inside the request callback
    auto loop = event::Loop::New();
    Server srv(loop);
    int port = 0; bool up = false;
    for (int p = 23811; p < 23840 && !up; ++p) {
        if (srv.initialize(network::SockAddr::FromString("127.0.0.1:" + std::to_string(p)), 2)) { port = p; up = true; } else srv.cleanup();
    }
    if (!up) { printf("no loopback listener available\n"); return 0; }
    srv.start();
    int handled = 0;
    std::vector<ContextSptr> parked;      // late mode: the handler keeps the context and answers 50 ms later
    srv.use([&](ContextSptr ctx, const NextFunc &) { ++handled; ctx->res().status_code = StatusCode::k200_OK; ctx->res().body = "[" + ctx->req().url.path + "]"; if (mode == "late") parked.push_back(ctx); });
    auto *late = loop->newTimerEvent();
    late->initialize(std::chrono::milliseconds(50), event::Event::Mode::kOneshot);
    late->setCallback([&] { parked.clear(); });
    late->enable();
    int fd = socket(AF_INET, SOCK_STREAM, 0);
    sockaddr_in sa; memset(&sa, 0, sizeof(sa)); sa.sin_family = AF_INET; sa.sin_port = htons(port); sa.sin_addr.s_addr = inet_addr("127.0.0.1");
    if (connect(fd, (sockaddr *)&sa, sizeof(sa)) != 0) { printf("cannot connect over loopback\n"); return 0; }
    const char *reqs = mode == "late" ? "GET /a HTTP/1.1\r\nConnection: close\r\nContent-Length: 0\r\n\r\n"
                                      : "GET /a HTTP/1.1\r\nConnection: close\r\nContent-Length: 0\r\n\r\nGET /b HTTP/1.1\r\nContent-Length: 0\r\n\r\n";
    write(fd, reqs, strlen(reqs));
    fcntl(fd, F_SETFL, O_NONBLOCK);
    std::string got; bool eof = false;
    auto *t = loop->newTimerEvent();
    t->initialize(std::chrono::milliseconds(10), event::Event::Mode::kPersist);
    t->setCallback([&] { char b[4096]; ssize_t n; while ((n = read(fd, b, sizeof(b))) > 0) got.append(b, n); if (n == 0) eof = true; });
    t->enable();
    loop->exitLoop(std::chrono::milliseconds(400));
    loop->runLoop();
    delete t; delete late; close(fd); srv.cleanup(); delete loop;
    size_t responses = 0; for (size_t p = got.find("HTTP/1.1 "); p != std::string::npos; p = got.find("HTTP/1.1 ", p + 1)) ++responses;
    printf("handlers run: %d, responses on the wire: %zu, /b answered: %d, closed by server: %d\n", handled, responses, (int)(got.find("[/b]") != std::string::npos), (int)eof);
    if (mode == "late" && (responses != 1 || got.find("[/a]") == std::string::npos)) {
        printf("VIOLATION: the request was handed to a handler that answered 50 ms later, but its response was never written (connection torn down first)\n");
        return 1;
    }
    if (responses != 1 || got.find("[/b]") != std::string::npos) {
        printf("VIOLATION: a response was written after the response to the request that asked for the connection to be closed\n");
        return 1;
    }
    return 0;
}
