"""C06 — network::BufferedFd (modules/network/buffered_fd.cpp): the send path and the arming discipline.

Modular: calls of util::Buffer members are REPLACED by the contracts proved under C07 (imported from specs/C07/buffer.py,
same text), Fd::write is an any-result stub over a ghost wire, FdEvent::enable/disable set a ghost armed flag.
Ghost stream (DESIGN 4.2): g_A bytes accepted by send() so far, g_X bytes the kernel took so far, tracked absolute
position g_k with byte g_v.  Stream invariant SINV:  wire ++ send_buff_ == accepted stream, i.e.
   g_X + readable(send_buff_) == g_A  and  g_k in [g_X, g_A) ==> send_buff_[g_k - g_X] == g_v  and  g_k < g_X ==> wire[g_k] == g_v.
Arming invariant ARM: Running and send_buff_ non-empty ==> write event armed (safety half of "reaches the peer").
"""
import os, importlib.util
from verif import UnitSpec, Target, VERIF
from plugins import StdFunction, Syscalls

_s = importlib.util.spec_from_file_location('c07_buffer', os.path.join(VERIF, 'specs', 'C07', 'buffer.py'))
c07 = importlib.util.module_from_spec(_s); _s.loader.exec_module(c07)

R = dict(c07.RENAME)
R.update({'network_BufferedFd_send': 'BFd_send', 'network_BufferedFd_onWriteCallback': 'BFd_onWriteCallback', 'network_BufferedFd_enable': 'BFd_enable',
          'network_BufferedFd_disable': 'BFd_disable', 'network_BufferedFd_onReadCallback': 'BFd_onReadCallback', 'util_Fd_write': 'Fd_write',
          'util_Fd_readv': 'Fd_readv', 'event_Event_enable': 'Ev_enable', 'event_Event_disable': 'Ev_disable', 'network_ByteStream_send': 'ByteStream_send'})

EARLY = r'''
struct v_FdEvent { _Bool armed; };      /* event::FdEvent is opaque here: only its ghost armed flag */
struct v_Loop { char opaque; };
'''
PRELUDE = c07.PRELUDE + r'''
/* ---- ghost byte stream of the send direction ---- */
static size_t g_A, g_X;           /* accepted by send() / taken by write(2) so far */
static size_t g_k; static uint8_t g_v;   /* tracked absolute stream position and its byte */
static _Bool g_wire_ok;           /* g_k < g_X ==> the byte on the wire at g_k is g_v */
static size_t g_o; static uint8_t g_ov;  /* tracked offset/byte of the buffer handed to write(2) */
static _Bool g_dropped;           /* data dropped on a hard write error (documented TODO in the source) */
static struct network_BufferedFd *g_selfp;   /* assigned by a ghost statement at entry (never only assumed) */
static unsigned g_complete_calls;
#define K_RUNNING network_BufferedFd_State_kRunning
#define K_INITED network_BufferedFd_State_kInited
#define SB(s) (&(s)->send_buff_)
#define SINV_L(s, lim) (BSHAPE_LIM(SB(s), lim) && g_X <= g_A && g_X + READABLE(SB(s)) == g_A && g_A < V_MAXSZ && g_wire_ok && \
                 ((g_k >= g_X && g_k < g_A) ==> AT(SB(s), g_k - g_X) == g_v))
/* in postconditions the capacity bound is relaxed: the 2^40 size limit is a precondition of the specs, not an invariant of the code */
#define SINV_POST(s) SINV_L(s, 4 * V_MAXSZ)
#define SINV(s) (BSHAPE(SB(s)) && g_X <= g_A && g_X + READABLE(SB(s)) == g_A && g_A < V_MAXSZ && g_wire_ok && \
                 ((g_k >= g_X && g_k < g_A) ==> AT(SB(s), g_k - g_X) == g_v))
#define ARM(s) (((s)->state_ == K_RUNNING && READABLE(SB(s)) > 0) ==> (s)->sp_write_event_->armed)
'''
REQ = r'''
__CPROVER_requires(__CPROVER_is_fresh(self, sizeof(*self)) && self->state_ >= 0 && self->state_ <= 2)
__CPROVER_requires(self->sp_write_event_ != NULL ==> __CPROVER_is_fresh(self->sp_write_event_, sizeof(struct v_FdEvent)))
__CPROVER_requires(self->sp_read_event_ != NULL ==> __CPROVER_is_fresh(self->sp_read_event_, sizeof(struct v_FdEvent)))
__CPROVER_requires(SB(self)->buffer_size_ > 0 ==> __CPROVER_is_fresh(SB(self)->buffer_ptr_, SB(self)->buffer_size_))
__CPROVER_requires(SINV(self) && (self->sp_write_event_ != NULL ==> ARM(self)))
'''
POST = r'''
__CPROVER_ensures(g_dropped || SINV_POST(self))
__CPROVER_ensures(self->sp_write_event_ != NULL ==> ARM(self))
'''
FRAME = '''self->send_buff_, g_A, g_X, g_wire_ok, v_errno, g_o, g_ov, g_j, g_byte, g_dropped, v_mc_off;
  self->sp_write_event_ != NULL: self->sp_write_event_->armed; self->send_buff_.buffer_ptr_ != NULL: __CPROVER_object_whole(self->send_buff_.buffer_ptr_)'''

SPEC = {
    ('prelude_early',): EARLY,
    # ---- contracts of the callees (replaced at call sites) ----
    ('contract', 'Buffer_append'): c07.SPEC[('contract', 'Buffer_append')],
    ('contract', 'Buffer_hasRead'): c07.SPEC[('contract', 'Buffer_hasRead')],
    ('contract', 'Fd_write'): r'''
__CPROVER_requires(size == 0 || __CPROVER_r_ok(ptr, size))
__CPROVER_requires(g_o < size ==> ((const uint8_t *)ptr)[g_o] == g_ov)       /* the caller names the tracked byte of this buffer */
__CPROVER_assigns(g_X, v_errno)
__CPROVER_ensures(__CPROVER_return_value >= -1 && (__CPROVER_return_value < 0 || (size_t)__CPROVER_return_value <= size))
__CPROVER_ensures(g_X == __CPROVER_old(g_X) + (__CPROVER_return_value > 0 ? (size_t)__CPROVER_return_value : 0))
''',
    ('contract', 'Ev_enable'): r'''
__CPROVER_requires(__CPROVER_rw_ok(self, sizeof(*self)))
__CPROVER_assigns(self->armed)
__CPROVER_ensures(self->armed)
''',
    ('contract', 'Ev_disable'): r'''
__CPROVER_requires(__CPROVER_rw_ok(self, sizeof(*self)))
__CPROVER_assigns(self->armed)
__CPROVER_ensures(!self->armed)
''',
    # user callback void(): here the send-complete notification.  It may re-enter the API (send, disable, enable ...): every
    # such call re-establishes SINV and ARM, so the stub may change the send side arbitrarily under those invariants.
    ('after_protos',): r'''
void v_fn_call__void(struct v_function *f)
__CPROVER_requires(f->engaged)
__CPROVER_requires(READABLE(SB(g_selfp)) == 0)        /* send-complete fires only when everything queued so far has been written */
__CPROVER_assigns(g_complete_calls, g_selfp->send_buff_, g_selfp->state_, g_A, g_X, g_wire_ok, g_selfp->sp_write_event_->armed)
__CPROVER_ensures(g_complete_calls == __CPROVER_old(g_complete_calls) + 1)
__CPROVER_ensures(SB(g_selfp)->buffer_size_ < V_MAXSZ && ((SB(g_selfp)->buffer_size_ == 0) == (SB(g_selfp)->buffer_ptr_ == NULL)))
__CPROVER_ensures(SB(g_selfp)->buffer_size_ > 0 ==> __CPROVER_is_fresh(SB(g_selfp)->buffer_ptr_, SB(g_selfp)->buffer_size_))
__CPROVER_ensures((g_selfp->state_ == K_RUNNING || g_selfp->state_ == K_INITED) && SINV(g_selfp) && ARM(g_selfp))
;
/* error callback void(int): same freedom to re-enter the API */
void v_fn_call__void_int(struct v_function *f, int err)
__CPROVER_requires(f->engaged)
__CPROVER_assigns(g_selfp->send_buff_, g_selfp->state_, g_A, g_X, g_wire_ok, g_selfp->sp_write_event_->armed)
__CPROVER_ensures(SB(g_selfp)->buffer_size_ < V_MAXSZ && ((SB(g_selfp)->buffer_size_ == 0) == (SB(g_selfp)->buffer_ptr_ == NULL)))
__CPROVER_ensures(SB(g_selfp)->buffer_size_ > 0 ==> __CPROVER_is_fresh(SB(g_selfp)->buffer_ptr_, SB(g_selfp)->buffer_size_))
__CPROVER_ensures((g_selfp->state_ == K_RUNNING || g_selfp->state_ == K_INITED) && SINV(g_selfp) && ARM(g_selfp))
;
''',
    ('contract', 'BFd_onWriteCallback'): REQ + r'''
__CPROVER_requires(self->sp_write_event_ != NULL && self->cb_level_ >= 0 && self->cb_level_ < 1000)
__CPROVER_assigns(g_selfp, g_complete_calls, self->state_, self->cb_level_, ''' + FRAME + r''')
__CPROVER_frees(self->send_buff_.buffer_ptr_)
__CPROVER_ensures(self->cb_level_ == __CPROVER_old(self->cb_level_))
''' + POST,
    ('ghost', 'BFd_onWriteCallback', 'entry'): 'g_selfp = self; g_dropped = 0;',
    ('ghost', 'BFd_onWriteCallback', 'before_call:Fd_write:1'): 'g_o = g_k - g_X; g_ov = g_v;',
    ('ghost', 'BFd_onWriteCallback', 'before_call:Buffer_hasRead:1'): 'g_j = g_k - (g_X - (size_t)wsize); g_byte = g_v;',
    ('contract', 'BFd_enable'): REQ + r'''
__CPROVER_assigns(self->state_; self->sp_read_event_ != NULL: self->sp_read_event_->armed; self->sp_write_event_ != NULL: self->sp_write_event_->armed)
__CPROVER_ensures(__CPROVER_return_value == (__CPROVER_old(self->state_) != 0))
__CPROVER_ensures(self->state_ == (__CPROVER_old(self->state_) == 0 ? 0 : K_RUNNING))
__CPROVER_ensures(SINV(self))
__CPROVER_ensures(self->sp_write_event_ != NULL ==> ARM(self))       /* bytes queued by send() before enable() must get the write event armed */
''',
    ('contract', 'BFd_disable'): REQ + r'''
__CPROVER_assigns(self->state_; self->sp_read_event_ != NULL: self->sp_read_event_->armed; self->sp_write_event_ != NULL: self->sp_write_event_->armed)
__CPROVER_ensures(__CPROVER_return_value == (__CPROVER_old(self->state_) != 0))
__CPROVER_ensures(self->state_ == (__CPROVER_old(self->state_) == 0 ? 0 : K_INITED))
__CPROVER_ensures(SINV(self))
__CPROVER_ensures((__CPROVER_old(self->state_) == K_RUNNING && self->sp_write_event_ != NULL) ==> !self->sp_write_event_->armed)
__CPROVER_ensures((__CPROVER_old(self->state_) == K_RUNNING && self->sp_read_event_ != NULL) ==> !self->sp_read_event_->armed)
''',
    # ---- BufferedFd::send ----
    ('contract', 'BFd_send'): REQ + r'''
__CPROVER_requires(data_size < V_MAXSZ && g_A + data_size < V_MAXSZ && (data_size > 0 ==> __CPROVER_is_fresh(data_ptr, data_size)))
__CPROVER_requires((g_k >= g_A && g_k < g_A + data_size) ==> ((const uint8_t *)data_ptr)[g_k - g_A] == g_v)     /* defines g_v for the new bytes */
__CPROVER_assigns(''' + FRAME + r''')
__CPROVER_frees(self->send_buff_.buffer_ptr_)
__CPROVER_ensures(__CPROVER_return_value == (self->sp_write_event_ != NULL))
__CPROVER_ensures((__CPROVER_return_value && !g_dropped) ==> g_A == __CPROVER_old(g_A) + data_size)
__CPROVER_ensures(!__CPROVER_return_value ==> (g_A == __CPROVER_old(g_A) && g_X == __CPROVER_old(g_X)))
''' + POST,
    ('ghost', 'BFd_send', 'entry'): 'g_dropped = 0;',
    ('ghost', 'BFd_send', 'before_call:Buffer_append:1'): 'g_j = g_k - g_X; g_byte = g_v;',
    ('ghost', 'BFd_send', 'after_call:Buffer_append:1'): 'g_A += data_size;',
    ('ghost', 'BFd_send', 'before_call:Fd_write:1'): 'g_o = g_k - g_A; g_ov = g_v;   /* send_buff_ is empty here, so g_X == g_A */',
    ('ghost', 'BFd_send', 'after_call:Fd_write:1'): 'if (wsize >= 0) { g_A += data_size; } else if (v_errno != 11) { g_dropped = 1; }',
    ('ghost', 'BFd_send', 'before_call:Buffer_append:2'): 'g_j = g_k - g_X; g_byte = g_v;',
    ('ghost', 'BFd_send', 'before_call:Buffer_append:3'): 'g_j = g_k - g_X; g_byte = g_v;',
    ('ghost', 'BFd_send', 'after_call:Buffer_append:3'): 'g_A += data_size;',
}

H = lambda body: '\nvoid H(void)\n{\n' + body + '\n  __CPROVER_assert(0, "VACUITY-CANARY");\n}\n'

UNITS = [UnitSpec(
    name='buffered_fd', tu='modules/network/buffered_fd.cpp', filter='tbox::network', more_filters=[('modules/network/buffered_fd.cpp', 'tbox::util'), ('modules/network/buffered_fd.cpp', 'tbox::event')],
    rename=R, spec=SPEC, prelude=PRELUDE, plugins=[StdFunction(), Syscalls()], model_headers=['fn_model.h'],
    opaque_records={'tbox::event::FdEvent': 'struct v_FdEvent', 'tbox::event::Event': 'struct v_FdEvent', 'tbox::event::Loop': 'struct v_Loop'},
    emit=['tbox::network::BufferedFd::send', 'tbox::network::BufferedFd::onWriteCallback', 'tbox::network::BufferedFd::enable', 'tbox::network::BufferedFd::disable'],
    targets=[
        Target('send', H('  struct network_BufferedFd *s; const void *p; size_t n; BFd_send(s, p, n);'), enforce='BFd_send', sat='cadical', timeout=600,
               replace=['Buffer_append', 'Fd_write', 'Ev_enable'],
               clause='send(): stream conservation for every result of write(2) (short, zero, EAGAIN, hard error = documented drop), arming invariant'),
        Target('onWriteCallback', H('  struct network_BufferedFd *s; short ev; BFd_onWriteCallback(s, ev);'), enforce='BFd_onWriteCallback', sat='cadical', timeout=600,
               replace=['Buffer_hasRead', 'Fd_write', 'Ev_disable', 'v_fn_call__void', 'v_fn_call__void_int'],
               clause='write-ready: writes only from the front of the queue, consumes exactly what write(2) took; send-complete only on an empty queue; a re-entrant callback cannot leave queued data unarmed'),
        Target('enable', H('  struct network_BufferedFd *s; BFd_enable(s);'), enforce='BFd_enable', replace=['Ev_enable'],
               clause='enable(): Running; data queued before enable gets the write event armed'),
        Target('disable', H('  struct network_BufferedFd *s; BFd_disable(s);'), enforce='BFd_disable', replace=['Ev_disable'],
               clause='disable(): Inited; both events disarmed'),
    ],
)]

REPLAY_SOURCES = ['modules/network/buffered_fd.cpp', 'modules/util/buffer.cpp', 'modules/util/fd.cpp']
def native_replay(u, t, o, w, workdir):
    import replay as rp
    libs = [os.path.join(rp.REPO if os.path.isdir(os.path.join(rp.REPO, '_build')) else '/repo', '_build/modules/%s/libtbox_%s.a' % (m, m)) for m in ('event', 'util', 'base')]
    return rp.attempt('buffered_fd', REPLAY_SOURCES, os.path.join(workdir, 'replay'), [('native-search', ['search'])], extra=libs + ['-ldl'])
