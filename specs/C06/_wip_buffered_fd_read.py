"""NOT LOADED (file name starts with "_"): the harness below exceeds what the installed solvers decide - two readv rounds of the bounded
stand-in took 786 s / 13 GB (cadical), three ran out of memory; the loop contract variant cannot frame a drain loop whose body may
reallocate the buffer (dfcc evaluates loop assigns targets before the havoc).  Kept as the record of the attempt; see DESIGN I.8.

C06 — network::BufferedFd::onReadCallback (modules/network/buffered_fd.cpp): the receive direction.

Ghost stream of the receive direction: g_W bytes the descriptor has delivered so far, g_C bytes the receive callback has consumed so far,
tracked absolute position g_k with byte g_v.  Stream invariant RINV:  recv_buff_ holds exactly stream[g_C, g_W):
   readable(recv_buff_) == g_W - g_C   and   g_k in [g_C, g_W) ==> recv_buff_[g_k - g_C] == g_v.
readv(2) is an any-result stub: it scatters r <= len0 + len1 new stream bytes over the two areas it was given (first the buffer's
writable area, then the 1 KiB spill area), which must be exactly those two areas; the code must commit exactly the bytes that landed in
the buffer (hasWritten) and append exactly the spilled ones, in that order, for every r - so nothing is lost, duplicated or reordered,
whatever the split.  The receive callback gets the buffer with everything not yet consumed (bytes it leaves are presented again
together with later data: they simply stay); it may consume any prefix (stub).  With a bound receiver everything readable is forwarded
and consumed.  EOF and errors: the zero-read / error callbacks, once, only when the FIRST read of the pass returns 0 / fails.
"""
import os, importlib.util
from verif import UnitSpec, Target, VERIF
from plugins import StdFunction, Syscalls
_s = importlib.util.spec_from_file_location('c07_buffer_r', os.path.join(VERIF, 'specs', 'C07', 'buffer.py'))
c07 = importlib.util.module_from_spec(_s); _s.loader.exec_module(c07)
R = dict(c07.RENAME)
R.update({'network_BufferedFd_onReadCallback': 'BFd_onReadCallback', 'util_Fd_readv': 'Fd_readv', 'network_ByteStream_send': 'ByteStream_send'})
EARLY = 'struct v_FdEvent { _Bool armed; }; struct v_Loop { char opaque; };\n'
PRELUDE = c07.PRELUDE + r'''
typedef struct network_BufferedFd BFd;
#define T(x) ((x) != 0)
#define RB(s) (&(s)->recv_buff_)
static BFd *g_selfp;
static size_t g_W, g_C;                   /* delivered by the descriptor / consumed by the receiver so far */
static size_t g_k; static uint8_t g_v;    /* tracked absolute stream position and its byte */
static size_t g_W_before;                 /* g_W before the last readv */
static size_t g_forwards, g_rx_calls, g_zero_calls, g_err_calls, g_reads;
#define RINV_L(s, lim) (BSHAPE_LIM(RB(s), lim) && g_C <= g_W && READABLE(RB(s)) == g_W - g_C && g_W < V_MAXSZ && ((g_k >= g_C && g_k < g_W) ==> AT(RB(s), g_k - g_C) == g_v))
#define RINV(s) RINV_L(s, V_MAXSZ)
#define RINV_POST(s) RINV_L(s, 4 * V_MAXSZ)
'''
EXTERN = r'''
/* readv: r new stream bytes, first into iov[0] (the buffer's writable area), the rest into iov[1] (the spill area) */
ssize_t Fd_readv(struct util_Fd *fd, const struct iovec *iov, int iovcnt)
__CPROVER_requires(iovcnt == 2 && __CPROVER_r_ok(iov, 2 * sizeof(struct iovec)) && g_reads < 1000000)
__CPROVER_requires(iov[0].iov_len == WRITABLE(RB(g_selfp)) && (iov[0].iov_len > 0 ==> iov[0].iov_base == (void *)(RB(g_selfp)->buffer_ptr_ + RB(g_selfp)->write_index_)))      /* exactly the free tail of the receive buffer */
__CPROVER_requires(iov[1].iov_len == 1024 && __CPROVER_w_ok(iov[1].iov_base, 1024))
__CPROVER_assigns(g_W, g_W_before, g_reads, v_errno, __CPROVER_object_whole(iov[1].iov_base); RB(g_selfp)->buffer_ptr_ != NULL: __CPROVER_object_whole(RB(g_selfp)->buffer_ptr_))
__CPROVER_ensures(__CPROVER_return_value >= -1 && __CPROVER_return_value <= (ssize_t)(iov[0].iov_len + 1024) && g_reads == __CPROVER_old(g_reads) + 1)
__CPROVER_ensures(g_reads >= V_ROUNDS ==> __CPROVER_return_value <= 0)        /* THE BOUND of this bounded stand-in: the descriptor runs dry within V_ROUNDS reads of one pass */
__CPROVER_ensures(g_W_before == __CPROVER_old(g_W) && g_W == __CPROVER_old(g_W) + (__CPROVER_return_value > 0 ? (size_t)__CPROVER_return_value : 0))
/* already received bytes stay where they are */
__CPROVER_ensures((g_k >= g_C && g_k < g_W_before) ==> AT(RB(g_selfp), g_k - g_C) == g_v)
/* the tracked byte, if it is among the new ones, lands at its scatter position */
__CPROVER_ensures((g_k >= g_W_before && g_k < g_W && g_k - g_W_before < iov[0].iov_len) ==> ((const uint8_t *)iov[0].iov_base)[g_k - g_W_before] == g_v)
__CPROVER_ensures((g_k >= g_W_before && g_k < g_W && g_k - g_W_before >= iov[0].iov_len) ==> ((const uint8_t *)iov[1].iov_base)[g_k - g_W_before - iov[0].iov_len] == g_v)
;
_Bool ByteStream_send(struct network_ByteStream *r, const void *p, size_t n)
__CPROVER_requires(n == READABLE(RB(g_selfp)) && g_forwards == 0)                        /* everything readable, once */
__CPROVER_requires((g_k >= g_C && g_k < g_W) ==> ((const uint8_t *)p)[g_k - g_C] == g_v)  /* ... and it is the stream from the first unconsumed byte on */
__CPROVER_assigns(g_forwards)
__CPROVER_ensures(g_forwards == 1)
;
/* receive callback: gets the buffer holding every byte not yet consumed; may consume any prefix, may not invent or reorder */
void v_fn_call__void_tbox_util_Buffer_r(struct v_function *f, struct util_Buffer *b)
__CPROVER_requires(T(f->engaged) && b == RB(g_selfp) && RINV(g_selfp) && g_rx_calls == 0 && g_selfp->cb_level_ >= 1 && READABLE(b) >= g_selfp->receive_threshold_)
__CPROVER_assigns(g_rx_calls, g_C, b->read_index_, b->write_index_)
__CPROVER_ensures(g_rx_calls == 1 && RINV(g_selfp) && g_C >= __CPROVER_old(g_C))
;
void v_fn_call__void(struct v_function *f)
__CPROVER_requires(T(f->engaged) && f == &g_selfp->read_zero_cb_ && g_reads == 1 && g_zero_calls == 0)          /* EOF reported when the first read of the pass returns 0 */
__CPROVER_assigns(g_zero_calls)
__CPROVER_ensures(g_zero_calls == 1)
;
void v_fn_call__void_int(struct v_function *f, int err)
__CPROVER_requires(T(f->engaged) && f == &g_selfp->read_error_cb_ && g_reads == 1 && err != 11 && g_err_calls == 0)
__CPROVER_assigns(g_err_calls)
__CPROVER_ensures(g_err_calls == 1)
;
'''
REQ = r'''
__CPROVER_requires(__CPROVER_is_fresh(self, sizeof(*self)) && self->cb_level_ >= 0 && self->cb_level_ < 1000)
__CPROVER_requires(RB(self)->buffer_size_ > 0 ==> __CPROVER_is_fresh(RB(self)->buffer_ptr_, RB(self)->buffer_size_))
__CPROVER_requires(RINV(self) && g_W + 2000000000 < V_MAXSZ)
'''
SPEC = {
    ('prelude_early',): EARLY, ('after_protos',): EXTERN,
    ('contract', 'Buffer_append'): c07.SPEC[('contract', 'Buffer_append')],
    ('contract', 'Buffer_hasWritten'): c07.SPEC[('contract', 'Buffer_hasWritten')],
    ('contract', 'Buffer_hasReadAll'): c07.SPEC[('contract', 'Buffer_hasReadAll')],
    ('stub', 'Fd_readv'): True, ('stub', 'ByteStream_send'): True,
    ('contract', 'BFd_onReadCallback'): REQ + r'''
__CPROVER_assigns(g_selfp, g_W, g_C, g_W_before, g_forwards, g_rx_calls, g_zero_calls, g_err_calls, g_reads, g_j, g_byte, v_errno, v_mc_off, self->cb_level_, self->recv_buff_;
                  self->recv_buff_.buffer_ptr_ != NULL: __CPROVER_object_whole(self->recv_buff_.buffer_ptr_))
__CPROVER_frees(self->recv_buff_.buffer_ptr_)
__CPROVER_ensures(RINV_POST(self) && self->cb_level_ == __CPROVER_old(self->cb_level_))                /* nothing lost, duplicated or reordered */
__CPROVER_ensures(g_zero_calls + g_err_calls <= 1 && (g_zero_calls + g_err_calls == 1 ==> g_W == __CPROVER_old(g_W)))
''',
    ('ghost', 'BFd_onReadCallback', 'entry'): 'g_selfp = self; g_forwards = 0; g_rx_calls = 0; g_zero_calls = 0; g_err_calls = 0; g_reads = 0;',
    # map the stream's tracked byte onto the Buffer contracts' tracked offset (relative to the read index); beyond the data: vacuous
    ('ghost', 'BFd_onReadCallback', 'before_call:Buffer_hasWritten:1'): 'g_j = (g_k >= g_C && g_k < g_W) ? g_k - g_C : (size_t)-1; g_byte = g_v;',
    ('ghost', 'BFd_onReadCallback', 'before_call:Buffer_append:1'): 'g_j = (g_k >= g_C && g_k < g_W) ? g_k - g_C : (size_t)-1; g_byte = g_v;',
    ('ghost', 'BFd_onReadCallback', 'before_call:Buffer_hasWritten:2'): 'g_j = (g_k >= g_C && g_k < g_W) ? g_k - g_C : (size_t)-1; g_byte = g_v;',
    ('ghost', 'BFd_onReadCallback', 'after_call:Buffer_hasReadAll:1'): 'g_C = g_W;',
    ('ghost', 'BFd_onReadCallback', 'after_call:Buffer_hasReadAll:2'): 'g_C = g_W;',
}
H = lambda body: '\nvoid H(void)\n{\n' + body + '\n  __CPROVER_assert(0, "VACUITY-CANARY");\n}\n'
UNITS = [UnitSpec(name='buffered_fd_read', tu='modules/network/buffered_fd.cpp', filter='tbox::network', more_filters=[('modules/network/buffered_fd.cpp', 'tbox::util'), ('modules/network/buffered_fd.cpp', 'tbox::event')],
    rename=R, spec=SPEC, prelude=PRELUDE, plugins=[StdFunction(), Syscalls()], model_headers=['fn_model.h'],
    opaque_records={'tbox::event::FdEvent': 'struct v_FdEvent', 'tbox::event::Event': 'struct v_FdEvent', 'tbox::event::Loop': 'struct v_Loop'},
    emit=['tbox::network::BufferedFd::onReadCallback'],
    targets=[Target('onReadCallback', H('  BFd *s; short ev; BFd_onReadCallback(s, ev);'), enforce='BFd_onReadCallback', timeout=900, sat='cadical', object_bits=12, loops=False, unwind=24, unwindset=['BFd_onReadCallback_wrapped_for_contract_checking.0:4'], defines=['V_ROUNDS=3'],
                    bound='at most 3 readv rounds per read-ready pass (the drain loop may reallocate the buffer, which dfcc loop contracts cannot frame: see DESIGN I.5)',
                    replace=['Buffer_append', 'Buffer_hasWritten', 'Buffer_hasReadAll', 'Fd_readv', 'ByteStream_send', 'v_fn_call__void_tbox_util_Buffer_r', 'v_fn_call__void', 'v_fn_call__void_int'],
                    clause='read-ready: every byte readv delivered is committed/appended exactly once, in order, for every split between buffer and spill area; receiver gets everything unconsumed; EOF/error reported once')])]
