#include <stddef.h>
#include <stdint.h>
#include <stdbool.h>
#include <stdlib.h>

struct Buffer { uint8_t *buffer_ptr_; size_t buffer_size_; size_t read_index_; size_t write_index_; };

/* ghost */
size_t g_j;       /* tracked offset inside the readable window */
uint8_t g_byte;   /* byte expected at that offset */

#define MAXSZ ((size_t)1<<40)

/* trusted libc models (weaker than the real ones: only the tracked index is preserved) */
void *v_memmove(void *d, const void *s, size_t n) {
  __CPROVER_assert(n == 0 || (__CPROVER_r_ok(s, n) && __CPROVER_w_ok(d, n)), "memmove regions valid");
  uint8_t keep = 0; bool has = g_j < n; if (has) keep = ((const uint8_t*)s)[g_j];
  if (n) __CPROVER_havoc_slice(d, n);
  if (has) ((uint8_t*)d)[g_j] = keep;
  return d;
}
void *v_memcpy(void *d, const void *s, size_t n) {
  __CPROVER_assert(n == 0 || (__CPROVER_r_ok(s, n) && __CPROVER_w_ok(d, n)), "memcpy regions valid");
  uint8_t keep = 0; bool has = g_j < n; if (has) keep = ((const uint8_t*)s)[g_j];
  if (n) __CPROVER_havoc_slice(d, n);
  if (has) ((uint8_t*)d)[g_j] = keep;
  return d;
}
uint8_t *v_new_u8(size_t n)
__CPROVER_requires(n > 0 && n <= 8*MAXSZ)
__CPROVER_assigns()
__CPROVER_ensures(__CPROVER_is_fresh(__CPROVER_return_value, n))
;
void v_delete_arr(uint8_t *p)
__CPROVER_requires(p != NULL)
__CPROVER_assigns()
;

static inline size_t Buffer_writableSize(const struct Buffer *self) { return self->buffer_size_ - self->write_index_; }

bool Buffer_ensureWritableSize(struct Buffer *self, size_t write_size)
__CPROVER_requires(__CPROVER_is_fresh(self, sizeof(*self)))
__CPROVER_requires(self->buffer_size_ < MAXSZ && write_size < MAXSZ)
__CPROVER_requires(self->read_index_ <= self->write_index_ && self->write_index_ <= self->buffer_size_)
__CPROVER_requires(self->buffer_size_ == 0 ? self->buffer_ptr_ == NULL : __CPROVER_is_fresh(self->buffer_ptr_, self->buffer_size_))
__CPROVER_requires(g_j < self->write_index_ - self->read_index_ ==> self->buffer_ptr_[self->read_index_ + g_j] == g_byte)
__CPROVER_assigns(*self; self->buffer_ptr_ != NULL: __CPROVER_object_whole(self->buffer_ptr_))
__CPROVER_ensures(__CPROVER_return_value == true)
__CPROVER_ensures(self->read_index_ <= self->write_index_ && self->write_index_ <= self->buffer_size_)
__CPROVER_ensures(self->buffer_size_ - self->write_index_ >= write_size)
__CPROVER_ensures(self->write_index_ - self->read_index_ == __CPROVER_old(self->write_index_) - __CPROVER_old(self->read_index_))
__CPROVER_ensures(g_j < self->write_index_ - self->read_index_ ==> self->buffer_ptr_[self->read_index_ + g_j] == g_byte)
{
    if (write_size == 0)
        return true;

    //! 空间足够
    if (Buffer_writableSize(self) >= write_size)
        return true;

    if ((Buffer_writableSize(self) + self->read_index_) >= write_size) {
        v_memmove(self->buffer_ptr_, (self->buffer_ptr_ + self->read_index_), (self->write_index_ - self->read_index_));
        self->write_index_ -= self->read_index_;
        self->read_index_ = 0;
        return true;

    } else {
        size_t new_size = (self->write_index_ + write_size) << 1;
        uint8_t *p_buff = v_new_u8(new_size);
        if (p_buff == NULL)
            return false;

        if (self->buffer_ptr_ != NULL) {
            v_memcpy((p_buff + self->read_index_), (self->buffer_ptr_ + self->read_index_), (self->write_index_ - self->read_index_));
            v_delete_arr(self->buffer_ptr_);
        }

        self->buffer_ptr_  = p_buff;
        self->buffer_size_ = new_size;

        return true;
    }
}

void harness(void) {
  struct Buffer *b; size_t n;
  Buffer_ensureWritableSize(b, n);
}
