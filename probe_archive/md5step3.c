#include <stdint.h>
#include <stddef.h>
/* independent reference: RFC 1321 in loop/table form */
static const uint32_t K[64] = {
0xd76aa478,0xe8c7b756,0x242070db,0xc1bdceee,0xf57c0faf,0x4787c62a,0xa8304613,0xfd469501,
0x698098d8,0x8b44f7af,0xffff5bb1,0x895cd7be,0x6b901122,0xfd987193,0xa679438e,0x49b40821,
0xf61e2562,0xc040b340,0x265e5a51,0xe9b6c7aa,0xd62f105d,0x02441453,0xd8a1e681,0xe7d3fbc8,
0x21e1cde6,0xc33707d6,0xf4d50d87,0x455a14ed,0xa9e3e905,0xfcefa3f8,0x676f02d9,0x8d2a4c8a,
0xfffa3942,0x8771f681,0x6d9d6122,0xfde5380c,0xa4beea44,0x4bdecfa9,0xf6bb4b60,0xbebfbc70,
0x289b7ec6,0xeaa127fa,0xd4ef3085,0x04881d05,0xd9d4d039,0xe6db99e5,0x1fa27cf8,0xc4ac5665,
0xf4292244,0x432aff97,0xab9423a7,0xfc93a039,0x655b59c3,0x8f0ccc92,0xffeff47d,0x85845dd1,
0x6fa87e4f,0xfe2ce6e0,0xa3014314,0x4e0811a1,0xf7537e82,0xbd3af235,0x2ad7d2bb,0xeb86d391};
static const uint8_t S[64] = {7,12,17,22,7,12,17,22,7,12,17,22,7,12,17,22,5,9,14,20,5,9,14,20,5,9,14,20,5,9,14,20,
4,11,16,23,4,11,16,23,4,11,16,23,4,11,16,23,6,10,15,21,6,10,15,21,6,10,15,21,6,10,15,21};

static uint32_t rA,rB,rC,rD; static uint32_t rM[16];
#define RL(x,n) (((x)<<(n))|((x)>>(32-(n))))
#define REFSTEP(i) do { uint32_t f; int g; \
  if ((i)<16){ f=(rB&rC)|(~rB&rD); g=(i); } else if((i)<32){ f=(rD&rB)|(~rD&rC); g=(5*(i)+1)%16; } else if((i)<48){ f=rB^rC^rD; g=(3*(i)+5)%16; } else { f=rC^(rB|~rD); g=(7*(i))%16; } \
  f = rA + (f + rM[g] + K[i]); rA=rD; rD=rC; rC=rB; rB = RL(f,S[i]) + rB; \
  if (((i)+1)%4==1) { __CPROVER_assert(rA==d&&rB==a&&rC==b&&rD==c,"step"); rA=d;rB=a;rC=b;rD=c; } \
  else if (((i)+1)%4==2) { __CPROVER_assert(rA==c&&rB==d&&rC==a&&rD==b,"step"); rA=c;rB=d;rC=a;rD=b; } \
  else if (((i)+1)%4==3) { __CPROVER_assert(rA==b&&rB==c&&rC==d&&rD==a,"step"); rA=b;rB=c;rC=d;rD=a; } \
  else { __CPROVER_assert(rA==a&&rB==b&&rC==c&&rD==d,"step"); rA=a;rB=b;rC=c;rD=d; } } while(0)
#define F(x, y, z) ((x & y) | (~x & z))
#define G(x, y, z) ((x & z) | (y & ~z))
#define H(x, y, z) (x ^ y ^ z)
#define I(x, y, z) (y ^ (x | ~z))


//! 向左环移n个单位
#define ROTATE_LEFT(x, n) ((x << n) | (x >> (32 - n)))
#define FF(a, b, c, d, x, s, ac) { a += F(b, c, d) + x + ac;  a = ROTATE_LEFT(a, s); a += b; }
#define GG(a, b, c, d, x, s, ac) { a += G(b, c, d) + x + ac;  a = ROTATE_LEFT(a, s); a += b; }
#define HH(a, b, c, d, x, s, ac) { a += H(b, c, d) + x + ac;  a = ROTATE_LEFT(a, s); a += b; }
#define II(a, b, c, d, x, s, ac) { a += I(b, c, d) + x + ac;  a = ROTATE_LEFT(a, s); a += b; }
void Decode(uint32_t *output, const uint8_t *input, size_t len)
{
    uint32_t i = 0, j = 0;
    while (j < len) {
        output[i] = (input[j]) | (input[j + 1] << 8) | (input[j + 2] << 16)
                    | (input[j + 3] << 24);
        i++;
        j += 4;
    }
}

void Transform(uint32_t state_[4], const uint8_t block[64])
{
    uint32_t a = state_[0];
    uint32_t b = state_[1];
    uint32_t c = state_[2];
    uint32_t d = state_[3];

    uint32_t x[16];

    Decode(x, block, 64);
    rA=a; rB=b; rC=c; rD=d; for(int q=0;q<16;q++) rM[q]=(uint32_t)block[4*q]|((uint32_t)block[4*q+1]<<8)|((uint32_t)block[4*q+2]<<16)|((uint32_t)block[4*q+3]<<24);

    //! round 1
    FF(a, b, c, d, x[0], 7, 0xd76aa478);
    REFSTEP(0);
    FF(d, a, b, c, x[1], 12, 0xe8c7b756);
    REFSTEP(1);
    FF(c, d, a, b, x[2], 17, 0x242070db);
    REFSTEP(2);
    FF(b, c, d, a, x[3], 22, 0xc1bdceee);
    REFSTEP(3);

    FF(a, b, c, d, x[4], 7, 0xf57c0faf);
    REFSTEP(4);
    FF(d, a, b, c, x[5], 12, 0x4787c62a);
    REFSTEP(5);
    FF(c, d, a, b, x[6], 17, 0xa8304613);
    REFSTEP(6);
    FF(b, c, d, a, x[7], 22, 0xfd469501);
    REFSTEP(7);

    FF(a, b, c, d, x[8], 7, 0x698098d8);
    REFSTEP(8);
    FF(d, a, b, c, x[9], 12, 0x8b44f7af);
    REFSTEP(9);
    FF(c, d, a, b, x[10], 17, 0xffff5bb1);
    REFSTEP(10);
    FF(b, c, d, a, x[11], 22, 0x895cd7be);
    REFSTEP(11);

    FF(a, b, c, d, x[12], 7, 0x6b901122);
    REFSTEP(12);
    FF(d, a, b, c, x[13], 12, 0xfd987193);
    REFSTEP(13);
    FF(c, d, a, b, x[14], 17, 0xa679438e);
    REFSTEP(14);
    FF(b, c, d, a, x[15], 22, 0x49b40821);
    REFSTEP(15);

    //! round 2
    GG(a, b, c, d, x[1], 5, 0xf61e2562);
    REFSTEP(16);
    GG(d, a, b, c, x[6], 9, 0xc040b340);
    REFSTEP(17);
    GG(c, d, a, b, x[11], 14, 0x265e5a51);
    REFSTEP(18);
    GG(b, c, d, a, x[0], 20, 0xe9b6c7aa);
    REFSTEP(19);

    GG(a, b, c, d, x[5], 5, 0xd62f105d);
    REFSTEP(20);
    GG(d, a, b, c, x[10], 9, 0x2441453);
    REFSTEP(21);
    GG(c, d, a, b, x[15], 14, 0xd8a1e681);
    REFSTEP(22);
    GG(b, c, d, a, x[4], 20, 0xe7d3fbc8);
    REFSTEP(23);

    GG(a, b, c, d, x[9], 5, 0x21e1cde6);
    REFSTEP(24);
    GG(d, a, b, c, x[14], 9, 0xc33707d6);
    REFSTEP(25);
    GG(c, d, a, b, x[3], 14, 0xf4d50d87);
    REFSTEP(26);
    GG(b, c, d, a, x[8], 20, 0x455a14ed);
    REFSTEP(27);

    GG(a, b, c, d, x[13], 5, 0xa9e3e905);
    REFSTEP(28);
    GG(d, a, b, c, x[2], 9, 0xfcefa3f8);
    REFSTEP(29);
    GG(c, d, a, b, x[7], 14, 0x676f02d9);
    REFSTEP(30);
    GG(b, c, d, a, x[12], 20, 0x8d2a4c8a);
    REFSTEP(31);

    //! round 3
    HH(a, b, c, d, x[5], 4, 0xfffa3942);
    REFSTEP(32);
    HH(d, a, b, c, x[8], 11, 0x8771f681);
    REFSTEP(33);
    HH(c, d, a, b, x[11], 16, 0x6d9d6122);
    REFSTEP(34);
    HH(b, c, d, a, x[14], 23, 0xfde5380c);
    REFSTEP(35);

    HH(a, b, c, d, x[1], 4, 0xa4beea44);
    REFSTEP(36);
    HH(d, a, b, c, x[4], 11, 0x4bdecfa9);
    REFSTEP(37);
    HH(c, d, a, b, x[7], 16, 0xf6bb4b60);
    REFSTEP(38);
    HH(b, c, d, a, x[10], 23, 0xbebfbc70);
    REFSTEP(39);

    HH(a, b, c, d, x[13], 4, 0x289b7ec6);
    REFSTEP(40);
    HH(d, a, b, c, x[0], 11, 0xeaa127fa);
    REFSTEP(41);
    HH(c, d, a, b, x[3], 16, 0xd4ef3085);
    REFSTEP(42);
    HH(b, c, d, a, x[6], 23, 0x4881d05);
    REFSTEP(43);

    HH(a, b, c, d, x[9], 4, 0xd9d4d039);
    REFSTEP(44);
    HH(d, a, b, c, x[12], 11, 0xe6db99e5);
    REFSTEP(45);
    HH(c, d, a, b, x[15], 16, 0x1fa27cf8);
    REFSTEP(46);
    HH(b, c, d, a, x[2], 23, 0xc4ac5665);
    REFSTEP(47);

    //! round 4
    II(a, b, c, d, x[0], 6, 0xf4292244);
    REFSTEP(48);
    II(d, a, b, c, x[7], 10, 0x432aff97);
    REFSTEP(49);
    II(c, d, a, b, x[14], 15, 0xab9423a7);
    REFSTEP(50);
    II(b, c, d, a, x[5], 21, 0xfc93a039);
    REFSTEP(51);

    II(a, b, c, d, x[12], 6, 0x655b59c3);
    REFSTEP(52);
    II(d, a, b, c, x[3], 10, 0x8f0ccc92);
    REFSTEP(53);
    II(c, d, a, b, x[10], 15, 0xffeff47d);
    REFSTEP(54);
    II(b, c, d, a, x[1], 21, 0x85845dd1);
    REFSTEP(55);

    II(a, b, c, d, x[8], 6, 0x6fa87e4f);
    REFSTEP(56);
    II(d, a, b, c, x[15], 10, 0xfe2ce6e0);
    REFSTEP(57);
    II(c, d, a, b, x[6], 15, 0xa3014314);
    REFSTEP(58);
    II(b, c, d, a, x[13], 21, 0x4e0811a1);
    REFSTEP(59);

    II(a, b, c, d, x[4], 6, 0xf7537e82);
    REFSTEP(60);
    II(d, a, b, c, x[11], 10, 0xbd3af235);
    REFSTEP(61);
    II(c, d, a, b, x[2], 15, 0x2ad7d2bb);
    REFSTEP(62);
    II(b, c, d, a, x[9], 21, 0xeb86d391);
    REFSTEP(63);

    state_[0] += a;
    state_[1] += b;
    state_[2] += c;
    state_[3] += d;
}

int main(void){ uint32_t s1[4]; uint8_t b[64]; uint32_t s0[4]; for(int i=0;i<4;i++) s0[i]=s1[i];
  Transform(s1,b);
  __CPROVER_assert(s1[0]==s0[0]+rA && s1[1]==s0[1]+rB && s1[2]==s0[2]+rC && s1[3]==s0[3]+rD, "final add");
}
