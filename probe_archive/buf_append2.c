#include <stddef.h>
#include <stdint.h>
#include <stdbool.h>
#include <stdlib.h>
struct Buffer { uint8_t *buffer_ptr_; size_t buffer_size_; size_t read_index_; size_t write_index_; };
#define MAXSZ ((size_t)1<<40)
size_t g_j; uint8_t g_byte;          /* tracked offset in the readable window (abstract stream position - R) and its byte */
size_t g_m;                           /* offset handed to the memcpy model */
#define BWF(b) ((b)->read_index_ <= (b)->write_index_ && (b)->write_index_ <= (b)->buffer_size_ && (b)->buffer_size_ < 8*MAXSZ && (((b)->buffer_size_ == 0) == ((b)->buffer_ptr_ == NULL)))
#define READABLE(b) ((b)->write_index_ - (b)->read_index_)
#define AT(b,o) ((b)->buffer_ptr_[(b)->read_index_ + (o)])

void *v_memcpy(void *d, const void *s, size_t n) {
  __CPROVER_assert(n == 0 || (__CPROVER_r_ok(s, n) && __CPROVER_w_ok(d, n)), "memcpy regions valid");
  uint8_t keep = 0; bool has = g_m < n; if (has) keep = ((const uint8_t*)s)[g_m];
  if (n) __CPROVER_havoc_slice(d, n);
  if (has) ((uint8_t*)d)[g_m] = keep;
  return d;
}
/* contract proved separately (probe 1) — abstract view for callers */
_Bool Buffer_ensureWritableSize(struct Buffer *self, size_t write_size)
__CPROVER_requires(__CPROVER_rw_ok(self, sizeof(*self)) && BWF(self) && self->buffer_size_ < MAXSZ && write_size < MAXSZ)
__CPROVER_requires(self->buffer_size_ == 0 || __CPROVER_rw_ok(self->buffer_ptr_, self->buffer_size_))
__CPROVER_requires(g_j < READABLE(self) ==> AT(self, g_j) == g_byte)
__CPROVER_assigns(*self; self->buffer_ptr_ != NULL: __CPROVER_object_whole(self->buffer_ptr_))
__CPROVER_ensures(__CPROVER_return_value == 1 && BWF(self))
__CPROVER_ensures(self->buffer_size_ - self->write_index_ >= write_size)
__CPROVER_ensures(READABLE(self) == __CPROVER_old(self->write_index_) - __CPROVER_old(self->read_index_))
__CPROVER_ensures(self->buffer_size_ > 0 ==> __CPROVER_is_fresh(self->buffer_ptr_, self->buffer_size_))
__CPROVER_ensures(g_j < READABLE(self) ==> AT(self, g_j) == g_byte)
;
static inline uint8_t *Buffer_writableBegin(const struct Buffer *self) { return (self->buffer_ptr_ != NULL) ? (self->buffer_ptr_ + self->write_index_) : NULL; }
void Buffer_hasWritten(struct Buffer *self, size_t write_size)
{
    if (self->write_index_ + write_size > self->buffer_size_) {
        self->write_index_ = self->buffer_size_;
    } else {
        self->write_index_ += write_size;
    }
}
size_t Buffer_append(struct Buffer *self, const void *p_data, size_t data_size)
__CPROVER_requires(__CPROVER_is_fresh(self, sizeof(*self)) && BWF(self) && self->buffer_size_ < MAXSZ && data_size < MAXSZ)
__CPROVER_requires(self->buffer_size_ == 0 ? 1 : __CPROVER_is_fresh(self->buffer_ptr_, self->buffer_size_))
__CPROVER_requires(data_size == 0 || __CPROVER_is_fresh(p_data, data_size))
__CPROVER_requires(g_j < READABLE(self) ==> AT(self, g_j) == g_byte)
__CPROVER_requires((g_j >= READABLE(self) && g_j < READABLE(self) + data_size) ==> ((const uint8_t*)p_data)[g_j - READABLE(self)] == g_byte)
__CPROVER_assigns(*self, g_m; self->buffer_ptr_ != NULL: __CPROVER_object_whole(self->buffer_ptr_))
__CPROVER_ensures(__CPROVER_return_value == data_size)
__CPROVER_ensures(BWF(self))
__CPROVER_ensures(READABLE(self) == __CPROVER_old(self->write_index_) - __CPROVER_old(self->read_index_) + data_size)
__CPROVER_ensures(g_j < READABLE(self) ==> AT(self, g_j) == g_byte)
{
    size_t g_old_readable = READABLE(self);          /* G: ghost at entry */
    if (Buffer_ensureWritableSize(self, data_size)) {
        g_m = g_j - g_old_readable;                  /* G: before the call of memcpy */
        v_memcpy(Buffer_writableBegin(self), p_data, data_size);
        Buffer_hasWritten(self, data_size);
        return data_size;
    }
    return 0;
}
void harness(void) { struct Buffer *b; const void *p; size_t n; Buffer_append(b, p, n); }
