"""C20 — alarm::Alarm timer arithmetic and state machine (modules/alarm/alarm.cpp).

Stubs: wall clock (any (sec, usec<10^6), remembered in ghosts g_now_sec/g_now_usec), system time-zone offset (any value within
+-15 h), the virtual calculateNextLocalTimeSec (any result STRICTLY after its argument - what the subclasses are proved to
deliver in unit `next_instant`), TimerEvent (ghost armed flag, delay, mode), user callback (may disable / clean up / re-enable the
alarm: havoc under the invariant  Running <=> timer armed, and a ghost flag g_user_disabled when it left the alarm disabled).
Claims: armed delay in ms, computed in 64 bits, is never shorter than the wall-clock distance to the chosen instant (every
distance); the base of the computation is max(now, previous target) (no second fire for one instant after an early wake-up);
re-arm happens before the user callback and a callback that disables the alarm leaves it disabled; disable/cleanup disarm.
"""
import os
from verif import UnitSpec, Target
from plugins import StdFunction, Syscalls, Chrono

R = {'alarm_Alarm_activeTimer': 'Al_activeTimer', 'alarm_Alarm_onTimeExpired': 'Al_onTimeExpired', 'alarm_Alarm_enable': 'Al_enable', 'alarm_Alarm_disable': 'Al_disable',
     'alarm_Alarm_cleanup': 'Al_cleanup', 'alarm_Alarm_refresh': 'Al_refresh', 'alarm_Alarm_remainSeconds': 'Al_remainSeconds',
     'alarm_Alarm_GetCurrentUtcTime__uint32_tr_uint32_tr': 'Al_now2', 'alarm_Alarm_GetCurrentUtcTime__uint32_tr': 'Al_now1',
     'alarm_GetSystemTimezoneOffsetSeconds': 'Al_sysTz', 'alarm_Alarm_calculateNextLocalTimeSec': 'Al_calcNext', 'event_TimerEvent_initialize': 'Tm_initialize',
     'event_Event_enable': 'Tm_enable', 'event_Event_disable': 'Tm_disable', 'alarm_Alarm_onEnable': 'Al_onEnable', 'alarm_Alarm_onDisable': 'Al_onDisable'}

EARLY = r'''
struct v_TimerEvent { _Bool armed; int64_t delay_ms; int mode; };     /* event::TimerEvent: ghost view only */
struct v_Loop { char opaque; };
'''
PRELUDE = r'''
static uint32_t g_now_sec, g_now_usec;     /* what the wall clock answers during this call */
static _Bool g_user_disabled;              /* the user callback left the alarm disabled */
static struct alarm_Alarm *g_al;           /* assigned at entry of onTimeExpired (for the callback stub) */
#define T(x) ((x) != 0)
#define K_NONE alarm_Alarm_State_kNone
#define K_INITED alarm_Alarm_State_kInited
#define K_RUNNING alarm_Alarm_State_kRunning
#define AINV(a) ((a)->state_ >= K_NONE && (a)->state_ <= K_RUNNING && (((a)->state_ == K_RUNNING) == T((a)->sp_timer_ev_->armed)))
#define TZ_OK(a) ((a)->timezone_offset_seconds_ >= -54000 && (a)->timezone_offset_seconds_ <= 54000)
#define U64(x) ((uint64_t)(x))
'''
REQ = r'''
__CPROVER_requires(__CPROVER_is_fresh(self, sizeof(*self)) && __CPROVER_is_fresh(self->sp_timer_ev_, sizeof(struct v_TimerEvent)))
__CPROVER_requires(self->state_ >= K_NONE && self->state_ <= K_RUNNING && TZ_OK(self) && self->cb_level_ >= 0 && self->cb_level_ < 100)
__CPROVER_requires(g_now_sec < 0xC0000000u && self->target_utc_sec_ < 0xC0000000u)      /* 32-bit epoch seconds: stated limit (year 2072) */
'''
TIMER_FRAME = 'self->sp_timer_ev_->armed, self->sp_timer_ev_->delay_ms, self->sp_timer_ev_->mode'
EXTERN = r'''
/* user callback: may call disable()/cleanup()/enable()/refresh() on the alarm */
void v_fn_call__void(struct v_function *f)
__CPROVER_requires(f->engaged)
__CPROVER_assigns(g_user_disabled, g_al->state_, g_al->target_utc_sec_, g_al->cb_, g_al->using_independ_timezone_, g_al->timezone_offset_seconds_, g_al->sp_timer_ev_->armed, g_al->sp_timer_ev_->delay_ms, g_al->sp_timer_ev_->mode)
__CPROVER_ensures(AINV(g_al) && TZ_OK(g_al))
__CPROVER_ensures(T(g_user_disabled) ==> g_al->state_ != K_RUNNING)
;
'''
SPEC = {
    ('prelude_early',): EARLY, ('after_protos',): EXTERN,
    ('stub', 'Al_onEnable'): True, ('stub', 'Al_onDisable'): True, ('stub', 'Al_now2'): True, ('stub', 'Al_now1'): True, ('stub', 'Al_sysTz'): True,
    ('contract', 'Al_onEnable'): '__CPROVER_requires(1)\n__CPROVER_assigns()\n__CPROVER_ensures(1)\n', ('contract', 'Al_onDisable'): '__CPROVER_requires(1)\n__CPROVER_assigns()\n__CPROVER_ensures(__CPROVER_return_value)   /* every onDisable() in the module returns true (Alarm, WorkdayAlarm) */\n',
    ('contract', 'Al_now2'): r'''
__CPROVER_requires(__CPROVER_rw_ok(utc_sec, 4) && __CPROVER_rw_ok(utc_usec, 4))
__CPROVER_assigns(*utc_sec, *utc_usec)
__CPROVER_ensures(__CPROVER_return_value ==> (*utc_sec == g_now_sec && *utc_usec == g_now_usec && g_now_usec < 1000000u))
''',
    ('contract', 'Al_now1'): r'''
__CPROVER_requires(__CPROVER_rw_ok(utc_sec, 4))
__CPROVER_assigns(*utc_sec)
__CPROVER_ensures(__CPROVER_return_value ==> *utc_sec == g_now_sec)
''',
    ('contract', 'Al_sysTz'): r'''
__CPROVER_assigns()
__CPROVER_ensures(__CPROVER_return_value >= -54000 && __CPROVER_return_value <= 54000)
''',
    ('contract', 'Al_calcNext'): r'''
__CPROVER_requires(__CPROVER_rw_ok(next_local_sec, 4))
__CPROVER_assigns(*next_local_sec)
__CPROVER_ensures(__CPROVER_return_value ==> (*next_local_sec > curr_local_sec && *next_local_sec - curr_local_sec <= 0x30000000u))   /* strictly later (proved for the subclasses); distance below 2^29.6 s = 25 years */
''',
    ('contract', 'Tm_initialize'): r'''
__CPROVER_requires(__CPROVER_rw_ok(self, sizeof(*self)) && __CPROVER_r_ok(time_span, 8))
__CPROVER_assigns(self->delay_ms, self->mode)
__CPROVER_ensures(self->delay_ms == *time_span && self->mode == mode)
''',
    ('contract', 'Tm_enable'): '__CPROVER_requires(__CPROVER_rw_ok(self, sizeof(*self)))\n__CPROVER_assigns(self->armed)\n__CPROVER_ensures(T(self->armed))\n',
    ('contract', 'Tm_disable'): '__CPROVER_requires(__CPROVER_rw_ok(self, sizeof(*self)))\n__CPROVER_assigns(self->armed)\n__CPROVER_ensures(!T(self->armed))\n',
    ('contract', 'Al_activeTimer'): REQ + r'''
__CPROVER_assigns(self->state_, self->target_utc_sec_, ''' + TIMER_FRAME + r''')
__CPROVER_ensures(__CPROVER_return_value ==> (self->state_ == K_RUNNING && T(self->sp_timer_ev_->armed) && self->sp_timer_ev_->mode == event_Event_Mode_kOneshot))
__CPROVER_ensures(__CPROVER_return_value ==> (self->target_utc_sec_ > g_now_sec && self->target_utc_sec_ > __CPROVER_old(self->target_utc_sec_)))   /* strictly after now AND after the previous target: one fire per instant */
__CPROVER_ensures(__CPROVER_return_value ==> (self->sp_timer_ev_->delay_ms >= 0 && U64(self->sp_timer_ev_->delay_ms) + U64(g_now_usec / 1000) >= U64(self->target_utc_sec_ - g_now_sec) * 1000))   /* never shorter than the wall-clock distance, any distance */
__CPROVER_ensures(!__CPROVER_return_value ==> (self->state_ == __CPROVER_old(self->state_) && self->target_utc_sec_ == __CPROVER_old(self->target_utc_sec_) && T(self->sp_timer_ev_->armed) == T(__CPROVER_old(self->sp_timer_ev_->armed))))
''',
    ('contract', 'Al_onTimeExpired'): REQ + r'''
__CPROVER_requires(self->state_ == K_RUNNING && !T(self->sp_timer_ev_->armed))        /* a one-shot timer has just fired */
__CPROVER_assigns(g_al, g_user_disabled, self->state_, self->target_utc_sec_, self->cb_, self->cb_level_, self->using_independ_timezone_, self->timezone_offset_seconds_, ''' + TIMER_FRAME + r''')
__CPROVER_ensures(AINV(self) && self->cb_level_ == __CPROVER_old(self->cb_level_))
__CPROVER_ensures(T(g_user_disabled) ==> (self->state_ != K_RUNNING && !T(self->sp_timer_ev_->armed)))      /* a disabled alarm never fires again */
''',
    ('ghost', 'Al_onTimeExpired', 'entry'): 'g_al = self; g_user_disabled = 0;',
    ('contract', 'Al_disable'): REQ + r'''
__CPROVER_requires(AINV(self))
__CPROVER_assigns(self->state_, self->sp_timer_ev_->armed)
__CPROVER_ensures(AINV(self))
__CPROVER_ensures(__CPROVER_old(self->state_) == K_RUNNING ==> (self->state_ == K_INITED && !T(self->sp_timer_ev_->armed)))      /* a running alarm is disarmed */
__CPROVER_ensures(__CPROVER_old(self->state_) != K_RUNNING ==> (self->state_ == __CPROVER_old(self->state_) && !__CPROVER_return_value))
''',
    ('contract', 'Al_cleanup'): REQ + r'''
__CPROVER_requires(AINV(self))
__CPROVER_assigns(self->state_, self->target_utc_sec_, self->cb_, self->using_independ_timezone_, self->timezone_offset_seconds_, self->sp_timer_ev_->armed)
__CPROVER_ensures(self->state_ == K_NONE && !T(self->sp_timer_ev_->armed))
__CPROVER_ensures(__CPROVER_old(self->state_) != K_NONE ==> (self->target_utc_sec_ == 0 && !self->cb_.engaged))
''',
    ('contract', 'Al_enable'): REQ + r'''
__CPROVER_requires(AINV(self))
__CPROVER_assigns(self->state_, self->target_utc_sec_, ''' + TIMER_FRAME + r''')
__CPROVER_ensures(AINV(self))
__CPROVER_ensures(__CPROVER_return_value ==> (__CPROVER_old(self->state_) == K_INITED && self->state_ == K_RUNNING))
''',
    ('contract', 'Al_refresh'): REQ + r'''
__CPROVER_requires(AINV(self))
__CPROVER_assigns(self->state_, self->target_utc_sec_, ''' + TIMER_FRAME + r''')
__CPROVER_ensures(AINV(self))
''',
}

H = lambda body: '\nvoid H(void)\n{\n' + body + '\n  __CPROVER_assert(0, "VACUITY-CANARY");\n}\n'
STUBS = ['Al_now2', 'Al_now1', 'Al_sysTz', 'Al_calcNext', 'Tm_initialize', 'Tm_enable', 'Tm_disable', 'Al_onEnable', 'Al_onDisable']

REPLAY_SOURCES = []
def native_replay(u, t, o, w, workdir):
    import replay as rp
    srcs = ['modules/alarm/alarm.cpp', 'modules/alarm/oneshot_alarm.cpp', 'modules/alarm/weekly_alarm.cpp', 'modules/alarm/workday_alarm.cpp', 'modules/alarm/workday_calendar.cpp']
    libs = [os.path.join(rp.REPO if os.path.isdir(os.path.join(rp.REPO, '_build')) else '/repo', '_build/modules/%s/libtbox_%s.a' % (m, m)) for m in ('event', 'util', 'base')]
    return rp.attempt('alarm', srcs, os.path.join(workdir, 'replay'), [('native-search', ['search'])], extra=libs + ['-ldl'])

UNITS = [UnitSpec(
    name='alarm', tu='modules/alarm/alarm.cpp', filter='tbox::alarm', more_filters=[('modules/alarm/alarm.cpp', 'tbox::event')], rename=R, spec=SPEC, prelude=PRELUDE,
    plugins=[StdFunction(), Syscalls(), Chrono()], model_headers=['fn_model.h'],
    opaque_records={'tbox::event::TimerEvent': 'struct v_TimerEvent', 'tbox::event::Event': 'struct v_TimerEvent', 'tbox::event::Loop': 'struct v_Loop'},
    emit=['tbox::alarm::Alarm::activeTimer', 'tbox::alarm::Alarm::onTimeExpired', 'tbox::alarm::Alarm::enable', 'tbox::alarm::Alarm::disable', 'tbox::alarm::Alarm::cleanup', 'tbox::alarm::Alarm::refresh', 'tbox::alarm::Alarm::remainSeconds'],
    targets=[
        Target('activeTimer', H('  struct alarm_Alarm *a; Al_activeTimer(a);'), enforce='Al_activeTimer', replace=STUBS,
               clause='armed delay >= wall-clock distance (64-bit, every distance); base = max(now, previous target); time-zone offset added and removed'),
        Target('onTimeExpired', H('  struct alarm_Alarm *a; Al_onTimeExpired(a);'), enforce='Al_onTimeExpired', replace=STUBS + ['Al_activeTimer', 'v_fn_call__void'],
               clause='re-arm before the user callback; a callback that disables the alarm leaves it disabled and disarmed'),
        Target('disable', H('  struct alarm_Alarm *a; Al_disable(a);'), enforce='Al_disable', replace=STUBS, clause='disable disarms'),
        Target('cleanup', H('  struct alarm_Alarm *a; Al_cleanup(a);'), enforce='Al_cleanup', replace=STUBS + ['Al_disable'], clause='cleanup disarms and resets'),
        Target('enable', H('  struct alarm_Alarm *a; Al_enable(a);'), enforce='Al_enable', replace=STUBS + ['Al_activeTimer'], clause='enable only from Inited; Running <=> armed'),
        Target('refresh', H('  struct alarm_Alarm *a; Al_refresh(a);'), enforce='Al_refresh', replace=STUBS + ['Al_activeTimer'], clause='refresh keeps Running <=> armed'),
    ],
)]
