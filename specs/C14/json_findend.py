"""C14 — util::json::FindEndPos (modules/util/json.cpp): the raw-stream framing scanner.

U: memory safety for every buffer and length (nested loop contracts incl. the backward backslash scan; needs the invariant
in_string ==> i >= 1), result in {-1, 0} or (0, len].
B(len <= 10): prefix determinism (the decision for a buffer does not change when more bytes arrive - what makes the raw framing
resumable) and equality with a reference scanner written from the property's wording.
"""
import os
from verif import UnitSpec, Target

SPEC = {
    ('contract', 'util_json_FindEndPos'): r'''
__CPROVER_requires(str_len <= 0x7ffffff0 && __CPROVER_is_fresh(str_ptr, (str_len > 0 ? str_len : 1)))
__CPROVER_assigns()
__CPROVER_ensures(__CPROVER_return_value >= -1 && (__CPROVER_return_value <= 0 || (size_t)__CPROVER_return_value <= str_len))
''',
    ('loop', 'util_json_FindEndPos', 1): r'''
__CPROVER_assigns(i, is_started, braces_level, square_level, in_string)
__CPROVER_loop_invariant((in_string ==> i >= 1) && i <= str_len && braces_level >= 0 && square_level >= 0 && (size_t)braces_level <= i && (size_t)square_level <= i)
__CPROVER_decreases(str_len - i)
''',
    ('loop', 'util_json_FindEndPos', 2): r'''
__CPROVER_assigns(j, in_string)
__CPROVER_loop_invariant(j < i)
__CPROVER_decreases(j)
''',
}
H = lambda body: '\nvoid H(void)\n{\n' + body + '\n  __CPROVER_assert(0, "VACUITY-CANARY");\n}\n'
REF = r'''
/* reference scanner from the property: a top-level value ends where {} / [] balance outside string literals; inside a string a quote
   preceded by an odd number of backslashes does not close it (the backward scan stops at index 0: documented deviation) */
static int ref_end(const char *s, size_t n)
{
  int br = 0, sq = 0; _Bool started = 0, in_str = 0;
  for (size_t i = 0; i < n; ++i) {
    char c = s[i];
    if (!started && c >= 0x21 && c <= 0x7e) started = 1;
    if (c == '"') {
      if (in_str) { size_t k = 0; size_t j = i; while (j > 1 && s[j - 1] == '\\') { ++k; --j; } in_str = (k & 1) ? 1 : 0; }
      else in_str = 1;
    } else if (!in_str) { if (c == '[') ++sq; else if (c == ']') --sq; else if (c == '{') ++br; else if (c == '}') --br; }
    else continue;
    if (br == 0 && sq == 0 && !in_str && started) return (int)(i + 1);
    if (br < 0 || sq < 0) return -1;
  }
  return 0;
}
'''
H_PREFIX = H(r'''  size_t n1, n2; __CPROVER_assume(n1 <= n2 && n2 <= 10); char buf[10];
  int r1 = util_json_FindEndPos(buf, n1), r2 = util_json_FindEndPos(buf, n2);
  __CPROVER_assert(r1 > 0 ==> r2 == r1, "a complete value stays complete at the same position when more bytes arrive");
  __CPROVER_assert(r1 < 0 ==> r2 < 0, "a malformed prefix stays malformed");
  __CPROVER_assert((r1 == 0 && r2 > 0) ==> (size_t)r2 > n1, "an incomplete prefix can only complete beyond its end");
  __CPROVER_assert(r2 == ref_end(buf, n2), "FindEndPos == reference scanner");''')

UNITS = [UnitSpec(
    name='json_findend', tu='modules/util/json.cpp', filter='tbox::util', spec=SPEC, prelude=REF, clang_flags=[],
    emit=['tbox::util::json::FindEndPos'],
    targets=[
        Target('FindEndPos', H('  const char *p; size_t n; util_json_FindEndPos(p, n);'), enforce='util_json_FindEndPos',
               clause='FindEndPos: memory-safe for every buffer/length, -1 <= ret <= len'),
        Target('prefix_and_reference', H_PREFIX, loops=False, unwind=12, bound='len <= 10', clause='prefix determinism + equality with the reference scanner',
               functions=['util_json_FindEndPos'], timeout=600),
    ],
)]
