// native replay driver for cabinet::Cabinet<T>: random / exhaustive short histories of alloc, free, update, clear against
// a reference map token -> object; every token ever handed out is re-checked after every step (dead tokens must stay dead).
#include <cstdio>
#include <cstdlib>
#include <cstring>
#include <cstdint>
#include <cstddef>
#include <vector>
#include <map>
#include <tbox/base/cabinet.hpp>
using namespace tbox::cabinet;
struct Obj { int v; };
static int history(unsigned seed, int steps, bool with_clear) {
  Cabinet<Obj> cab; std::vector<Obj> pool(64); int next_obj = 0;
  std::vector<Token> all; std::map<size_t, Obj*> live;     // index into all -> object
  unsigned s = seed;
  for (int k = 0; k < steps; ++k) {
    s = s * 1103515245u + 12345u; int op = (s >> 16) % (with_clear ? 9 : 8);
    if (op <= 3 || all.empty()) { Obj *o = &pool[next_obj++ % 64]; Token t = cab.alloc(o);
      for (auto &kv : live) if (all[kv.first] == t) { printf("VIOLATION: alloc returned the token of a live entry (step %d)\n", k); return 1; }
      for (size_t i = 0; i < all.size(); ++i) if (all[i] == t) { printf("VIOLATION: alloc re-issued a token that was handed out before (id %zu pos %zu, step %d)\n", t.id(), t.pos(), k); return 1; }
      all.push_back(t); live[all.size() - 1] = o;
    } else if (op <= 5) { size_t i = (s >> 8) % all.size(); Obj *r = cab.free(all[i]); Obj *want = live.count(i) ? live[i] : nullptr;
      if (r != want) { printf("VIOLATION: free of token %zu returned %p, reference %p (step %d)\n", i, (void*)r, (void*)want, k); return 1; } live.erase(i);
    } else if (op == 6) { size_t i = (s >> 8) % all.size(); Obj *o = &pool[next_obj++ % 64]; bool r = cab.update(all[i], o);
      if (r != (live.count(i) > 0)) { printf("VIOLATION: update result (step %d)\n", k); return 1; } if (r) live[i] = o;
    } else if (op == 7) { Token nul; if (cab.free(nul) != nullptr || cab.at(nul) != nullptr) { printf("VIOLATION: null token resolved (step %d)\n", k); return 1; }
    } else { cab.clear(); live.clear(); }
    if (cab.size() != live.size()) { printf("VIOLATION: size() == %zu but %zu entries are live (step %d)\n", cab.size(), live.size(), k); return 1; }
    for (size_t i = 0; i < all.size(); ++i) { Obj *want = live.count(i) ? live[i] : nullptr;
      if (cab.at(all[i]) != want) { printf("VIOLATION: token %zu (id %zu pos %zu) resolves to %p, reference %p (step %d%s)\n", i, all[i].id(), all[i].pos(), (void*)cab.at(all[i]), (void*)want, k, want ? "" : ": a freed token resolves again"); return 1; } }
  }
  return 0;
}
int main(int argc, char **argv) {
  if (argc >= 5 && !strcmp(argv[1], "history")) return history(atoi(argv[2]), atoi(argv[3]), atoi(argv[4]));
  for (unsigned seed = 1; seed <= 3000; ++seed) if (history(seed, 14, false)) { printf("input: history %u 14 0\n", seed); return 1; }
  for (unsigned seed = 1; seed <= 3000; ++seed) if (history(seed, 14, true)) { printf("input: history %u 14 1\n", seed); return 1; }
  return 0;
}
