// Scheduler: routine A joins routine B, which was created but not started; B is then cancelled.  join() must return once its target has
// finished (or is gone): A must not stay suspended.  Also: yield in a loop keeps running, cancel makes a waiting routine's wait() fail.
#include <tbox/coroutine/scheduler.h>
#include <tbox/event/loop.h>
#include <tbox/event/timer_event.h>
#include <cstdio>
using namespace tbox; using namespace tbox::coroutine;
int main() {
    auto loop = event::Loop::New();
    int bad = 0;
    {
        Scheduler sch(loop);
        int a_returned = 0, b_ran = 0;
        RoutineToken b = sch.create([&](Scheduler &) { ++b_ran; }, false);                  // not started yet
        sch.create([&](Scheduler &s) { s.join(b); ++a_returned; });
        auto *t = loop->newTimerEvent();
        t->initialize(std::chrono::milliseconds(30), event::Event::Mode::kOneshot);
        t->setCallback([&] { sch.cancel(b); });
        t->enable();
        loop->exitLoop(std::chrono::milliseconds(200)); loop->runLoop();
        delete t;
        printf("join on a cancelled, never started routine: joiner returned %d time(s)\n", a_returned);
        if (a_returned != 1) { printf("VIOLATION: join() did not return although its target was cancelled and is gone (the joiner was never resumed)\n"); bad = 1; }
        sch.cleanup();
    }
    {
        Scheduler sch(loop);
        int yields = 0, wait_failed = 0;
        sch.create([&](Scheduler &s) { for (int i = 0; i < 5; ++i) { s.yield(); ++yields; } });
        RoutineToken w = sch.create([&](Scheduler &s) { s.wait(); if (s.isCanceled()) ++wait_failed; });
        auto *t = loop->newTimerEvent();
        t->initialize(std::chrono::milliseconds(30), event::Event::Mode::kOneshot);
        t->setCallback([&] { sch.cancel(w); });
        t->enable();
        loop->exitLoop(std::chrono::milliseconds(200)); loop->runLoop();
        delete t;
        printf("yield loop ran %d of 5 rounds; cancelled waiter returned with failure: %d\n", yields, wait_failed);
        if (yields != 5) { printf("VIOLATION: a yielding routine was not scheduled again\n"); bad = 1; }
        if (wait_failed != 1) { printf("VIOLATION: cancel did not make the routine return from wait() with failure\n"); bad = 1; }
        sch.cleanup();
    }
    delete loop;
    return bad;
}
