#!/usr/bin/env python3
"""seed_table.py: dedupe seeded/RESULTS.txt (the last line per seed wins, sorted) and rewrite the table of DESIGN.md section I.9 from it."""
import re, os, json
V = os.path.dirname(os.path.dirname(os.path.abspath(__file__)))
rows = {}
for l in open(os.path.join(V, 'seeded/RESULTS.txt')):
    p = l.rstrip('\n').split(' ', 2)
    if len(p) == 3: rows[p[0]] = (p[1], p[2])
with open(os.path.join(V, 'seeded/RESULTS.txt'), 'w') as f:
    for k in sorted(rows): f.write('%s %s %s\n' % (k, rows[k][0], rows[k][1]))
out = []
for k in sorted(rows):
    prop, r = rows[k]
    if r.startswith('VIOLATION'):
        m = re.match(r'VIOLATION (\S+) (\S+?)(?:,\S*)? \[(.*)\]', r)
        res = 'caught: `%s` (%s)' % (m.group(1), m.group(2)); nat = 'yes' if 'replayed natively' in m.group(3) else 'no'
    elif r.startswith('UNDECIDED'): res = 'UNDECIDED (exit 2): ' + r[len('UNDECIDED UNDECIDED: '):][:120]; nat = '-'
    elif r.startswith('does-not-apply'): res = 'patch no longer applies (code changed by a fix) - see the re-based variant'; nat = '-'
    elif r.startswith('not-detected'): res = 'not detected'; nat = '-'
    else: res = r[:120]; nat = '-'
    out.append('| %s | %s | %s | %s |' % (k, prop, res.replace('|', '/'), nat))
p = os.path.join(V, 'DESIGN.md'); s = open(p).read()
a = s.index('| seed | property | result on the seeded tree | native replay |'); b = s.index('\n\n', a)
s = s[:a] + '| seed | property | result on the seeded tree | native replay |\n|---|---|---|---|\n' + '\n'.join(out) + s[b:]
open(p, 'w').write(s)
n = len(rows); c = sum(1 for v in rows.values() if v[1].startswith('VIOLATION'))
print('%d seeds, %d caught, %d undecided, %d not detected, %d no longer apply' % (n, c, sum(1 for v in rows.values() if v[1].startswith('UNDECIDED')), sum(1 for v in rows.values() if v[1].startswith('not-detected')), sum(1 for v in rows.values() if v[1].startswith('does-not'))))
