"""C04 — event::SignalEventImpl (modules/event/signal_event_impl.cpp): the subscriber side of signal events.

 enable     every signal of the event's set is subscribed with the loop, in set order, this event as the subscriber; enabled afterwards
            (a refused subscription stops and reports false).
 disable    when enabled: every signal of the set is unsubscribed (so that the loop can restore the disposition when its last
            subscriber goes), then not enabled; when not enabled: nothing is unsubscribed.
 onSignal   a ONE-SHOT event is disabled - all of its signals, not only the one delivered - BEFORE its callback runs, so it fires at most
            once; the callback runs once with the delivered signal number, cb_level_ balanced.
"""
import os
from verif import UnitSpec, Target
from plugins import StdFunction, StdVector, Sync, Chrono, StringStreamSink, OpaqueString, Syscalls, OpaqueTypes
TU = 'modules/event/signal_event_impl.cpp'
P = 'event_SignalEventImpl_'
R = {P + 'enable': 'Sig_enable', P + 'disable': 'Sig_disable', P + 'onSignal': 'Sig_onSignal', 'event_CommonLoop_subscribeSignal': 'CL_subscribe', 'event_CommonLoop_unsubscribeSignal': 'CL_unsubscribe',
     'event_CommonLoop_beginEventProcess': 'CL_beginEvent', 'event_CommonLoop_endEventProcess': 'CL_endEvent'}
EARLY = 'struct v_CLoop { char opaque; }; struct v_Loop { char opaque; };\n'
PRELUDE = r'''
typedef struct event_SignalEventImpl Sig;
#define T(x) ((x) != 0)
static Sig *g_s; static size_t g_subs, g_unsubs, g_cb_calls, g_disables, g_begins; static int g_cb_signo; static _Bool g_sub_ok;
'''
EXTERN = r'''
_Bool CL_subscribe(struct v_CLoop *l, int signo, struct event_SignalSubscribuer *who)
__CPROVER_requires(l == g_s->wp_loop_ && who == &g_s->__base_event_SignalSubscribuer && signo > 0 && signo < 65)
__CPROVER_assigns(g_subs, g_sub_ok)
__CPROVER_ensures(g_subs == __CPROVER_old(g_subs) + 1 && T(__CPROVER_return_value) == T(g_sub_ok) && (g_sub_ok == 0 || g_sub_ok == 1))
;
_Bool CL_unsubscribe(struct v_CLoop *l, int signo, struct event_SignalSubscribuer *who)
__CPROVER_requires(l == g_s->wp_loop_ && who == &g_s->__base_event_SignalSubscribuer && signo > 0 && signo < 65)
__CPROVER_assigns(g_unsubs)
__CPROVER_ensures(g_unsubs == __CPROVER_old(g_unsubs) + 1 && T(__CPROVER_return_value))
;
void CL_beginEvent(struct v_CLoop *l)
__CPROVER_assigns(g_begins)
__CPROVER_ensures(g_begins == __CPROVER_old(g_begins) + 1)
;
void CL_endEvent(struct v_CLoop *l, struct event_Event *e)
__CPROVER_assigns()
__CPROVER_ensures(1)
;
void v_fn_call__void_int(struct v_function *f, int signo)
__CPROVER_requires(f == &g_s->cb_ && T(f->engaged) && g_cb_calls == 0 && g_begins == 1 && g_s->cb_level_ >= 1)
__CPROVER_requires(g_s->mode_ == 1 ==> (g_disables == 1))                              /* one-shot: already disabled when the callback runs */
__CPROVER_assigns(g_cb_calls, g_cb_signo)
__CPROVER_ensures(g_cb_calls == 1 && g_cb_signo == signo)
;
'''
FRESH = '__CPROVER_requires(__CPROVER_is_fresh(self, sizeof(*self)) && (self->is_enabled_ == 0 || self->is_enabled_ == 1) && (self->is_inited_ == 0 || self->is_inited_ == 1) && self->sigset_.size < V_MAXSZ)\n'
SPEC = {
    ('prelude_early',): EARLY, ('prelude',): PRELUDE, ('after_protos',): EXTERN,
    ('stub', 'CL_subscribe'): True, ('stub', 'CL_unsubscribe'): True, ('stub', 'CL_beginEvent'): True, ('stub', 'CL_endEvent'): True,
    ('contract', 'Sig_disable'): FRESH + r'''
__CPROVER_assigns(g_s, g_unsubs, self->is_enabled_, v_vec_int_cell)
__CPROVER_ensures(T(__CPROVER_return_value) && !T(self->is_enabled_))
__CPROVER_ensures(g_unsubs == (T(__CPROVER_old(self->is_enabled_)) ? self->sigset_.size : 0))              /* every signal of the set, exactly once; none when not enabled */
''',
    ('ghost', 'Sig_disable', 'entry'): 'g_s = self; g_unsubs = 0;',
    ('loop', 'Sig_disable', 1): r'''
__CPROVER_assigns(__i1, g_unsubs, v_vec_int_cell)
__CPROVER_loop_invariant(__i1 <= __r1->size && __r1 == &self->sigset_ && g_unsubs == __i1)
__CPROVER_decreases(__r1->size - __i1)
''',
    ('contract', 'Sig_enable'): FRESH + r'''
__CPROVER_assigns(g_s, g_subs, g_sub_ok, self->is_enabled_, v_vec_int_cell)
__CPROVER_ensures(T(__CPROVER_return_value) ==> (T(self->is_enabled_) && g_subs == (T(self->is_inited_) ? self->sigset_.size : 0)))
__CPROVER_ensures(!T(__CPROVER_return_value) ==> (!T(g_sub_ok) && g_subs >= 1 && self->is_enabled_ == __CPROVER_old(self->is_enabled_)))
''',
    ('ghost', 'Sig_enable', 'entry'): 'g_s = self; g_subs = 0;',
    ('loop', 'Sig_enable', 1): r'''
__CPROVER_assigns(__i1, g_subs, g_sub_ok, v_vec_int_cell)
__CPROVER_loop_invariant(__i1 <= __r1->size && __r1 == &self->sigset_ && g_subs == __i1)
__CPROVER_decreases(__r1->size - __i1)
''',
}
SPEC_ON = {
    ('prelude_early',): EARLY, ('prelude',): PRELUDE, ('after_protos',): EXTERN, ('stub', 'CL_subscribe'): True, ('stub', 'CL_unsubscribe'): True, ('stub', 'CL_beginEvent'): True, ('stub', 'CL_endEvent'): True,
    ('stub', 'Sig_disable'): True,
    ('contract', 'Sig_disable'): '__CPROVER_requires(self == g_s && g_disables == 0 && g_begins == 0)\n__CPROVER_assigns(g_disables, self->is_enabled_)\n__CPROVER_ensures(g_disables == 1 && !T(self->is_enabled_))\n',
    ('contract', 'Sig_onSignal'): r'''
__CPROVER_requires(__CPROVER_is_fresh(self, sizeof(*self)) && self->cb_level_ >= 0 && self->cb_level_ < 1000 && (self->mode_ == 0 || self->mode_ == 1))
__CPROVER_assigns(g_s, g_cb_calls, g_cb_signo, g_disables, g_begins, self->cb_level_, self->is_enabled_)
__CPROVER_ensures(self->cb_level_ == __CPROVER_old(self->cb_level_) && g_begins == 1)
__CPROVER_ensures(g_disables == (self->mode_ == 1 ? 1 : 0) && (self->mode_ == 1 ==> !T(self->is_enabled_)))          /* one-shot: the whole event is disabled (every signal of its set), so it cannot fire again */
__CPROVER_ensures(g_cb_calls == (T(self->cb_.engaged) ? 1 : 0) && (T(self->cb_.engaged) ==> g_cb_signo == signo))
''',
    ('ghost', 'Sig_onSignal', 'entry'): 'g_s = self; g_cb_calls = 0; g_disables = 0; g_begins = 0;',
}
H = lambda body: '\nvoid H(void)\n{\n' + body + '\n  __CPROVER_assert(0, "VACUITY-CANARY");\n}\n'
def COMMON(spec): return dict(tu=TU, filter='tbox::event', rename=R, spec=spec,
    plugins=[StdFunction(), StdVector(abstract={'int': 'x > 0 && x < 65'}, sets=True), Sync(), Chrono(abstract_time=True), StringStreamSink(), OpaqueString(), Syscalls(), OpaqueTypes({r'^std::map<.*>$': 'v_map'})],
    model_headers=['fn_model.h', 'vec_model.h', 'sync_model.h', 'misc_model.h'], opaque_records={'tbox::event::CommonLoop': 'struct v_CLoop', 'tbox::event::Loop': 'struct v_Loop'})
N = 'tbox::event::SignalEventImpl::'
ST = ['CL_subscribe', 'CL_unsubscribe', 'CL_beginEvent', 'CL_endEvent', 'v_fn_call__void_int']
UNITS = [
  UnitSpec(name='signal_event', emit=[N + 'enable', N + 'disable'], targets=[
      Target('enable', H('  Sig *s; Sig_enable(s);'), enforce='Sig_enable', replace=ST, clause='enable: every signal of the set subscribed once, then enabled'),
      Target('disable', H('  Sig *s; Sig_disable(s);'), enforce='Sig_disable', replace=ST, clause='disable: every signal of the set unsubscribed once when enabled; nothing otherwise')], **COMMON(SPEC)),
  UnitSpec(name='signal_onsignal', emit=[N + 'onSignal'], targets=[
      Target('onSignal', H('  Sig *s; int n; Sig_onSignal(s, n);'), enforce='Sig_onSignal', replace=ST + ['Sig_disable'], clause='one-shot signal event: fully disabled before its callback; callback once with the delivered signal')], **COMMON(SPEC_ON)),
]
