"""C14 — jsonrpc::HeaderStreamProto::onRecvData / RawStreamProto::onRecvData (framing decoders).

Proved against the util::Deserializer contracts of C19 (imported, same text) and the FindEndPos contract above.
Header framing: magic(2, big endian) length(4, big endian) text(length).  For EVERY 32-bit length field and every buffer:
  ret == 0 iff fewer than 6 bytes or the declared frame is incomplete (computed without wrap-around);
  ret == -2 on a magic mismatch; otherwise ret == -1 (JSON parser rejected the text) or ret == 6 + length <= data_size;
  the text handed to the JSON parser is exactly data[6 .. 6+length) (std::string(ptr, n) model: ptr non-null, n readable bytes);
  the JSON callback runs exactly once iff ret > 0; no exception escapes.
nlohmann::json is opaque (parse may succeed or throw).
"""
import os, importlib.util
from verif import UnitSpec, Target, VERIF
from plugins import StdFunction, StdVector, OpaqueString, OpaqueJson

_s = importlib.util.spec_from_file_location('c19_ser', os.path.join(VERIF, 'specs', 'C19', 'serializer.py'))
ser = importlib.util.module_from_spec(_s); _s.loader.exec_module(ser)
_j = importlib.util.spec_from_file_location('c14_fep', os.path.join(VERIF, 'specs', 'C14', 'json_findend.py'))
fep = importlib.util.module_from_spec(_j); _j.loader.exec_module(fep)

R = dict(ser.R)
R.update({'jsonrpc_HeaderStreamProto_onRecvData': 'Hsp_onRecvData', 'jsonrpc_RawStreamProto_onRecvData': 'Rsp_onRecvData', 'jsonrpc_Proto_onRecvJson': 'Proto_onRecvJson'})
PRELUDE = ser.PRELUDE + r'''
static unsigned g_json_calls;       /* how often a decoded message was handed on */
#define MAGIC(p) ((uint16_t)VAL16((const uint8_t *)(p), BIG))
#define FLEN(p) ((uint32_t)VAL32((const uint8_t *)(p) + 2, BIG))
'''
ONJSON = '__CPROVER_requires(1)\n__CPROVER_assigns(g_json_calls)\n__CPROVER_ensures(g_json_calls == __CPROVER_old(g_json_calls) + 1)\n'
SPEC_H = {
    ('contract', 'Des_ctor'): ser.SPEC[('contract', 'Des_ctor')], ('contract', 'Des_shr_u16'): ser.SPEC[('contract', 'Des_shr_u16')],
    ('contract', 'Des_shr_u32'): ser.SPEC[('contract', 'Des_shr_u32')], ('contract', 'Des_fetchNoCopy'): ser.SPEC[('contract', 'Des_fetchNoCopy')],
    ('params', 'Des_fetchNoCopy'): ['size'],
    ('stub', 'Proto_onRecvJson'): True, ('contract', 'Proto_onRecvJson'): ONJSON,
    ('contract', 'Hsp_onRecvData'): r'''
__CPROVER_requires(__CPROVER_is_fresh(self, sizeof(*self)) && data_size < V_MAXSZ && __CPROVER_is_fresh(data_ptr, (data_size > 0 ? data_size : 1)))
__CPROVER_assigns(g_json_calls, __exc, v_mc_off)
__CPROVER_ensures(__exc == 0)
__CPROVER_ensures(data_size < 6 ==> __CPROVER_return_value == 0)
__CPROVER_ensures((data_size >= 6 && MAGIC(data_ptr) != self->header_code_) ==> __CPROVER_return_value == -2)
__CPROVER_ensures((data_size >= 6 && MAGIC(data_ptr) == self->header_code_ && (uint64_t)FLEN(data_ptr) + 6 > data_size) ==> __CPROVER_return_value == 0)      /* incomplete frame, for every 32-bit length */
__CPROVER_ensures((data_size >= 6 && MAGIC(data_ptr) == self->header_code_ && (uint64_t)FLEN(data_ptr) + 6 <= data_size) ==> (__CPROVER_return_value == -1 || __CPROVER_return_value == (ssize_t)FLEN(data_ptr) + 6))
__CPROVER_ensures(g_json_calls == __CPROVER_old(g_json_calls) + (__CPROVER_return_value > 0 ? 1 : 0))
''',
}
SPEC_R = {
    ('contract', 'util_json_FindEndPos'): fep.SPEC[('contract', 'util_json_FindEndPos')],
    ('stub', 'Proto_onRecvJson'): True, ('contract', 'Proto_onRecvJson'): ONJSON,
    ('contract', 'Rsp_onRecvData'): r'''
__CPROVER_requires(__CPROVER_is_fresh(self, sizeof(*self)) && data_size < 0x7ffffff0 && __CPROVER_is_fresh(data_ptr, (data_size > 0 ? data_size : 1)))
__CPROVER_assigns(g_json_calls, __exc)
__CPROVER_ensures(__exc == 0 && __CPROVER_return_value >= -1 && __CPROVER_return_value <= (ssize_t)data_size)      /* never claims more than it was given */
__CPROVER_ensures(g_json_calls == __CPROVER_old(g_json_calls) + (__CPROVER_return_value > 0 ? 1 : 0))
''',
}
H = lambda body: '\nvoid H(void)\n{\n  __exc = 0;\n' + body + '\n  __CPROVER_assert(0, "VACUITY-CANARY");\n}\n'
PL = lambda: [StdFunction(), StdVector(), OpaqueString(), OpaqueJson()]
MH = ['fn_model.h', 'vec_model.h', 'misc_model.h']

REPLAY_SOURCES = []
def native_replay(u, t, o, w, workdir):
    import replay as rp
    srcs = ['modules/jsonrpc/protos/header_stream_proto.cpp', 'modules/jsonrpc/protos/raw_stream_proto.cpp', 'modules/jsonrpc/protos/packet_proto.cpp', 'modules/jsonrpc/proto.cpp', 'modules/util/json.cpp', 'modules/util/serializer.cpp']
    libs = [os.path.join(rp.REPO if os.path.isdir(os.path.join(rp.REPO, '_build')) else '/repo', '_build/modules/%s/libtbox_%s.a' % (m, m)) for m in ('util', 'base')]
    return rp.attempt('jsonrpc_proto', srcs, os.path.join(workdir, 'replay'), [('native-search', ['search'])], extra=libs + ['-ldl'])

UNITS = [
    UnitSpec(name='header_stream_proto', tu='modules/jsonrpc/protos/header_stream_proto.cpp', filter='tbox::jsonrpc',
             more_filters=[('modules/jsonrpc/protos/header_stream_proto.cpp', 'tbox::util'), ('modules/jsonrpc/protos/header_stream_proto.cpp', 'operator>>')],
             rename=R, spec=SPEC_H, prelude=PRELUDE, plugins=PL(), model_headers=MH, emit=['tbox::jsonrpc::HeaderStreamProto::onRecvData'],
             targets=[Target('onRecvData', H('  struct jsonrpc_HeaderStreamProto *p; const void *d; size_t n; Hsp_onRecvData(p, d, n);'), enforce='Hsp_onRecvData',
                             replace=['Des_ctor', 'Des_shr_u16', 'Des_shr_u32', 'Des_fetchNoCopy', 'Proto_onRecvJson'],
                             clause='header framing: total for every buffer and every 32-bit length field; text == data[6..6+len); callback exactly once iff consumed')]),
    UnitSpec(name='raw_stream_proto', tu='modules/jsonrpc/protos/raw_stream_proto.cpp', filter='tbox::jsonrpc',
             more_filters=[('modules/jsonrpc/protos/raw_stream_proto.cpp', 'tbox::util')],
             rename=R, spec=SPEC_R, prelude=PRELUDE, plugins=PL(), model_headers=MH, emit=['tbox::jsonrpc::RawStreamProto::onRecvData'],
             targets=[Target('onRecvData', H('  struct jsonrpc_RawStreamProto *p; const void *d; size_t n; Rsp_onRecvData(p, d, n);'), enforce='Rsp_onRecvData',
                             replace=['util_json_FindEndPos', 'Proto_onRecvJson'],
                             clause='raw framing: consumption == FindEndPos (its contract), text inside the input, callback exactly once iff consumed')]),
]
