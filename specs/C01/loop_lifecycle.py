"""C01 — event::CommonLoop::runThisBeforeLoop / runThisAfterLoop (modules/event/common_loop.cpp): the wake-up flag across loop runs.

The same loop object may be run again after it exits (runLoop(kOnce) in a row, or exitLoop + runLoop).  The wake-up discipline of
common_loop_run.py - the eventfd holds a token iff has_commit_run_req_ (TOKEN_INV) - must therefore survive the end of a run: the eventfd
is closed there (its tokens are gone), so the flag must not stay raised, otherwise commitRunRequest of the next run writes nothing and
no runInLoop of that run ever wakes the loop.  Lifecycle invariant:  sp_run_read_event_ == NULL  ==>  !has_commit_run_req_.
"""
import os, importlib.util
from verif import UnitSpec, Target, VERIF
_s = importlib.util.spec_from_file_location('c01_run', os.path.join(VERIF, 'specs', 'C01', 'common_loop_run.py'))
m = importlib.util.module_from_spec(_s); _s.loader.exec_module(m)
TU = 'modules/event/common_loop.cpp'
C = m.C; P = m.P
R = dict(m.R); R.update({P + 'runThisBeforeLoop': 'CL_runThisBeforeLoop', P + 'runThisAfterLoop': 'CL_runThisAfterLoop', P + 'cleanupDeferredTasks': 'CL_cleanupDeferredTasks'})
EXTERN = r'''
/* close(2) of the eventfd: whatever tokens it held are gone */
void v_tid__reset(struct v_tid *t) __CPROVER_assigns(*t);
void v_delete__v_handle(v_handle h) __CPROVER_requires(h != 0 && h == g_l->sp_run_read_event_) __CPROVER_assigns(g_deleted) __CPROVER_ensures(g_deleted == __CPROVER_old(g_deleted) + 1);
int v_sys_close(int fd)
__CPROVER_requires(fd == g_l->run_event_fd_ && fd != -1)
__CPROVER_assigns(g_tokens, g_closed)
__CPROVER_ensures(g_tokens == 0 && g_closed == __CPROVER_old(g_closed) + 1)
;
'''
SPEC = {
    ('prelude_early',): m.EARLY, ('prelude',): m.PRELUDE + 'static int g_closed, g_deleted;\n', ('after_protos',): EXTERN,
    # shutdown draining: runs what is still queued; the callables may submit (runInLoop commits a wake-up while the loop still has its event)
    ('stub', 'CL_cleanupDeferredTasks'): True,
    ('contract', 'CL_cleanupDeferredTasks'): r'''
__CPROVER_requires(self == g_l && TOKEN_INV(self) && self->lock_.held > 0)
__CPROVER_assigns(self->has_commit_run_req_, g_tokens)
__CPROVER_ensures(TOKEN_INV(self) && (self->sp_run_read_event_ == 0 ==> !T(self->has_commit_run_req_)))       /* runInLoop commits only while the loop has its event */
''',
    ('contract', 'CL_runThisAfterLoop'): r'''
__CPROVER_requires(__CPROVER_is_fresh(self, sizeof(*self)) && self->lock_.held == 0 && TOKEN_INV(self))
__CPROVER_requires((self->sp_run_read_event_ == 0) == (self->run_event_fd_ == -1) && (self->sp_run_read_event_ == 0 ==> !T(self->has_commit_run_req_)))
__CPROVER_assigns(g_l, g_tokens, g_closed, g_deleted, self->lock_.held, self->has_commit_run_req_, self->loop_thread_id_, self->sp_run_read_event_, self->run_event_fd_)
__CPROVER_ensures(self->lock_.held == 0 && self->sp_run_read_event_ == 0 && self->run_event_fd_ == -1)
__CPROVER_ensures(g_closed == (__CPROVER_old(self->run_event_fd_) != -1 ? 1 : 0) && g_deleted == g_closed)
__CPROVER_ensures(TOKEN_INV(self) && !T(self->has_commit_run_req_))           /* a stopped loop has no wake-up pending: the next run starts clean */
''',
    ('ghost', 'CL_runThisAfterLoop', 'entry'): 'g_l = self; g_closed = 0; g_deleted = 0;',
}
H = m.H
SPEC[('guarded_by', 'event_CommonLoop')] = {'has_commit_run_req_': 'B->lock_.held > 0', 'run_in_loop_func_queue_': 'B->lock_.held > 0'}
UNITS = [UnitSpec(name='loop_lifecycle', spec=SPEC, emit=[C + 'runThisAfterLoop'], targets=[
      Target('runThisAfterLoop', H('  Loop *l; CL_runThisAfterLoop(l);'), enforce='CL_runThisAfterLoop', replace=['CL_cleanupDeferredTasks', 'v_sys_close', 'v_tid__reset', 'v_delete__v_handle'],
             clause='end of a loop run: eventfd closed once, no wake-up flag left raised for the next run of the same loop'),
  ], **dict(m.COMMON(), tu=TU, more_filters=[(TU, 'tbox::cabinet'), (TU, 'tbox::ObjectPool')], rename=R))]

def native_replay(u, t, o, w, workdir):
    import replay as rp
    L = '/repo/_build/modules'
    libs = ['%s/event/libtbox_event.a' % L, '%s/util/libtbox_util.a' % L, '%s/base/libtbox_base.a' % L, '-ldl']
    return rp.attempt('loop_rerun', ['modules/event/common_loop.cpp', 'modules/event/common_loop_run.cpp'], os.path.join(workdir, 'replay'), [('scenario', ['epoll']), ('scenario', ['select'])], extra=libs)
