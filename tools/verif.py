#!/usr/bin/env python3
"""Driver: extract units from /repo's working tree, build one instrumented binary
per function under contract, run CBMC, parse the obligation table, decide.

Exit codes of a check (DESIGN.md 5.1): 0 held / known findings only, 1 violation,
2 undecided (extraction abort, unresolved spec key, solver timeout/crash, vacuity guard).
"""
import os, sys, re, json, time, subprocess, shutil, resource, hashlib, importlib.util, traceback
from concurrent.futures import ThreadPoolExecutor, as_completed

HERE = os.path.dirname(os.path.abspath(__file__))
VERIF = os.path.dirname(HERE)
sys.path.insert(0, HERE)
import cxx2c, models as models_mod

REPO = os.environ.get('VERIF_REPO', '/repo')
WORK = os.path.join(VERIF, '.work')
NCPU = int(os.environ.get('VERIF_JOBS', '16'))

CBMC_BASE = ['--bounds-check', '--pointer-check', '--pointer-overflow-check', '--div-by-zero-check',
             '--signed-overflow-check', '--undefined-shift-check', '--pointer-primitive-check',
             '--no-standard-checks', '--no-built-in-assertions', '--malloc-may-fail', '--malloc-fail-null']
# CBMC 6 switches a set of "standard checks" on by default; we name every check explicitly instead
# (see DESIGN 3.4).  --malloc-may-fail is removed again below: C++ new never returns NULL (A-alloc).
CBMC_BASE = ['--no-standard-checks', '--bounds-check', '--pointer-check', '--pointer-overflow-check', '--div-by-zero-check',
             '--signed-overflow-check', '--undefined-shift-check', '--pointer-primitive-check']

CANARY = 'VACUITY-CANARY'


class UnitSpec:
    """One extraction unit (see DESIGN 3.1/3.2)."""
    def __init__(self, name, tu, filter, emit, spec=None, targets=(), stubs=(), defines=(), plugins=(), drop_calls=(),
                 extra_tus=(), rename=None, opaque_records=None, prelude='', clang_flags=(), functions_doc=None, driver_tu=None,
                 trusted=(), not_covered=(), dropped_note=None, model_headers=(), more_filters=()):
        self.more_filters = list(more_filters)   # further (tu, filter) dumps of the same translation unit (ids are consistent: ASLR off)
        self.name = name; self.tu = tu; self.filter = filter; self.emit = list(emit)
        self.spec = dict(spec or {}); self.targets = list(targets); self.stubs = list(stubs)
        self.defines = list(defines); self.plugins = list(plugins); self.drop_calls = list(drop_calls)
        self.extra_tus = list(extra_tus); self.rename = rename; self.opaque_records = opaque_records
        self.clang_flags = list(clang_flags); self.driver_tu = driver_tu
        self.trusted = list(trusted); self.not_covered = list(not_covered)
        self.model_headers = list(model_headers)
        if prelude: self.spec[('prelude',)] = prelude
        # filled by extract()
        self.c_text = None; self.extract_info = {}


class Target:
    """One instrumented binary = one function under contract (or one lemma harness)."""
    def __init__(self, id, harness, enforce=None, replace=(), loops=True, unwind=None, bound=None, flags=(), defines=(),
                 timeout=None, clause='', expect_fail=(), known=None, tier='quick', smt=None, sat='minisat', object_bits=None,
                 no_checks=(), slice=False, strength=None, functions=(), must_fail=False, unwindset=()):
        self.id = id; self.harness = harness; self.enforce = enforce; self.replace = list(replace)
        self.loops = loops; self.unwind = unwind; self.bound = bound; self.flags = list(flags); self.defines = list(defines)
        self.timeout = timeout; self.clause = clause; self.expect_fail = list(expect_fail); self.known = known
        self.tier = tier; self.smt = smt; self.sat = sat; self.object_bits = object_bits
        self.no_checks = list(no_checks); self.slice = slice
        # strength: 'U' unbounded (contracts / loop contracts / loop-free / complete unwinding of constant-bounded loops)
        #           'B(n)' bounded stand-in
        self.strength = strength or ('U' if bound is None else 'B(%s)' % bound)
        self.functions = list(functions) or ([enforce] if enforce else [])
        self.must_fail = must_fail
        self.unwindset = list(unwindset)


class Obligation:
    __slots__ = ('unit', 'target', 'name', 'desc', 'status', 'backend', 'secs', 'strength', 'line')
    def __init__(self, unit, target, name, desc, status, backend, secs, strength, line=''):
        self.unit = unit; self.target = target; self.name = name; self.desc = desc; self.status = status
        self.backend = backend; self.secs = secs; self.strength = strength; self.line = line
    def as_dict(self):
        return {'unit': self.unit, 'target': self.target, 'obligation': self.name, 'description': self.desc,
                'status': self.status, 'backend': self.backend, 'strength': self.strength}


class Undecided(Exception):
    pass


def limit_mem(gb):
    def f():
        b = int(gb * 1024 ** 3)
        resource.setrlimit(resource.RLIMIT_AS, (b, b))
    return f


def run(cmd, timeout, mem_gb=10, cwd=None):
    t0 = time.time()
    try:
        p = subprocess.run(cmd, stdout=subprocess.PIPE, stderr=subprocess.STDOUT, universal_newlines=True, timeout=timeout,
                           preexec_fn=limit_mem(mem_gb), cwd=cwd, errors='replace')
        return p.returncode, p.stdout, time.time() - t0
    except subprocess.TimeoutExpired as e:
        out = e.stdout or ''
        if isinstance(out, bytes): out = out.decode('utf-8', 'replace')
        return -9, out + '\n[timeout after %ss]' % timeout, time.time() - t0


# --------------------------------------------------------------------------- extraction
def extract(us, workdir):
    """clang AST of the working tree -> C text with the spec's contracts inserted"""
    t0 = time.time()
    docs = []; cmds = []; shas = {}
    srcs = [(us.tu, us.filter)] + [(t, us.filter) for t in us.extra_tus] + list(getattr(us, 'more_filters', []))
    def one(tf):
        tu, flt = tf
        path = tu if os.path.isabs(tu) else os.path.join(REPO, tu)
        if not os.path.exists(path): raise Undecided('source file %s does not exist' % path)
        return cxx2c.clang_ast(path, flt, us.clang_flags) + (tu, path)
    with ThreadPoolExecutor(max_workers=4) as ex:
        for d, cmd, tu, path in ex.map(one, srcs):
            docs += d; cmds.append(cmd); shas[tu] = cxx2c.sha256_file(path)
    m = models_mod.Models(extra_headers=us.model_headers)
    import copy
    for pl in us.plugins: m.add(copy.deepcopy(pl))     # plugins cache per-unit state (emitted container types): never shared between units
    unit = cxx2c.Unit(docs, models=m, spec=us.spec, stubs=us.stubs, drop_calls=us.drop_calls, rename=us.rename,
                      opaque_records=us.opaque_records)
    text = unit.emit(us.emit)
    us.c_text = text
    us.dropped_loops = list(getattr(unit, 'dropped_loops', []))
    us.dropped_helper_ghosts = list(getattr(unit, 'dropped_helper_ghosts', []))
    us.auto_stubs = list(getattr(unit, 'auto_stubs', []))      # const observers defined in another TU: replaced by 'any result, no side effect'
    os.makedirs(workdir, exist_ok=True)
    cpath = os.path.join(workdir, us.name + '.c')
    with open(cpath, 'w') as f: f.write(text)
    us.extract_info = {'clang_cmd': cmds, 'source_sha256': shas, 'node_kinds': dict(sorted(unit.kinds_seen.items())),
                       'dropped_calls': sorted(set(unit.dropped)), 'emitted_functions': [n for n in unit.func_order],
                       'models_used': sorted(m.used), 'extract_s': round(time.time() - t0, 2), 'c_file': cpath,
                       'c_sha256': hashlib.sha256(text.encode()).hexdigest()}
    return text


# --------------------------------------------------------------------------- one target
RES_RE = re.compile(r'^\[(?P<name>[^\]]+)\] (?P<desc>.*): (?P<st>SUCCESS|FAILURE|UNKNOWN|ERROR)\s*$')

def parse_results(out):
    res = []
    for line in out.split('\n'):
        m = RES_RE.match(line.strip())
        if m:
            desc = m.group('desc')
            desc = re.sub(r'^(file \S+ )?line \d+ ', '', desc)
            res.append((m.group('name'), desc, m.group('st')))
    return res


def build_target(us, t, workdir, extra_defines=()):
    """returns (path of instrumented goto binary, log) or raises Undecided"""
    base = os.path.join(workdir, '%s__%s' % (us.name, t.id))
    cfile = base + '.c'
    with open(cfile, 'w') as f:
        # V_POSTBLK_<fn>(p, n): "p is a live heap block of exactly n bytes" in the ensures of <fn>.  For the function under
        # enforcement this is checked as: start of a live object of exactly n bytes; where the contract replaces a call it is
        # assumed as is_fresh (the block is the callee's own storage: the old block was separate by the caller's precondition,
        # a new one comes from the allocator).  The switch is mechanical and per target (DESIGN 3.4).
        for key in us.spec:
            if key[0] == 'contract':
                fn = key[1]
                if fn == t.enforce:
                    f.write('#define V_POSTBLK_%s(p, n) (__CPROVER_rw_ok((p), (n)) && __CPROVER_POINTER_OFFSET(p) == 0 && __CPROVER_OBJECT_SIZE(p) == (n))\n' % fn)
                else:
                    f.write('#define V_POSTBLK_%s(p, n) __CPROVER_is_fresh((p), (n))\n' % fn)
                # V_PREBLK_<fn>(p, n): "p points to n accessible bytes" in the requires of <fn>: is_fresh for the function under
                # enforcement (symbolic pre-state), plain accessibility where the contract replaces a call (the caller may pass
                # pointers into one of its own objects)
                if fn == t.enforce:
                    f.write('#define V_PREBLK_%s(p, n) __CPROVER_is_fresh((p), (n))\n' % fn)
                else:
                    f.write('#define V_PREBLK_%s(p, n) __CPROVER_rw_ok((p), (n))\n#define V_PREBLK_R_%s(p, n) __CPROVER_r_ok((p), (n))\n' % (fn, fn))
                if fn == t.enforce:
                    f.write('#define V_PREBLK_R_%s(p, n) __CPROVER_is_fresh((p), (n))\n' % fn)
        f.write(us.c_text)
        f.write('\n/* ---- harness %s ---- */\n' % t.id)
        f.write(t.harness)
        f.write('\n')
    defs = ['-D' + d for d in (us.defines + t.defines + list(extra_defines))]
    rc, out, _ = run(['goto-cc', '--function', 'H', cfile, '-o', base + '.a.gb'] + defs, 300)
    if rc != 0:
        raise Undecided('goto-cc failed for %s/%s:\n%s' % (us.name, t.id, out[-3000:]))
    rc, out1, _ = run(['goto-instrument', '--add-library', base + '.a.gb', base + '.a.gb'], 300)
    if rc != 0:
        raise Undecided('goto-instrument --add-library failed for %s/%s:\n%s' % (us.name, t.id, out1[-3000:]))
    cmd = ['goto-instrument', '--dfcc', 'H']
    if t.enforce: cmd += ['--enforce-contract', t.enforce]
    ctext = open(cfile).read()
    for r in list(t.replace) + [a for a in getattr(us, 'auto_stubs', []) if a not in t.replace]:
        # a contract stub that the (possibly changed) code no longer calls is not in the goto binary: goto-instrument aborts on it
        if len(re.findall(r'\b%s\s*\(' % re.escape(r), ctext)) < 2: continue
        cmd += ['--replace-call-with-contract', r]
    if t.loops: cmd += ['--apply-loop-contracts']
    cmd += [base + '.a.gb', base + '.b.gb']
    rc, out2, _ = run(cmd, 600)
    if rc != 0:
        raise Undecided('goto-instrument failed for %s/%s:\n%s' % (us.name, t.id, out2[-3000:]))
    return base + '.b.gb', out + out2, ' '.join(cmd)


def cbmc_cmd(t, gb, backend):
    cmd = ['cbmc', gb] + [c for c in CBMC_BASE if c not in t.no_checks] + t.flags
    if t.unwind is not None: cmd += ['--unwind', str(t.unwind)] + ([] if getattr(t, 'no_unwinding_assertions', False) else ['--unwinding-assertions'])
    for u in t.unwindset: cmd += ['--unwindset', u]
    if t.unwindset and t.unwind is None: cmd += ['--unwinding-assertions']
    if t.object_bits: cmd += ['--object-bits', str(t.object_bits)]
    if backend == 'cadical': cmd += ['--sat-solver', 'cadical']
    elif backend == 'cvc5': cmd += ['--cvc5']
    elif backend == 'z3': cmd += ['--z3']
    return cmd


def bounded_fallback(us, t, workdir, tier, log):
    """contract check of one target with the spec's loop contracts removed: small world (-DV_MAXSZ=6), loops unwound 8 times, no
    unwinding assertions.  Returns only FAILED contract obligations (postconditions, assertions, preconditions of replaced callees)."""
    import copy
    fns = set([t.enforce] + list(t.functions))
    u2 = copy.copy(us); u2.name = us.name + '__noloops'
    u2.spec = {k: v for k, v in us.spec.items() if not (k[0] == 'loop' and (k[1] in fns or any(k[1].startswith(f + '__') for f in fns if f)))}
    extract(u2, workdir)
    t2 = copy.copy(t); t2.loops = False; t2.unwind = 8; t2.no_unwinding_assertions = True
    t2.defines = list(t.defines) + ['V_MAXSZ=((size_t)6)']; t2.strength = 'B(fallback: small world, 8 unwindings)'
    ob, cmd = run_target(u2, t2, workdir, tier, log)
    bad = [o for o in ob if o.status == 'FAILURE' and CANARY not in o.desc and ('postcondition' in o.name or '.assertion.' in o.name or '.precondition.' in o.name)]
    for o in bad: o.desc += ' [bounded fallback: the loop contract no longer matches the code]'
    if bad: t.strength = t2.strength; bad = bad + [o for o in ob if CANARY in o.desc]
    return bad, cmd


def run_target(us, t, workdir, tier, log):
    """returns list[Obligation]; raises Undecided"""
    t0 = time.time()
    gb, blog, gi_cmd = build_target(us, t, workdir)
    timeout = t.timeout or (240 if tier == 'quick' else 1200)
    backends = [t.smt] if t.smt else [t.sat] + (['cadical'] if t.sat != 'cadical' else [])
    res = None; used = None; outs = []
    if not t.slice:
        for be in backends:
            cmd = cbmc_cmd(t, gb, be)
            rc, out, secs = run(cmd, timeout)
            if 'too many addressed objects' in out and not t.object_bits:
                t.object_bits = 12            # more than 256 objects (many contracts/temporaries): widen the object id field
                cmd = cbmc_cmd(t, gb, be)
                rc, out, secs = run(cmd, timeout)
            outs.append(out)
            if 'ignoring' in out and 'forall' in out:
                raise Undecided('%s/%s: back end ignored a quantifier' % (us.name, t.id))
            r = parse_results(out)
            if rc in (0, 10) and r:
                res = r; used = be; break
            log('  %s/%s: %s rc=%d after %.0fs%s' % (us.name, t.id, be, rc, secs, ' (timeout)' if rc == -9 else ''))
    if res is None:
        # property slicing (DESIGN 3.4): one SAT call per obligation, under a global deadline for the target
        res = []; used = backends[0] + '+sliced'
        rc, out, _ = run(cbmc_cmd(t, gb, backends[0]) + ['--show-properties', '--json-ui'], 300)
        try:
            props = [p['name'] for blk in json.loads(out) if isinstance(blk, dict) and 'properties' in blk for p in blk['properties']]
        except Exception:
            raise Undecided('%s/%s: cannot list properties for slicing\n%s' % (us.name, t.id, out[-1500:]))
        if len(props) > 1200 and not t.slice:
            raise Undecided('%s/%s: solver timeout after %ds and %d obligations are too many to slice' % (us.name, t.id, timeout, len(props)))
        per = 60 if tier == 'quick' else 300
        deadline = time.time() + (timeout * 2)
        def one(pn):
            if time.time() > deadline: return (pn, 'sliced obligation (target deadline passed)', 'UNKNOWN')
            for be in backends:
                rc, o, s = run(cbmc_cmd(t, gb, be) + ['--property', pn], per)
                r = [x for x in parse_results(o) if x[0] == pn]
                if rc in (0, 10) and r: return r[0]
            return (pn, 'sliced obligation', 'UNKNOWN')
        with ThreadPoolExecutor(max_workers=max(2, NCPU // 2)) as ex:
            res = list(ex.map(one, props))
    secs = time.time() - t0
    obls = []
    for (name, desc, st) in res:
        obls.append(Obligation(us.name, t.id, name, desc, st, used, round(secs, 2), t.strength))
    if not obls:
        raise Undecided('%s/%s: CBMC produced no obligations\n%s' % (us.name, t.id, '\n'.join(o[-1500:] for o in outs)))
    # silent-drop guards
    names = ' '.join(o.name for o in obls)
    if t.enforce and 'postcondition' not in names and '__CPROVER_ensures' in (us.spec.get(('contract', t.enforce)) or ''):
        raise Undecided('%s/%s: no postcondition obligation generated for %s' % (us.name, t.id, t.enforce))
    if t.loops:
        gone = set(getattr(us, 'dropped_loops', []))     # loop contracts for loops the (changed) code no longer has: dropped by the printer, reported in the evidence
        nloops = sum(1 for k in us.spec if k[0] == 'loop' and (k[1] == t.enforce or k[1] in t.functions) and (k[1], k[2]) not in gone)
        got = len([o for o in obls if 'loop_invariant_step' in o.name or 'loop invariant is preserved' in o.desc or 'invariant after step' in o.desc.lower()])
        if nloops and got < nloops:
            # loop contracts of functions that are not reachable from this harness are not expected here
            if t.enforce and any(k[0] == 'loop' and k[1] == t.enforce and (k[1], k[2]) not in gone for k in us.spec):
                raise Undecided('%s/%s: loop contract silently dropped (%d step obligations for %d loop contracts)' % (us.name, t.id, got, nloops))
    return obls, gi_cmd + ' && ' + ' '.join(cbmc_cmd(t, os.path.basename(gb), backends[0]))


# --------------------------------------------------------------------------- witness
def witness(us, t, workdir, obligation, log):
    """re-run one failed obligation with --trace; returns dict (inputs by name, raw tail).
    Two passes (DESIGN 5.2): first in a small world (-DV_MAXSZ=48: every size bound of the specs shrinks), so that
    the counterexample is replayable; if the obligation does not fail there, the unrestricted trace is used."""
    base = os.path.join(workdir, '%s__%s' % (us.name, t.id))
    gb = base + '.b.gb'
    if not os.path.exists(gb): return {'error': 'no binary'}
    cmd = None; out = ''; rc = 0; secs = 0
    try:
        import copy
        t2 = copy.copy(t); t2.id = t.id + '.small'
        gb2, _, _ = build_target(us, t2, workdir, extra_defines=['V_MAXSZ=((size_t)48)', 'VERIF_SMALL=1'])
        cmd = cbmc_cmd(t, gb2, t.smt or t.sat) + ['--property', obligation, '--trace', '--json-ui']
        rc, out, secs = run(cmd, 300)
        if '"FAILURE"' not in out: cmd = None
    except Undecided:
        cmd = None
    small = cmd is not None
    if cmd is None:
        cmd = cbmc_cmd(t, gb, t.smt or t.sat) + ['--property', obligation, '--trace', '--json-ui']
        rc, out, secs = run(cmd, 600)
    info = {'cmd': ' '.join(cmd), 'rc': rc, 'secs': round(secs, 1), 'inputs': {}, 'failed': None, 'small_world': small}
    try:
        blocks = json.loads(out)
    except Exception:
        info['raw_tail'] = out[-4000:]
        return info
    for blk in blocks:
        if not isinstance(blk, dict) or 'result' not in blk: continue
        for r in blk['result']:
            if r.get('property') != obligation or 'trace' not in r: continue
            info['failed'] = {'property': r.get('property'), 'description': r.get('description'), 'status': r.get('status')}
            steps = []
            for st in r['trace']:
                if st.get('stepType') != 'assignment' or st.get('hidden'): continue
                lhs = st.get('lhs', '')
                val = st.get('value', {})
                v = val.get('data', val.get('name'))
                fn = st.get('sourceLocation', {}).get('function', '')
                if lhs.startswith('__CPROVER') or lhs.startswith('return_value') or '$' in lhs and 'dynamic_object' not in lhs: continue
                if lhs.startswith('__dfcc') or lhs.startswith('__write_set') or re.search(r'\.(is_writable|\$pad\d*|lb|ub|size)$', lhs) and 'dynamic_object' in lhs or v == 'struct': continue
                steps.append((fn, lhs, v, val.get('binary')))
            ins = {}
            for fn, lhs, v, b in steps:
                if fn == 'H' or lhs.startswith('g_') or lhs.startswith('in_') or 'dynamic_object' in lhs:
                    ins.setdefault(lhs, v)       # first value = the symbolic input
            info['inputs'] = ins
            info['steps'] = [s[:3] for s in steps]
            info['trace_tail'] = ['%s: %s = %s' % s[:3] for s in steps[-60:]]
    return info


# --------------------------------------------------------------------------- property-level driver
def load_units(prop):
    d = os.path.join(VERIF, 'specs', prop)
    units = []
    if not os.path.isdir(d): return units
    for fn in sorted(os.listdir(d)):
        if not fn.endswith('.py') or fn.startswith('_'): continue
        spec = importlib.util.spec_from_file_location('spec_%s_%s' % (prop, fn[:-3]), os.path.join(d, fn))
        mod = importlib.util.module_from_spec(spec)
        spec.loader.exec_module(mod)
        for u in getattr(mod, 'UNITS', []):
            u.module = mod
            units.append(u)
    return units


def scan_assumptions(units):
    """mechanical scan of specs/harnesses/models for assume-like constructs (DESIGN 3.4)"""
    hits = []
    for u in units:
        texts = [('spec:%s:%s' % (u.name, '/'.join(str(x) for x in k)), v) for k, v in u.spec.items() if isinstance(v, str)]
        texts += [('harness:%s:%s' % (u.name, t.id), t.harness) for t in u.targets]
        for where, txt in texts:
            for m in re.finditer(r'__CPROVER_assume\s*\(([^;]*)\)\s*;', txt):
                hits.append('%s: __CPROVER_assume(%s)' % (where, ' '.join(m.group(1).split())[:160]))
    for fn in sorted(os.listdir(os.path.join(VERIF, 'models'))):
        if fn.endswith('.h'):
            txt = open(os.path.join(VERIF, 'models', fn)).read()
            for m in re.finditer(r'__CPROVER_assume\s*\(([^;]*)\)\s*;', txt):
                hits.append('models/%s: __CPROVER_assume(%s)' % (fn, ' '.join(m.group(1).split())[:160]))
    return hits


def load_known():
    p = os.path.join(VERIF, 'known_findings.json')
    if os.path.exists(p): return json.load(open(p))
    return {'findings': []}


def check_property(prop, tier='quick', seed=0, meta=None, only_unit=None, only_target=None, keep=False, verbose=True):
    """runs every unit/target of the property; writes evidence; returns exit code"""
    t_start = time.time()
    meta = meta or {}
    lines = []
    def log(s):
        if verbose: print(s, flush=True)
    units = load_units(prop)
    if only_unit: units = [u for u in units if u.name == only_unit]
    workdir = os.path.join(WORK, prop)
    shutil.rmtree(workdir, ignore_errors=True)
    os.makedirs(workdir, exist_ok=True)
    undecided = []; obligations = []; checker_cmds = []
    # 1. extraction (parallel)
    def ex(u):
        try:
            extract(u, workdir); return None
        except (cxx2c.Unsupported, Undecided) as e:
            return '%s: extraction: %s' % (u.name, e)
        except Exception as e:
            return '%s: extraction crashed: %s\n%s' % (u.name, e, traceback.format_exc()[-1500:])
    with ThreadPoolExecutor(max_workers=NCPU) as pool:
        for u, err in zip(units, pool.map(ex, units)):
            if err: undecided.append(err); u.c_text = None
    jobs = []
    for u in units:
        if u.c_text is None: continue
        for t in u.targets:
            if only_target and t.id != only_target: continue
            if t.tier == 'thorough' and tier != 'thorough': continue
            jobs.append((u, t))
    results = {}
    def job(ut):
        u, t = ut
        try:
            ob, cmd = run_target(u, t, workdir, tier, log)
            gone = [h for h in getattr(u, 'dropped_helper_ghosts', []) if t.enforce and h.startswith(t.enforce + '__')]
            if gone and any(o.status != 'SUCCESS' and CANARY not in o.desc for o in ob):
                # ghost code attached to a printer-generated helper of this function was dropped because the (changed) code no longer has
                # that helper; obligations that read those ghosts can fail for that reason alone, so a failure here decides nothing
                return (u, t, [], '', 'spec/code mismatch: ghost annotations of %s no longer attach (the function was restructured); %d obligations fail but may depend on them' % (', '.join(sorted(set(gone))), sum(1 for o in ob if o.status != 'SUCCESS' and CANARY not in o.desc)))
            return (u, t, ob, cmd, None)
        except Undecided as e:
            msg = str(e)
            if 'goto-cc failed' in msg and ('__CPROVER_loop_invariant' in msg or '__CPROVER_decreases' in msg):
                # a loop contract of the spec no longer compiles against the (changed) loop: the unbounded proof is gone, but the function
                # contract can still be tested without the loop contracts in a small world with unwound loops.  A failed postcondition /
                # assertion there is a real counterexample to the contract (reported); a pass decides nothing (stays UNDECIDED).
                try:
                    fo, cmd = bounded_fallback(u, t, workdir, tier, log)
                    if fo: return (u, t, fo, cmd, None)
                    msg += '\n(bounded fallback without loop contracts found no violation: still undecided)'
                except Exception as e2:
                    msg += '\n(bounded fallback failed: %s)' % str(e2)[:300]
            return (u, t, [], '', msg)
        except Exception as e:
            return (u, t, [], '', 'crash: %s\n%s' % (e, traceback.format_exc()[-1500:]))
    with ThreadPoolExecutor(max_workers=NCPU) as pool:
        futs = [pool.submit(job, j) for j in jobs]
        for f in as_completed(futs):
            u, t, ob, cmd, err = f.result()
            if err:
                undecided.append('%s/%s: %s' % (u.name, t.id, err))
                continue
            results[(u.name, t.id)] = ob
            checker_cmds.append(cmd)
            nf = [o for o in ob if o.status != 'SUCCESS']
            log('  %-28s %-34s %4d obligations, %d not SUCCESS, %.1fs [%s]' % (u.name, t.id, len(ob), len(nf), ob[0].secs, ob[0].backend))
    # 2. verdict
    known = [k for k in load_known().get('findings', []) if k.get('property') == prop]
    violations = []; known_hits = []; n_obl = 0; n_dis = 0; samples = []; bounded = []; n_bobl = 0; n_bdis = 0
    per_backend = {}
    for (uname, tid), ob in sorted(results.items()):
        u = [x for x in units if x.name == uname][0]; t = [x for x in u.targets if x.id == tid][0]
        canary = [o for o in ob if CANARY in o.desc]
        if CANARY in t.harness:
            if not canary or any(o.status != 'FAILURE' for o in canary):
                undecided.append('%s/%s: vacuity canary not reachable (contradictory requires or unreachable harness end)' % (uname, tid))
        for o in ob:
            if CANARY in o.desc: continue
            if t.must_fail:
                continue
            isb = t.strength != 'U'
            if isb: n_bobl += 1
            else: n_obl += 1
            per_backend.setdefault(o.backend, [0, 0.0])
            per_backend[o.backend][0] += 1
            if o.status == 'SUCCESS':
                if isb: n_bdis += 1; bounded.append(o)
                else: n_dis += 1
            elif o.status == 'FAILURE' and (o.desc or '').strip() == 'undefined function should be unreachable':
                # dfcc's marker for a reachable call of a function that has neither a body in the unit nor a contract in the spec (e.g. the changed
                # code uses a library operation the spec says nothing about): nothing is known about that call, so nothing is decided - not a violation
                undecided.append('%s/%s: the code calls %s, which has no body in the unit and no contract in the spec (%s)' % (uname, tid, o.name.split('.')[0], o.name))
            elif o.status == 'FAILURE':
                kf = match_known(known, uname, tid, o)
                if kf is not None: known_hits.append((kf, o))
                else: violations.append((u, t, o))
            else:
                undecided.append('%s/%s: obligation %s is %s' % (uname, tid, o.name, o.status))
        if t.must_fail:
            fails = [o for o in ob if o.status == 'FAILURE' and CANARY not in o.desc]
            n_obl += 1
            if fails: n_dis += 1
            else: undecided.append('%s/%s: must-fail twin verified: machinery unsound for this unit' % (uname, tid))
        per_backend.setdefault(ob[0].backend, [0, 0.0])[1] += ob[0].secs
        if len(samples) < 12:
            for o in ob[:2]: samples.append(o.as_dict())
    rc = 0
    # one VIOLATION line per target (function under contract); its replay file lists every failed obligation
    groups = {}
    for (u, t, o) in violations: groups.setdefault((u.name, t.id), (u, t, []))[2].append(o)
    for kf, o in known_hits:
        print('KNOWN-FINDING: property=%s %s [%s/%s %s]' % (prop, kf.get('what', ''), o.unit, o.target, o.name), flush=True)
    if violations:
        rc = 1
        for (uname, tid), (u, t, obs) in sorted(groups.items()):
            rp, reproduced = write_replay(prop, u, t, obs, workdir, log)
            print('VIOLATION property=%s replay=%s target=%s/%s obligations=%s%s' % (
                prop, rp, uname, tid, ','.join(o.name for o in obs[:4]) + (',...' if len(obs) > 4 else ''),
                '' if reproduced else ' no-failing-input-found'), flush=True)
    elif undecided:
        rc = 2
    wall = time.time() - t_start
    meta = dict(meta); meta['bounded_counts'] = (n_bobl, n_bdis)
    # evidence/<id>.json is only ever written by a COMPLETE run against /repo itself; partial runs (--unit/--target) and runs
    # against a scratch tree (VERIF_REPO, used for the seeded-defect trials) write to .work/ instead
    meta['partial'] = bool(only_unit or only_target) or os.path.realpath(REPO) != '/repo'
    write_evidence(prop, tier, seed, units, results, n_obl, n_dis, samples, bounded, undecided, violations, known_hits, checker_cmds,
                   per_backend, wall, meta)
    for uerr in undecided[:12]: log('UNDECIDED: ' + uerr[:2000])
    if len(undecided) > 12: log('UNDECIDED: ... and %d more (see evidence file)' % (len(undecided) - 12))
    log('%s: %d obligations (unbounded), %d discharged; %d bounded stand-in obligations, %d passed; %d violations, %d known, %d undecided, %.1fs -> exit %d' % (prop, n_obl, n_dis, n_bobl, n_bdis, len(violations), len(known_hits), len(undecided), wall, rc))
    if not keep and rc == 0:
        shutil.rmtree(workdir, ignore_errors=True)
    return rc


def match_known(known, uname, tid, o):
    for k in known:
        if k.get('status', 'known') != 'known': continue
        if k.get('unit') == uname and k.get('target') == tid and re.search(k.get('obligation_re', '$^'), o.name + ' ' + o.desc):
            return k
    return None


def write_replay(prop, u, t, obs, workdir, log):
    """witness pass + native replay (if the unit has a driver); returns (path, reproduced)"""
    d = os.path.join(VERIF, 'replays', prop)
    os.makedirs(d, exist_ok=True)
    path = os.path.join(d, '%s__%s.json' % (u.name, t.id))
    # the most specific obligations first: postconditions / assertions before the generic pointer checks they cause
    def rank(o):
        n = o.name
        return (0 if 'postcondition' in n or '.assertion.' in n else 1 if 'loop_invariant' in n or 'assigns' in n else 2, n)
    obs = sorted(obs, key=rank)
    rec = {'property': prop, 'unit': u.name, 'target': t.id, 'clause': t.clause, 'strength': t.strength,
           'function_under_contract': t.enforce, 'source': u.tu,
           'failed_obligations': [{'obligation': o.name, 'description': o.desc, 'backend': o.backend} for o in obs],
           'witnesses': [], 'reproduced': False}
    reproduced = False
    mod = getattr(u, 'module', None)
    rf = getattr(mod, 'native_replay', None) if mod else None
    for o in obs[:2]:
        w = witness(u, t, workdir, o.name, log)
        w['obligation'] = o.name
        rec['witnesses'].append({k: v for k, v in w.items() if k != 'steps'})
        if rf and not reproduced:
            try:
                r = rf(u, t, o, w, workdir)
                rec.setdefault('native_replay', []).append(r)
                reproduced = reproduced or bool(r.get('reproduced'))
            except Exception as e:
                rec.setdefault('native_replay', []).append({'error': str(e)})
    rec['reproduced'] = reproduced
    with open(path, 'w') as f: json.dump(rec, f, indent=1, default=str)
    return path, reproduced


def write_evidence(prop, tier, seed, units, results, n_obl, n_dis, samples, bounded, undecided, violations, known_hits, cmds, per_backend, wall, meta):
    os.makedirs(os.path.join(VERIF, 'evidence'), exist_ok=True)
    fu = []
    trusted = ['A-printer: tools/cxx2c.py (clang AST -> C, closed rule set)', 'A-clang: clang 14 AST for -std=gnu++11 -DNDEBUG',
               'A-cbmc: cbmc/goto-instrument 6.11.0 + SAT/SMT back ends', 'A-alloc: new/malloc succeed, objects < 2^40 bytes',
               'A-induction: invariant per operation => every history (paper step)', 'A-config: NDEBUG configuration only',
               'A-models: library types appear through the trusted models of models/*.h and tools/plugins.py (containers as heap, fixed-capacity or size-only models; opaque maps and sets as one-key oracles whose method contracts restate the standard; std::function as engaged flag + identity; mutexes as ghost counters): coverage.extraction.<unit>.models_used names them per unit',
               'A-stubs: functions replaced by contract in a target (environment callbacks, kernel calls, callees of other units) are assumed to meet the contract written for them in specs/<ID>/*.py unless that callee is itself a target of this check']
    not_cov = list(meta.get('not_covered', []))
    extraction = {}
    for u in units:
        for t in u.targets:
            for fn in t.functions:
                ent = {'c_name': fn, 'unit': u.name, 'source': u.tu, 'target': t.id, 'strength': t.strength, 'clause': t.clause}
                fu.append(ent)
        for x in u.trusted:
            if x not in trusted: trusted.append(x)
        for x in u.not_covered:
            if x not in not_cov: not_cov.append(x)
        extraction[u.name] = u.extract_info
    all_u = all(t.strength == 'U' for u in units for t in u.targets if (u.name, t.id) in results)
    level = meta.get('level') or ('proof' if all_u else 'other')
    if level == 'proof' and n_obl == 0: level = 'other'
    nb, nbd = meta.get('bounded_counts', (0, 0))
    bo = {}
    for o in bounded: bo.setdefault('%s/%s' % (o.unit, o.target), o.strength)
    cov = {
        'obligations': n_obl, 'discharged': n_dis,
        'checker_cmd': (cmds[0] if cmds else 'goto-cc | goto-instrument --dfcc | cbmc')[:1500],
        'trusted_base': trusted,
        'functions_under_contract': fu,
        'per_backend': {k: {'obligations': v[0], 'solver_s': round(v[1], 1)} for k, v in per_backend.items()},
        'bounded_obligations': [{'target': k, 'bound': v, 'unwinding_assertions': True} for k, v in sorted(bo.items())],
        'bounded_stand_in': {'obligations': nb, 'passed': nbd, 'note': 'bounded targets are listed separately and are NOT included in obligations/discharged'},
        'assume_scan': scan_assumptions(units),
        'not_covered_clauses': not_cov,
        'samples': samples or [{'note': 'no obligation was produced'}],
        'undecided': undecided,
        'known_findings_hit': [{'what': k.get('what'), 'obligation': o.name, 'target': '%s/%s' % (o.unit, o.target)} for k, o in known_hits],
        'violations': [{'unit': o.unit, 'target': o.target, 'obligation': o.name, 'description': o.desc} for (_, _, o) in violations],
        'extraction': extraction,
        'explanation': meta.get('explanation', '') + ' Strength per target is listed under functions_under_contract (U = unbounded: contract/loop-contract/loop-free/complete unwinding of constant-bounded loops; B(n) = bounded stand-in, not counted as proved).',
        'targets_run': len(results),
    }
    ev = {'property_id': prop, 'tier': tier, 'seed': int(seed), 'level': level, 'coverage': cov,
          'assumptions': trusted + ['every clause listed under not_covered_clauses is outside this check'],
          'wall_s': round(wall, 2), 'violations': len(violations)}
    dest = os.path.join(VERIF, 'evidence', prop + '.json')
    if meta.get('partial'):
        os.makedirs(os.path.join(WORK, 'evidence_partial'), exist_ok=True)
        dest = os.path.join(WORK, 'evidence_partial', prop + '.json')
    with open(dest, 'w') as f:
        json.dump(ev, f, indent=1)
