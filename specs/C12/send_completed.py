"""C12 — http::server::Server::Impl::onTcpSendCompleted (modules/http/server/server_imp.cpp): closing after the last response.

Called by the TCP layer when everything queued on a connection has been written.  Decided: a connection whose token no longer resolves is
left alone; otherwise the connection is closed exactly when the response to the request that asked for it has gone out
(res_index > close_index): disconnected, forgotten and destroyed, once each; in every other case nothing happens - in particular a
keep-alive connection (close_index == INT_MAX) is never closed here.
"""
import os, importlib.util
from verif import UnitSpec, Target, VERIF
_s = importlib.util.spec_from_file_location('c12_recv', os.path.join(VERIF, 'specs', 'C12', 'on_received.py'))
r = importlib.util.module_from_spec(_s); _s.loader.exec_module(r)
R = dict(r.R); R.update({'http_server_Server_Impl_onTcpSendCompleted': 'Srv_onTcpSendCompleted'})
PRELUDE = r'''
typedef struct http_server_Server_Impl Srv; typedef struct http_server_Server_Impl_Connection Conn; typedef struct cabinet_Token Token;
#define T(x) ((x) != 0)
#define NOCLOSE 2147483647
static Conn *g_conn; static _Bool g_valid; static size_t g_disconnects, g_erases; static _Bool g_deleted;
'''
EXTERN = r'''
_Bool Tcp_isClientValid(struct v_TcpServer *s, Token *ct) __CPROVER_assigns() __CPROVER_ensures(T(__CPROVER_return_value) == T(g_valid));
void *Tcp_getContext(struct v_TcpServer *s, Token *ct) __CPROVER_requires(T(g_valid)) __CPROVER_assigns() __CPROVER_ensures(__CPROVER_return_value == (void *)g_conn);
_Bool Tcp_disconnect(struct v_TcpServer *s, Token *ct) __CPROVER_requires(g_conn->res_index > g_conn->close_index && g_disconnects == 0) __CPROVER_assigns(g_disconnects) __CPROVER_ensures(g_disconnects == 1);
size_t v_set__erase(struct v_set *s, Conn *c) __CPROVER_requires(c == g_conn && g_erases == 0) __CPROVER_assigns(g_erases) __CPROVER_ensures(g_erases == 1);
void http_server_Server_Impl_Connection__delete(Conn *c) __CPROVER_requires(c == g_conn && !T(g_deleted) && g_erases == 1 && g_disconnects == 1) __CPROVER_assigns(g_deleted) __CPROVER_ensures(g_deleted == 1);
'''
SPEC = {('prelude_early',): r.SPEC[('prelude_early',)], ('prelude',): PRELUDE, ('after_protos',): EXTERN,
    ('stub', 'Tcp_isClientValid'): True, ('stub', 'Tcp_getContext'): True, ('stub', 'Tcp_disconnect'): True, ('stub', 'http_server_Server_Impl_Connection_dtor'): True,
    ('contract', 'Srv_onTcpSendCompleted'): r'''
__CPROVER_requires(__CPROVER_is_fresh(self, sizeof(*self)) && __CPROVER_is_fresh(ct, sizeof(*ct)) && __CPROVER_is_fresh(g_conn, sizeof(Conn)) && (g_valid == 0 || g_valid == 1) && !T(g_deleted))
__CPROVER_assigns(g_disconnects, g_erases, g_deleted)
__CPROVER_ensures((T(g_valid) && g_conn->res_index > g_conn->close_index) ? (g_disconnects == 1 && g_erases == 1 && T(g_deleted)) : (g_disconnects == 0 && g_erases == 0 && !T(g_deleted)))
''',
    ('ghost', 'Srv_onTcpSendCompleted', 'entry'): 'g_disconnects = 0; g_erases = 0;',
}
H = r.H
U0 = r.UNITS[0]
UNITS = [UnitSpec(name='send_completed', tu=r.TU, filter='tbox::http', more_filters=U0.more_filters, rename=R, spec=SPEC, clang_flags=['-fdelayed-template-parsing'],
    plugins=U0.plugins, model_headers=U0.model_headers, opaque_records=U0.opaque_records,
    emit=['tbox::http::server::Server::Impl::onTcpSendCompleted'],
    targets=[Target('onTcpSendCompleted', H('  Srv *s; Token *ct; Srv_onTcpSendCompleted(s, ct);'), enforce='Srv_onTcpSendCompleted', replace=['Tcp_isClientValid', 'Tcp_getContext', 'Tcp_disconnect', 'v_set__erase', 'http_server_Server_Impl_Connection__delete'], timeout=300,
                    clause='send complete: the connection is closed (disconnected, forgotten, destroyed - once each) exactly when the response to the closing request has gone out; keep-alive connections are never closed here')])]
