// epoll back end, one pass with descriptors A and B ready.  A's callback destroys the only event on B and creates + enables an event on a
// third descriptor C that is NOT ready.  C's event must not be called back; the disabled/destroyed event on B must not be called back.
#include <tbox/event/loop.h>
#include <tbox/event/fd_event.h>
#include <unistd.h>
#include <cstdio>
#include <string>
#include <exception>
using namespace tbox::event;
int main(int argc, char **argv) {
    std::string engine = argc > 1 ? argv[1] : "epoll";
    Loop *loop = Loop::New(engine.c_str());
    if (!loop) { printf("no %s engine\n", engine.c_str()); return 0; }
    int a[2], b[2], c[2]; pipe(a); pipe(b); pipe(c);
    FdEvent *ea = loop->newFdEvent(), *eb = loop->newFdEvent(), *ec = nullptr;
    int b_calls = 0, c_calls = 0;
    eb->initialize(b[0], FdEvent::kReadEvent, Event::Mode::kPersist);
    eb->setCallback([&](short) { ++b_calls; });
    ea->initialize(a[0], FdEvent::kReadEvent, Event::Mode::kOneshot);
    ea->setCallback([&](short) {
        delete eb; eb = nullptr;                       // last event on B goes away: B's shared record returns to the pool
        ec = loop->newFdEvent();                       // a new event on C takes a shared record from the pool
        ec->initialize(c[0], FdEvent::kReadEvent, Event::Mode::kPersist);
        ec->setCallback([&](short) { ++c_calls; });
        ec->enable();
    });
    ea->enable(); eb->enable();
    write(a[1], "x", 1); write(b[1], "y", 1);          // both ready in the same pass, A first
    loop->exitLoop(std::chrono::milliseconds(50));
    try { loop->runLoop(); }
    catch (const std::exception &e) { printf("VIOLATION: the loop threw %s while dispatching a pass in which a callback destroyed another ready descriptor's last event\n", e.what()); return 1; }
    printf("[%s] callbacks on destroyed B: %d, callbacks on C (never ready): %d\n", engine.c_str(), b_calls, c_calls);
    int bad = 0;
    if (c_calls != 0) { printf("VIOLATION: an event whose descriptor was never ready was called back (stale shared record of a destroyed event reused in the same pass)\n"); bad = 1; }
    if (b_calls != 0) { printf("VIOLATION: a destroyed event was called back\n"); bad = 1; }
    delete ea; delete ec; delete loop;
    return bad;
}
