struct tbox_util_Buffer {
  uint8_t *buffer_ptr_;
  size_t buffer_size_;
  size_t read_index_;
  size_t write_index_;
};
uint8_t * Buffer_readableBegin(const struct tbox_util_Buffer *self);
size_t Buffer_readableSize(const struct tbox_util_Buffer *self);
uint8_t * Buffer_writableBegin(const struct tbox_util_Buffer *self);
size_t Buffer_writableSize(const struct tbox_util_Buffer *self);
void Buffer_ctor_1(struct tbox_util_Buffer *self, size_t reverse_size);
void Buffer_ctor_0(struct tbox_util_Buffer *self, const struct tbox_util_Buffer *other);
void Buffer_ctor_2(struct tbox_util_Buffer *self, struct tbox_util_Buffer *other);
void Buffer_dtor(struct tbox_util_Buffer *self);
struct tbox_util_Buffer * Buffer_assign_0(struct tbox_util_Buffer *self, const struct tbox_util_Buffer *other);
struct tbox_util_Buffer * Buffer_assign_1(struct tbox_util_Buffer *self, struct tbox_util_Buffer *other);
void Buffer_swap(struct tbox_util_Buffer *self, struct tbox_util_Buffer *other);
void Buffer_reset(struct tbox_util_Buffer *self);
_Bool Buffer_ensureWritableSize(struct tbox_util_Buffer *self, size_t write_size);
void Buffer_hasWritten(struct tbox_util_Buffer *self, size_t write_size);
size_t Buffer_append(struct tbox_util_Buffer *self, const void *p_data, size_t data_size);
void Buffer_hasRead(struct tbox_util_Buffer *self, size_t read_size);
void Buffer_hasReadAll(struct tbox_util_Buffer *self);
size_t Buffer_fetch(struct tbox_util_Buffer *self, void *p_buff, size_t buff_size);
void Buffer_cloneFrom(struct tbox_util_Buffer *self, const struct tbox_util_Buffer *other);
void Buffer_shrink(struct tbox_util_Buffer *self);

uint8_t * Buffer_readableBegin(const struct tbox_util_Buffer *self)
{
  return (self->buffer_ptr_ != ((void*)0)) ? (self->buffer_ptr_ + self->read_index_) : ((void*)0);
}

size_t Buffer_readableSize(const struct tbox_util_Buffer *self)
{
  return self->write_index_ - self->read_index_;
}

uint8_t * Buffer_writableBegin(const struct tbox_util_Buffer *self)
{
  return (self->buffer_ptr_ != ((void*)0)) ? (self->buffer_ptr_ + self->write_index_) : ((void*)0);
}

size_t Buffer_writableSize(const struct tbox_util_Buffer *self)
{
  return self->buffer_size_ - self->write_index_;
}

void Buffer_ctor_1(struct tbox_util_Buffer *self, size_t reverse_size)
{
  self->buffer_ptr_ = ((void*)0);
  self->buffer_size_ = ((size_t)(0));
  self->read_index_ = ((size_t)(0));
  self->write_index_ = ((size_t)(0));
  {
    if (reverse_size > ((unsigned long)(0)))
    {
      uint8_t *p_buff = ((uint8_t *)v_new_array(sizeof(uint8_t), reverse_size));
      ((void)(0));
      self->buffer_ptr_ = p_buff;
      self->buffer_size_ = reverse_size;
    }
  }
}

void Buffer_ctor_0(struct tbox_util_Buffer *self, const struct tbox_util_Buffer *other)
{
  self->buffer_ptr_ = ((void*)0);
  self->buffer_size_ = ((size_t)(0));
  self->read_index_ = ((size_t)(0));
  self->write_index_ = ((size_t)(0));
  {
    Buffer_cloneFrom(self, &((*other)));
  }
}

void Buffer_ctor_2(struct tbox_util_Buffer *self, struct tbox_util_Buffer *other)
{
  self->buffer_ptr_ = ((void*)0);
  self->buffer_size_ = ((size_t)(0));
  self->read_index_ = ((size_t)(0));
  self->write_index_ = ((size_t)(0));
  {
    Buffer_swap(self, &((*other)));
  }
}

void Buffer_dtor(struct tbox_util_Buffer *self)
{
  do
  {
    if (self->buffer_ptr_ != ((void*)0))
    {
      v_delete_array(self->buffer_ptr_);
      self->buffer_ptr_ = ((void*)0);
    }
  }
  while (((_Bool)(0)));
}

struct tbox_util_Buffer * Buffer_assign_0(struct tbox_util_Buffer *self, const struct tbox_util_Buffer *other)
{
  if (self != &(*other))
  {
    Buffer_cloneFrom(self, &((*other)));
  }
  return *self;
}

struct tbox_util_Buffer * Buffer_assign_1(struct tbox_util_Buffer *self, struct tbox_util_Buffer *other)
{
  if (self != &(*other))
  {
    Buffer_reset(self);
    Buffer_swap(self, &((*other)));
  }
  return *self;
}

void Buffer_swap(struct tbox_util_Buffer *self, struct tbox_util_Buffer *other)
{
  if (&(*other) == self)
  {
    return;
  }
  STD_SWAP(&((*other).buffer_ptr_), self->buffer_ptr_);
  STD_SWAP(&((*other).buffer_size_), self->buffer_size_);
  STD_SWAP(&((*other).read_index_), self->read_index_);
  STD_SWAP(&((*other).write_index_), self->write_index_);
}

void Buffer_reset(struct tbox_util_Buffer *self)
{
  struct tbox_util_Buffer tmp;
  Buffer_ctor_1(&tmp, ((size_t)(0)));
  Buffer_swap(self, &(tmp));
  Buffer_dtor(&tmp);
}

_Bool Buffer_ensureWritableSize(struct tbox_util_Buffer *self, size_t write_size)
{
  if (write_size == ((unsigned long)(0)))
  {
    return 1;
  }
  if (Buffer_writableSize(self) >= write_size)
  {
    return 1;
  }
  if ((Buffer_writableSize(self) + self->read_index_) >= write_size)
  {
    memmove(((void *)(self->buffer_ptr_)), ((const void *)((self->buffer_ptr_ + self->read_index_))), (self->write_index_ - self->read_index_));
    self->write_index_ -= self->read_index_;
    self->read_index_ = ((size_t)(0));
    return 1;
  }
  else
  {
    size_t new_size = (self->write_index_ + write_size) << 1;
    uint8_t *p_buff = ((uint8_t *)v_new_array(sizeof(uint8_t), new_size));
    if (p_buff == ((void*)0))
    {
      return 0;
    }
    if (self->buffer_ptr_ != ((void*)0))
    {
      memcpy(((void *)((p_buff + self->read_index_))), ((const void *)((self->buffer_ptr_ + self->read_index_))), (self->write_index_ - self->read_index_));
      v_delete_array(self->buffer_ptr_);
    }
    self->buffer_ptr_ = p_buff;
    self->buffer_size_ = new_size;
    return 1;
  }
}

void Buffer_hasWritten(struct tbox_util_Buffer *self, size_t write_size)
{
  if (self->write_index_ + write_size > self->buffer_size_)
  {
    self->write_index_ = self->buffer_size_;
  }
  else
  {
    self->write_index_ += write_size;
  }
}

size_t Buffer_append(struct tbox_util_Buffer *self, const void *p_data, size_t data_size)
{
  if (Buffer_ensureWritableSize(self, data_size))
  {
    memcpy(((void *)(Buffer_writableBegin(self))), p_data, data_size);
    Buffer_hasWritten(self, data_size);
    return data_size;
  }
  return ((size_t)(0));
}

void Buffer_hasRead(struct tbox_util_Buffer *self, size_t read_size)
{
  if (self->read_index_ + read_size > self->write_index_)
  {
    self->read_index_ = self->write_index_ = ((size_t)(0));
  }
  else
  {
    self->read_index_ += read_size;
    if (self->read_index_ == self->write_index_)
    {
      self->read_index_ = self->write_index_ = ((size_t)(0));
    }
  }
}

void Buffer_hasReadAll(struct tbox_util_Buffer *self)
{
  self->read_index_ = self->write_index_ = ((size_t)(0));
}

size_t Buffer_fetch(struct tbox_util_Buffer *self, void *p_buff, size_t buff_size)
{
  size_t read_size = (buff_size > Buffer_readableSize(self)) ? Buffer_readableSize(self) : buff_size;
  memcpy(p_buff, ((const void *)(Buffer_readableBegin(self))), read_size);
  Buffer_hasRead(self, read_size);
  return read_size;
}

void Buffer_cloneFrom(struct tbox_util_Buffer *self, const struct tbox_util_Buffer *other)
{
  do
  {
    if (self->buffer_ptr_ != ((void*)0))
    {
      v_delete_array(self->buffer_ptr_);
      self->buffer_ptr_ = ((void*)0);
    }
  }
  while (((_Bool)(0)));
  if (Buffer_readableSize(&((*other))) > ((unsigned long)(0)))
  {
    uint8_t *p_buff = ((uint8_t *)v_new_array(sizeof(uint8_t), Buffer_readableSize(&((*other)))));
    ((void)(0));
    memcpy(((void *)(p_buff)), ((const void *)(Buffer_readableBegin(&((*other))))), Buffer_readableSize(&((*other))));
    self->buffer_ptr_ = p_buff;
    self->buffer_size_ = self->write_index_ = Buffer_readableSize(&((*other)));
  }
  else
  {
    self->buffer_ptr_ = ((void*)0);
    self->buffer_size_ = self->write_index_ = ((size_t)(0));
  }
  self->read_index_ = ((size_t)(0));
}

void Buffer_shrink(struct tbox_util_Buffer *self)
{
  struct tbox_util_Buffer tmp;
  Buffer_ctor_0(&tmp, &(*self));
  Buffer_swap(self, &(tmp));
  Buffer_dtor(&tmp);
}

