// native replay driver for util::base64 (real sources, ASan+UBSan): exact-size heap buffers so that any
// out-of-range access is reported, and an independent RFC 4648 reference for the values.
#include <cstdio>
#include <cstdlib>
#include <cstring>
#include <cstdint>
#include <string>
#include <vector>
#include <tbox/util/base64.h>
using namespace tbox::util;

static const char *AL = "ABCDEFGHIJKLMNOPQRSTUVWXYZabcdefghijklmnopqrstuvwxyz0123456789+/";
static std::string ref_encode(const std::vector<uint8_t> &in) {
  std::string o; size_t i = 0;
  for (; i + 2 < in.size(); i += 3) { uint32_t g = in[i] << 16 | in[i + 1] << 8 | in[i + 2]; o += AL[g >> 18]; o += AL[(g >> 12) & 63]; o += AL[(g >> 6) & 63]; o += AL[g & 63]; }
  if (in.size() - i == 1) { uint32_t g = in[i] << 16; o += AL[g >> 18]; o += AL[(g >> 12) & 63]; o += "=="; }
  if (in.size() - i == 2) { uint32_t g = in[i] << 16 | in[i + 1] << 8; o += AL[g >> 18]; o += AL[(g >> 12) & 63]; o += AL[(g >> 6) & 63]; o += "="; }
  return o;
}
static std::vector<uint8_t> unhex(const char *s) { std::vector<uint8_t> v; for (size_t i = 0; i + 1 < strlen(s); i += 2) { unsigned x; sscanf(s + i, "%2x", &x); v.push_back(x); } return v; }

static int check_decode(const std::vector<uint8_t> &text, size_t cap) {
  char *in = (char *)malloc(text.size() ? text.size() : 1); if (text.size()) memcpy(in, text.data(), text.size());
  uint8_t *out = (uint8_t *)malloc(cap ? cap : 1);
  size_t r = base64::Decode(in, text.size(), out, cap);
  int bad = 0;
  if (r > cap) { printf("VIOLATION: Decode returned %zu for capacity %zu\n", r, cap); bad = 1; }
  free(in); free(out); return bad;
}
static int check_roundtrip(const std::vector<uint8_t> &raw, size_t extra_cap) {
  if (raw.empty()) return 0;
  size_t el = base64::EncodeLength(raw.size());
  std::string want = ref_encode(raw);
  if (el != want.size()) { printf("VIOLATION: EncodeLength(%zu) = %zu, RFC says %zu\n", raw.size(), el, want.size()); return 1; }
  char *enc = (char *)malloc(el + extra_cap); uint8_t *src = (uint8_t *)malloc(raw.size()); memcpy(src, raw.data(), raw.size());
  size_t n = base64::Encode(src, raw.size(), enc, el + extra_cap);
  int bad = 0;
  if (n != el || memcmp(enc, want.data(), el)) { printf("VIOLATION: Encode of %zu bytes differs from RFC 4648 reference\n", raw.size()); bad = 1; }
  if (!bad) {
    size_t dl = base64::DecodeLength(enc, n);
    if (dl != raw.size()) { printf("VIOLATION: DecodeLength = %zu for an encoding of %zu bytes\n", dl, raw.size()); bad = 1; }
    uint8_t *dec = (uint8_t *)malloc(raw.size());           // exactly sized: any overrun is an ASan report
    size_t m = base64::Decode(enc, n, dec, raw.size());
    if (!bad && (m != raw.size() || memcmp(dec, raw.data(), m))) { printf("VIOLATION: Decode(Encode(x)) != x for %zu bytes\n", raw.size()); bad = 1; }
    free(dec);
    if (!bad && n > 1) { char *small = (char *)malloc(n - 1); if (base64::Encode(src, raw.size(), small, n - 1) != 0) { printf("VIOLATION: Encode into a too small buffer did not return 0\n"); bad = 1; } free(small); }
  }
  free(enc); free(src); return bad;
}
int main(int argc, char **argv) {
  if (argc >= 4 && !strcmp(argv[1], "decode")) return check_decode(unhex(argv[2]), strtoull(argv[3], 0, 10));
  if (argc >= 3 && !strcmp(argv[1], "roundtrip")) return check_roundtrip(unhex(argv[2]), 0);
  if (argc >= 2 && !strcmp(argv[1], "search")) {
    for (size_t n = 1; n <= 9; ++n) for (int pat = 0; pat < 4; ++pat) {
      std::vector<uint8_t> raw(n); for (size_t i = 0; i < n; ++i) raw[i] = pat == 0 ? 0 : pat == 1 ? 0xff : pat == 2 ? (uint8_t)(i * 73 + 5) : (uint8_t)(0x80 >> (i & 7));
      if (check_roundtrip(raw, 0) || check_roundtrip(raw, 3)) { printf("input: roundtrip of %zu bytes, pattern %d\n", n, pat); return 1; }
    }
    for (int b = 0; b < 256; ++b) for (int pos = 0; pos < 4; ++pos) {          // every byte value at every position of a group
      std::vector<uint8_t> t = {'Q', 'U', 'F', 'B'}; t[pos] = (uint8_t)b;
      if (check_decode(t, 3)) { printf("input: decode with byte 0x%02x at position %d\n", b, pos); return 1; }
    }
    const char *texts[] = {"QQ==", "QUI=", "QUJD", "QUJDRA==", "QUJDREU=", "====", "Q===", "QQ=Q", "=QQQ", "QUJD====", ""};
    for (const char *t : texts) for (size_t cap = 0; cap <= 8; ++cap) {
      std::vector<uint8_t> v(t, t + strlen(t)); size_t dl = v.empty() ? 0 : base64::DecodeLength((const char *)v.data(), v.size());
      if (cap >= dl || cap == 0) if (check_decode(v, cap)) { printf("input: decode \"%s\" into %zu bytes\n", t, cap); return 1; }
    }
    unsigned s = argc >= 3 ? atoi(argv[2]) : 1;
    for (int it = 0; it < 3000; ++it) { s = s * 1103515245u + 12345u; std::vector<uint8_t> raw((s >> 16) % 40 + 1); for (auto &x : raw) { s = s * 1103515245u + 12345u; x = s >> 16; } if (check_roundtrip(raw, (s >> 5) & 3)) return 1; }
    return 0;
  }
  fprintf(stderr, "usage: decode <hex text> <cap> | roundtrip <hex raw> | search [seed]\n"); return 2;
}
