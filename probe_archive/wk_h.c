#include <stdint.h>
#include <stdbool.h>
#define kSecondsOfDay (60u*60u*24u)
#define kSecondsOfWeek (kSecondsOfDay*7u)
struct WeeklyAlarm { int week_mask_; uint32_t seconds_of_day_; };
uint32_t g_t; /* ghost witness for minimality */
uint32_t h_w, h_dow, h_sod, t_w, t_dow, t_sod;
static bool matches(const struct WeeklyAlarm *self, uint32_t t) {
  return (t % kSecondsOfDay) == self->seconds_of_day_ && ((self->week_mask_ >> (((t / kSecondsOfDay) + 4) % 7)) & 1);
}
bool WeeklyAlarm_calculateNextLocalTimeSec(struct WeeklyAlarm *self, uint32_t curr_local_ts, uint32_t *next_local_ts)
__CPROVER_requires(__CPROVER_is_fresh(self, sizeof(*self)) && __CPROVER_is_fresh(next_local_ts, sizeof(uint32_t)))
__CPROVER_requires(self->week_mask_ >= 0 && self->week_mask_ < 128 && self->seconds_of_day_ < kSecondsOfDay)
__CPROVER_requires(curr_local_ts <= 0xFFFFFFFFu - 9u*kSecondsOfDay)
__CPROVER_requires(h_w < 7102 && h_dow < 7 && h_sod < kSecondsOfDay && curr_local_ts == h_w*kSecondsOfWeek + h_dow*kSecondsOfDay + h_sod)
__CPROVER_requires(t_w < 7102 && t_dow < 7 && t_sod < kSecondsOfDay && g_t == t_w*kSecondsOfWeek + t_dow*kSecondsOfDay + t_sod)
__CPROVER_assigns(*next_local_ts)
__CPROVER_ensures(__CPROVER_return_value == (self->week_mask_ != 0))
__CPROVER_ensures(__CPROVER_return_value ==> (*next_local_ts > curr_local_ts && matches(self, *next_local_ts)))
__CPROVER_ensures(__CPROVER_return_value && g_t > curr_local_ts && g_t < *next_local_ts ==> !matches(self, g_t))
{
  uint32_t seconds_from_0000 = curr_local_ts % kSecondsOfDay;
  uint32_t seconds_at_0000 = curr_local_ts - seconds_from_0000;
  uint32_t curr_week = (((curr_local_ts % kSecondsOfWeek) / kSecondsOfDay) + 4) % 7;
  *next_local_ts = seconds_at_0000 + self->seconds_of_day_;
  for (int i = 0; i < 8; ++i) {
    int week = (i + curr_week) % 7;
    if ((curr_local_ts < *next_local_ts) && (self->week_mask_ & (1 << week)))
      return true;
    *next_local_ts += kSecondsOfDay;
  }
  return false;
}
void harness(void){ struct WeeklyAlarm *a; uint32_t c; uint32_t *n; WeeklyAlarm_calculateNextLocalTimeSec(a,c,n);}
