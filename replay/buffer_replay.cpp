// native replay driver for util::Buffer: builds a real Buffer in a given representation state, runs one
// operation, and compares the whole readable content with a reference FIFO (std::deque). ASan/UBSan on.
#include <cstdio>
#include <cstdlib>
#include <cstring>
#include <cstdint>
#include <cstddef>
#include <deque>
#include <string>
#include <vector>
#include <tbox/util/buffer.h>
using tbox::util::Buffer;

static uint8_t pat(size_t i) { return (uint8_t)(i * 37 + 11); }

static bool same(Buffer &b, const std::deque<uint8_t> &ref, const char *what) {
  if (b.readableSize() != ref.size()) { printf("VIOLATION after %s: readable size %zu, FIFO reference %zu\n", what, b.readableSize(), ref.size()); return false; }
  for (size_t i = 0; i < ref.size(); ++i)
    if (b.readableBegin()[i] != ref[i]) { printf("VIOLATION after %s: byte %zu is %u, FIFO reference %u\n", what, i, b.readableBegin()[i], ref[i]); return false; }
  if (b.read_index_ > b.write_index_ || b.write_index_ > b.buffer_size_ || ((b.buffer_size_ == 0) != (b.buffer_ptr_ == nullptr))) {
    printf("VIOLATION after %s: representation invariant broken (r=%zu w=%zu size=%zu)\n", what, b.read_index_, b.write_index_, b.buffer_size_); return false; }
  return true;
}

// state: capacity, read index, write index; returns 1 on violation
static int run_op(const std::string &op, size_t cap, size_t r, size_t w, size_t n) {
  if (!(r <= w && w <= cap)) return 0;
  Buffer b(cap);
  std::deque<uint8_t> ref;
  b.read_index_ = r; b.write_index_ = w;
  for (size_t i = r; i < w; ++i) { b.buffer_ptr_[i] = pat(i); ref.push_back(pat(i)); }
  if (op == "ensureWritableSize") {
    if (!b.ensureWritableSize(n)) { printf("VIOLATION: ensureWritableSize failed\n"); return 1; }
    if (b.writableSize() < n) { printf("VIOLATION: writable %zu < requested %zu\n", b.writableSize(), n); return 1; }
    if (n) memset(b.writableBegin(), 0xEE, n);   // the promised room must really be writable (ASan)
  } else if (op == "append") {
    std::vector<uint8_t> d(n); for (size_t i = 0; i < n; ++i) { d[i] = pat(1000 + i); ref.push_back(d[i]); }
    size_t ret = b.append(n ? d.data() : nullptr, n);
    if (ret != n) { printf("VIOLATION: append returned %zu of %zu\n", ret, n); return 1; }
  } else if (op == "hasWritten") {
    size_t room = b.writableSize(); size_t k = n < room ? n : room;
    for (size_t i = 0; i < room; ++i) b.writableBegin()[i] = pat(2000 + i);
    for (size_t i = 0; i < k; ++i) ref.push_back(pat(2000 + i));
    b.hasWritten(n);
  } else if (op == "hasRead") {
    for (size_t i = 0; i < n && !ref.empty(); ++i) ref.pop_front();
    b.hasRead(n);
  } else if (op == "hasReadAll") { ref.clear(); b.hasReadAll();
  } else if (op == "fetch") {
    uint8_t *out = (uint8_t *)malloc(n ? n : 1); size_t m = b.fetch(out, n);
    size_t want = n < ref.size() ? n : ref.size();
    if (m != want) { printf("VIOLATION: fetch returned %zu, FIFO reference %zu\n", m, want); free(out); return 1; }
    for (size_t i = 0; i < m; ++i) { if (out[i] != ref.front()) { printf("VIOLATION: fetched byte %zu is %u, reference %u\n", i, out[i], ref.front()); free(out); return 1; } ref.pop_front(); }
    free(out);
  } else if (op == "shrink") { b.shrink(); if (b.buffer_size_ != ref.size()) { printf("VIOLATION: shrink left capacity %zu for %zu bytes\n", b.buffer_size_, ref.size()); return 1; }
  } else if (op == "reset") { b.reset(); ref.clear(); if (b.buffer_ptr_ || b.buffer_size_) { printf("VIOLATION: reset left storage\n"); return 1; }
  } else if (op == "ctor_copy" || op == "cloneFrom" || op == "assign_copy") {
    Buffer c(op == "ctor_copy" ? 0 : n);
    if (op == "ctor_copy") { Buffer d(b); if (!same(d, ref, "copy-construct")) return 1; if (ref.size()) { d.readableBegin()[0] ^= 0xff; } if (!same(b, ref, "write to the copy")) return 1; }
    else { c = b; if (!same(c, ref, "copy-assign")) return 1; if (ref.size()) { c.readableBegin()[0] ^= 0xff; } if (!same(b, ref, "write to the copy")) return 1; }
  } else if (op == "ctor_move" || op == "assign_move") {
    Buffer c(n); if (op == "ctor_move") { Buffer d(std::move(b)); if (!same(d, ref, "move-construct")) return 1; }
    else { c = std::move(b); if (!same(c, ref, "move-assign")) return 1; }
    std::deque<uint8_t> e; if (!same(b, e, "being moved from")) return 1;
    uint8_t x = 7; b.append(&x, 1); e.push_back(7); if (!same(b, e, "reuse of a moved-from buffer")) return 1;
    return 0;
  } else if (op == "swap") {
    Buffer c(n); std::deque<uint8_t> cr; for (size_t i = 0; i < n / 2; ++i) { uint8_t x = pat(3000 + i); c.append(&x, 1); cr.push_back(x); }
    b.swap(c); if (!same(b, cr, "swap")) return 1; if (!same(c, ref, "swap (other side)")) return 1; return 0;
  } else if (op == "ctor") { Buffer c(n); std::deque<uint8_t> e; if (!same(c, e, "construction") || c.buffer_size_ != n) { printf("VIOLATION: Buffer(n)\n"); return 1; } return 0;
  } else if (op == "dtor") { return 0;
  } else { fprintf(stderr, "unknown op %s\n", op.c_str()); return 2; }
  return same(b, ref, op.c_str()) ? 0 : 1;
}

// copy-assignment into a destination in an arbitrary representation state
static int run_assign_into(size_t cap, size_t r, size_t w, size_t cap2, size_t r2, size_t w2) {
  if (!(r <= w && w <= cap && r2 <= w2 && w2 <= cap2)) return 0;
  Buffer b(cap), c(cap2); std::deque<uint8_t> ref;
  b.read_index_ = r; b.write_index_ = w; for (size_t i = r; i < w; ++i) { b.buffer_ptr_[i] = pat(i); ref.push_back(pat(i)); }
  c.read_index_ = r2; c.write_index_ = w2; for (size_t i = r2; i < w2; ++i) c.buffer_ptr_[i] = pat(500 + i);
  c = b;
  if (!same(c, ref, "copy-assign into a used buffer")) return 1;
  if (ref.size()) c.readableBegin()[0] ^= 0xff;
  return same(b, ref, "write to the copy") ? 0 : 1;
}

int main(int argc, char **argv) {
  if (argc >= 8 && !strcmp(argv[1], "assign_into"))
    return run_assign_into(strtoull(argv[2], 0, 10), strtoull(argv[3], 0, 10), strtoull(argv[4], 0, 10), strtoull(argv[5], 0, 10), strtoull(argv[6], 0, 10), strtoull(argv[7], 0, 10));
  if (argc >= 7 && !strcmp(argv[1], "op"))
    return run_op(argv[2], strtoull(argv[3], 0, 10), strtoull(argv[4], 0, 10), strtoull(argv[5], 0, 10), strtoull(argv[6], 0, 10));
  if (argc >= 3 && !strcmp(argv[1], "search")) {
    // exhaustive small world: capacity 0..10, every (read, write), argument 0..12
    const char *ops[] = {"ensureWritableSize", "append", "hasWritten", "hasRead", "hasReadAll", "fetch", "shrink", "reset", "ctor_copy", "assign_copy", "ctor_move", "assign_move", "swap", "ctor"};
    for (const char *op : ops) {
      if (strcmp(argv[2], "all") && strcmp(argv[2], op)) continue;
      for (size_t cap = 0; cap <= 10; ++cap) for (size_t w = 0; w <= cap; ++w) for (size_t r = 0; r <= w; ++r) for (size_t n = 0; n <= 12; ++n)
        if (run_op(op, cap, r, w, n)) { printf("input: op %s cap=%zu read=%zu write=%zu n=%zu\n", op, cap, r, w, n); return 1; }
      // the two clamping operations take ANY size: also the ones next to SIZE_MAX (index + size must not wrap)
      if (!strcmp(op, "hasRead") || !strcmp(op, "hasWritten"))
        for (size_t cap = 0; cap <= 10; ++cap) for (size_t w = 0; w <= cap; ++w) for (size_t r = 0; r <= w; ++r) for (size_t d = 0; d <= 12; ++d)
          if (run_op(op, cap, r, w, (size_t)-1 - d)) { printf("input: op %s cap=%zu read=%zu write=%zu n=SIZE_MAX-%zu\n", op, cap, r, w, d); return 1; }
    }
    if (!strcmp(argv[2], "all") || !strcmp(argv[2], "cloneFrom") || !strcmp(argv[2], "assign_copy") || !strcmp(argv[2], "shrink"))
      for (size_t cap = 0; cap <= 6; ++cap) for (size_t w = 0; w <= cap; ++w) for (size_t r = 0; r <= w; ++r)
        for (size_t cap2 = 0; cap2 <= 6; ++cap2) for (size_t w2 = 0; w2 <= cap2; ++w2) for (size_t r2 = 0; r2 <= w2; ++r2)
          if (run_assign_into(cap, r, w, cap2, r2, w2)) { printf("input: assign_into src(cap=%zu r=%zu w=%zu) dst(cap=%zu r=%zu w=%zu)\n", cap, r, w, cap2, r2, w2); return 1; }
    return 0;
  }
  fprintf(stderr, "usage: op <name> <cap> <read> <write> <n> | search <op|all>\n"); return 2;
}
