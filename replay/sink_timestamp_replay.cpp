// Sink::updateTimestampStr: the cached date/second string must stand for the second of the record being printed, also when that second is
// EARLIER than the one formatted before (two threads racing across a second boundary sample the time before taking the log lock; clock steps).
#include <tbox/log/sink.h>
#include <cstdio>
#include <cstring>
#include <ctime>
using namespace tbox::log;
struct S : public Sink { virtual void onLogFrontEnd(const LogContent *) override {} };
static void fmt(uint32_t sec, char *out, size_t n) { time_t t = sec; struct tm tm; localtime_r(&t, &tm); strftime(out, n, "%F %H:%M:%S", &tm); }
int main() {
    S s; char want[64];
    const uint32_t secs[] = {1700000030u, 1700000029u, 1700000031u, 1699996400u, 5u, 4000000000u, 0u};
    for (uint32_t sec : secs) {
        s.updateTimestampStr(sec);
        fmt(sec, want, sizeof(want));
        if (strcmp(s.timestamp_str_, want) != 0) {
            printf("VIOLATION: record of second %u is printed with the cached string \"%s\" instead of \"%s\"\n", sec, s.timestamp_str_, want);
            return 1;
        }
    }
    printf("ok\n");
    return 0;
}
