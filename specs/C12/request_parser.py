"""C12 — http::server::RequestParser::parse (modules/http/server/request_parser.cpp), strings as SIZE-ONLY objects: what is decided is
totality and index safety for EVERY byte sequence and every carried-over state, not the content of the parsed request.

 parse   never throws (every substr / operator[] / conversion stays inside the string; no std::stoi any more [found: malformed
         Content-Length threw out of parse() - fixed cb7658c]), reads exactly the data_size bytes it was given, never reports more bytes
         consumed than it was given, leaves state_ a valid state, and terminates: the header loop strictly advances (variant
         size - pos), the Content-Length digit loop is bounded by the value's length.
         A start line is judged only once it is complete (first thing done in kInit is the CRLF search; without CRLF: 0 bytes consumed,
         state unchanged) [found: "GE" + "T / HTTP/1.1..." was rejected - fixed 12afb29].
Not decided: the content of method/url/version/headers/body (string content is abstract), segmentation independence as a whole-stream
property, server_imp.cpp (pipelining, response order, close handling).
"""
import os
from verif import UnitSpec, Target
from plugins import StdFunction, StdVector, OpaqueString, OpaqueTypes
TU = 'modules/http/server/request_parser.cpp'
R = {'http_server_RequestParser_parse': 'RP_parse', 'http_StringToMethod': 'StringToMethod', 'http_StringToUrlPath': 'StringToUrlPath', 'http_StringToHttpVer': 'StringToHttpVer', 'util_string_Strip': 'Strip'}
PRELUDE = r'''
typedef struct http_server_RequestParser RP; typedef struct http_Request Req;
#define T(x) ((x) != 0)
enum { S_INIT = 0, S_START = 1, S_HEADS = 2, S_ALL = 3, S_FAIL = 4 };
static struct v_str g_map_cell; static _Bool g_init0;
static _Bool g_cl_seen; static size_t g_cl0;       /* a Content-Length header was read in this call; the declared length at entry */
'''
EXTERN = r'''
int StringToMethod(struct v_str *s)
__CPROVER_assigns()
__CPROVER_ensures(__CPROVER_return_value >= 0 && __CPROVER_return_value <= 16)
;
_Bool StringToUrlPath(struct v_str *s, struct http_Url_Path *u)
__CPROVER_assigns(*u)
__CPROVER_ensures(u->path.size < V_MAXSZ && u->frag.size < V_MAXSZ)
;
int StringToHttpVer(struct v_str *s)
__CPROVER_assigns()
__CPROVER_ensures(__CPROVER_return_value >= 0 && __CPROVER_return_value <= 8)
;
struct v_str Strip(struct v_str *s)
__CPROVER_assigns()
__CPROVER_ensures(__CPROVER_return_value.size <= s->size)
;
struct v_str *v_map__index(struct v_map *m, struct v_str *k)
__CPROVER_assigns()
__CPROVER_ensures(__CPROVER_return_value == &g_map_cell)
;
'''
SPEC = {
    ('prelude',): PRELUDE, ('after_protos',): EXTERN,
    ('stub', 'StringToMethod'): True, ('stub', 'StringToUrlPath'): True, ('stub', 'StringToHttpVer'): True, ('stub', 'Strip'): True,
    ('contract', 'RP_parse'): r'''
__CPROVER_requires(__CPROVER_is_fresh(self, sizeof(*self)) && self->state_ >= S_INIT && self->state_ <= S_FAIL && data_size < V_MAXSZ && __CPROVER_is_fresh(data_ptr, data_size ? data_size : 1))
__CPROVER_requires((self->sp_request_ == 0 && self->state_ == S_INIT) || __CPROVER_is_fresh(self->sp_request_, sizeof(Req)))
__CPROVER_requires(__exc == 0)
__CPROVER_assigns(__exc, v_find2_hit, g_init0, g_cl_seen, g_cl0, g_map_cell, self->state_, self->sp_request_, self->content_length_; self->sp_request_ != 0: *self->sp_request_)
__CPROVER_ensures(__exc == 0)                                                        /* total: no exception for any input */
__CPROVER_ensures(__CPROVER_return_value <= data_size)                               /* never claims more than it was given */
__CPROVER_ensures(self->state_ >= S_INIT && self->state_ <= S_FAIL && self->sp_request_ != 0)
/* a request with a declared body length is complete only when the whole body was among the bytes given: the body is part of what is consumed */
__CPROVER_ensures((__CPROVER_old(self->state_) != S_ALL && self->state_ == S_ALL && self->content_length_ != (size_t)-1) ==> self->content_length_ <= __CPROVER_return_value)
/* resumable: what an earlier segment declared (or did not declare) as the body length is still in force when parsing resumes in a later segment, unless
   this segment carries a Content-Length header itself */
__CPROVER_ensures((__CPROVER_old(self->state_) != S_INIT && !T(g_cl_seen)) ==> self->content_length_ == __CPROVER_old(self->content_length_))
__CPROVER_ensures((__CPROVER_old(self->state_) == S_INIT && self->state_ == S_FAIL) ==> v_find2_hit == 1)                                /* a start line is rejected only after its terminating CRLF has been seen */
__CPROVER_ensures((__CPROVER_old(self->state_) == S_INIT && self->state_ == S_INIT) ==> __CPROVER_return_value == 0)       /* incomplete start line: nothing consumed, still waiting */
''',
    ('ghost', 'RP_parse', 'entry'): 'v_find2_hit = 0; g_init0 = (self->state_ == S_INIT); g_cl_seen = 0; g_cl0 = self->content_length_;',
    ('ghost', 'RP_parse', 'before_loop:2'): 'g_cl_seen = 1;',
    ('loop', 'RP_parse', 1): r'''
__CPROVER_assigns(pos, __exc, v_find2_hit, g_cl_seen, g_map_cell, self->state_, self->content_length_, self->sp_request_->headers)
__CPROVER_loop_invariant(pos <= str.size && str.size == data_size && __exc == 0 && self->state_ == S_START && self->sp_request_ != 0 && (T(g_init0) ==> v_find2_hit == 1)
  && (g_cl_seen == 0 || g_cl_seen == 1) && ((!T(g_cl_seen) && !T(g_init0)) ==> self->content_length_ == g_cl0))
__CPROVER_decreases(str.size - pos)
''',
    ('loop', 'RP_parse', 2): r'''
__CPROVER_assigns(__i2, length, is_valid)
__CPROVER_loop_invariant(__i2 <= __r2->size && __r2 == &head_value && (is_valid == 0 || is_valid == 1))
__CPROVER_decreases(__r2->size - __i2)
''',
}
H = lambda body: '\nvoid H(void)\n{\n' + body + '\n  __CPROVER_assert(0, "VACUITY-CANARY");\n}\n'
UNITS = [UnitSpec(name='request_parser', tu=TU, filter='tbox::http', more_filters=[(TU, 'tbox::util')], rename=R, spec=SPEC,
    plugins=[StdFunction(), StdVector(), OpaqueString(), OpaqueTypes({r'^std::map<.*>$': 'v_map'})], model_headers=['fn_model.h', 'vec_model.h', 'misc_model.h'],
    emit=['tbox::http::server::RequestParser::parse'],
    targets=[Target('parse', H('  RP *p; const void *d; size_t n; RP_parse(p, d, n);'), enforce='RP_parse', replace=['StringToMethod', 'StringToUrlPath', 'StringToHttpVer', 'Strip', 'v_map__index'], timeout=600, sat='cadical',
                    clause='parse: total (no exception, no out-of-range index), consumed <= given, valid state, terminating; start line judged only when complete')])]
def native_replay(u, t, o, w, workdir):
    import replay as rp
    L = '/repo/_build/modules'
    libs = ['%s/http/libtbox_http.a' % L, '%s/network/libtbox_network.a' % L, '%s/event/libtbox_event.a' % L, '%s/util/libtbox_util.a' % L, '%s/base/libtbox_base.a' % L, '-ldl']
    return rp.attempt('http_parser', ['modules/http/server/request_parser.cpp'], os.path.join(workdir, 'replay'), [('scenario', [])], extra=libs)
