/* opaque std::string and nlohmann::json models (A-models) */
#ifndef V_MISC_MODEL_H
#define V_MISC_MODEL_H
struct v_str { size_t size; int tag; };          /* contents abstract: equal strings have equal (size, tag) */
static inline _Bool v_str_eq(const struct v_str *a, const struct v_str *b) { return a->size == b->size && a->tag == b->tag; }
struct v_json { char opaque; };
static inline _Bool v_json_contains(const struct v_json *j) { (void)j; _Bool r; return r; }      /* any answer */
static struct v_json v_json_any;
static inline struct v_json *v_json_index(const struct v_json *j) { (void)j; return &v_json_any; }
#endif
