// native replay driver for network::DnsRequest reply parsing: hostile / truncated datagrams fed to onUdpRecv() of a real
// DnsRequest with one outstanding lookup; each case runs in a child process (stack exhaustion = SIGSEGV, hang = watchdog).
#include <cstdio>
#include <cstdlib>
#include <cstring>
#include <vector>
#include <string>
#include <unistd.h>
#include <signal.h>
#include <sys/wait.h>
#include <sys/resource.h>
#include <tbox/event/loop.h>
#include <tbox/network/dns_request.h>
using namespace tbox; using namespace tbox::network;
struct Probe : public DnsRequest { using DnsRequest::DnsRequest; using DnsRequest::onUdpRecv; };

static int run_case(const std::vector<uint8_t> &tail, const char *what) {
  pid_t pid = fork();
  if (pid == 0) {
    struct rlimit rl = {8u << 20, 8u << 20}; setrlimit(RLIMIT_STACK, &rl); alarm(10);
    event::Loop *loop = event::Loop::New(); int calls = 0; DnsRequest::Result last;
    { Probe dns(loop, {IPAddress::FromString("192.0.2.1")});
      auto id = dns.request(DomainName("a.b"), [&](const DnsRequest::Result &r) { ++calls; last = r; });
      std::vector<uint8_t> dg = {(uint8_t)(id >> 8), (uint8_t)id, 0x80, 0x00};   // id, flags: response, rcode 0
      dg.insert(dg.end(), tail.begin(), tail.end());
      uint8_t *exact = (uint8_t *)malloc(dg.size()); memcpy(exact, dg.data(), dg.size());
      dns.onUdpRecv(exact, dg.size(), SockAddr());
      free(exact);
      if (calls > 1) { printf("VIOLATION: lookup callback invoked %d times for one reply (%s)\n", calls, what); _exit(1); }
      for (auto &a : last.a_vec) { (void)a; }
      if (calls == 1 && !last.a_vec.empty() && tail.size() < 12 + 4) { printf("VIOLATION: an address was reported from a reply too short to contain one (%s)\n", what); _exit(1); } }
    delete loop; _exit(0);
  }
  int st = 0; waitpid(pid, &st, 0);
  if (WIFSIGNALED(st)) { printf("VIOLATION: reply parsing died with signal %d (%s) on %s\n", WTERMSIG(st), WTERMSIG(st) == SIGSEGV ? "stack exhausted / invalid access" : WTERMSIG(st) == SIGALRM ? "does not terminate" : "abort", what); return 1; }
  return WEXITSTATUS(st) ? 1 : 0;
}
int main(int, char **) {
  struct { std::vector<uint8_t> t; const char *w; } cases[] = {
    {{0, 1, 0, 0, 0, 0, 0, 0, 0xC0, 0x0C}, "question name = compression pointer to itself (C0 0C)"},
    {{0, 1, 0, 0, 0, 0, 0, 0, 0xC0, 0x0E, 0, 0, 0xC0, 0x0C}, "two compression pointers pointing at each other"},
    {{0, 0, 0, 1, 0, 0, 0, 0, 0xC0, 0x0C, 0, 1, 0, 1}, "answer section cut inside the fixed header"},
    {{0, 1, 0, 1, 0, 0, 0, 0, 3, 'w', 'w', 'w', 5, 'b', 'a'}, "label cut in the middle"},
    {{0, 1, 0, 1, 0, 0, 0, 0, 3, 'w', 'w', 'w', 5, 'b', 'a', 'i', 'd', 'u'}, "name cut on a label boundary"},
    {{}, "header only (4 bytes)"}, {{0, 1}, "counts cut"},
    {{0xff, 0xff, 0xff, 0xff, 0, 0, 0, 0}, "65535 questions and answers, nothing behind"},
  };
  for (auto &c : cases) if (run_case(c.t, c.w)) { printf("input: %s\n", c.w); return 1; }
  return 0;
}
