#!/bin/bash
# try_seed.sh <seed dir name under /verif/seeded> <property id> [extra check args]: run a check against a scratch worktree with the seed applied
S=$1; P=$2; shift 2
WT=${SEED_WT:-/tmp/scr/wt}
[ -d $WT ] || git -C /repo worktree add --detach $WT HEAD -q
git -C $WT checkout -q --detach $(git -C /repo rev-parse HEAD) && git -C $WT checkout -q -- . && git -C $WT apply /verif/seeded/$S/patch.diff || { echo "cannot apply"; exit 2; }
cd /verif && VERIF_REPO=$WT timeout 1500 ./check $P "$@" 2>&1 | grep -v "^  \|UNDECIDED: .*UNKNOWN" | tail -40
git -C $WT checkout -q -- .
