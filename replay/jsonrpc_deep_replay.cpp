// A hostile JSON-RPC message: arrays nested 100000 deep (200 KB).  It must be rejected or ignored - not crash the process.
#include <tbox/jsonrpc/protos/raw_stream_proto.h>
#include <sys/wait.h>
#include <unistd.h>
#include <cstdio>
#include <string>
using namespace tbox::jsonrpc;
int main() {
    const size_t depths[] = {10, 1000, 100000, 400000};
    for (size_t depth : depths) {
        pid_t pid = fork();
        if (pid == 0) {
            RawStreamProto proto;
            proto.setRecvCallback([](int, const std::string &, const tbox::Json &) {}, [](int, int, const tbox::Json &) {});
            std::string s(depth, '['); s += std::string(depth, ']');
            proto.onRecvData(s.data(), s.size());
            _exit(0);
        }
        int st = 0; waitpid(pid, &st, 0);
        if (WIFSIGNALED(st) || WEXITSTATUS(st) != 0) {       // a sanitizer build reports the stack overflow and exits non-zero instead of dying by SIGSEGV
            printf("VIOLATION: a message of %zu nested arrays (%zu bytes) crashed the process (%s %d): unbounded recursion in Proto::onRecvJson\n", depth, 2 * depth, WIFSIGNALED(st) ? "signal" : "exit status", WIFSIGNALED(st) ? WTERMSIG(st) : WEXITSTATUS(st));
            return 1;
        }
    }
    printf("ok\n");
    return 0;
}
