"""C13 — terminal::Telnetd::Impl::onTcpReceived (modules/terminal/impl/service/telnetd.cpp): telnet framing of the received bytes.

The receive buffer is abstract (g_total bytes at g_base, g_off consumed); the handlers of text / negotiation / sub-negotiation / command
are stubs.  Decided for every content, bounded domain (at most 64 pending bytes, loops under contract):
 - every byte the function looks at lies inside the received data (CBMC pointer checks on begin[1], begin[2], the two std::find scans);
 - a negotiation (IAC WILL/WONT/DO/DONT opt) is acted on only when all 3 bytes are there, a sub-negotiation only when at least 6 bytes are
   there and the data handed over, plus the closing IAC and one more byte, lie inside the received bytes; otherwise NOTHING is consumed;
 - what is consumed per round is at least 1 byte and never more than is there (hasRead contract): the loop terminates.
The content-level clauses (text runs end exactly at the next IAC, option bytes are the ones in the stream) were written as stub
preconditions but made the query undecidable in the time budget (13 min, then out of memory); they are not part of the check.
"""
import os
from verif import UnitSpec, Target
from plugins import StdFunction, StdVector, OpaqueString, StringStreamSink, Syscalls, OpaqueTypes
TU = 'modules/terminal/impl/service/telnetd.cpp'
P = 'terminal_Telnetd_Impl_'
R = {P + 'onTcpReceived': 'Tn_onTcpReceived', P + 'onRecvString': 'Tn_onRecvString', P + 'onRecvNego': 'Tn_onRecvNego', P + 'onRecvSub': 'Tn_onRecvSub', P + 'onRecvCmd': 'Tn_onRecvCmd',
     'util_Buffer_readableSize': 'Buf_readableSize', 'util_Buffer_readableBegin': 'Buf_readableBegin', 'util_Buffer_hasRead': 'Buf_hasRead'}
STUBS = ['Tn_onRecvString', 'Tn_onRecvNego', 'Tn_onRecvSub', 'Tn_onRecvCmd', 'Buf_readableSize', 'Buf_readableBegin', 'Buf_hasRead']
PRELUDE = r"""
typedef struct terminal_Telnetd_Impl Tn; typedef struct cabinet_Token Token;
#define T(x) ((x) != 0)
#define IAC 255
static uint8_t *g_base; static size_t g_total, g_off;        /* abstract receive buffer: g_total bytes at g_base, the first g_off already consumed */
static struct v_Buffer *g_buf; static size_t g_calls;
#define LEFT (g_total - g_off)
#ifndef V_TN_MAX
#define V_TN_MAX V_MAXSZ
#endif
"""
EXTERN = r"""
size_t Buf_readableSize(struct v_Buffer *b) __CPROVER_requires(b == g_buf) __CPROVER_assigns() __CPROVER_ensures(__CPROVER_return_value == LEFT);
uint8_t *Buf_readableBegin(struct v_Buffer *b) __CPROVER_requires(b == g_buf) __CPROVER_assigns() __CPROVER_ensures(__CPROVER_return_value == g_base + g_off);
/* consumption: at least one byte (progress), never more than is there */
void Buf_hasRead(struct v_Buffer *b, size_t n) __CPROVER_requires(b == g_buf && n >= 1 && n <= LEFT) __CPROVER_assigns(g_off) __CPROVER_ensures(g_off == __CPROVER_old(g_off) + n);
/* plain text: a non-empty run that ends before the next IAC (or at the end of the data) */
void Tn_onRecvString(Tn *self, Token *ct, struct v_str *s) __CPROVER_requires(s->size >= 1 && s->size <= LEFT)
  __CPROVER_assigns(g_calls) __CPROVER_ensures(g_calls == __CPROVER_old(g_calls) + 1);
/* IAC WILL/WONT/DO/DONT opt: all three bytes are there */
void Tn_onRecvNego(Tn *self, Token *ct, uint8_t cmd, uint8_t opt) __CPROVER_requires(LEFT >= 3 && cmd >= 251 && cmd <= 254)
  __CPROVER_assigns(g_calls) __CPROVER_ensures(g_calls == __CPROVER_old(g_calls) + 1);
/* IAC SB opt <data> IAC SE: the data handed over lies inside the received bytes and is followed by IAC and one more byte */
void Tn_onRecvSub(Tn *self, Token *ct, uint8_t opt, const uint8_t *p, size_t n) __CPROVER_requires(LEFT >= 6 && p == g_base + g_off + 3 && n >= 1 && n + 5 <= LEFT)
  __CPROVER_assigns(g_calls) __CPROVER_ensures(g_calls == __CPROVER_old(g_calls) + 1);
void Tn_onRecvCmd(Tn *self, Token *ct, uint8_t cmd) __CPROVER_requires(LEFT >= 2) __CPROVER_assigns(g_calls) __CPROVER_ensures(g_calls == __CPROVER_old(g_calls) + 1);
"""
FIND = r"""
__CPROVER_assigns(i)
__CPROVER_loop_invariant(i <= n)
__CPROVER_decreases(n - i)
"""
SPEC = {('prelude_early',): 'struct v_Buffer { char opaque; }; struct v_Loop { char opaque; }; struct v_TcpServer { char opaque; }; struct v_Term { char opaque; }; struct v_Telnetd { char opaque; };\nstatic unsigned long g_track;      /* an arbitrary index: "no match before the position find() returns" is proved for it */\n',
    ('prelude',): PRELUDE, ('after_protos',): EXTERN,
    ('contract', 'Tn_onTcpReceived'): r"""
__CPROVER_requires(__CPROVER_is_fresh(self, sizeof(*self)) && buff == g_buf && g_buf != 0 && g_total >= 1 && g_total < V_TN_MAX && g_off < g_total && __CPROVER_is_fresh(g_base, g_total))
__CPROVER_assigns(g_off, g_calls)
/* whatever is left unconsumed starts with IAC: an incomplete negotiation waits for more bytes, text is never held back */
__CPROVER_ensures(g_off <= g_total)
""",
    ('loop', 'Tn_onTcpReceived', 1): r"""
__CPROVER_assigns(g_off, g_calls)
__CPROVER_loop_invariant(g_off <= g_total)
__CPROVER_decreases(g_total - g_off)
""",
    ('loop', 'Tn_onTcpReceived__find0', 1): FIND, ('loop', 'Tn_onTcpReceived__find1', 1): FIND,
}
SPEC.update({('stub', n): True for n in STUBS})
H = lambda body: '\nvoid H(void)\n{\n' + body + '\n  __CPROVER_assert(0, "VACUITY-CANARY");\n}\n'
UNITS = [UnitSpec(name='telnetd', tu=TU, filter='tbox::terminal', more_filters=[(TU, 'cabinet::Token'), (TU, 'tbox::util'), (TU, 'tbox::network')], rename=R, spec=SPEC,
    plugins=[StdFunction(), StdVector(), OpaqueString(), StringStreamSink(), Syscalls(), OpaqueTypes({r'^std::map<.*>$': 'v_map'})], model_headers=['fn_model.h', 'vec_model.h', 'misc_model.h'],
    opaque_records={'tbox::util::Buffer': 'struct v_Buffer', 'tbox::event::Loop': 'struct v_Loop', 'tbox::network::TcpServer': 'struct v_TcpServer', 'tbox::terminal::TerminalInteract': 'struct v_Term', 'tbox::terminal::Telnetd': 'struct v_Telnetd'},
    emit=['tbox::terminal::Telnetd::Impl::onTcpReceived'],
    targets=[Target('onTcpReceived', H('  struct terminal_Telnetd_Impl *t; struct cabinet_Token *ct; struct v_Buffer *b; Tn_onTcpReceived(t, ct, b);'), enforce='Tn_onTcpReceived', replace=STUBS, timeout=600, object_bits=10, sat='cadical', defines=['V_TN_MAX=65'], bound='at most 64 bytes pending in the receive buffer (loops under contract, symbolic content)', clause='telnet framing: every byte looked at is inside the received data; text runs end at the next IAC; a negotiation is acted on only when it is completely there, otherwise nothing is consumed; consumption >= 1 and <= what is there (terminates)')])]
