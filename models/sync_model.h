/* std::mutex / recursive_mutex / lock_guard / unique_lock / condition_variable / thread models (A-models).
 * The verifier sees ONE thread: a mutex is a ghost counter "how often does the thread under analysis hold it".
 * What this decides is lock DISCIPLINE of sequential code (guarded state only touched with the lock held, no unlock of a lock
 * not held, no blocking acquisition where the contract forbids blocking, lock released on every path) - not interleavings. */
#ifndef V_SYNC_MODEL_H
#define V_SYNC_MODEL_H
struct v_mutex { int held; };
struct v_rmutex { int held; };
struct v_cv { char opaque; };
struct v_lguard { char opaque; };
struct v_thread { _Bool joinable; };
struct v_ulock { struct v_mutex *m; _Bool owns; };
static struct v_mutex *v_noblock_mutex;      /* ghost: a mutex on which the function under contract must not BLOCK (lock-order contract) */
static inline void v_mutex_init(struct v_mutex *m) { m->held = 0; }
static inline void v_rmutex_init(struct v_rmutex *m) { m->held = 0; }
static inline void v_mutex_lock(struct v_mutex *m) {
  __CPROVER_assert(m->held == 0, "std::mutex::lock: not already held by this thread (self-deadlock)");
  __CPROVER_assert(m != v_noblock_mutex, "lock-order contract: no blocking lock() of this mutex here (try_lock only)");
  m->held = 1; }
static inline void v_mutex_unlock(struct v_mutex *m) { __CPROVER_assert(m->held == 1, "std::mutex::unlock: held by this thread"); m->held = 0; }
static _Bool v_no_contention;               /* ghost: no other thread holds or wants any mutex (try_lock of a free mutex then succeeds) */
static inline _Bool v_mutex_try_lock(struct v_mutex *m) { _Bool r; if (m->held) return 0; if (v_no_contention) r = 1; if (r) m->held = 1; return r; }
static inline void v_rmutex_lock(struct v_rmutex *m) { __CPROVER_assume(m->held < 1000); m->held++; }
static inline void v_rmutex_unlock(struct v_rmutex *m) { __CPROVER_assert(m->held > 0, "std::recursive_mutex::unlock: held by this thread"); m->held--; }
static inline void v_ulock_lock(struct v_ulock *l) { __CPROVER_assert(!l->owns, "unique_lock::lock: not owning"); v_mutex_lock(l->m); l->owns = 1; }
static inline void v_ulock_unlock(struct v_ulock *l) { __CPROVER_assert(l->owns, "unique_lock::unlock: owning"); v_mutex_unlock(l->m); l->owns = 0; }
static inline void v_ulock_release(struct v_ulock *l) { if (l->owns) v_mutex_unlock(l->m); l->owns = 0; }
static inline void v_cv_notify(struct v_cv *c) { (void)c; }
static inline struct v_thread v_thread_spawn(void) { struct v_thread t; t.joinable = 1; return t; }
#ifdef V_THREAD_NEW_OPAQUE
/* the new thread object is only stored, never looked into, by the function under contract (allocation inside a contracted loop is not supported by dfcc) */
static inline struct v_thread *v_thread_new(void) { struct v_thread *t; __CPROVER_assume(t != NULL); return t; }
#else
static inline struct v_thread *v_thread_new(void) { struct v_thread *t = (struct v_thread *)v_alloc_ok(sizeof(struct v_thread)); t->joinable = 1; return t; }
#endif
static inline void v_thread_init(struct v_thread *t) { t->joinable = 0; }
static inline void v_thread_swap(struct v_thread *a, struct v_thread *b) { struct v_thread t = *a; *a = *b; *b = t; }
static inline _Bool v_thread_joinable(const struct v_thread *t) { return t->joinable; }
#endif
