"""C09 rests on util::AsyncPipe (units of C10): the asynchronous sinks push every record through it, so the same units are part of
this property's check (a stale stop request after cleanup, for instance, silently drops every record after a re-enable)."""
import os, importlib.util
from verif import VERIF
def _load(prop, name):
    s = importlib.util.spec_from_file_location('dep_%s_%s' % (prop, name), os.path.join(VERIF, 'specs', prop, name + '.py'))
    m = importlib.util.module_from_spec(s); s.loader.exec_module(m); return m
UNITS = _load('C10', 'async_pipe').UNITS
