"""Native replay: build a per-unit driver against the REAL sources of /repo's working tree
(g++ -std=gnu++11 -DNDEBUG -fno-access-control, ASan+UBSan) and run it on an input taken from the
verifier's counterexample (or, failing that, found by the driver's own boundary/seeded search)."""
import os, sys, json, subprocess, re, shutil
HERE = os.path.dirname(os.path.abspath(__file__))
VERIF = os.path.dirname(HERE)
REPO = os.environ.get('VERIF_REPO', '/repo')

CXXFLAGS = ['-std=gnu++11', '-DNDEBUG', '-O1', '-g', '-fno-access-control', '-fsanitize=address,undefined',
            '-fno-sanitize-recover=all', '-I' + REPO + '/modules', '-I' + REPO + '/3rd-party', '-w', '-pthread']

def build_driver(name, sources, workdir, extra=()):
    """compile /verif/replay/<name>_replay.cpp together with the listed real sources (paths relative to /repo)"""
    os.makedirs(workdir, exist_ok=True)
    exe = os.path.join(workdir, name + '_replay')
    cmd = ['g++'] + CXXFLAGS + [os.path.join(VERIF, 'replay', name + '_replay.cpp')] + [os.path.join(REPO, s) for s in sources] + list(extra) + ['-o', exe]
    p = subprocess.run(cmd, stdout=subprocess.PIPE, stderr=subprocess.STDOUT, universal_newlines=True, timeout=600)
    if p.returncode != 0:
        return None, p.stdout[-3000:]
    return exe, ' '.join(cmd)

def run_driver(exe, args, timeout=60):
    env = dict(os.environ); env['ASAN_OPTIONS'] = 'detect_leaks=0:abort_on_error=0'; env['UBSAN_OPTIONS'] = 'print_stacktrace=0'
    try:
        p = subprocess.run([exe] + [str(a) for a in args], stdout=subprocess.PIPE, stderr=subprocess.STDOUT, universal_newlines=True,
                           timeout=timeout, env=env, errors='replace')
        return p.returncode, p.stdout[-4000:]
    except subprocess.TimeoutExpired as e:
        return -9, 'timeout (hang) after %ss' % timeout

def attempt(name, sources, workdir, arglists, extra=()):
    """try the argument lists in order; returns dict for the replay file"""
    exe, info = build_driver(name, sources, workdir, extra)
    if exe is None:
        return {'reproduced': False, 'error': 'driver build failed', 'log': info}
    tried = []
    for src, args in arglists:
        rc, out = run_driver(exe, args)
        tried.append({'input_source': src, 'args': [str(a) for a in args], 'rc': rc})
        # a driver's own crash is not a reproduction: the output must name a violated postcondition or a sanitizer report in /repo code
        if rc != 0 and ('VIOLATION' in out or (REPO + '/modules') in out or rc == -9):
            return {'reproduced': True, 'input_source': src, 'driver': name + '_replay.cpp', 'args': [str(a) for a in args], 'rc': rc,
                    'output': out, 'build': info}
    return {'reproduced': False, 'tried': tried[:20], 'build': info}

def tsan_attempt(name, sources, workdir, extra=(), timeout=180):
    """build /verif/replay/tsan/<name>.cpp with the listed real sources under ThreadSanitizer and run it: a data-race report that names
    code under /repo/modules is the reproduction (used for failed guarded-by / lock-discipline obligations)"""
    os.makedirs(workdir, exist_ok=True)
    exe = os.path.join(workdir, name + '_tsan')
    inc = ['-I' + REPO + '/modules', '-I' + REPO + '/3rd-party'] + (['-I' + os.path.join(REPO, '_build/include')] if os.path.isdir(os.path.join(REPO, '_build/include')) else ['-I/repo/_build/include'])
    cmd = ['clang++', '-std=gnu++11', '-g', '-O1', '-fsanitize=thread', '-w', '-pthread'] + inc + [os.path.join(VERIF, 'replay', 'tsan', name + '.cpp')] + [os.path.join(REPO, s) for s in sources] + list(extra) + ['-ldl', '-o', exe]
    p = subprocess.run(cmd, stdout=subprocess.PIPE, stderr=subprocess.STDOUT, universal_newlines=True, timeout=600)
    if p.returncode != 0: return {'reproduced': False, 'error': 'tsan driver build failed', 'log': p.stdout[-3000:]}
    try:
        r = subprocess.run([exe], stdout=subprocess.PIPE, stderr=subprocess.STDOUT, universal_newlines=True, timeout=timeout, errors='replace')
        out, rc = r.stdout, r.returncode
    except subprocess.TimeoutExpired:
        return {'reproduced': True, 'input_source': 'tsan-driver', 'driver': 'tsan/' + name + '.cpp', 'args': [], 'rc': -9, 'output': 'hang: driver did not finish in %ss' % timeout, 'build': ' '.join(cmd)}
    if 'ThreadSanitizer: data race' in out and (REPO + '/modules') in out:
        i = out.index('WARNING: ThreadSanitizer')
        return {'reproduced': True, 'input_source': 'tsan-driver', 'driver': 'tsan/' + name + '.cpp', 'args': [], 'rc': rc, 'output': out[i:i + 3500], 'build': ' '.join(cmd)}
    return {'reproduced': False, 'tried': [{'input_source': 'tsan-driver', 'rc': rc}], 'build': ' '.join(cmd)}

def steps_values(w, fn, lhs):
    """values assigned to `lhs` inside function `fn` along the counterexample trace, in order"""
    return [v for (f, l, v) in w.get('steps', []) if f == fn and l == lhs]

def to_int(v, default=0):
    if v is None: return default
    m = re.match(r'^\(?(-?\d+)', str(v).replace('ul', '').replace('l', ''))
    if m: return int(m.group(1))
    if str(v) in ('TRUE', 'true'): return 1
    if str(v) in ('FALSE', 'false'): return 0
    return default

def replay(prop, path):
    """./check <ID> --replay <file>: re-run the recorded native replay; exit 1 if it reproduces"""
    rec = json.load(open(path))
    sys.path.insert(0, HERE)
    import verif
    units = [u for u in verif.load_units(prop) if u.name == rec.get('unit')]
    if not units:
        print('replay: unit %s not found' % rec.get('unit')); return 2
    u = units[0]
    nr = [r for r in rec.get('native_replay', []) if r.get('reproduced')]
    print('replay of %s/%s: failed obligations: %s' % (rec['unit'], rec['target'], ', '.join(o['obligation'] for o in rec['failed_obligations'][:6])))
    if not nr:
        print('no native failing input recorded (no-failing-input-found); solver output is in the replay file'); return 0
    r = nr[0]
    mod = u.module
    srcs = getattr(mod, 'REPLAY_SOURCES', [u.tu])
    workdir = os.path.join(verif.WORK, prop + '_replay')
    exe, info = build_driver(r['driver'].replace('_replay.cpp', ''), srcs, workdir)
    if exe is None:
        print('driver build failed:\n' + info); return 2
    rc, out = run_driver(exe, r['args'])
    print(out)
    shutil.rmtree(workdir, ignore_errors=True)
    if rc != 0:
        print('REPRODUCED (rc=%d) with args %s' % (rc, ' '.join(r['args']))); return 1
    print('not reproduced on the current tree'); return 0
