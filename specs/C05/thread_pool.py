"""C05 — eventx::ThreadPool (modules/eventx/thread_pool.cpp), sequential contracts + lock discipline (one thread visible).

 guarded-by     all_threads_stop_flag and idle_thread_num are only read or written with d_->lock held, in every function of the unit
                (printer-inserted obligation at each access).  [found: cleanup()/initialize() wrote the flag outside the lock - fixed e4e3e41]
 popOneTask     PRE lock held.  The FRONT token of the first non-empty priority level (0 = highest) is popped and released from the cabinet;
                no level is touched when all are empty; other levels unchanged.
 cancel         takes the lock; a task being executed: 2; a waiting task is found at WHATEVER level it waits (tracked level/position) and
                removed from that level, released from the cabinet and its record returned to the pool exactly once: 0; lock released.
 threadProc     a worker: every ++idle_thread_num is undone before the worker leaves or runs a task (idle count restored on every path);
                the stop flag is examined after every wake-up, under the lock; a task taken is registered in the running set before and
                removed after its body, the body runs exactly once with the lock NOT held, the completion callback is posted to the loop
                after the body (thread-safe entry point), the task record returns to the pool under the lock; lock never held on exit.
 initialize     the stop flag is cleared under the lock BEFORE the first worker is created; min/max validated.
 cleanup        waiting tasks dropped under the lock, stop flag raised under the lock, every worker joined (lock not held) and deleted.
Not decided: interleavings, that waits end (liveness), the cabinet / object pool / std::set themselves (opaque stubs).
"""
import os, re
from verif import UnitSpec, Target
from plugins import StdFunction, StdVector, StdArray, Sync, Chrono, StringStreamSink, Syscalls, OpaqueString, OpaqueTypes

TU = 'modules/eventx/thread_pool.cpp'
C = 'tbox::eventx::ThreadPool::'
P = 'eventx_ThreadPool_'
R = {P + 'execute__tbox_eventx_ThreadPool_NonReturnFuncrr_tbox_eventx_ThreadPool_NonReturnFuncrr_int': 'TP_execute', P + 'cancel': 'TP_cancel', P + 'popOneTask': 'TP_popOneTask', P + 'threadProc': 'TP_threadProc', P + 'cleanup': 'TP_cleanup', P + 'initialize': 'TP_initialize',
     P + 'createWorker': 'TP_createWorker', P + 'shouldThreadExitWaiting': 'TP_shouldExit',
     'event_Loop_runInLoop__Ktbox_event_Loop_Funcr_Kstd_stringr': 'Loop_runInLoop_c', 'event_Loop_runInLoop__tbox_event_Loop_Funcrr_Kstd_stringr': 'Loop_runInLoop_m',
     'cabinet_Token_ctor__Ktbox_cabinet_Tokenr': 'Token_copy'}
EARLY = 'struct v_Loop { char opaque; };\n#define V_EQ_cabinet_Token(a, b) ((a)->id_ == (b)->id_ && (a)->pos_ == (b)->pos_)    /* Token::operator== (cabinet_token.h:43,47) */\n'
PRELUDE = r'''
typedef struct eventx_ThreadPool TP; typedef struct eventx_ThreadPool_Data Data; typedef struct cabinet_Token Token; typedef struct eventx_ThreadPool_Task Task; typedef struct v_vec_cabinet_Token TQ;
#define T(x) ((x) != 0)
#define LV(d, i) ((d)->undo_tasks_token.e[i])
static TP *g_tp;
static size_t g_lvl, g_pos; static Token g_tok;          /* cancel: where the token waits */
static _Bool g_in_doing;                                 /* cancel: the token is in the running set */
static size_t g_cab_frees, g_pool_frees, g_body_calls, g_posted, g_inserted, g_erased;
static Task *g_cab_result; static Token g_freed_tok;
#ifndef V_QMAX
#define V_QMAX V_MAXSZ
#endif
'''
EXTERN_COMMON = r'''
long v_set__find(struct v_set *s, Token *t)
__CPROVER_requires(g_tp->d_->lock.held == 1)
__CPROVER_assigns()
__CPROVER_ensures((__CPROVER_return_value == 0) == !T(g_in_doing))
;
long v_set__end(struct v_set *s)
__CPROVER_assigns()
__CPROVER_ensures(__CPROVER_return_value == 0)
;
void v_set__insert(struct v_set *s, Token *t)
__CPROVER_requires(g_tp->d_->lock.held == 1 && g_inserted == g_erased)
__CPROVER_assigns(g_inserted)
__CPROVER_ensures(g_inserted == __CPROVER_old(g_inserted) + 1)
;
void v_set__erase(struct v_set *s, Token *t)
__CPROVER_requires(g_tp->d_->lock.held == 1 && g_inserted == g_erased + 1 && g_body_calls == g_inserted)      /* only after the body has run */
__CPROVER_assigns(g_erased)
__CPROVER_ensures(g_erased == __CPROVER_old(g_erased) + 1)
;
Task *v_taskcab__free(struct v_taskcab *c, Token *t)
__CPROVER_requires(g_tp->d_->lock.held == 1 && __CPROVER_r_ok(t, sizeof(Token)))
__CPROVER_assigns(g_cab_frees, g_freed_tok)
__CPROVER_ensures(g_cab_frees == __CPROVER_old(g_cab_frees) + 1 && g_freed_tok.id_ == t->id_ && g_freed_tok.pos_ == t->pos_ && __CPROVER_return_value == g_cab_result)
;
size_t v_taskcab__size(struct v_taskcab *c)
__CPROVER_requires(g_tp->d_->lock.held == 1)
__CPROVER_assigns()
__CPROVER_ensures(1)
;
size_t v_thrcab__size(struct v_thrcab *c)
__CPROVER_requires(g_tp->d_->lock.held == 1)
__CPROVER_assigns()
__CPROVER_ensures(1)
;
void v_pool__free(struct v_pool *p, Task *t)
__CPROVER_requires(g_tp->d_->lock.held == 1)
__CPROVER_assigns(g_pool_frees)
__CPROVER_ensures(g_pool_frees == __CPROVER_old(g_pool_frees) + 1)
;
'''
GUARD = {('guarded_by', 'eventx_ThreadPool_Data'): {'all_threads_stop_flag': 'B->lock.held == 1', 'idle_thread_num': 'B->lock.held == 1', 'doing_tasks_token': 'B->lock.held == 1', 'undo_tasks_token': 'B->lock.held == 1', 'undo_tasks_cabinet': 'B->lock.held == 1', 'threads_cabinet': 'B->lock.held == 1', 'undo_task_peak_num_': 'B->lock.held == 1', 'task_pool': 'B->lock.held == 1'}}
TP_FRESH = '__CPROVER_requires(__CPROVER_is_fresh(self, sizeof(*self)) && __CPROVER_is_fresh(self->d_, sizeof(Data)))\n'
def LEVELS_FRESH(): return ''.join('__CPROVER_requires(LV(self->d_, %d).size < V_QMAX && __CPROVER_is_fresh(LV(self->d_, %d).data, (LV(self->d_, %d).size ? LV(self->d_, %d).size : 1) * sizeof(Token)))\n' % (i, i, i, i) for i in range(5))
OTHERS_SAME = lambda cond: ' && '.join('((%s) || LV(self->d_, %d).size == __CPROVER_old(LV(self->d_, %d).size))' % (cond % i, i, i) for i in range(5))
SPEC_Q = dict(GUARD)
SPEC_Q.update({
    ('prelude_early',): EARLY, ('prelude',): PRELUDE, ('after_protos',): EXTERN_COMMON,
    ('contract', 'TP_popOneTask'): TP_FRESH + LEVELS_FRESH() + r'''
__CPROVER_requires(self->d_->lock.held == 1 && g_lvl <= 5)
__CPROVER_requires((g_lvl <= 0 || LV(self->d_, 0).size == 0) && (g_lvl <= 1 || LV(self->d_, 1).size == 0) && (g_lvl <= 2 || LV(self->d_, 2).size == 0) && (g_lvl <= 3 || LV(self->d_, 3).size == 0) && (g_lvl <= 4 || LV(self->d_, 4).size == 0))
__CPROVER_requires(g_lvl < 5 ==> (LV(self->d_, g_lvl).size > 0 && LV(self->d_, g_lvl).data[0].id_ == g_tok.id_ && LV(self->d_, g_lvl).data[0].pos_ == g_tok.pos_))     /* g_lvl: first non-empty level (5: none) */
__CPROVER_assigns(g_tp, g_cab_frees, g_freed_tok, v_mc_off, __exc, self->d_->undo_tasks_token, __CPROVER_object_whole(LV(self->d_, 0).data), __CPROVER_object_whole(LV(self->d_, 1).data), __CPROVER_object_whole(LV(self->d_, 2).data), __CPROVER_object_whole(LV(self->d_, 3).data), __CPROVER_object_whole(LV(self->d_, 4).data))
__CPROVER_frees(LV(self->d_, 0).data, LV(self->d_, 1).data, LV(self->d_, 2).data, LV(self->d_, 3).data, LV(self->d_, 4).data)
__CPROVER_ensures(g_lvl == 5 ==> (__CPROVER_return_value == 0 && g_cab_frees == 0))
__CPROVER_ensures(g_lvl < 5 ==> (g_cab_frees == 1 && __CPROVER_return_value == g_cab_result && g_freed_tok.id_ == g_tok.id_ && g_freed_tok.pos_ == g_tok.pos_))      /* the FRONT of the highest non-empty priority */
__CPROVER_ensures(g_lvl < 5 ==> LV(self->d_, g_lvl).size == __CPROVER_old(LV(self->d_, g_lvl).size) - 1)
__CPROVER_ensures(''' + OTHERS_SAME('g_lvl == %d') + r''')
__CPROVER_ensures(self->d_->lock.held == 1 && __exc == 0)
''',
    ('ghost', 'TP_popOneTask', 'entry'): 'g_tp = self; g_cab_frees = 0; __exc = 0;',
    ('loop', 'TP_popOneTask', 1): r'''
__CPROVER_assigns(i, __exc)
__CPROVER_loop_invariant(i <= 5 && i <= g_lvl && __exc == 0 && g_cab_frees == 0)
__CPROVER_decreases(5 - i)
''',
    ('contract', 'TP_cancel'): TP_FRESH + LEVELS_FRESH() + r'''
__CPROVER_requires(self->d_->lock.held == 0 && g_lvl < 5 && g_pos < LV(self->d_, g_lvl).size && (g_in_doing == 0 || g_in_doing == 1))
__CPROVER_requires(LV(self->d_, g_lvl).data[g_pos].id_ == token.id_ && LV(self->d_, g_lvl).data[g_pos].pos_ == token.pos_)                /* the token waits at level g_lvl */
__CPROVER_assigns(g_tp, g_cab_frees, g_pool_frees, g_freed_tok, g_cur, v_mc_off, v_noblock_mutex, __exc, self->d_->lock.held, self->d_->undo_tasks_token, __CPROVER_object_whole(LV(self->d_, 0).data), __CPROVER_object_whole(LV(self->d_, 1).data), __CPROVER_object_whole(LV(self->d_, 2).data), __CPROVER_object_whole(LV(self->d_, 3).data), __CPROVER_object_whole(LV(self->d_, 4).data))
__CPROVER_ensures(self->d_->lock.held == 0)
__CPROVER_ensures(T(g_in_doing) ==> (__CPROVER_return_value == 2 && g_cab_frees == 0 && g_pool_frees == 0))
__CPROVER_ensures(!T(g_in_doing) ==> (__CPROVER_return_value == 0 && g_cab_frees == 1 && g_pool_frees == 1 && g_freed_tok.id_ == token.id_ && g_freed_tok.pos_ == token.pos_))   /* found wherever it waits */
''',
    ('ghost', 'TP_cancel', 'entry'): 'g_tp = self; g_cab_frees = 0; g_pool_frees = 0; v_noblock_mutex = 0; __exc = 0; g_cur = 0;',
    ('loop', 'TP_cancel', 1): r'''
__CPROVER_assigns(i, g_cur, __exc)
__CPROVER_loop_invariant(i <= 5 && i <= g_lvl && __exc == 0 && g_cab_frees == 0 && g_pool_frees == 0 && self->d_->lock.held == 1)
__CPROVER_decreases(5 - i)
''',
    ('ghost', 'TP_cancel', 'loop_body_start:1'): 'g_cur = i;',
    ('loop', 'TP_cancel__find0', 1): r'''
__CPROVER_assigns(i)
__CPROVER_loop_invariant(i <= n && (first == LV(g_tp->d_, g_lvl).data ==> i <= g_pos))
__CPROVER_decreases(n - i)
''',
})
SPEC_Q[('prelude',)] = PRELUDE + 'static size_t g_cur;\n'

# ---------------------------------------------------------------- worker / life cycle: size-only queues
EXTERN_W = EXTERN_COMMON + r'''
/* blocked on the condition variable: the lock is released, other threads submit/cancel/raise the stop flag */
void v_cv_wait(struct v_cv *cv, struct v_ulock *lk)
__CPROVER_requires(T(lk->owns) && lk->m == &g_tp->d_->lock && g_tp->d_->lock.held == 1 && cv == &g_tp->d_->cond_var)
__CPROVER_assigns(LV(g_tp->d_, 0).size, LV(g_tp->d_, 1).size, LV(g_tp->d_, 2).size, LV(g_tp->d_, 3).size, LV(g_tp->d_, 4).size, g_tp->d_->all_threads_stop_flag)
__CPROVER_ensures(LV(g_tp->d_, 0).size < V_MAXSZ && LV(g_tp->d_, 1).size < V_MAXSZ && LV(g_tp->d_, 2).size < V_MAXSZ && LV(g_tp->d_, 3).size < V_MAXSZ && LV(g_tp->d_, 4).size < V_MAXSZ)
__CPROVER_ensures(g_tp->d_->all_threads_stop_flag == 0 || g_tp->d_->all_threads_stop_flag == 1)
;
/* a task body: runs on the worker with the pool lock NOT held, registered as running */
void v_fn_call__void(struct v_function *f)
__CPROVER_requires(g_tp->d_->lock.held == 0 && g_inserted == g_erased + 1 && g_body_calls + 1 == g_inserted)
__CPROVER_assigns(g_body_calls)
__CPROVER_ensures(g_body_calls == __CPROVER_old(g_body_calls) + 1)
;
/* thread-safe entry point of the loop */
unsigned long Loop_runInLoop_c(struct v_Loop *self, struct v_function *func, struct v_str *what)
__CPROVER_requires(g_tp->d_->lock.held == 0 && g_body_calls == g_inserted && g_inserted == g_erased + 1)        /* completion callback: after the body, before the task is forgotten */
__CPROVER_assigns(g_posted)
__CPROVER_ensures(g_posted == __CPROVER_old(g_posted) + 1)
;
unsigned long Loop_runInLoop_m(struct v_Loop *self, struct v_function *func, struct v_str *what)
__CPROVER_assigns()
__CPROVER_ensures(1)
;
struct v_thread *v_thrcab__free(struct v_thrcab *c, Token *t)
__CPROVER_requires(g_tp->d_->lock.held == 1)
__CPROVER_assigns()
__CPROVER_ensures(1)
;
Token v_thrcab__alloc(struct v_thrcab *c)
__CPROVER_requires(g_tp->d_->lock.held == 1 && !T(g_tp->d_->all_threads_stop_flag))          /* a worker is never started while a stale stop request is visible */
__CPROVER_assigns()
__CPROVER_ensures(1)
;
void v_thrcab__update(struct v_thrcab *c, Token *t, struct v_thread *th)
__CPROVER_requires(g_tp->d_->lock.held == 1)
__CPROVER_assigns(g_workers)
__CPROVER_ensures(g_workers == __CPROVER_old(g_workers) + 1)
;
'''
POP_STUB = r'''
__CPROVER_requires(self == g_tp && self->d_->lock.held == 1 && !T(self->d_->all_threads_stop_flag))      /* no task is taken once the stop flag is seen */
__CPROVER_assigns(LV(self->d_, 0).size, LV(self->d_, 1).size, LV(self->d_, 2).size, LV(self->d_, 3).size, LV(self->d_, 4).size)
__CPROVER_ensures(__CPROVER_return_value == 0 || __CPROVER_is_fresh(__CPROVER_return_value, sizeof(Task)))
__CPROVER_ensures(LV(self->d_, 0).size < V_MAXSZ && LV(self->d_, 1).size < V_MAXSZ && LV(self->d_, 2).size < V_MAXSZ && LV(self->d_, 3).size < V_MAXSZ && LV(self->d_, 4).size < V_MAXSZ)
'''
LV_SMALL = ' && '.join('LV(self->d_, %d).size < V_MAXSZ' % i for i in range(5))
SPEC_W = dict(GUARD)
SPEC_W.update({
    ('prelude_early',): EARLY, ('prelude',): PRELUDE + 'static size_t g_workers;\n', ('after_protos',): EXTERN_W,
    ('stub', 'TP_popOneTask'): True, ('contract', 'TP_popOneTask'): POP_STUB,
    ('stub', 'Loop_runInLoop_c'): True, ('stub', 'Loop_runInLoop_m'): True,
    ('contract', 'TP_threadProc'): TP_FRESH + r'''
__CPROVER_requires(self->d_->lock.held == 0 && ''' + LV_SMALL + r''' && self->d_->idle_thread_num < 100000 && (self->d_->all_threads_stop_flag == 0 || self->d_->all_threads_stop_flag == 1))
__CPROVER_assigns(g_tp, g_cab_frees, g_pool_frees, g_body_calls, g_posted, g_inserted, g_erased, v_noblock_mutex, __exc, self->d_->lock.held, self->d_->idle_thread_num, self->d_->all_threads_stop_flag,
                  LV(self->d_, 0).size, LV(self->d_, 1).size, LV(self->d_, 2).size, LV(self->d_, 3).size, LV(self->d_, 4).size)
__CPROVER_ensures(self->d_->lock.held == 0)
__CPROVER_ensures(self->d_->idle_thread_num == __CPROVER_old(self->d_->idle_thread_num))                  /* this worker no longer counts as idle */
__CPROVER_ensures(g_inserted == g_erased && g_body_calls == g_inserted && g_pool_frees == g_erased)         /* every task taken: registered, run once, unregistered, record returned */
''',
    ('hoist_locks', 'TP_threadProc'): True,
    ('ghost', 'TP_threadProc', 'entry'): 'g_tp = self; g_pool_frees = 0; g_body_calls = 0; g_posted = 0; g_inserted = 0; g_erased = 0; v_noblock_mutex = 0; __exc = 0; size_t g_idle0 = self->d_->idle_thread_num;',
    ('loop', 'TP_threadProc', 1): r'''
__CPROVER_assigns(g_pool_frees, g_body_calls, g_posted, g_inserted, g_erased, __exc, self->d_->lock.held, self->d_->idle_thread_num, self->d_->all_threads_stop_flag, let_main_loop_join_me, lk__1,
                  LV(self->d_, 0).size, LV(self->d_, 1).size, LV(self->d_, 2).size, LV(self->d_, 3).size, LV(self->d_, 4).size)
__CPROVER_loop_invariant(self->d_->lock.held == 0 && self->d_->idle_thread_num == g_idle0 && g_inserted == g_erased && g_body_calls == g_inserted && g_pool_frees == g_erased && ''' + LV_SMALL + r''')
__CPROVER_loop_invariant((self->d_->all_threads_stop_flag == 0 || self->d_->all_threads_stop_flag == 1) && (let_main_loop_join_me == 0 || let_main_loop_join_me == 1))
''',
    ('loop', 'TP_threadProc__cvwait_bind0', 1): r'''
__CPROVER_assigns(__exc, LV(self->d_, 0).size, LV(self->d_, 1).size, LV(self->d_, 2).size, LV(self->d_, 3).size, LV(self->d_, 4).size, self->d_->all_threads_stop_flag)
__CPROVER_loop_invariant(self == g_tp && T(lk->owns) && lk->m == &self->d_->lock && self->d_->lock.held == 1 && cv == &self->d_->cond_var && ''' + LV_SMALL + r''' && (self->d_->all_threads_stop_flag == 0 || self->d_->all_threads_stop_flag == 1))
''',
    ('loop', 'TP_shouldExit', 1): r'''
__CPROVER_assigns(i, __exc)
__CPROVER_loop_invariant(i <= 5 && __exc == 0)
__CPROVER_decreases(5 - i)
''',
    ('contract', 'TP_initialize'): TP_FRESH + r'''
__CPROVER_requires(self->d_->lock.held == 0 && (self->d_->is_ready == 0 || self->d_->is_ready == 1) && min_thread_num < 1000 && max_thread_num < 1000)
__CPROVER_assigns(g_tp, g_workers, v_noblock_mutex, self->d_->lock.held, self->d_->min_thread_num, self->d_->max_thread_num, self->d_->all_threads_stop_flag, self->d_->is_ready)
__CPROVER_ensures(self->d_->lock.held == 0)
__CPROVER_ensures(T(__CPROVER_return_value) == (!T(__CPROVER_old(self->d_->is_ready)) && min_thread_num >= 0 && max_thread_num > 0 && min_thread_num <= max_thread_num))
__CPROVER_ensures(T(__CPROVER_return_value) ==> (T(self->d_->is_ready) && !T(self->d_->all_threads_stop_flag) && g_workers == (size_t)min_thread_num && self->d_->min_thread_num == (size_t)min_thread_num && self->d_->max_thread_num == (size_t)max_thread_num))
''',
    ('ghost', 'TP_initialize', 'entry'): 'g_tp = self; g_workers = 0; v_noblock_mutex = 0;',
    ('loop', 'TP_initialize', 1): r'''
__CPROVER_assigns(i, g_workers)
__CPROVER_loop_invariant(0 <= i && i <= min_thread_num && g_workers == (size_t)i && self->d_->lock.held == 1 && !T(self->d_->all_threads_stop_flag))
__CPROVER_decreases(min_thread_num - i)
''',
})
# ---------------------------------------------------------------- cleanup
EXTERN_C = EXTERN_COMMON + r'''
void v_thrcab__foreach(struct v_thrcab *c, struct v_vec_v_threadp *out)
__CPROVER_requires(g_tp->d_->lock.held == 1 && c == &g_tp->d_->threads_cabinet && out->size == 0)
__CPROVER_assigns(out->size)
__CPROVER_ensures(out->size == g_nthreads)                                  /* every worker of the cabinet is handed over for joining */
;
void v_thrcab__clear(struct v_thrcab *c)
__CPROVER_requires(g_tp->d_->lock.held == 1)
__CPROVER_assigns()
__CPROVER_ensures(1)
;
void v_thread_join(struct v_thread *t)
__CPROVER_requires(t == g_thr && g_tp->d_->lock.held == 0 && T(g_tp->d_->all_threads_stop_flag) && g_joins == g_deletes)      /* joined with the lock free and the stop request visible, else the worker can never leave */
__CPROVER_assigns(g_joins)
__CPROVER_ensures(g_joins == __CPROVER_old(g_joins) + 1)
;
void v_delete__v_thread(struct v_thread *t)
__CPROVER_requires(t == g_thr && g_joins == g_deletes + 1)
__CPROVER_assigns(g_deletes)
__CPROVER_ensures(g_deletes == __CPROVER_old(g_deletes) + 1)
;
'''
SPEC_C = dict(GUARD)
SPEC_C.update({
    ('prelude_early',): EARLY + 'struct v_thread; static struct v_thread *g_thr;\n', ('prelude',): PRELUDE + 'static size_t g_nthreads, g_joins, g_deletes, g_waiting0;\n', ('after_protos',): EXTERN_C,
    ('contract', 'TP_cleanup'): TP_FRESH + r'''
__CPROVER_requires(self->d_->lock.held == 0 && (self->d_->is_ready == 0 || self->d_->is_ready == 1) && ''' + LV_SMALL + r''' && g_nthreads < V_MAXSZ && __CPROVER_is_fresh(g_thr, sizeof(struct v_thread)))
__CPROVER_assigns(g_tp, g_cab_frees, g_pool_frees, g_freed_tok, g_joins, g_deletes, g_waiting0, v_noblock_mutex, __exc, self->d_->lock.held, self->d_->all_threads_stop_flag, self->d_->is_ready,
                  LV(self->d_, 0).size, LV(self->d_, 1).size, LV(self->d_, 2).size, LV(self->d_, 3).size, LV(self->d_, 4).size, v_vec_cabinet_Token_cell, v_vec_v_threadp_cell)
__CPROVER_ensures(self->d_->lock.held == 0 && __exc == 0)
__CPROVER_ensures(!T(__CPROVER_old(self->d_->is_ready)) ==> (g_joins == 0 && g_cab_frees == 0))
__CPROVER_ensures(T(__CPROVER_old(self->d_->is_ready)) ==> (!T(self->d_->is_ready) && T(self->d_->all_threads_stop_flag) &&
                  LV(self->d_, 0).size == 0 && LV(self->d_, 1).size == 0 && LV(self->d_, 2).size == 0 && LV(self->d_, 3).size == 0 && LV(self->d_, 4).size == 0 &&      /* no waiting task survives cleanup */
                  g_cab_frees == g_waiting0 && g_pool_frees == g_waiting0 && g_joins == g_nthreads && g_deletes == g_nthreads))                                    /* each dropped once; every worker joined and deleted */
''',
    ('ghost', 'TP_cleanup', 'entry'): 'g_tp = self; g_cab_frees = 0; g_pool_frees = 0; g_joins = 0; g_deletes = 0; v_noblock_mutex = 0; __exc = 0;\n'
        '  g_waiting0 = LV(self->d_, 0).size + LV(self->d_, 1).size + LV(self->d_, 2).size + LV(self->d_, 3).size + LV(self->d_, 4).size;',
    ('loop', 'TP_cleanup', 1): r'''
__CPROVER_assigns(i, __exc, g_cab_frees, g_pool_frees, g_freed_tok, LV(self->d_, 0).size, LV(self->d_, 1).size, LV(self->d_, 2).size, LV(self->d_, 3).size, LV(self->d_, 4).size, v_vec_cabinet_Token_cell)
__CPROVER_loop_invariant(i <= 5 && __exc == 0 && self->d_->lock.held == 1 && g_cab_frees == g_pool_frees && ''' + LV_SMALL + r''')
__CPROVER_loop_invariant((i <= 0 || LV(self->d_, 0).size == 0) && (i <= 1 || LV(self->d_, 1).size == 0) && (i <= 2 || LV(self->d_, 2).size == 0) && (i <= 3 || LV(self->d_, 3).size == 0) && (i <= 4 || LV(self->d_, 4).size == 0))
__CPROVER_loop_invariant(g_cab_frees + LV(self->d_, 0).size + LV(self->d_, 1).size + LV(self->d_, 2).size + LV(self->d_, 3).size + LV(self->d_, 4).size == g_waiting0)
__CPROVER_decreases(5 - i)
''',
    ('loop', 'TP_cleanup', 2): r'''
__CPROVER_assigns(g_cab_frees, g_pool_frees, g_freed_tok, tasks_token->size, v_vec_cabinet_Token_cell)
__CPROVER_loop_invariant(i < 5 && tasks_token == &LV(self->d_, i) && __exc == 0 && self->d_->lock.held == 1 && g_cab_frees == g_pool_frees && ''' + LV_SMALL + r''')
__CPROVER_loop_invariant((i <= 0 || LV(self->d_, 0).size == 0) && (i <= 1 || LV(self->d_, 1).size == 0) && (i <= 2 || LV(self->d_, 2).size == 0) && (i <= 3 || LV(self->d_, 3).size == 0) && (i <= 4 || LV(self->d_, 4).size == 0))
__CPROVER_loop_invariant(g_cab_frees + LV(self->d_, 0).size + LV(self->d_, 1).size + LV(self->d_, 2).size + LV(self->d_, 3).size + LV(self->d_, 4).size == g_waiting0)
__CPROVER_decreases(tasks_token->size)
''',
    ('loop', 'TP_cleanup', 3): r'''
__CPROVER_assigns(__i3, g_joins, g_deletes, v_vec_v_threadp_cell)
__CPROVER_loop_invariant(__i3 <= __r3->size && __r3 == &thread_vec && thread_vec.size == g_nthreads && g_joins == __i3 && g_deletes == __i3 && self->d_->lock.held == 0 && T(self->d_->all_threads_stop_flag))
__CPROVER_decreases(__r3->size - __i3)
''',
})
# ---------------------------------------------------------------- submission
EXTERN_S = r"""
void v_q_hook(const void *v, int op) { if (op == 1) { __CPROVER_assert(g_tp->d_->lock.held == 1 && g_cab_allocs == 1, "a queue grows only under the lock, by the token just issued"); g_pushed_to = v; g_pushes++; } }
Task *v_pool__alloc(struct v_pool *p) __CPROVER_requires(g_tp->d_->lock.held == 1 && g_allocs == 0) __CPROVER_assigns(g_allocs) __CPROVER_ensures(g_allocs == 1 && __CPROVER_return_value == g_item);
Token v_taskcab__alloc(struct v_taskcab *c, Task *t) __CPROVER_requires(g_tp->d_->lock.held == 1 && t == g_item && g_cab_allocs == 0) __CPROVER_assigns(g_cab_allocs)
  __CPROVER_ensures(g_cab_allocs == 1 && __CPROVER_return_value.id_ == g_tok.id_ && __CPROVER_return_value.pos_ == g_tok.pos_);
size_t v_taskcab__size(struct v_taskcab *c) __CPROVER_requires(g_tp->d_->lock.held == 1) __CPROVER_assigns() __CPROVER_ensures(__CPROVER_return_value == g_waiting);
size_t v_thrcab__size(struct v_thrcab *c) __CPROVER_requires(g_tp->d_->lock.held == 1) __CPROVER_assigns() __CPROVER_ensures(__CPROVER_return_value == g_nthr);
/* a new worker: only while fewer than the configured maximum are alive, under the lock */
_Bool TP_createWorker(TP *self) __CPROVER_requires(self == g_tp && self->d_->lock.held == 1 && g_nthr < self->d_->max_thread_num && g_created == 0) __CPROVER_assigns(g_created) __CPROVER_ensures(g_created == 1);
"""
SPEC_S = dict(GUARD)
SPEC_S.update({
    ('prelude_early',): EARLY + 'void v_q_hook(const void *v, int op);\n#undef V_ABS_HOOK\n#define V_ABS_HOOK(v, op) v_q_hook((const void *)(v), op)\n',
    ('prelude',): PRELUDE + 'static size_t g_allocs, g_cab_allocs, g_pushes, g_waiting, g_nthr, g_created; static const void *g_pushed_to; static Task *g_item;\n', ('after_protos',): EXTERN_S,
    ('stub', 'TP_createWorker'): True,
    ('contract', 'TP_execute'): TP_FRESH + r"""
__CPROVER_requires(__CPROVER_is_fresh(backend_task, sizeof(*backend_task)) && __CPROVER_is_fresh(main_cb, sizeof(*main_cb)) && __CPROVER_is_fresh(g_item, sizeof(Task)) && g_tok.id_ != 0)
__CPROVER_requires(self->d_->lock.held == 0 && (self->d_->is_ready == 0 || self->d_->is_ready == 1) && """ + ' && '.join('LV(self->d_, %d).size < V_MAXSZ - 1' % i for i in range(5)) + r""")
__CPROVER_assigns(g_tp, g_allocs, g_cab_allocs, g_pushes, g_pushed_to, g_created, v_noblock_mutex, __exc, *g_item, *backend_task, *main_cb, v_vec_cabinet_Token_cell, self->d_->lock.held, self->d_->undo_task_peak_num_,
                  LV(self->d_, 0).size, LV(self->d_, 1).size, LV(self->d_, 2).size, LV(self->d_, 3).size, LV(self->d_, 4).size)
__CPROVER_ensures(self->d_->lock.held == 0 && __exc == 0)
__CPROVER_ensures(!T(self->d_->is_ready) ==> (__CPROVER_return_value.id_ == 0 && g_allocs == 0 && g_pushes == 0 && g_created == 0))           /* not initialised: refused with a null token, nothing queued */
/* one record, one token (returned and stored in the record), queued exactly once - at the level of the clamped priority (0 = highest) */
__CPROVER_ensures(T(self->d_->is_ready) ==> (g_allocs == 1 && g_cab_allocs == 1 && g_pushes == 1 && g_pushed_to == (const void *)&LV(self->d_, (prio < -2 ? -2 : prio > 2 ? 2 : prio) + 2) &&
                  __CPROVER_return_value.id_ == g_tok.id_ && __CPROVER_return_value.pos_ == g_tok.pos_ && g_item->token.id_ == g_tok.id_ && g_item->token.pos_ == g_tok.pos_))
/* a worker is added only when the idle ones cannot cover the waiting tasks, and never beyond the configured maximum (createWorker contract) */
__CPROVER_ensures(g_created == 1 ==> (g_waiting > __CPROVER_old(self->d_->idle_thread_num) && g_nthr < self->d_->max_thread_num))
""",
    ('ghost', 'TP_execute', 'entry'): 'g_tp = self; g_allocs = 0; g_cab_allocs = 0; g_pushes = 0; g_created = 0; v_noblock_mutex = 0; __exc = 0;',
})
H = lambda body: '\nvoid H(void)\n{\n' + body + '\n  __CPROVER_assert(0, "VACUITY-CANARY");\n}\n'
def COMMON(abstract_q, thr_abs=False): return dict(tu=TU, filter='tbox::eventx', more_filters=[(TU, 'cabinet::Token'), (TU, 'tbox::event')], rename=R,
    plugins=[StdFunction(), StdVector(abstract=dict({'struct cabinet_Token': '1'}, **({'struct v_thread *': 'x == g_thr'} if thr_abs else {})) if abstract_q else None), StdArray(), Sync(), Chrono(abstract_time=True), StringStreamSink(), Syscalls(), OpaqueString(),
             OpaqueTypes({r'^std::set<.*>$': 'v_set', r'^std::_Rb_tree_const_iterator<.*>$': 'v_set_it', r'^(tbox::)?cabinet::Cabinet<.*Task>$': 'v_taskcab', r'^(tbox::)?cabinet::Cabinet<std::thread>$': 'v_thrcab', r'^(tbox::)?ObjectPool<.*>$': 'v_pool'})],
    model_headers=['fn_model.h', 'vec_model.h', 'sync_model.h', 'misc_model.h'], opaque_records={'tbox::event::Loop': 'struct v_Loop'})
ST_Q = ['v_set__find', 'v_set__end', 'v_taskcab__free', 'v_pool__free']
ST_W = ['v_set__insert', 'v_set__erase', 'v_taskcab__size', 'v_thrcab__size', 'v_pool__free', 'v_cv_wait', 'v_fn_call__void', 'Loop_runInLoop_c', 'Loop_runInLoop_m', 'v_thrcab__free', 'TP_popOneTask']
BQ = dict(defines=['V_QMAX=17'], bound='at most 16 waiting tasks per priority level (loops under contract, symbolic content)')
UNITS = [
  UnitSpec(name='thread_pool_queue', spec=SPEC_Q, emit=[C + 'popOneTask', C + 'cancel'], targets=[
      Target('popOneTask', H('  TP *p; TP_popOneTask(p);'), enforce='TP_popOneTask', replace=['v_taskcab__free'], timeout=900, clause='highest non-empty priority first, FIFO within it', **BQ),
      Target('cancel', H('  TP *p; Token t; TP_cancel(p, t);'), enforce='TP_cancel', replace=ST_Q, timeout=900, clause='cancel finds a waiting task at whatever level it waits; executing: 2; released exactly once', **BQ),
  ], **COMMON(False)),
  UnitSpec(name='thread_pool_worker', spec=SPEC_W, emit=[C + 'threadProc', C + 'initialize'], targets=[
      Target('threadProc', H('  TP *p; Token t; TP_threadProc(p, t);'), enforce='TP_threadProc', replace=ST_W, timeout=900,
             clause='worker: idle count restored on every path; stop flag examined under the lock after each wake-up; body once, outside the lock, between register/unregister; completion posted after the body'),
      Target('initialize', H('  TP *p; ssize_t a, b; TP_initialize(p, a, b);'), enforce='TP_initialize', replace=['v_thrcab__alloc', 'v_thrcab__update'], timeout=900, defines=['V_THREAD_NEW_OPAQUE'],
             clause='initialize: stop flag cleared under the lock before any worker starts; min workers created'),
  ], **COMMON(True)),
  UnitSpec(name='thread_pool_submit', spec=SPEC_S, emit=[C + 'execute'], targets=[
      Target('execute', H('  TP *p; struct v_function *b, *m; int prio; TP_execute(p, b, m, prio);'), enforce='TP_execute', replace=['v_pool__alloc', 'v_taskcab__alloc', 'v_taskcab__size', 'v_thrcab__size', 'TP_createWorker'], timeout=600,
             clause='execute: one task record, one token (returned and stored), queued exactly once at the back of the level of the clamped priority, all under the lock; a worker is added only below the maximum; refused when not initialised'),
  ], **COMMON(True)),
  UnitSpec(name='thread_pool_cleanup', spec=SPEC_C, emit=[C + 'cleanup'], targets=[
      Target('cleanup', H('  TP *p; TP_cleanup(p);'), enforce='TP_cleanup', replace=['v_taskcab__free', 'v_pool__free', 'v_thrcab__size', 'v_thrcab__foreach', 'v_thrcab__clear', 'v_thread_join', 'v_delete__v_thread'], timeout=600,
             clause='cleanup: every waiting task dropped exactly once under the lock, stop flag raised under the lock, every worker joined with the lock free and then deleted; not ready: no-op'),
  ], **COMMON(True, True)),
]

REPLAY_SOURCES = ['modules/eventx/thread_pool.cpp']
def native_replay(u, t, o, w, workdir):
    """a failed guarded-by obligation is replayed under ThreadSanitizer (initialize/cleanup/initialize cycles with tasks)"""
    import replay as rp
    if 'v_guarded__' in getattr(o, 'name', str(o)):
        L = '/repo/_build/modules'
        libs = ['%s/event/libtbox_event.a' % L, '%s/util/libtbox_util.a' % L, '%s/base/libtbox_base.a' % L]
        return rp.tsan_attempt('thread_pool_stop_flag', REPLAY_SOURCES, os.path.join(workdir, 'replay'), extra=libs)
    return {'reproduced': False, 'note': 'no native driver for this obligation'}
