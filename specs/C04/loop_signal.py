"""C04 — CommonLoop::unsubscribeSignal (modules/event/common_loop_signal.cpp): when the process-wide disposition is restored.

 A loop that still has subscribers for the signal only forgets this one.  Otherwise the loop leaves the process-wide context of the
 signal: under _signal_lock_, with all signals blocked, its pipe end is removed from the context's set and ONLY IF THAT SET IS NOW
 EMPTY (no other loop listens) is the saved previous disposition put back (sigaction(signo, &saved, nullptr)) and the context erased;
 the signal mask is restored before the lock is released.  A loop without any signal subscriber left disables its read event, closes
 both pipe ends (resetting them to -1) and defers the deletion of the event.
The sets and maps are opaque: their answers (empty or not) are oracles; the contract fixes WHICH question is asked WHEN.
Not decided: the asynchronous handler (SignalHandlerFunc), delivery to every loop and subscriber, subscribeSignal.
"""
import os
from verif import UnitSpec, Target
from plugins import StdFunction, StdVector, Sync, Chrono, StringStreamSink, OpaqueString, Syscalls, OpaqueTypes, ScopeExit
TU = 'modules/event/common_loop_signal.cpp'
R = {'event_CommonLoop_unsubscribeSignal': 'CL_unsubscribeSignal', 'event_CommonLoop_run__tbox_event_Loop_Funcrr_Kstd_stringr': 'CL_run', 'event_Event_disable': 'Ev_disable'}
EARLY = 'typedef unsigned long v_handle; struct v_LoopBase { char opaque; };\n'
PRELUDE = r'''
typedef struct event_CommonLoop Loop; typedef struct event_SignalCtx Ctx;
#define T(x) ((x) != 0)
static Loop *g_l; static Ctx g_ctx; static struct v_subset g_subset;
static _Bool g_subs_empty, g_fds_empty, g_loop_has_other;          /* oracles: answers of the opaque containers */
static int g_signo, g_wfd0, g_rfd0; static _Bool g_blocked, g_fd_erased, g_empty_asked;
static size_t g_sub_erases, g_map_erases, g_restores, g_ctx_erases, g_mask_restores, g_ev_disables, g_closes, g_deferred;
'''
EXTERN = r'''
struct v_subset *v_submap__index(struct v_submap *m, int signo)
__CPROVER_requires(m == &g_l->all_signals_subscribers_ && signo == g_signo)
__CPROVER_assigns()
__CPROVER_ensures(__CPROVER_return_value == &g_subset)
;
size_t v_subset__erase(struct v_subset *s, v_handle who)
__CPROVER_requires(s == &g_subset && g_sub_erases == 0)
__CPROVER_assigns(g_sub_erases)
__CPROVER_ensures(g_sub_erases == 1)
;
_Bool v_subset__empty(struct v_subset *s)
__CPROVER_requires(s == &g_subset && g_sub_erases == 1)                       /* judged after this subscriber was removed */
__CPROVER_assigns()
__CPROVER_ensures(T(__CPROVER_return_value) == T(g_subs_empty))
;
size_t v_submap__erase(struct v_submap *m, int signo)
__CPROVER_requires(T(g_subs_empty) && signo == g_signo && g_map_erases == 0)
__CPROVER_assigns(g_map_erases)
__CPROVER_ensures(g_map_erases == 1)
;
_Bool v_submap__empty(struct v_submap *m)
__CPROVER_requires(g_map_erases == 1 && _signal_lock_.held == 0)
__CPROVER_assigns()
__CPROVER_ensures(T(__CPROVER_return_value) == !T(g_loop_has_other))
;
int v_sys_sigfillset(sigset_t *s)
__CPROVER_assigns(*s)
__CPROVER_ensures(1)
;
int v_sys_sigprocmask(int how, const sigset_t *set, sigset_t *old)
__CPROVER_requires(_signal_lock_.held == 1 && (how == SIG_BLOCK ? !T(g_blocked) : (how == SIG_SETMASK && T(g_blocked) && old == 0)))
__CPROVER_assigns(g_blocked, g_mask_restores; old != 0: *old)
__CPROVER_ensures(g_blocked == (how == SIG_BLOCK ? 1 : 0) && g_mask_restores == __CPROVER_old(g_mask_restores) + (how == SIG_SETMASK ? 1 : 0))
;
Ctx *v_ctxmap__index(struct v_ctxmap *m, int signo)
__CPROVER_requires(signo == g_signo && _signal_lock_.held == 1 && T(g_blocked))          /* the process-wide table is touched with the lock held and signals blocked */
__CPROVER_assigns()
__CPROVER_ensures(__CPROVER_return_value == &g_ctx)
;
size_t v_fdset__erase(struct v_fdset *s, int fd)
__CPROVER_requires(s == &g_ctx.write_fds && fd == g_wfd0 && _signal_lock_.held == 1 && T(g_blocked) && !T(g_fd_erased))
__CPROVER_assigns(g_fd_erased)
__CPROVER_ensures(g_fd_erased == 1)
;
_Bool v_fdset__empty(struct v_fdset *s)
__CPROVER_requires(s == &g_ctx.write_fds && T(g_fd_erased))                                /* "is any loop left" is asked after this loop's pipe end was removed */
__CPROVER_assigns(g_empty_asked)
__CPROVER_ensures(g_empty_asked == 1 && T(__CPROVER_return_value) == T(g_fds_empty))
;
int v_sys_sigaction(int signo, const struct sigaction *act, struct sigaction *old)
__CPROVER_requires(signo == g_signo && act == &g_ctx.old_handler && old == 0)              /* the disposition saved at the first subscription */
__CPROVER_requires(T(g_empty_asked) && T(g_fds_empty) && T(g_blocked) && g_restores == 0)  /* only when the LAST loop leaves */
__CPROVER_assigns(g_restores)
__CPROVER_ensures(g_restores == 1)
;
size_t v_ctxmap__erase(struct v_ctxmap *m, int signo)
__CPROVER_requires(signo == g_signo && g_restores == 1)
__CPROVER_assigns(g_ctx_erases)
__CPROVER_ensures(g_ctx_erases == 1)
;
_Bool Ev_disable(v_handle e)
__CPROVER_requires(e != 0 && e == g_l->sp_signal_read_event_ && !T(g_loop_has_other))
__CPROVER_assigns(g_ev_disables)
__CPROVER_ensures(g_ev_disables == 1)
;
int v_sys_close(int fd)
__CPROVER_requires(g_ev_disables == 1 && (fd == g_wfd0 || fd == g_rfd0) && fd != -1)
__CPROVER_assigns(g_closes)
__CPROVER_ensures(g_closes == __CPROVER_old(g_closes) + 1)
;
unsigned long CL_run(Loop *self, struct v_function *f, struct v_str *w)
__CPROVER_requires(self == g_l && T(f->engaged) && g_ev_disables == 1)
__CPROVER_assigns(g_deferred)
__CPROVER_ensures(g_deferred == 1)
;
'''
SPEC = {
    ('prelude_early',): EARLY, ('prelude',): PRELUDE, ('after_protos',): EXTERN, ('stub', 'CL_run'): True, ('stub', 'Ev_disable'): True,
    ('contract', 'CL_unsubscribeSignal'): r'''
__CPROVER_requires(__CPROVER_is_fresh(self, sizeof(*self)) && _signal_lock_.held == 0 && self->sp_signal_read_event_ != 0 && self->signal_write_fd_ >= 0 && self->signal_read_fd_ >= 0 && self->signal_write_fd_ != self->signal_read_fd_)
__CPROVER_requires((g_subs_empty == 0 || g_subs_empty == 1) && (g_fds_empty == 0 || g_fds_empty == 1) && (g_loop_has_other == 0 || g_loop_has_other == 1))
__CPROVER_assigns(g_l, g_signo, g_wfd0, g_rfd0, g_blocked, g_fd_erased, g_empty_asked, g_sub_erases, g_map_erases, g_restores, g_ctx_erases, g_mask_restores, g_ev_disables, g_closes, g_deferred, v_noblock_mutex,
                  _signal_lock_.held, self->signal_write_fd_, self->signal_read_fd_, self->sp_signal_read_event_)
__CPROVER_ensures(T(__CPROVER_return_value) && _signal_lock_.held == 0 && !T(g_blocked) && g_sub_erases == 1)
__CPROVER_ensures(!T(g_subs_empty) ==> (g_map_erases == 0 && g_restores == 0 && !T(g_fd_erased) && g_ev_disables == 0))                 /* the loop still listens: nothing process-wide happens */
__CPROVER_ensures(T(g_subs_empty) ==> (g_map_erases == 1 && T(g_fd_erased) && g_mask_restores == 1 && g_restores == (T(g_fds_empty) ? 1 : 0) && g_ctx_erases == g_restores))     /* disposition restored iff this was the last loop */
__CPROVER_ensures((T(g_subs_empty) && !T(g_loop_has_other)) ==> (g_ev_disables == 1 && g_closes == 2 && g_deferred == 1 && self->signal_write_fd_ == -1 && self->signal_read_fd_ == -1 && self->sp_signal_read_event_ == 0))
__CPROVER_ensures((!T(g_subs_empty) || T(g_loop_has_other)) ==> (g_ev_disables == 0 && g_closes == 0 && self->signal_write_fd_ == __CPROVER_old(self->signal_write_fd_)))
''',
    ('ghost', 'CL_unsubscribeSignal', 'entry'): 'g_l = self; g_signo = signo; g_wfd0 = self->signal_write_fd_; g_rfd0 = self->signal_read_fd_; g_blocked = 0; g_fd_erased = 0; g_empty_asked = 0; g_sub_erases = 0; g_map_erases = 0; '
                                                'g_restores = 0; g_ctx_erases = 0; g_mask_restores = 0; g_ev_disables = 0; g_closes = 0; g_deferred = 0; v_noblock_mutex = 0;',
}
H = lambda body: '\nvoid H(void)\n{\n' + body + '\n  __CPROVER_assert(0, "VACUITY-CANARY");\n}\n'
FILTERS = ['tbox::cabinet', 'tbox::ObjectPool', '_signal_ctxs_', 'SignalCtx', '_signal_lock_', 'SignalHandler']
ST = ['v_submap__index', 'v_subset__erase', 'v_subset__empty', 'v_submap__erase', 'v_submap__empty', 'v_sys_sigfillset', 'v_sys_sigprocmask', 'v_ctxmap__index', 'v_fdset__erase', 'v_fdset__empty',
      'v_sys_sigaction', 'v_ctxmap__erase', 'Ev_disable', 'v_sys_close', 'CL_run']
UNITS = [UnitSpec(name='loop_unsubscribe', tu=TU, filter='tbox::event', more_filters=[(TU, f) for f in FILTERS], rename=R, spec=SPEC, emit=['tbox::event::CommonLoop::unsubscribeSignal'],
    plugins=[StdFunction(), StdVector(), Sync(), Chrono(abstract_time=True), StringStreamSink(), OpaqueString(), Syscalls(extra=('signal', 'sigfillset', 'sigprocmask', 'sigaction')), ScopeExit(),
             OpaqueTypes({r'^std::map<int, std::set<.*>>$': 'v_submap', r'^std::map<int, .*SignalCtx>$': 'v_ctxmap', r'^std::map<.*>$': 'v_map', r'^std::set<int>$': 'v_fdset', r'^std::set<.*>$': 'v_subset',
                          r'^std::thread::id$': 'v_tid', r'^(tbox::)?cabinet::Cabinet<.*>$': 'v_cab', r'^(tbox::)?ObjectPool<.*>$': 'v_pool', r'^std::_Rb_tree_(const_)?iterator<.*>$': 'long:v_map_it'})],
    model_headers=['fn_model.h', 'vec_model.h', 'sync_model.h', 'misc_model.h'],
    opaque_records={'tbox::event::FdEvent': 'handle:v_handle', 'tbox::event::Event': 'handle:v_handle', 'tbox::event::TimerEvent': 'handle:v_handle', 'tbox::event::SignalSubscribuer': 'handle:v_handle', 'tbox::event::Loop': 'struct v_LoopBase'},
    targets=[Target('unsubscribeSignal', H('  Loop *l; int s; v_handle w; CL_unsubscribeSignal(l, s, w);'), enforce='CL_unsubscribeSignal', replace=ST, timeout=300,
                    clause='previous disposition restored exactly when the last loop stops listening to the signal, under the lock with signals blocked; loop-local tear-down when no subscriber is left')])]
