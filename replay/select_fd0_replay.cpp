// select back end: descriptor 0 is an ordinary descriptor (a process started with stdin closed gets it from pipe()/eventfd()).
// A read event on descriptor 0 with data pending must be dispatched.
#include <tbox/event/loop.h>
#include <tbox/event/fd_event.h>
#include <unistd.h>
#include <cstdio>
#include <string>
using namespace tbox::event;
int main(int argc, char **argv) {
    std::string engine = argc > 1 ? argv[1] : "select";
    ::close(0);
    int p[2]; if (pipe(p) != 0 || p[0] != 0) { printf("could not obtain descriptor 0\n"); return 0; }
    Loop *loop = Loop::New(engine.c_str());
    if (!loop) { printf("no %s engine\n", engine.c_str()); return 0; }
    int calls = 0;
    FdEvent *ev = loop->newFdEvent();
    ev->initialize(0, FdEvent::kReadEvent, Event::Mode::kOneshot);
    ev->setCallback([&](short) { ++calls; });
    ev->enable();
    write(p[1], "x", 1);
    loop->exitLoop(std::chrono::milliseconds(100));
    loop->runLoop();
    delete ev; delete loop;
    printf("read event on descriptor 0: %d callback(s)\n", calls);
    if (calls != 1) { printf("VIOLATION: descriptor 0 was readable with an enabled read event, but the %s loop never dispatched it\n", engine.c_str()); return 1; }
    return 0;
}
