"""NOT LOADED (file name starts with "_"): the harness extracts and instruments, but the installed solvers do not decide it - both minisat and
cadical run out of memory (24 GB) while converting the instrumented function (two contracted loops, ~25 replaced Deserializer /
FetchDomain calls on address-taken locals); per-obligation slicing did not finish in 25 minutes.  Kept as the record of the attempt.

C15 — DnsRequest::onUdpRecv (modules/network/dns_request.cpp): a datagram becomes a result for one outstanding lookup.
Intended contract: unmatched / non-reply datagrams ignored; callback at most once and the lookup finished exactly then; only addresses whose
four bytes are inside the datagram are reported (ghost count of decoded vs pushed A records); every read through the Deserializer contracts;
both record loops terminate.
"""
import os, importlib.util
from verif import UnitSpec, Target, VERIF
from plugins import StdFunction, StdVector, OpaqueString, StringStreamSink, OpaqueTypes
_s = importlib.util.spec_from_file_location('c15_fd', os.path.join(VERIF, 'specs', 'C15', 'fetch_domain.py'))
fd = importlib.util.module_from_spec(_s); _s.loader.exec_module(fd)
ser = fd.ser
R = dict(fd.R); R.update({'network_DnsRequest_onUdpRecv': 'Dns_onUdpRecv', 'network_DnsRequest_findRequest': 'Dns_findRequest', 'network_DnsRequest_deleteRequest': 'Dns_deleteRequest'})
DES = ['Des_ctor', 'Des_shr_u16', 'Des_shr_u32', 'Des_skip', 'Des_checkSize', 'Des_setEndian']
PRELUDE = fd.PRELUDE + r"""
typedef struct network_DnsRequest Dns; typedef struct network_DnsRequest_Request Req; typedef struct network_DnsRequest_Result Res;
#define T(x) ((x) != 0)
static Dns *g_d; static Req *g_req; static _Bool g_empty, g_found;
static unsigned g_lookup_id, g_flags; static size_t g_finds, g_cb_calls, g_deletes, g_a_pushed, g_a_decoded;
static size_t g_pos_before_ip;
"""
EXTERN = r"""
_Bool v_map__empty(struct v_map *mp) __CPROVER_requires(mp == &g_d->requests_) __CPROVER_assigns() __CPROVER_ensures(T(__CPROVER_return_value) == T(g_empty));
Req *Dns_findRequest(Dns *self, uint16_t id) __CPROVER_requires(self == g_d && g_finds == 0) __CPROVER_assigns(g_finds, g_lookup_id)
  __CPROVER_ensures(g_finds == 1 && g_lookup_id == id && __CPROVER_return_value == (T(g_found) ? g_req : (Req *)0));
/* the lookup is finished: only after its callback has run (if it has one), once, for the id that was looked up */
_Bool Dns_deleteRequest(Dns *self, uint16_t id) __CPROVER_requires(self == g_d && id == g_lookup_id && g_deletes == 0 && g_cb_calls == (T(g_req->cb.engaged) ? 1 : 0)) __CPROVER_assigns(g_deletes) __CPROVER_ensures(g_deletes == 1);
void v_fn_call__void_tbox_network_DnsRequest_Result_r(struct v_function *f, Res *r) __CPROVER_requires(f == &g_req->cb && T(f->engaged) && g_cb_calls == 0 && g_deletes == 0 && g_a_pushed == g_a_decoded)
  __CPROVER_assigns(g_cb_calls) __CPROVER_ensures(g_cb_calls == 1);
"""
SPEC = {('prelude_early',): 'struct v_Udp { char opaque; }; struct v_SockAddr { char opaque; };\n', ('after_protos',): EXTERN}
import re as _re
def _light(txt):
    # the values read are irrelevant to what is decided here: the value clause of the (verified) contract is dropped - a weaker postcondition
    return _re.sub(r' && \*out == \(uint\d+_t\)\(VAL\d+\([^\n]*?\)\)\) : \(', ') : (', txt)
SPEC.update({('contract', n): _light(ser.SPEC[('contract', n)]) for n in DES})
SPEC[('params', 'Des_checkSize')] = ['need_size']; SPEC[('params', 'Des_skip')] = ['size']
SPEC[('contract', 'FetchDomain')] = fd.SPEC[('contract', 'FetchDomain')]
SPEC.update({('stub', n): True for n in DES + ['FetchDomain', 'Dns_findRequest', 'Dns_deleteRequest']})
INV = 'DWF(&parser) && parser.start_ == (const uint8_t *)data_ptr && parser.size_ == data_size && parser.endian_ == BIG && __exc == 0 && g_a_pushed == g_a_decoded && g_cb_calls == 0 && g_deletes == 0 && g_finds == 1'
SPEC.update({
    ('contract', 'Dns_onUdpRecv'): r"""
__CPROVER_requires(__CPROVER_is_fresh(self, sizeof(*self)) && __CPROVER_is_fresh(g_req, sizeof(Req)) && data_size < V_MAXSZ && __CPROVER_is_fresh(data_ptr, data_size ? data_size : 1) && __exc == 0)
__CPROVER_requires((g_empty == 0 || g_empty == 1) && (g_found == 0 || g_found == 1) && g_req->response_count < 1000000 && self->dns_ip_vec_.size < V_MAXSZ)
__CPROVER_assigns(g_d, g_finds, g_lookup_id, g_flags, g_cb_calls, g_deletes, g_a_pushed, g_a_decoded, g_pos_before_ip, g_jl0, v_mc_off, __exc, g_req->response_count, v_vec_network_DnsRequest_A_cell, v_vec_network_DnsRequest_CNAME_cell)
__CPROVER_ensures(__exc == 0)                                                                               /* total for every datagram */
/* a datagram that matches no outstanding lookup, or is not a reply, is ignored */
__CPROVER_ensures((T(g_empty) || !T(g_found) || (g_flags & 0x8000) == 0) ==> (g_cb_calls == 0 && g_deletes == 0))
/* the callback runs at most once, and the lookup is finished exactly when a result was delivered (or there is no callback to deliver it to) */
__CPROVER_ensures(g_cb_calls <= 1 && g_deletes <= 1 && (g_cb_calls == 1 ==> g_deletes == 1))
/* a normal reply (rcode 0), a name error or a format error finishes the lookup at once; a server failure only when every server has failed */
__CPROVER_ensures((!T(g_empty) && T(g_found) && (g_flags & 0x8000) != 0 && ((g_flags & 15) == 0 || (g_flags & 15) == 3 || (g_flags & 15) == 1)) ==> g_deletes == 1)
/* only addresses whose four bytes are inside the datagram are reported */
__CPROVER_ensures(g_a_pushed == g_a_decoded)
""",
    ('ghost', 'Dns_onUdpRecv', 'entry'): 'g_d = self; g_finds = 0; g_cb_calls = 0; g_deletes = 0; g_a_pushed = 0; g_a_decoded = 0; g_flags = 0;',
    ('ghost', 'Dns_onUdpRecv', 'after_call:Dns_findRequest:1'): 'g_flags = flags;',
    ('ghost', 'Dns_onUdpRecv', 'before_call:Des_setEndian:1'): 'g_pos_before_ip = parser.pos_;',
    ('ghost', 'Dns_onUdpRecv', 'after_call:Des_setEndian:2'): 'if (parser.pos_ == g_pos_before_ip + 4) g_a_decoded++;      /* the four address bytes were really read from the datagram */',
    ('ghost', 'Dns_onUdpRecv', 'after_call:push_back:1'): 'g_a_pushed++;',
    ('loop', 'Dns_onUdpRecv', 1): '__CPROVER_assigns(i, parser.pos_, __exc, g_jl0, v_mc_off)\n__CPROVER_loop_invariant(' + INV + ')\n__CPROVER_decreases((int)qd_count - (int)i)\n',
    ('loop', 'Dns_onUdpRecv', 2): '__CPROVER_assigns(i, parser.pos_, parser.endian_, __exc, g_jl0, v_mc_off, g_a_pushed, g_a_decoded, g_pos_before_ip, result.a_vec.size, result.cname_vec.size, v_vec_network_DnsRequest_A_cell, v_vec_network_DnsRequest_CNAME_cell)\n__CPROVER_loop_invariant(' + INV + ' && result.a_vec.size <= i && result.cname_vec.size <= i && g_a_pushed <= i)\n__CPROVER_decreases((int)an_count - (int)i)\n',
})
H = fd.H
TU = 'modules/network/dns_request.cpp'
UNITS = [UnitSpec(name='on_udp_recv', tu=TU, filter='tbox::network', more_filters=[(TU, 'tbox::util'), (TU, 'operator>>')],
    rename=R, spec=SPEC, prelude=PRELUDE, plugins=[StdFunction(), StdVector(abstract={'struct network_DnsRequest_A': '1', 'struct network_DnsRequest_CNAME': '1', 'struct network_IPAddress': '1'}), OpaqueString(), StringStreamSink(), OpaqueTypes({r'^(tbox::)?eventx::TimeoutMonitor<.*>$': 'v_TM', r'^std::map<.*>$': 'v_map', r'^std::_Rb_tree_(const_)?iterator<.*>$': 'long:v_map_it'})],
    model_headers=['fn_model.h', 'vec_model.h', 'misc_model.h'],
    opaque_records={'tbox::network::UdpSocket': 'struct v_Udp', 'tbox::eventx::TimeoutMonitor': 'struct v_TM', 'tbox::network::SockAddr': 'struct v_SockAddr'},
    emit=['tbox::network::DnsRequest::onUdpRecv'],
    targets=[Target('onUdpRecv', H('  struct network_DnsRequest *d; const void *p; size_t n; struct v_SockAddr *a; Dns_onUdpRecv(d, p, n, a);'), enforce='Dns_onUdpRecv', replace=DES + ['FetchDomain', 'Dns_findRequest', 'Dns_deleteRequest', 'v_map__empty', 'v_fn_call__void_tbox_network_DnsRequest_Result_r'], timeout=900, object_bits=9,
        clause='reply handling: unmatched / non-reply datagrams ignored; callback at most once and the lookup finished exactly then; only addresses whose bytes are in the datagram are reported; every read through the Deserializer contracts; loops terminate')])]
