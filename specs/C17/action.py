"""C17 — flow::Action life cycle (modules/flow/action.cpp) and the serial composites' bookkeeping (actions/assemble_action.cpp,
actions/sequence_action.cpp).  Virtual hooks (onStart, onStop, ...) are contract stubs: ANY override - it may change the state, finish at
once, queue notifications - so what is proved holds for every derived action; each function is proved against the hook contracts.

 Action::start/pause/resume   only from the one state that allows it (else false / true-no-op exactly as documented), hook once, and the state
                              moves (and the timeout timer is armed / disarmed) only if the hook did not already move it.
 Action::stop                 no-op unless running or paused; state is kStoped BEFORE onStop runs, timer off, notifications still queued on the
                              loop are withdrawn [found: a queued block notification survived stop() - fixed 02ef9b6], onStop once, then
                              onFinal once.
 Action::finish / block       rejected (false, nothing happens) once finished or stopped: an action finishes at most once per run; otherwise
                              state set first, timer off (finish), hook once with the same arguments, onFinal once after it (finish only).
 Action::reset                no-op when idle; else onReset once, timer off, queued notifications withdrawn, state idle, result unsure.
 cancelDispatchedCallback     both queued notifications are cancelled on the loop (if any) and forgotten.
 SerialAssembleAction         a child's finish: curr_action_ is cleared in EVERY state; running: handled now; paused: held back (stored);
                              stopped/finished: dropped.  resume: the running child is resumed, else the held-back result is re-posted to
                              the loop and its id kept; stop / reset: current child stopped (stop), held-back result dropped and a re-posted
                              one WITHDRAWN [found: it survived reset() and finished the reset tree - fixed 1fc9580]; pause: child paused.
 SequenceAction::onReset      index 0 and EVERY child reset exactly once, then the base class.
Not decided: the control-flow meaning of each composite over whole runs, parallel/loop/repeat/switch/if composites, sleep/timeouts.
"""
import os
from verif import UnitSpec, Target
from plugins import StdFunction, StdVector, Chrono, StringStreamSink, OpaqueString, OpaqueTypes
A = 'flow_Action_'; S = 'flow_SerialAssembleAction_'
R = {A + 'start': 'Act_start', A + 'pause': 'Act_pause', A + 'resume': 'Act_resume', A + 'stop': 'Act_stop', A + 'finish': 'Act_finish', A + 'block': 'Act_block', A + 'reset': 'Act_reset',
     A + 'cancelDispatchedCallback': 'Act_cancelDispatched', A + 'onStart': 'Act_onStart', A + 'onPause': 'Act_onPause', A + 'onResume': 'Act_onResume', A + 'onStop': 'Act_onStop',
     A + 'onReset': 'Act_onReset', A + 'onFinal': 'Act_onFinal', A + 'onFinished': 'Act_onFinished', A + 'onBlock': 'Act_onBlock', A + 'state': 'Act_state', A + 'isUnderway': 'Act_isUnderway',
     'event_Event_enable': 'Tm_enable', 'event_Event_disable': 'Tm_disable', 'event_Loop_cancel': 'Loop_cancel', 'event_Loop_runNext__tbox_event_Loop_Funcrr_Kstd_stringr': 'Loop_runNext',
     S + 'handleChildFinishEvent': 'Ser_handleChildFinishEvent', S + 'onLastChildFinished': 'Ser_onLastChildFinished', S + 'onResume': 'Ser_onResume', S + 'onStop': 'Ser_onStop', S + 'onReset': 'Ser_onReset',
     S + 'onPause': 'Ser_onPause', S + 'startThisAction': 'Ser_startThisAction', S + 'stopCurrAction': 'Ser_stopCurrAction', S + 'cancelChildFinishRun': 'Ser_cancelChildFinishRun',
     'flow_AssembleAction_onReset': 'Act_onReset', 'flow_AssembleAction_onStop': 'Act_onStop', 'flow_AssembleAction_onPause': 'Act_onPause', 'flow_AssembleAction_onResume': 'Act_onResume',
     'flow_SequenceAction_onReset': 'Seq_onReset'}
EARLY = 'struct v_Loop { char opaque; }; struct v_Timer { _Bool armed; }; struct v_vars { char opaque; };\n'
PRE_A = r'''
typedef struct flow_Action Act; typedef struct flow_Action_Reason Reason; typedef struct v_vec_flow_Action_Who Trace;
#define T(x) ((x) != 0)
enum { IDLE = 0, RUNNING = 1, PAUSE = 2, FINISHED = 3, STOPED = 4 };
static Act *g_a; static int g_state_at_hook; static size_t g_hooks, g_finals, g_cancels; static int g_hook_kind;   /* 1 start 2 pause 3 resume 4 stop 5 reset 6 finished 7 block */
static _Bool g_hook_succ; static unsigned long g_cancelled_a, g_cancelled_b;
#define ACT_FRESH __CPROVER_requires(__CPROVER_is_fresh(self, sizeof(*self)) && self->state_ >= 0 && self->state_ <= 4 && (self->timer_ev_ == 0 || __CPROVER_is_fresh(self->timer_ev_, sizeof(struct v_Timer))))
'''
def HOOK(name, kind, extra_params='', extra_ens=''):
    return r'''
void %s(Act *self%s)
__CPROVER_requires(self == g_a && g_hooks == 0 && g_finals == 0)
__CPROVER_assigns(g_hooks, g_hook_kind, g_state_at_hook, g_hook_succ, self->state_, self->result_, self->is_base_func_invoked_, self->finish_cb_run_id_, self->block_cb_run_id_)
__CPROVER_ensures(g_hooks == 1 && g_hook_kind == %d && g_state_at_hook == __CPROVER_old(self->state_) && self->state_ >= 0 && self->state_ <= 4%s)
;''' % (name, extra_params, kind, extra_ens)
EXT_A = HOOK('Act_onStart', 1) + HOOK('Act_onPause', 2) + HOOK('Act_onResume', 3) + HOOK('Act_onStop', 4) + HOOK('Act_onReset', 5) + \
    HOOK('Act_onFinished', 6, ', _Bool is_succ, Reason *why, Trace *trace', ' && T(g_hook_succ) == T(is_succ)') + HOOK('Act_onBlock', 7, ', Reason *why, Trace *trace') + r'''
void Act_onFinal(Act *self)
__CPROVER_requires(self == g_a && g_hooks == 1 && g_finals == 0)                       /* after the stop / finished hook, once */
__CPROVER_assigns(g_finals)
__CPROVER_ensures(g_finals == 1)
;
_Bool Tm_enable(struct v_Timer *t)
__CPROVER_assigns(t->armed)
__CPROVER_ensures(t->armed == 1)
;
_Bool Tm_disable(struct v_Timer *t)
__CPROVER_assigns(t->armed)
__CPROVER_ensures(t->armed == 0)
;
_Bool Loop_cancel(struct v_Loop *l, unsigned long id)
__CPROVER_requires(id != 0)
__CPROVER_assigns(g_cancels, g_cancelled_a, g_cancelled_b)
__CPROVER_ensures(g_cancels == __CPROVER_old(g_cancels) + 1 && (__CPROVER_old(g_cancels) == 0 ? g_cancelled_a == id : (g_cancelled_b == id && g_cancelled_a == __CPROVER_old(g_cancelled_a))))
;
'''
ENTRY = 'g_a = self; g_hooks = 0; g_finals = 0; g_cancels = 0; g_hook_kind = 0;'
GH_ASSIGNS = 'g_a, g_hooks, g_finals, g_cancels, g_hook_kind, g_state_at_hook, g_hook_succ, g_cancelled_a, g_cancelled_b'
SELF_ASSIGNS = 'self->state_, self->result_, self->is_base_func_invoked_, self->finish_cb_run_id_, self->block_cb_run_id_'
TIMER = '; self->timer_ev_ != 0: self->timer_ev_->armed'
NOTHING = 'g_hooks == 0 && g_finals == 0 && g_cancels == 0 && self->state_ == __CPROVER_old(self->state_)'
WITHDRAWN = '(g_cancels == (OLD_FID != 0 ? 1 : 0) + (OLD_BID != 0 ? 1 : 0) && (OLD_FID != 0 ==> g_cancelled_a == OLD_FID) && (OLD_BID != 0 ==> (OLD_FID != 0 ? g_cancelled_b : g_cancelled_a) == OLD_BID))'
def GATED(fn, ok_state, noop_state, kind, new_state, timer_on):
    return 'ACT_FRESH\n__CPROVER_assigns(%s, %s%s)\n' % (GH_ASSIGNS, SELF_ASSIGNS, TIMER) + r'''
__CPROVER_ensures(__CPROVER_old(self->state_) == %(noop)s ==> (T(__CPROVER_return_value) && %(nothing)s))
__CPROVER_ensures((__CPROVER_old(self->state_) != %(noop)s && __CPROVER_old(self->state_) != %(ok)s) ==> (!T(__CPROVER_return_value) && %(nothing)s))
__CPROVER_ensures(__CPROVER_old(self->state_) == %(ok)s ==> (T(__CPROVER_return_value) && g_hooks == 1 && g_hook_kind == %(kind)d && g_state_at_hook == %(ok)s && g_finals == 0))
__CPROVER_ensures((__CPROVER_old(self->state_) == %(ok)s && g_moved == 0) ==> (self->state_ == %(new)s && (self->timer_ev_ != 0 ==> self->timer_ev_->armed == %(armed)d)))
''' % dict(noop=noop_state, ok=ok_state, nothing=NOTHING, kind=kind, new=new_state, armed=timer_on)
SPEC_A = {
    ('prelude_early',): EARLY, ('prelude',): PRE_A + '#define OLD_FID __CPROVER_old(self->finish_cb_run_id_)\n#define OLD_BID __CPROVER_old(self->block_cb_run_id_)\nstatic _Bool g_moved;\n', ('after_protos',): EXT_A,
    ('stub', 'Act_onStart'): True, ('stub', 'Act_onPause'): True, ('stub', 'Act_onResume'): True, ('stub', 'Act_onStop'): True, ('stub', 'Act_onReset'): True, ('stub', 'Act_onFinal'): True,
    ('stub', 'Act_onFinished'): True, ('stub', 'Act_onBlock'): True, ('stub', 'Tm_enable'): True, ('stub', 'Tm_disable'): True, ('stub', 'Loop_cancel'): True,
    ('contract', 'Act_start'): GATED('start', 'IDLE', 'RUNNING', 1, 'RUNNING', 1).replace(GH_ASSIGNS, GH_ASSIGNS + ', g_moved'),
    ('contract', 'Act_pause'): GATED('pause', 'RUNNING', 'PAUSE', 2, 'PAUSE', 0).replace(GH_ASSIGNS, GH_ASSIGNS + ', g_moved'),
    ('contract', 'Act_resume'): GATED('resume', 'PAUSE', 'RUNNING', 3, 'RUNNING', 1).replace(GH_ASSIGNS, GH_ASSIGNS + ', g_moved'),
    ('contract', 'Act_stop'): 'ACT_FRESH\n__CPROVER_assigns(%s, %s%s)\n' % (GH_ASSIGNS, SELF_ASSIGNS, TIMER) + r'''
__CPROVER_ensures(T(__CPROVER_return_value))
__CPROVER_ensures((__CPROVER_old(self->state_) != RUNNING && __CPROVER_old(self->state_) != PAUSE) ==> (''' + NOTHING + r'''))
__CPROVER_ensures((__CPROVER_old(self->state_) == RUNNING || __CPROVER_old(self->state_) == PAUSE) ==> (g_hooks == 1 && g_hook_kind == 4 && g_state_at_hook == STOPED && g_finals == 1 &&
                  (self->timer_ev_ != 0 ==> self->timer_ev_->armed == 0) && ''' + WITHDRAWN + r'''))        /* stopped before the hook; nothing stale left on the loop; final hook once */
''',
    ('contract', 'Act_finish'): 'ACT_FRESH\n__CPROVER_requires(__CPROVER_is_fresh(why, sizeof(*why)) && __CPROVER_is_fresh(trace, sizeof(*trace)) && (is_succ == 0 || is_succ == 1))\n__CPROVER_assigns(%s, %s%s)\n' % (GH_ASSIGNS, SELF_ASSIGNS, TIMER) + r'''
__CPROVER_ensures((__CPROVER_old(self->state_) == FINISHED || __CPROVER_old(self->state_) == STOPED) ==> (!T(__CPROVER_return_value) && ''' + NOTHING + r'''))     /* at most one finish per run */
__CPROVER_ensures((__CPROVER_old(self->state_) != FINISHED && __CPROVER_old(self->state_) != STOPED) ==> (T(__CPROVER_return_value) && g_hooks == 1 && g_hook_kind == 6 && g_state_at_hook == FINISHED &&
                  T(g_hook_succ) == T(is_succ) && g_finals == 1 && (self->timer_ev_ != 0 ==> self->timer_ev_->armed == 0)))
''',
    ('contract', 'Act_block'): 'ACT_FRESH\n__CPROVER_requires(__CPROVER_is_fresh(why, sizeof(*why)) && __CPROVER_is_fresh(trace, sizeof(*trace)))\n__CPROVER_assigns(%s, %s)\n' % (GH_ASSIGNS, SELF_ASSIGNS) + r'''
__CPROVER_ensures((__CPROVER_old(self->state_) == FINISHED || __CPROVER_old(self->state_) == STOPED) ==> (!T(__CPROVER_return_value) && ''' + NOTHING + r'''))
__CPROVER_ensures((__CPROVER_old(self->state_) != FINISHED && __CPROVER_old(self->state_) != STOPED) ==> (T(__CPROVER_return_value) && g_hooks == 1 && g_hook_kind == 7 && g_state_at_hook == PAUSE && g_finals == 0))
''',
    ('contract', 'Act_reset'): 'ACT_FRESH\n__CPROVER_assigns(%s, %s%s)\n' % (GH_ASSIGNS, SELF_ASSIGNS, TIMER) + r'''
__CPROVER_ensures(__CPROVER_old(self->state_) == IDLE ==> (''' + NOTHING + r'''))
__CPROVER_ensures(__CPROVER_old(self->state_) != IDLE ==> (g_hooks == 1 && g_hook_kind == 5 && g_finals == 0 && self->state_ == IDLE && self->result_ == 0 &&
                  self->finish_cb_run_id_ == 0 && self->block_cb_run_id_ == 0 && (self->timer_ev_ != 0 ==> self->timer_ev_->armed == 0)))            /* like a freshly built action */
''',
    ('contract', 'Act_cancelDispatched'): 'ACT_FRESH\n__CPROVER_assigns(g_cancels, g_cancelled_a, g_cancelled_b, self->finish_cb_run_id_, self->block_cb_run_id_)\n' + r'''
__CPROVER_requires(g_cancels == 0)
__CPROVER_ensures(self->finish_cb_run_id_ == 0 && self->block_cb_run_id_ == 0 && ''' + WITHDRAWN + r''')
''',
}
for fn in ('Act_start', 'Act_pause', 'Act_resume'): SPEC_A[('ghost', fn, 'entry')] = ENTRY + ' g_moved = 0;'
for fn, k in (('Act_start', 'Act_onStart'), ('Act_pause', 'Act_onPause'), ('Act_resume', 'Act_onResume')): SPEC_A[('ghost', fn, 'after_call:%s:1' % k)] = 'g_moved = (self->state_ != g_state_at_hook);'
for fn in ('Act_stop', 'Act_finish', 'Act_block', 'Act_reset'): SPEC_A[('ghost', fn, 'entry')] = ENTRY

# ---------------------------------------------------------------- serial composite
PRE_S = r'''
typedef struct flow_Action Act; typedef struct flow_SerialAssembleAction Ser; typedef struct flow_Action_Reason Reason; typedef struct v_vec_flow_Action_Who Trace;
#define T(x) ((x) != 0)
enum { IDLE = 0, RUNNING = 1, PAUSE = 2, FINISHED = 3, STOPED = 4 };
#define BASE(s) (&(s)->__base_flow_AssembleAction.__base_flow_Action)
static Ser *g_s; static Act *g_cur0;
static size_t g_finish_calls, g_child_stops, g_child_pauses, g_child_resumes, g_base_hooks, g_posts, g_cancels; static _Bool g_fin_succ; static unsigned long g_post_id, g_cancelled_id;
'''
EXT_S = r'''
_Bool Act_finish(Act *self, _Bool is_succ, Reason *why, Trace *trace)
__CPROVER_requires(self == BASE(g_s) && g_s->curr_action_ == 0)                           /* the finished child is forgotten before the composite finishes */
__CPROVER_assigns(g_finish_calls, g_fin_succ)
__CPROVER_ensures(g_finish_calls == __CPROVER_old(g_finish_calls) + 1 && T(g_fin_succ) == T(is_succ))
;
_Bool Act_stop(Act *self)
__CPROVER_requires(self == g_cur0 && self != 0)
__CPROVER_assigns(g_child_stops)
__CPROVER_ensures(g_child_stops == __CPROVER_old(g_child_stops) + 1)
;
_Bool Act_pause(Act *self)
__CPROVER_requires(self == g_cur0 && self != 0)
__CPROVER_assigns(g_child_pauses)
__CPROVER_ensures(g_child_pauses == __CPROVER_old(g_child_pauses) + 1)
;
_Bool Act_resume(Act *self)
__CPROVER_requires(self == g_cur0 && self != 0)
__CPROVER_assigns(g_child_resumes)
__CPROVER_ensures(g_child_resumes == __CPROVER_old(g_child_resumes) + 1)
;
_Bool Act_start(Act *self)
__CPROVER_assigns()
__CPROVER_ensures(T(__CPROVER_return_value) == T(g_start_ok))
;
void ASM_HOOK(Act *self)
__CPROVER_requires(self == BASE(g_s))
__CPROVER_assigns(g_base_hooks)
__CPROVER_ensures(g_base_hooks == __CPROVER_old(g_base_hooks) + 1)
;
unsigned long Loop_runNext(struct v_Loop *l, struct v_function *f, struct v_str *what)
__CPROVER_requires(T(f->engaged) && g_posts == 0)
__CPROVER_assigns(g_posts, *f)
__CPROVER_ensures(g_posts == 1 && __CPROVER_return_value == g_post_id && g_post_id != 0 && !T(f->engaged))
;
_Bool Loop_cancel(struct v_Loop *l, unsigned long id)
__CPROVER_requires(id != 0 && g_cancels == 0)
__CPROVER_assigns(g_cancels, g_cancelled_id)
__CPROVER_ensures(g_cancels == 1 && g_cancelled_id == id)
;
'''
SER_FRESH = '__CPROVER_requires(__CPROVER_is_fresh(self, sizeof(*self)) && BASE(self)->state_ >= 0 && BASE(self)->state_ <= 4 && (self->child_finish_func_.engaged == 0 || self->child_finish_func_.engaged == 1))\n'
SER_GH = 'g_s, g_cur0, g_finish_calls, g_fin_succ, g_child_stops, g_child_pauses, g_child_resumes, g_base_hooks, g_posts, g_cancels, g_cancelled_id'
SER_ENTRY = 'g_s = self; g_cur0 = self->curr_action_; g_finish_calls = 0; g_child_stops = 0; g_child_pauses = 0; g_child_resumes = 0; g_base_hooks = 0; g_posts = 0; g_cancels = 0;'
WITHDRAW_S = '(g_cancels == (__CPROVER_old(self->child_finish_run_id_) != 0 ? 1 : 0) && (g_cancels == 1 ==> g_cancelled_id == __CPROVER_old(self->child_finish_run_id_)) && self->child_finish_run_id_ == 0)'
def asm_hook(which): return EXT_S.replace('ASM_HOOK', which)
SPEC_S = {
    ('prelude_early',): EARLY, ('prelude',): PRE_S + 'static _Bool g_start_ok;\n',
    ('stub', 'Act_finish'): True, ('stub', 'Act_stop'): True, ('stub', 'Act_pause'): True, ('stub', 'Act_resume'): True, ('stub', 'Act_start'): True, ('stub', 'Loop_runNext'): True, ('stub', 'Loop_cancel'): True,
    ('contract', 'Ser_handleChildFinishEvent'): SER_FRESH + r'''
__CPROVER_requires(__CPROVER_is_fresh(child_finish_func, sizeof(*child_finish_func)) && T(child_finish_func->engaged))
__CPROVER_assigns(self->curr_action_, self->child_finish_func_, *child_finish_func)
__CPROVER_ensures(self->curr_action_ == 0)
__CPROVER_ensures(T(__CPROVER_return_value) == (BASE(self)->state_ != RUNNING))
__CPROVER_ensures(BASE(self)->state_ == PAUSE ==> T(self->child_finish_func_.engaged))                                              /* held back while paused */
__CPROVER_ensures(BASE(self)->state_ != PAUSE ==> self->child_finish_func_.engaged == __CPROVER_old(self->child_finish_func_.engaged))
''',
    ('contract', 'Ser_onLastChildFinished'): SER_FRESH + r'''
__CPROVER_requires(__CPROVER_is_fresh(reason, sizeof(*reason)) && __CPROVER_is_fresh(trace, sizeof(*trace)) && (is_succ == 0 || is_succ == 1))
__CPROVER_assigns(''' + SER_GH + r''', self->curr_action_, self->child_finish_func_)
__CPROVER_ensures(self->curr_action_ == 0)                                                                                         /* in EVERY state */
__CPROVER_ensures(BASE(self)->state_ == RUNNING ==> (g_finish_calls == 1 && T(g_fin_succ) == T(is_succ)))
__CPROVER_ensures(BASE(self)->state_ != RUNNING ==> g_finish_calls == 0)
__CPROVER_ensures(BASE(self)->state_ == PAUSE ==> T(self->child_finish_func_.engaged))
__CPROVER_ensures((BASE(self)->state_ != PAUSE) ==> self->child_finish_func_.engaged == __CPROVER_old(self->child_finish_func_.engaged))
''',
    ('ghost', 'Ser_onLastChildFinished', 'entry'): SER_ENTRY,
    ('contract', 'Ser_onResume'): SER_FRESH + r'''
__CPROVER_assigns(''' + SER_GH + r''', self->child_finish_func_, self->child_finish_run_id_)
__CPROVER_ensures(g_base_hooks == 1)
__CPROVER_ensures(g_cur0 != 0 ==> (g_child_resumes == 1 && g_posts == 0))
__CPROVER_ensures((g_cur0 == 0 && T(__CPROVER_old(self->child_finish_func_.engaged))) ==> (g_posts == 1 && self->child_finish_run_id_ == g_post_id && g_child_resumes == 0))     /* re-posted, and remembered so that it can be withdrawn */
__CPROVER_ensures((g_cur0 == 0 && !T(__CPROVER_old(self->child_finish_func_.engaged))) ==> (g_posts == 0 && g_child_resumes == 0))
''',
    ('ghost', 'Ser_onResume', 'entry'): SER_ENTRY,
    ('contract', 'Ser_onStop'): SER_FRESH + r'''
__CPROVER_assigns(''' + SER_GH + r''', self->curr_action_, self->child_finish_func_, self->child_finish_run_id_)
__CPROVER_ensures(g_base_hooks == 1 && self->curr_action_ == 0 && !T(self->child_finish_func_.engaged) && g_child_stops == (g_cur0 != 0 ? 1 : 0) && ''' + WITHDRAW_S + r''')      /* nothing of this run can arrive later */
''',
    ('ghost', 'Ser_onStop', 'entry'): SER_ENTRY,
    ('contract', 'Ser_onReset'): SER_FRESH + r'''
__CPROVER_assigns(''' + SER_GH + r''', self->curr_action_, self->child_finish_func_, self->child_finish_run_id_)
__CPROVER_ensures(g_base_hooks == 1 && self->curr_action_ == 0 && !T(self->child_finish_func_.engaged) && g_child_stops == 0 && ''' + WITHDRAW_S + r''')
''',
    ('ghost', 'Ser_onReset', 'entry'): SER_ENTRY,
    ('contract', 'Ser_onPause'): SER_FRESH + r'''
__CPROVER_assigns(''' + SER_GH + r''')
__CPROVER_ensures(g_base_hooks == 1 && g_child_pauses == (g_cur0 != 0 ? 1 : 0))
''',
    ('ghost', 'Ser_onPause', 'entry'): SER_ENTRY,
    ('contract', 'Ser_startThisAction'): SER_FRESH + r'''
__CPROVER_assigns(self->curr_action_)
__CPROVER_ensures(T(__CPROVER_return_value) == T(g_start_ok) && (T(g_start_ok) ? self->curr_action_ == action : self->curr_action_ == __CPROVER_old(self->curr_action_)))
''',
}
# ---------------------------------------------------------------- sequence
PRE_Q = PRE_S.replace('typedef struct flow_SerialAssembleAction Ser;', 'typedef struct flow_SerialAssembleAction Ser; typedef struct flow_SequenceAction Seq;') + 'static size_t g_resets;\n'
EXT_Q = r'''
void Act_reset(Act *self)
__CPROVER_requires(self != 0)
__CPROVER_assigns(g_resets)
__CPROVER_ensures(g_resets == __CPROVER_old(g_resets) + 1)
;
void Ser_onReset(Ser *self)
__CPROVER_requires(g_resets == g_children)                                                /* the base class runs after every child has been reset */
__CPROVER_assigns(g_base_hooks)
__CPROVER_ensures(g_base_hooks == __CPROVER_old(g_base_hooks) + 1)
;
'''
SPEC_Q = {
    ('prelude_early',): EARLY, ('prelude',): PRE_Q + 'static size_t g_children;\n', ('after_protos',): EXT_Q, ('stub', 'Act_reset'): True, ('stub', 'Ser_onReset'): True,
    ('contract', 'Seq_onReset'): r'''
__CPROVER_requires(__CPROVER_is_fresh(self, sizeof(*self)) && self->children_.size < V_MAXSZ)
__CPROVER_assigns(g_resets, g_base_hooks, g_children, self->index_, v_vec_flow_Actionp_cell)
__CPROVER_ensures(self->index_ == 0 && g_resets == self->children_.size && g_base_hooks == 1)            /* every child, exactly once */
''',
    ('ghost', 'Seq_onReset', 'entry'): 'g_resets = 0; g_base_hooks = 0; g_children = self->children_.size;',
    ('loop', 'Seq_onReset', 1): r'''
__CPROVER_assigns(__i1, g_resets, v_vec_flow_Actionp_cell)
__CPROVER_loop_invariant(__i1 <= __r1->size && __r1 == &self->children_ && g_resets == __i1 && g_base_hooks == 0)
__CPROVER_decreases(__r1->size - __i1)
''',
}
# ---------------------------------------------------------------- parallel: stop / pause every child that needs it
PRE_P = r'''
typedef struct flow_Action Act; typedef struct flow_ParallelAction Par;
#define T(x) ((x) != 0)
enum { IDLE = 0, RUNNING = 1, PAUSE = 2, FINISHED = 3, STOPED = 4 };
static Act *g_child;                   /* every child read out of children_ is this (abstract) child; its state is arbitrary per visit */
static int g_st; static _Bool g_acted; static size_t g_visits;
'''
EXT_P = r'''
_Bool Act_stop(Act *self)
__CPROVER_requires(self == g_child)
__CPROVER_assigns(g_acted, g_child->state_)
__CPROVER_ensures(g_acted == 1 && g_child->state_ >= 0 && g_child->state_ <= 4)
;
_Bool Act_pause(Act *self)
__CPROVER_requires(self == g_child)
__CPROVER_assigns(g_acted, g_child->state_)
__CPROVER_ensures(g_acted == 1 && g_child->state_ >= 0 && g_child->state_ <= 4)
;
'''
def PAR(fn, needs):
    return {('contract', fn): r'''
__CPROVER_requires(__CPROVER_is_fresh(self, sizeof(*self)) && self->children_.size < V_MAXSZ && __CPROVER_is_fresh(g_child, sizeof(Act)))
__CPROVER_assigns(g_st, g_acted, g_visits, g_child->state_, v_vec_flow_Actionp_cell)
__CPROVER_ensures(g_visits == self->children_.size)                                 /* every child is looked at */
''',
            ('ghost', fn, 'entry'): 'g_visits = 0;',
            ('loop', fn, 1): r'''
__CPROVER_assigns(__i1, g_st, g_acted, g_visits, g_child->state_, v_vec_flow_Actionp_cell)
__CPROVER_loop_invariant(__i1 <= __r1->size && __r1 == &self->children_ && g_visits == __i1)
__CPROVER_decreases(__r1->size - __i1)
''',
            ('ghost', fn, 'loop_body_start:1'): '{ int st; __CPROVER_assume(st >= 0 && st <= 4); g_st = st; g_child->state_ = st; g_acted = 0; g_visits++; }',
            ('ghost', fn, 'loop_body_end:1'): '__CPROVER_assert(T(g_acted) || !(%s), "no child that is %s is skipped");' % needs}
SPEC_P = {('prelude_early',): EARLY + 'struct flow_Action; static struct flow_Action *g_child;\n', ('prelude',): PRE_P.replace('static Act *g_child;', ''), ('after_protos',): EXT_P, ('stub', 'Act_stop'): True, ('stub', 'Act_pause'): True}
SPEC_P.update(PAR('Par_stopAllActions', ('g_st == RUNNING || g_st == PAUSE', 'running or paused')))
SPEC_P.update(PAR('Par_pauseAllActions', ('g_st == RUNNING', 'running')))
R.update({'flow_ParallelAction_stopAllActions': 'Par_stopAllActions', 'flow_ParallelAction_pauseAllActions': 'Par_pauseAllActions'})
H = lambda body: '\nvoid H(void)\n{\n' + body + '\n  __CPROVER_assert(0, "VACUITY-CANARY");\n}\n'
def COMMON(tu, spec): return dict(tu=tu, filter='tbox::flow', more_filters=[(tu, 'tbox::event')], rename=R, spec=spec, clang_flags=['-fdelayed-template-parsing'],
    plugins=[StdFunction(), StdVector(abstract={'struct flow_Action *': 'x != 0', 'struct flow_Action_Who': '1'}), Chrono(abstract_time=True), StringStreamSink(), OpaqueString(), OpaqueTypes({r'^(tbox::)?util::Variables$': 'v_vars'})],
    model_headers=['fn_model.h', 'vec_model.h', 'misc_model.h'],
    opaque_records={'tbox::event::Loop': 'struct v_Loop', 'tbox::event::TimerEvent': 'struct v_Timer', 'tbox::event::Event': 'struct v_Timer', 'tbox::util::Variables': 'struct v_vars'})
N = 'tbox::flow::'
HK = ['Act_onStart', 'Act_onPause', 'Act_onResume', 'Act_onStop', 'Act_onReset', 'Act_onFinal', 'Act_onFinished', 'Act_onBlock', 'Tm_enable', 'Tm_disable', 'Loop_cancel']
def TA(fn, call, clause): return Target(fn, H(call), enforce='Act_' + fn, replace=HK, clause=clause)
def ser_unit(name, fns, hook, targets):
    sp = dict(SPEC_S); sp[('after_protos',)] = asm_hook(hook); sp[('stub', hook)] = True
    sp = {k: v for k, v in sp.items() if k[0] not in ('contract', 'ghost') or k[1] in fns}
    return UnitSpec(name=name, emit=[N + 'SerialAssembleAction::' + f for f in [x[len('Ser_'):] for x in fns]], targets=targets, **COMMON('modules/flow/actions/assemble_action.cpp', sp))
SS = ['Act_finish', 'Act_stop', 'Act_pause', 'Act_resume', 'Act_start', 'Loop_runNext', 'Loop_cancel']
UNITS = [
  UnitSpec(name='action_base', emit=[N + 'Action::' + f for f in ('start', 'pause', 'resume', 'stop', 'finish', 'block', 'reset', 'cancelDispatchedCallback')], targets=[
      TA('start', '  Act *a; Act_start(a);', 'start: only from idle; hook once; running + timer armed unless the hook already moved on'),
      TA('pause', '  Act *a; Act_pause(a);', 'pause: only while running; hook once; timer disarmed'),
      TA('resume', '  Act *a; Act_resume(a);', 'resume: only while paused; hook once; timer armed'),
      TA('stop', '  Act *a; Act_stop(a);', 'stop: stopped before the hook, queued notifications withdrawn, final hook once'),
      TA('finish', '  Act *a; _Bool s; Reason *w; Trace *t; Act_finish(a, s, w, t);', 'finish: at most once per run; hook with the same result; final hook once'),
      TA('block', '  Act *a; Reason *w; Trace *t; Act_block(a, w, t);', 'block: rejected once finished/stopped; hook once; no final hook'),
      TA('reset', '  Act *a; Act_reset(a);', 'reset: hook once; timer off; queued notifications withdrawn; idle/unsure like a fresh action'),
      Target('cancelDispatchedCallback', H('  Act *a; Act_cancelDispatched(a);'), enforce='Act_cancelDispatched', replace=['Loop_cancel'], clause='both queued notifications cancelled and forgotten'),
  ], **COMMON('modules/flow/action.cpp', SPEC_A)),
  ser_unit('serial_finish', ['Ser_handleChildFinishEvent', 'Ser_onLastChildFinished'], 'Act_onPause', [
      Target('handleChildFinishEvent', H('  Ser *s; struct v_function *f; Ser_handleChildFinishEvent(s, f);'), enforce='Ser_handleChildFinishEvent', replace=SS, clause='child finished: forgotten; running: handled now; paused: held back; else dropped'),
      Target('onLastChildFinished', H('  Ser *s; _Bool ok; Reason *w; Trace *t; Ser_onLastChildFinished(s, ok, w, t);'), enforce='Ser_onLastChildFinished', replace=SS, clause='last child finished: forgotten in every state; running: composite finishes with its result; paused: held back')]),
  ser_unit('serial_resume', ['Ser_onResume'], 'Act_onResume', [Target('onResume', H('  Ser *s; Ser_onResume(s);'), enforce='Ser_onResume', replace=SS + ['Act_onResume'], clause='resume: child resumed, else held-back result re-posted and its id kept')]),
  ser_unit('serial_stop', ['Ser_onStop'], 'Act_onStop', [Target('onStop', H('  Ser *s; Ser_onStop(s);'), enforce='Ser_onStop', replace=SS + ['Act_onStop'], clause='stop: child stopped, held-back result dropped, re-posted one withdrawn')]),
  ser_unit('serial_reset', ['Ser_onReset'], 'Act_onReset', [Target('onReset', H('  Ser *s; Ser_onReset(s);'), enforce='Ser_onReset', replace=SS + ['Act_onReset'], clause='reset: held-back result dropped, re-posted one withdrawn')]),
  ser_unit('serial_pause', ['Ser_onPause', 'Ser_startThisAction'], 'Act_onPause', [
      Target('onPause', H('  Ser *s; Ser_onPause(s);'), enforce='Ser_onPause', replace=SS + ['Act_onPause'], clause='pause: running child paused'),
      Target('startThisAction', H('  Ser *s; Act *a; Ser_startThisAction(s, a);'), enforce='Ser_startThisAction', replace=SS, clause='a child becomes current only if it started')]),
  UnitSpec(name='sequence_reset', emit=[N + 'SequenceAction::onReset'], targets=[
      Target('onReset', H('  Seq *s; Seq_onReset(s);'), enforce='Seq_onReset', replace=['Act_reset', 'Ser_onReset'], clause='sequence reset: index 0, every child reset exactly once, then the base class')],
      **COMMON('modules/flow/actions/sequence_action.cpp', SPEC_Q)),
  UnitSpec(name='parallel_all', emit=[N + 'ParallelAction::stopAllActions', N + 'ParallelAction::pauseAllActions'], targets=[
      Target('stopAllActions', H('  Par *p; Par_stopAllActions(p);'), enforce='Par_stopAllActions', replace=['Act_stop', 'Act_pause'], clause='parallel stop: no running or paused child is left out'),
      Target('pauseAllActions', H('  Par *p; Par_pauseAllActions(p);'), enforce='Par_pauseAllActions', replace=['Act_stop', 'Act_pause'], clause='parallel pause: no running child is left out')],
      **dict(COMMON('modules/flow/actions/parallel_action.cpp', SPEC_P), plugins=[StdFunction(), StdVector(abstract={'struct flow_Action *': 'x == g_child', 'struct flow_Action_Who': '1'}), Chrono(abstract_time=True), StringStreamSink(), OpaqueString(), OpaqueTypes({r'^(tbox::)?util::Variables$': 'v_vars', r'^std::map<.*>$': 'v_map'})])),
]
def native_replay(u, t, o, w, workdir):
    import replay as rp
    L = '/repo/_build/modules'
    libs = ['%s/flow/libtbox_flow.a' % L, '%s/event/libtbox_event.a' % L, '%s/util/libtbox_util.a' % L, '%s/base/libtbox_base.a' % L, '-ldl']
    srcs = ['modules/flow/action.cpp'] if u.name == 'action_base' else ['modules/flow/actions/assemble_action.cpp', 'modules/flow/action.cpp']
    return rp.attempt('action' if u.name == 'action_base' else 'action_reset', srcs, os.path.join(workdir, 'replay'), [('scenario', [])], extra=libs)
