"""C14 — jsonrpc::Proto::onRecvJson (modules/jsonrpc/proto.cpp): dispatch of a decoded JSON message.

nlohmann::json is opaque: is_object / is_array / contains answer anything, util::json::GetField (never throws) is a stub per output type,
value(key, default) may throw type_error (model), operator[] yields some element.  Decided for every message content:
 - no exception leaves the dispatcher (hostile field types are reported by doing nothing);
 - at most one of the two callbacks is invoked per (non-batch) message, and only when it is set;
 - a batch (array) is walked once and an element is handed to the same function ONLY IF IT IS AN OBJECT (child-view contract with that
   precondition, against the remembered is_object() question): the recursion is at most one level deep whatever the nesting depth
   [found: it recursed once per nesting level, 100000 nested '[' overflowed the stack - fixed ff315c9].
"""
import os
from verif import UnitSpec, Target
from plugins import StdFunction, StdVector, OpaqueString, OpaqueJson, StringStreamSink
TU = 'modules/jsonrpc/proto.cpp'
from models import Plugin
class JsonGlue(Plugin):
    """util::json::GetField(js, key, out) (modules/util/json.cpp, never throws): a stub per output type"""
    def free_call(self, unit, name, rd, args, n):
        if name == 'GetField' and len(args) == 3:
            t = args[2].get('type', {}).get('qualType', '')
            fn = 'v_json_getfield_str' if 'string' in t else 'v_json_getfield_int'
            unit.count_call(fn)
            return '%s(%s, %s)' % (fn, unit.addr_of(args[0]), unit.addr_of(args[2]))
        return None
R = {'jsonrpc_Proto_onRecvJson': 'Proto_onRecvJson'}
PRELUDE = r"""
typedef struct jsonrpc_Proto Proto;
#define T(x) ((x) != 0)
static Proto *g_p; static size_t g_req_calls, g_res_calls, g_children;
"""
EXTERN = r"""
/* util::json::GetField (modules/util/json.cpp): never throws; false when the key is missing or has another type */
_Bool v_json_getfield_str(const struct v_json *js, struct v_str *out) __CPROVER_assigns(*out) __CPROVER_ensures(out->size < V_MAXSZ);
_Bool v_json_getfield_int(const struct v_json *js, int *out) __CPROVER_assigns(*out) __CPROVER_ensures(1);
void v_fn_call__void_int_std_basic_string_char_r_nlohmann_basic_json_r(struct v_function *f, int id, struct v_str *method, struct v_json *params) __CPROVER_requires(f == &g_p->recv_request_cb_ && T(f->engaged) && g_req_calls + g_res_calls == 0)
  __CPROVER_assigns(g_req_calls) __CPROVER_ensures(g_req_calls == 1);
void v_fn_call__void_int_int_nlohmann_basic_json_r(struct v_function *f, int id, int code, struct v_json *r) __CPROVER_requires(f == &g_p->recv_respond_cb_ && T(f->engaged) && g_req_calls + g_res_calls == 0)
  __CPROVER_assigns(g_res_calls) __CPROVER_ensures(g_res_calls == 1);
/* an element of a batch: handled by the same function, but ONLY if it is an object - the recursion is then at most one level deep, whatever the
   nesting depth of the (hostile) message; child view: may deliver the element's request / response */
void Proto_onRecvJson__child(Proto *self, struct v_json *js) __CPROVER_requires(self == g_p && v_json_obj_asked == js && T(v_json_obj_answer))
  __CPROVER_assigns(g_children) __CPROVER_ensures(g_children == __CPROVER_old(g_children) + 1);
"""
SPEC = {('prelude',): PRELUDE, ('after_protos',): EXTERN,
    ('call_as_this', 'Proto_onRecvJson', 'Proto_onRecvJson'): 'Proto_onRecvJson__child',
    ('contract', 'Proto_onRecvJson'): r"""
__CPROVER_requires(__CPROVER_is_fresh(self, sizeof(*self)) && __CPROVER_is_fresh(js, sizeof(*js)) && __exc == 0)
__CPROVER_assigns(g_p, g_req_calls, g_res_calls, g_children, v_json_obj_asked, v_json_obj_answer, __exc)
__CPROVER_ensures(__exc == 0)                                  /* whatever the message contains: no exception leaves the dispatcher */
__CPROVER_ensures(g_req_calls + g_res_calls <= 1)              /* one message, at most one callback */
""",
    ('ghost', 'Proto_onRecvJson', 'entry'): 'g_p = self; g_req_calls = 0; g_res_calls = 0; g_children = 0;',
    ('loop', 'Proto_onRecvJson', 1): r"""
__CPROVER_assigns(__i1, g_children, v_json_obj_asked, v_json_obj_answer)
__CPROVER_loop_invariant(__i1 <= __n1 && __exc == 0 && g_req_calls + g_res_calls == 0)
__CPROVER_decreases(__n1 - __i1)
""",
}
H = lambda body: '\nvoid H(void)\n{\n  __exc = 0;\n' + body + '\n  __CPROVER_assert(0, "VACUITY-CANARY");\n}\n'
UNITS = [UnitSpec(name='proto_recv_json', tu=TU, filter='tbox::jsonrpc', more_filters=[(TU, 'tbox::util')], rename=R, spec=SPEC,
    plugins=[JsonGlue(), StdFunction(), StdVector(), OpaqueString(), OpaqueJson(), StringStreamSink()], model_headers=['fn_model.h', 'vec_model.h', 'misc_model.h'],
    emit=['tbox::jsonrpc::Proto::onRecvJson'],
    targets=[Target('onRecvJson', H('  struct jsonrpc_Proto *p; struct v_json *j; Proto_onRecvJson(p, j);'), enforce='Proto_onRecvJson', replace=['v_json_getfield_str', 'v_json_getfield_int', 'v_fn_call__void_int_std_basic_string_char_r_nlohmann_basic_json_r', 'v_fn_call__void_int_int_nlohmann_basic_json_r', 'Proto_onRecvJson__child'],
        clause='message dispatch: no exception for any JSON content; at most one callback per message; batch elements are handled only if they are objects (recursion depth <= 1 for any nesting depth)')])]
def native_replay(u, t, o, w, workdir):
    import replay as rp
    L = '/repo/_build/modules'
    libs = ['%s/%s/libtbox_%s.a' % (L, x, x) for x in ('jsonrpc', 'util', 'base')] + ['-ldl']
    return rp.attempt('jsonrpc_deep', ['modules/jsonrpc/proto.cpp'], os.path.join(workdir, 'replay'), [('scenario', [])], extra=libs)
