// C01: the same loop object is run twice.  In the first run a task submits another task in the last iteration (the wake-up is committed,
// the task itself runs in the shutdown draining).  In the second run a task submitted with runInLoop must wake the loop and run promptly.
#include <tbox/event/loop.h>
#include <tbox/event/timer_event.h>
#include <chrono>
#include <cstdio>
#include <string>
using namespace tbox::event;
int main(int argc, char **argv) {
    std::string engine = argc > 1 ? argv[1] : "epoll";
    Loop *loop = Loop::New(engine.c_str());
    if (!loop) { printf("no %s engine\n", engine.c_str()); return 0; }
    int a = 0, b = 0, c = 0;
    loop->runInLoop([&] { ++a; loop->runInLoop([&] { ++b; }); });
    loop->runLoop(Loop::Mode::kOnce);
    loop->runInLoop([&] { ++c; });
    bool c_done_at_100 = false;
    TimerEvent *t = loop->newTimerEvent();
    t->initialize(std::chrono::milliseconds(100), Event::Mode::kOneshot);
    t->setCallback([&] { c_done_at_100 = (c == 1); });
    t->enable();
    loop->exitLoop(std::chrono::milliseconds(300));
    loop->runLoop();
    delete t; delete loop;
    printf("run 1: a=%d b=%d; run 2: c=%d, had run 100 ms into the run: %d\n", a, b, c, (int)c_done_at_100);
    if (a != 1 || b != 1 || c != 1 || !c_done_at_100) {
        printf("VIOLATION: a runInLoop task of the second run of the loop did not wake the loop (wake-up flag left raised by the first run)\n");
        return 1;
    }
    return 0;
}
