"""C03 — epoll descriptor events (modules/event/engines/epoll/fd_event.cpp).  The select back end's event class has the same
shape (engines/select/fd_event.cpp) and is checked by the same contracts where the code is the same (enable / disable / onEvent /
OnEventCallback); the back-end loops themselves (epoll_wait / select passes) are not under contract (DESIGN C03).

 enable        no shared record: false; already enabled: true, nothing changes; otherwise the subscriber counts of exactly the subscribed
               conditions grow by one, the event joins the BACK of the subscriber list, the kernel registration is recomputed
               (reloadEpoll) and the event is enabled.
 disable       not enabled: true, nothing changes; otherwise counts shrink by one per subscribed condition, the event leaves the list (the
               others stay, in order), registration recomputed, disabled.
 reloadEpoll   interest set == exactly the conditions with at least one subscriber; epoll_ctl ADD when nothing was registered and
               something is now, MOD when both, DEL when nothing is left, no call when nothing before and nothing now.
 onEvent       no callback unless one of the subscribed conditions is ready; a one-shot event is disabled BEFORE its callback;
               the callback runs once, with the ready mask, with cb_level_ raised and restored.
 OnEventCallback  EPOLLIN/EPOLLHUP -> read, EPOLLOUT -> write, EPOLLERR -> except; the subscribers are walked over a SNAPSHOT, and a
               subscriber is dispatched to only if it is STILL in the live subscriber list at its turn (an earlier callback of the
               pass may have disabled or destroyed it) [found: it was called back regardless - fixed 49393c8]; each remaining one once.
"""
import os
from verif import UnitSpec, Target
from plugins import StdFunction, StdVector, Chrono, StringStreamSink, OpaqueString, Syscalls, OpaqueTypes
TU = 'modules/event/engines/epoll/fd_event.cpp'
P = 'event_EpollFdEvent_'
R = {P + 'enable': 'Ev_enable', P + 'disable': 'Ev_disable', P + 'reloadEpoll': 'Ev_reload', P + 'OnEventCallback': 'Ev_OnEventCallback', P + 'onEvent': 'Ev_onEvent',
     'event_EpollLoop_epollFd': 'Loop_epollFd', 'event_CommonLoop_beginEventProcess': 'Loop_begin', 'event_CommonLoop_endEventProcess': 'Loop_end'}
EARLY = 'struct v_ELoop { char opaque; }; struct v_Loop { char opaque; };\n'
PRELUDE = r'''
typedef struct event_EpollFdEvent Ev; typedef struct event_EpollFdSharedData SD;
#define T(x) ((x) != 0)
#define RD 1
#define WR 2
#define EX 4
static Ev *g_ev; static SD *g_d;
static size_t g_ctl_calls; static int g_ctl_op; static uint32_t g_ctl_events;
static size_t g_reloads, g_cb_calls, g_begins, g_ends, g_disables, g_dispatches; static short g_cb_mask; static _Bool g_find_hit;
static size_t g_pos, g_other; static Ev *g_other_ev;           /* where this event is in the list / a tracked other subscriber */
#define MASK(d) (((d)->write_event_num > 0 ? EPOLLOUT : 0) | ((d)->read_event_num > 0 ? EPOLLIN : 0) | ((d)->except_event_num > 0 ? EPOLLERR : 0))
#define SD_OK(d) ((d)->read_event_num >= 0 && (d)->read_event_num < 100000 && (d)->write_event_num >= 0 && (d)->write_event_num < 100000 && (d)->except_event_num >= 0 && (d)->except_event_num < 100000 && \
                  (d)->fd_events.size < 64 && __CPROVER_is_fresh((d)->fd_events.data, ((d)->fd_events.size ? (d)->fd_events.size : 1) * sizeof(Ev *)))
'''
EXTERN = r'''
int Loop_epollFd(struct v_ELoop *l)
__CPROVER_assigns()
__CPROVER_ensures(1)
;
int v_sys_epoll_ctl(int epfd, int op, int fd, struct epoll_event *ev)
__CPROVER_requires(fd == g_ev->fd_ && (op == EPOLL_CTL_DEL || (ev == &g_ev->d_->ev && ev->events != 0)))
__CPROVER_assigns(g_ctl_calls, g_ctl_op, g_ctl_events)
__CPROVER_ensures(g_ctl_calls == __CPROVER_old(g_ctl_calls) + 1 && g_ctl_op == op && g_ctl_events == (op == EPOLL_CTL_DEL ? 0 : ev->events))
;
'''
EV_FRESH = '__CPROVER_requires(__CPROVER_is_fresh(self, sizeof(*self)) && (self->is_enabled_ == 0 || self->is_enabled_ == 1) && (self->d_ == 0 || (__CPROVER_is_fresh(self->d_, sizeof(SD)) && SD_OK(self->d_))))\n'
RELOAD_STUB = r'''
__CPROVER_requires(self == g_ev)
__CPROVER_assigns(g_reloads, self->d_->ev.events)
__CPROVER_ensures(g_reloads == __CPROVER_old(g_reloads) + 1 && self->d_->ev.events == (uint32_t)MASK(self->d_))
'''
SPEC = {
    ('prelude_early',): EARLY, ('prelude',): PRELUDE, ('after_protos',): EXTERN,
    ('stub', 'Loop_epollFd'): True,
    ('contract', 'Ev_reload'): EV_FRESH + r'''
__CPROVER_requires(self->d_ != 0)
__CPROVER_assigns(g_ev, g_ctl_calls, g_ctl_op, g_ctl_events, self->d_->ev.events)
__CPROVER_ensures(self->d_->ev.events == (uint32_t)MASK(self->d_))                                     /* interest == conditions that have a subscriber */
__CPROVER_ensures((__CPROVER_old(self->d_->ev.events) == 0 && MASK(self->d_) == 0) ==> g_ctl_calls == 0)
__CPROVER_ensures((__CPROVER_old(self->d_->ev.events) == 0 && MASK(self->d_) != 0) ==> (g_ctl_calls == 1 && g_ctl_op == EPOLL_CTL_ADD && g_ctl_events == (uint32_t)MASK(self->d_)))
__CPROVER_ensures((__CPROVER_old(self->d_->ev.events) != 0 && MASK(self->d_) != 0) ==> (g_ctl_calls == 1 && g_ctl_op == EPOLL_CTL_MOD && g_ctl_events == (uint32_t)MASK(self->d_)))
__CPROVER_ensures((__CPROVER_old(self->d_->ev.events) != 0 && MASK(self->d_) == 0) ==> (g_ctl_calls == 1 && g_ctl_op == EPOLL_CTL_DEL))
''',
    ('ghost', 'Ev_reload', 'entry'): 'g_ev = self; g_ctl_calls = 0;',
}
SPEC_EN = {k: v for k, v in SPEC.items() if k != ('ghost', 'Ev_reload', 'entry')}
SPEC_EN.update({
    ('stub', 'Ev_reload'): True, ('contract', 'Ev_reload'): RELOAD_STUB,
    ('contract', 'Ev_enable'): EV_FRESH + r'''
__CPROVER_assigns(g_ev, g_reloads, v_mc_off, self->is_enabled_; self->d_ != 0: self->d_->read_event_num, self->d_->write_event_num, self->d_->except_event_num, self->d_->fd_events, self->d_->ev.events, __CPROVER_object_whole(self->d_->fd_events.data))
__CPROVER_frees(self->d_ != 0: self->d_->fd_events.data)
__CPROVER_ensures(T(__CPROVER_return_value) == (self->d_ != 0))
__CPROVER_ensures((self->d_ == 0 || T(__CPROVER_old(self->is_enabled_))) ==> (g_reloads == 0 && self->is_enabled_ == __CPROVER_old(self->is_enabled_)))
__CPROVER_ensures((self->d_ != 0 && T(__CPROVER_old(self->is_enabled_))) ==> (self->d_->fd_events.size == __CPROVER_old(self->d_->fd_events.size) && self->d_->read_event_num == __CPROVER_old(self->d_->read_event_num)))
__CPROVER_ensures((self->d_ != 0 && !T(__CPROVER_old(self->is_enabled_))) ==> (self->is_enabled_ == 1 && g_reloads == 1 &&
                  self->d_->read_event_num == __CPROVER_old(self->d_->read_event_num) + ((self->events_ & RD) ? 1 : 0) &&
                  self->d_->write_event_num == __CPROVER_old(self->d_->write_event_num) + ((self->events_ & WR) ? 1 : 0) &&
                  self->d_->except_event_num == __CPROVER_old(self->d_->except_event_num) + ((self->events_ & EX) ? 1 : 0) &&
                  self->d_->fd_events.size == __CPROVER_old(self->d_->fd_events.size) + 1 && self->d_->fd_events.data[self->d_->fd_events.size - 1] == self &&
                  self->d_->ev.events == (uint32_t)MASK(self->d_)))
''',
    ('ghost', 'Ev_enable', 'entry'): 'g_ev = self; g_reloads = 0;',
    ('contract', 'Ev_disable'): EV_FRESH + r'''
__CPROVER_requires((self->d_ != 0 && T(self->is_enabled_)) ==> (g_pos < self->d_->fd_events.size && self->d_->fd_events.data[g_pos] == self &&           /* enabled => in the list (established by enable) */
                   self->d_->read_event_num >= ((self->events_ & RD) ? 1 : 0) && self->d_->write_event_num >= ((self->events_ & WR) ? 1 : 0) && self->d_->except_event_num >= ((self->events_ & EX) ? 1 : 0)))
__CPROVER_assigns(g_ev, g_reloads, v_mc_off, self->is_enabled_; self->d_ != 0: self->d_->read_event_num, self->d_->write_event_num, self->d_->except_event_num, self->d_->fd_events.size, self->d_->ev.events, __CPROVER_object_whole(self->d_->fd_events.data))
__CPROVER_ensures(T(__CPROVER_return_value))
__CPROVER_ensures((self->d_ == 0 || !T(__CPROVER_old(self->is_enabled_))) ==> (g_reloads == 0 && self->is_enabled_ == __CPROVER_old(self->is_enabled_)))
__CPROVER_ensures((self->d_ != 0 && T(__CPROVER_old(self->is_enabled_))) ==> (self->is_enabled_ == 0 && g_reloads == 1 &&
                  self->d_->read_event_num == __CPROVER_old(self->d_->read_event_num) - ((self->events_ & RD) ? 1 : 0) &&
                  self->d_->write_event_num == __CPROVER_old(self->d_->write_event_num) - ((self->events_ & WR) ? 1 : 0) &&
                  self->d_->except_event_num == __CPROVER_old(self->d_->except_event_num) - ((self->events_ & EX) ? 1 : 0) &&
                  self->d_->fd_events.size == __CPROVER_old(self->d_->fd_events.size) - 1 && self->d_->ev.events == (uint32_t)MASK(self->d_)))
''',
    ('ghost', 'Ev_disable', 'entry'): 'g_ev = self; g_reloads = 0;',
    ('loop', 'Ev_disable__find0', 1): r'''
__CPROVER_assigns(i)
__CPROVER_loop_invariant(i <= n && i <= g_pos)
__CPROVER_decreases(n - i)
''',
})
SPEC_ON = {
    ('prelude_early',): EARLY, ('prelude',): PRELUDE, ('stub', 'Ev_disable'): True, ('stub', 'Loop_begin'): True, ('stub', 'Loop_end'): True,
    ('after_protos',): r'''
void Loop_begin(struct v_ELoop *l)
__CPROVER_requires(g_begins == 0 && g_cb_calls == 0)
__CPROVER_assigns(g_begins)
__CPROVER_ensures(g_begins == 1)
;
void Loop_end(struct v_ELoop *l, struct event_Event *e)
__CPROVER_requires(g_begins == 1 && g_ends == 0)
__CPROVER_assigns(g_ends)
__CPROVER_ensures(g_ends == 1)
;
void v_fn_call__void_short(struct v_function *f, short ev)
__CPROVER_requires(f == &g_ev->cb_ && T(f->engaged) && g_cb_calls == 0 && g_begins == 1 && g_ends == 0 && g_ev->cb_level_ >= 1)
__CPROVER_requires((g_ev->events_ & (uint32_t)ev) != 0)                                       /* only when a subscribed condition is ready */
__CPROVER_requires(T(g_ev->is_stop_after_trigger_) ==> g_disables == 1)                       /* a one-shot event is already disabled when its callback runs */
__CPROVER_assigns(g_cb_calls, g_cb_mask)
__CPROVER_ensures(g_cb_calls == 1 && g_cb_mask == ev)
;
''',
    ('contract', 'Ev_disable'): '__CPROVER_requires(self == g_ev && g_disables == 0 && g_begins == 0)\n__CPROVER_assigns(g_disables)\n__CPROVER_ensures(g_disables == 1)\n',
    ('contract', 'Ev_onEvent'): r'''
__CPROVER_requires(__CPROVER_is_fresh(self, sizeof(*self)) && self->cb_level_ >= 0 && self->cb_level_ < 1000 && (self->is_stop_after_trigger_ == 0 || self->is_stop_after_trigger_ == 1))
__CPROVER_assigns(g_ev, g_cb_calls, g_cb_mask, g_begins, g_ends, g_disables, self->cb_level_)
__CPROVER_ensures(self->cb_level_ == __CPROVER_old(self->cb_level_))
__CPROVER_ensures((self->events_ & (uint32_t)events) == 0 ==> (g_cb_calls == 0 && g_disables == 0 && g_begins == 0))
__CPROVER_ensures((self->events_ & (uint32_t)events) != 0 ==> (g_cb_calls == (T(self->cb_.engaged) ? 1 : 0) && g_disables == (T(self->is_stop_after_trigger_) ? 1 : 0) && g_begins == 1 && g_ends == 1 &&
                  (T(self->cb_.engaged) ==> g_cb_mask == events)))
''',
    ('ghost', 'Ev_onEvent', 'entry'): 'g_ev = self; g_cb_calls = 0; g_begins = 0; g_ends = 0; g_disables = 0;',
}
SPEC_CB = {
    ('prelude_early',): EARLY, ('prelude',): PRELUDE + 'static short g_mask; static size_t g_snapshot;\n', ('stub', 'Ev_onEvent'): True,
    ('contract', 'Ev_onEvent'): r'''
__CPROVER_requires(T(g_find_hit) && events == g_mask)                        /* only a subscriber that is still in the live list, with the translated mask */
__CPROVER_assigns(g_dispatches, g_find_hit, g_d->fd_events.size)
__CPROVER_ensures(g_dispatches == __CPROVER_old(g_dispatches) + 1 && g_find_hit == 0 && g_d->fd_events.size <= __CPROVER_old(g_d->fd_events.size))     /* callbacks may disable/destroy subscribers */
''',
    ('contract', 'Ev_OnEventCallback'): r'''
__CPROVER_requires(__CPROVER_is_fresh(obj, sizeof(SD)) && SD_OK((SD *)obj))
__CPROVER_assigns(g_d, g_mask, g_snapshot, g_dispatches, g_find_hit, v_mc_off, ((SD *)obj)->fd_events.size)
__CPROVER_ensures(g_mask == (((events & (EPOLLIN | EPOLLHUP)) ? RD : 0) | ((events & EPOLLOUT) ? WR : 0) | ((events & EPOLLERR) ? EX : 0)))
__CPROVER_ensures(g_dispatches <= g_snapshot)                                                           /* each subscriber of the snapshot at most once */
''',
    ('ghost', 'Ev_OnEventCallback', 'entry'): 'g_d = (SD *)obj; g_dispatches = 0; g_find_hit = 0; g_snapshot = g_d->fd_events.size;\n'
        '  g_mask = (short)(((events & (EPOLLIN | EPOLLHUP)) ? RD : 0) | ((events & EPOLLOUT) ? WR : 0) | ((events & EPOLLERR) ? EX : 0));',
    ('loop', 'Ev_OnEventCallback', 1): r'''
__CPROVER_assigns(__i1, g_dispatches, g_find_hit, d->fd_events.size)
__CPROVER_loop_invariant(__i1 <= __r1->size && __r1 == &tmp && tmp.size == g_snapshot && g_dispatches <= __i1 && g_find_hit == 0 && d == g_d && tbox_events == g_mask && d->fd_events.size <= g_snapshot)
__CPROVER_loop_invariant(__CPROVER_rw_ok(tmp.data, (tmp.size ? tmp.size : 1) * sizeof(Ev *)) && __CPROVER_rw_ok(d->fd_events.data, (g_snapshot ? g_snapshot : 1) * sizeof(Ev *)))
__CPROVER_decreases(__r1->size - __i1)
''',
    ('ghost', 'Ev_OnEventCallback__find0', 'hit'): 'g_find_hit = 1;',
    ('ghost', 'Ev_OnEventCallback__find0', 'entry'): 'g_find_hit = 0;',
    ('loop', 'Ev_OnEventCallback__find0', 1): r'''
__CPROVER_assigns(i)
__CPROVER_loop_invariant(i <= n && g_find_hit == 0)
__CPROVER_decreases(n - i)
''',
}
H = lambda body: '\nvoid H(void)\n{\n' + body + '\n  __CPROVER_assert(0, "VACUITY-CANARY");\n}\n'
def COMMON(spec): return dict(tu=TU, filter='tbox::event', rename=R, spec=spec,
    plugins=[StdFunction(), StdVector(), Chrono(abstract_time=True), StringStreamSink(), OpaqueString(), Syscalls(extra=('epoll_ctl',)), OpaqueTypes({r'^std::unordered_map<.*>$': 'v_umap', r'^(tbox::)?ObjectPool<.*>$': 'v_pool'})],
    model_headers=['fn_model.h', 'vec_model.h', 'misc_model.h'],
    opaque_records={'tbox::event::CommonLoop': 'struct v_ELoop', 'tbox::event::EpollLoop': 'struct v_ELoop', 'tbox::event::Loop': 'struct v_Loop'})
N = 'tbox::event::EpollFdEvent::'
UNITS = [
  UnitSpec(name='epoll_reload', emit=[N + 'reloadEpoll'], targets=[Target('reloadEpoll', H('  Ev *e; Ev_reload(e);'), enforce='Ev_reload', replace=['Loop_epollFd', 'v_sys_epoll_ctl'], clause='kernel interest == conditions with a subscriber; ADD/MOD/DEL chosen by old and new interest')], **COMMON(SPEC)),
  UnitSpec(name='epoll_enable', emit=[N + 'enable', N + 'disable'], targets=[
      Target('enable', H('  Ev *e; Ev_enable(e);'), enforce='Ev_enable', replace=['Ev_reload'], bound='at most 63 subscribers per descriptor (loops under contract)', clause='enable: counts of the subscribed conditions + 1, joins the back of the list, registration recomputed'),
      Target('disable', H('  Ev *e; Ev_disable(e);'), enforce='Ev_disable', replace=['Ev_reload'], bound='at most 63 subscribers per descriptor (loops under contract)', clause='disable: counts - 1, leaves the list, registration recomputed')],
      **COMMON(SPEC_EN)),
  UnitSpec(name='epoll_onevent', emit=[N + 'onEvent'], targets=[Target('onEvent', H('  Ev *e; short m; Ev_onEvent(e, m);'), enforce='Ev_onEvent', replace=['Ev_disable', 'Loop_begin', 'Loop_end', 'v_fn_call__void_short'],
      clause='callback only when a subscribed condition is ready; one-shot disabled before the callback; once; cb_level_ balanced')], **COMMON(SPEC_ON)),
  UnitSpec(name='epoll_dispatch', emit=[N + 'OnEventCallback'], targets=[Target('OnEventCallback', H('  uint32_t m; void *o; Ev_OnEventCallback(m, o);'), enforce='Ev_OnEventCallback', replace=['Ev_onEvent'], timeout=600, bound='at most 63 subscribers per descriptor (loops under contract)', 
      clause='mask translation; subscribers walked over a snapshot; only those still in the live list are called back, each at most once')], **COMMON(SPEC_CB)),
]
def native_replay(u, t, o, w, workdir):
    import replay as rp
    L = '/repo/_build/modules'
    libs = ['%s/event/libtbox_event.a' % L, '%s/util/libtbox_util.a' % L, '%s/base/libtbox_base.a' % L, '-ldl']
    srcs = ['modules/event/engines/epoll/fd_event.cpp', 'modules/event/engines/epoll/loop.cpp']
    return rp.attempt('fd_event', srcs, os.path.join(workdir, 'replay'), [('disable-sibling', ['epoll', 'd']), ('destroy-sibling', ['epoll', 'x'])], extra=libs)
