"""Model table for cxx2c: what calls/types outside an extraction unit are printed as.

Every entry here is part of the trusted base (DESIGN.md section 8, A-models).
A callee or type that is not listed makes the extraction abort (exit 2).
The C side of the models lives in /verif/models/*.h; `prelude()` includes them.
"""
import re, os
from cxx2c import Unsupported, fn_param_types

MODELS_DIR = os.path.join(os.path.dirname(os.path.dirname(os.path.abspath(__file__))), 'models')

LIBC_PASSTHROUGH = {
    # name -> C name in models/libc_model.h (contract models, weaker than libc)
    'memcpy': 'v_memcpy', 'memmove': 'v_memmove', 'memset': 'v_memset', 'strlen': 'v_strlen',
    'isprint': 'v_isprint', 'islower': 'v_islower', 'isupper': 'v_isupper', 'isdigit': 'v_isdigit',
    'isalpha': 'v_isalpha', 'isgraph': 'v_isgraph', 'isalnum': 'v_isalnum', 'isspace': 'v_isspace', 'isxdigit': 'v_isxdigit',
    'toupper': 'v_toupper', 'tolower': 'v_tolower', 'abort': 'v_abort', 'free': 'v_free', 'malloc': 'v_malloc',
    '__builtin_expect': 'V_BUILTIN_EXPECT', 'htons': 'v_bswap16', 'ntohs': 'v_bswap16', 'htonl': 'v_bswap32', 'ntohl': 'v_bswap32',
}

class Models:
    def __init__(self, extra_headers=(), use=()):
        self.extra_headers = list(extra_headers)
        self.used = set()
        self.use = set(use)
        self.plugins = []

    def add(self, plugin):
        self.plugins.append(plugin); return self

    # ---- prelude
    def prelude(self, unit):
        hs = ['libc_model.h'] + self.extra_headers
        return '\n'.join('#include "%s"' % os.path.join(MODELS_DIR, h) for h in hs)

    # ---- types
    def type_for(self, name, unit):
        for p in self.plugins:
            r = p.type_for(name, unit)
            if r: return r
        return None

    def is_model_type(self, ct):
        for p in self.plugins:
            if p.is_model_type(ct): return True
        return False

    def enum_constant(self, name):
        for p in self.plugins:
            r = p.enum_constant(name)
            if r is not None: return r
        return None

    def global_var(self, name):
        if name == 'errno': return 'v_errno'
        for p in self.plugins:
            r = p.global_var(name)
            if r is not None: return r
        return None

    def member_access(self, unit, n, base_text):
        base = unit.kids(n)[0]
        bt = (base.get('type', {}).get('desugaredQualType') or base.get('type', {}).get('qualType', '')).replace('const ', '').replace('struct ', '').replace('*', '').strip()
        if n.get('name') == '__sigaction_handler': return base_text        # glibc: sa_handler / sa_sigaction are macros for __sigaction_handler.<member>; the C compiler expands them again
        if bt in ('iovec', 'timeval', 'timespec', 'tm', 'timezone', 'epoll_event', 'epoll_data', 'epoll_data_t', 'fd_set', 'sigaction', 'sockaddr_in', 'sockaddr', 'ucontext_t', 'stack_t'):
            return '%s%s%s' % (base_text, '->' if n.get('isArrow') else '.', n['name'])     # plain C struct of the system headers
        if n.get('name') in ('sa_handler', 'sa_sigaction'):
            return '%s%s%s' % (base_text, '->' if n.get('isArrow') else '.', n['name'])     # the handler union inside struct sigaction
        for p in self.plugins:
            r = p.member_access(unit, n, base_text)
            if r is not None: return r
        return None

    # ---- calls
    def free_call(self, unit, name, rd, args, n):
        if name in LIBC_PASSTHROUGH:
            self.used.add(name)
            return '%s(%s)' % (LIBC_PASSTHROUGH[name], ', '.join(unit.expr(a) for a in args))
        if name == '__errno_location': return '(&v_errno)'
        if name == 'strerror': return '((char *)0)'
        if name == 'swap' and len(args) == 2:
            self.used.add('std::swap')
            a, b = args
            ct, _ = unit.ctype_node(a)
            if ct.startswith('struct ') and not ct.strip().endswith('*') and not self.is_model_type(ct):
                # a record whose fields are all scalars / pointers is trivially copyable: exchanging the representations IS std::swap
                rec = unit.record_by_cname(ct[len('struct '):].strip()) if hasattr(unit, 'record_by_cname') else None
                plain = rec is not None and all(not unit.decl_text(f, f['name'])[0].startswith('struct ') or '*' in unit.decl_text(f, f['name'])[0] for f in unit.record_fields(rec) if f.get('name'))
                if not plain: raise Unsupported('std::swap of records (in %s)' % unit.cur)      # model containers are plain (pointer, size) structs: swapping the structs is std::swap
            return 'V_SWAP(%s, %s, %s)' % (ct, unit.expr(a), unit.expr(b))
        if name in ('min', 'max') and len(args) == 2:
            self.used.add('std::' + name)
            a, b = args
            ct, _ = unit.ctype_node(n)
            ct = ct.replace('const ', '').rstrip('*').strip()
            return 'V_%s(%s, %s, %s)' % (name.upper(), ct, unit.expr(a), unit.expr(b))
        if name in ('max', 'min') and len(args) == 0:
            # std::numeric_limits<T>::max() / min()
            ct, _ = unit.ctype_node(n)
            from cxx2c import INT_RANGE
            ct = ct.replace('const ', '').strip()
            if ct in INT_RANGE:
                lo, hi = INT_RANGE[ct]
                return unit.int_lit(hi if name == 'max' else lo, ct)
            raise Unsupported('numeric_limits of ' + ct)
        if name in ('move', 'forward') and len(args) == 1:
            return unit.expr(args[0])
        for p in self.plugins:
            r = p.free_call(unit, name, rd, args, n)
            if r is not None: return r
        return None

    def member_call(self, unit, n, me, base, args):
        for p in self.plugins:
            r = p.member_call(unit, n, me, base, args)
            if r is not None: return r
        return None

    def operator_call(self, unit, n, rd, args):
        for p in self.plugins:
            r = p.operator_call(unit, n, rd, args)
            if r is not None: return r
        return None

    def indirect_call(self, unit, n, callee, args):
        for p in self.plugins:
            r = p.indirect_call(unit, n, callee, args)
            if r is not None: return r
        return None

    def construct_expr(self, unit, n):
        for p in self.plugins:
            r = p.construct_expr(unit, n)
            if r is not None: return r
        return None

    def lambda_expr(self, unit, n):
        for p in self.plugins:
            r = p.lambda_expr(unit, n)
            if r is not None: return r
        return None

    def placement_new(self, unit, n):
        for p in self.plugins:
            r = p.placement_new(unit, n)
            if r is not None: return r
        return None

    def new_expr(self, unit, n, elem):
        for p in self.plugins:
            if p.is_model_type(elem):
                r = p.new_expr(unit, n, elem)
                if r is not None: return r
        return None

    def exception_code(self, unit, e):
        for p in self.plugins:
            r = p.exception_code(unit, e)
            if r is not None: return r
        return 1

    def range_for(self, unit, n, ind):
        for p in self.plugins:
            if p.range_for(unit, n, ind): return
        raise Unsupported('range-for over a container without a model (in %s)' % unit.cur)

    def try_stmt(self, unit, n, ind):
        for p in self.plugins:
            if p.try_stmt(unit, n, ind): return
        raise Unsupported('try/catch (in %s)' % unit.cur)

    def local_object(self, unit, v, ct, name, ks, p):
        for pl in self.plugins:
            if pl.is_model_type(ct):
                pl.local_object(unit, v, ct, name, ks, p); return
        raise Unsupported('local model object ' + ct)

    def field_init(self, unit, f, ct, target, e):
        for pl in self.plugins:
            if pl.is_model_type(ct): return pl.field_init(unit, f, ct, target, e)
        raise Unsupported('field of model type ' + ct)

    def field_dtor(self, unit, f, ct, target):
        for pl in self.plugins:
            if pl.is_model_type(ct): return pl.field_dtor(unit, f, ct, target)
        return []


class Plugin:
    """base class: every hook declines"""
    def type_for(self, name, unit): return None
    def is_model_type(self, ct): return False
    def enum_constant(self, name): return None
    def global_var(self, name): return None
    def member_access(self, unit, n, base_text): return None
    def free_call(self, unit, name, rd, args, n): return None
    def member_call(self, unit, n, me, base, args): return None
    def operator_call(self, unit, n, rd, args): return None
    def indirect_call(self, unit, n, callee, args): return None
    def construct_expr(self, unit, n): return None
    def lambda_expr(self, unit, n): return None
    def placement_new(self, unit, n): return None
    def new_expr(self, unit, n, elem): return None
    def exception_code(self, unit, e): return None
    def range_for(self, unit, n, ind): return False
    def try_stmt(self, unit, n, ind): return False
    def local_object(self, unit, v, ct, name, ks, p): raise Unsupported('local object of ' + ct)
    def field_init(self, unit, f, ct, target, e): raise Unsupported('field of ' + ct)
    def field_dtor(self, unit, f, ct, target): return []
