"""C19 — MD5 (modules/crypto/md5.cpp) against RFC 1321.

Decomposition (DESIGN C19):
  1. Transform == one RFC 1321 compression: 64 step lemmas.  After each of the 64 macro-expanded FF/GG/HH/II blocks a
     ghost statement advances a ghost reference state by ONE step of the RFC's formula
        a = b + ((a + f(b,c,d) + X[g(i)] + T[i]) <<< s[i])
     (round function, message index g(i), T[i], s[i] from the RFC's tables), asserts equality with the real (a,b,c,d) and
     re-synchronises.  Symbolic chaining state and block; loop-free; plus the final state += (a,b,c,d).
  2. update/finish hand Transform exactly the consecutive 64-byte chunks of (message ++ RFC padding): absolute stream
     position ghost g_N, call counter g_tcalls, tracked stream byte (g_k, g_byte).  Transform is REPLACED by its contract
     there; the contract's precondition is the check "this block is chunk number g_tcalls of the stream".
     => the digest does not depend on how the message is split into update() calls.
  3. initial state == RFC constants; digest == little-endian image of the state.
Two defects of update() for very large single updates (>= 512 MiB: spurious carry; >= 4 GiB: 32-bit block index) were found by
the update contract and repaired (fix: commits, known_findings.json); the contract now covers every length < 2^40.
"""
import os
from verif import UnitSpec, Target

K = """0xd76aa478,0xe8c7b756,0x242070db,0xc1bdceee,0xf57c0faf,0x4787c62a,0xa8304613,0xfd469501,
0x698098d8,0x8b44f7af,0xffff5bb1,0x895cd7be,0x6b901122,0xfd987193,0xa679438e,0x49b40821,
0xf61e2562,0xc040b340,0x265e5a51,0xe9b6c7aa,0xd62f105d,0x02441453,0xd8a1e681,0xe7d3fbc8,
0x21e1cde6,0xc33707d6,0xf4d50d87,0x455a14ed,0xa9e3e905,0xfcefa3f8,0x676f02d9,0x8d2a4c8a,
0xfffa3942,0x8771f681,0x6d9d6122,0xfde5380c,0xa4beea44,0x4bdecfa9,0xf6bb4b60,0xbebfbc70,
0x289b7ec6,0xeaa127fa,0xd4ef3085,0x04881d05,0xd9d4d039,0xe6db99e5,0x1fa27cf8,0xc4ac5665,
0xf4292244,0x432aff97,0xab9423a7,0xfc93a039,0x655b59c3,0x8f0ccc92,0xffeff47d,0x85845dd1,
0x6fa87e4f,0xfe2ce6e0,0xa3014314,0x4e0811a1,0xf7537e82,0xbd3af235,0x2ad7d2bb,0xeb86d391"""

PRELUDE = r'''
/* ---- RFC 1321 reference step (tables T[i] = floor(2^32 * |sin(i+1)|), per-round shifts) ---- */
static const uint32_t RFC_T[64] = {''' + K + r'''};
static const uint8_t RFC_S[64] = {7,12,17,22,7,12,17,22,7,12,17,22,7,12,17,22,5,9,14,20,5,9,14,20,5,9,14,20,5,9,14,20,
4,11,16,23,4,11,16,23,4,11,16,23,4,11,16,23,6,10,15,21,6,10,15,21,6,10,15,21,6,10,15,21};
static uint32_t rA, rB, rC, rD, rM[16], rS0[4];
#ifdef MD5_STEPS
#define RL(x, n) (((x) << (n)) | ((x) >> (32 - (n))))
#define REF_INIT() do { rA = a; rB = b; rC = c; rD = d; rS0[0] = state_[0]; rS0[1] = state_[1]; rS0[2] = state_[2]; rS0[3] = state_[3]; \
  for (int q = 0; q < 16; q++) rM[q] = (uint32_t)block[4*q] | ((uint32_t)block[4*q+1] << 8) | ((uint32_t)block[4*q+2] << 16) | ((uint32_t)block[4*q+3] << 24); } while (0)
#define REFSTEP(i) do { uint32_t f; int g; \
  if ((i) < 16) { f = (rB & rC) | (~rB & rD); g = (i); } else if ((i) < 32) { f = (rD & rB) | (~rD & rC); g = (5*(i)+1) % 16; } \
  else if ((i) < 48) { f = rB ^ rC ^ rD; g = (3*(i)+5) % 16; } else { f = rC ^ (rB | ~rD); g = (7*(i)) % 16; } \
  f = rA + (f + rM[g] + RFC_T[i]); rA = rD; rD = rC; rC = rB; rB = RL(f, RFC_S[i]) + rB; \
  if (((i)+1) % 4 == 1) { __CPROVER_assert(rA == d && rB == a && rC == b && rD == c, "MD5 step == RFC 1321 step"); rA = d; rB = a; rC = b; rD = c; } \
  else if (((i)+1) % 4 == 2) { __CPROVER_assert(rA == c && rB == d && rC == a && rD == b, "MD5 step == RFC 1321 step"); rA = c; rB = d; rC = a; rD = b; } \
  else if (((i)+1) % 4 == 3) { __CPROVER_assert(rA == b && rB == c && rC == d && rD == a, "MD5 step == RFC 1321 step"); rA = b; rB = c; rC = d; rD = a; } \
  else { __CPROVER_assert(rA == a && rB == b && rC == c && rD == d, "MD5 step == RFC 1321 step"); rA = a; rB = b; rC = c; rD = d; } } while (0)
#else
#define REF_INIT() ((void)0)
#define REFSTEP(i) ((void)0)
#endif
/* ---- stream ghosts ---- */
static uint64_t g_N;        /* bytes fed so far */
static uint64_t g_tcalls;   /* Transform calls so far */
static uint64_t g_k; static uint8_t g_byte;   /* tracked absolute stream offset and the byte the stream has there */
static size_t g_o;          /* tracked digest byte */
#define MDINV(m) ((m)->count_[0] == (uint32_t)(g_N << 3) && (m)->count_[1] == (uint32_t)(g_N >> 29) && g_tcalls == (g_N >> 6) && \
                  ((g_k >= (g_N & ~63UL) && g_k < g_N) ==> (m)->buffer_[g_k & 63] == g_byte))
/* RFC 1321 3.1/3.2 padding of an N-byte message: 0x80, zeros up to 56 mod 64, then the bit length as 64-bit little endian */
#define PADEND(N) ((((N) + 8) | 63UL) + 1)
#define PADBYTE_OK(N) ((g_k == (N) ==> g_byte == 0x80) && ((g_k > (N) && g_k < PADEND(N) - 8) ==> g_byte == 0) && \
                       ((g_k >= PADEND(N) - 8 && g_k < PADEND(N)) ==> g_byte == (uint8_t)(((N) << 3) >> (8 * (g_k - (PADEND(N) - 8))))))
'''

SPEC = {
    ('contract', 'crypto_Transform'): r'''
__CPROVER_requires(V_PREBLK_crypto_Transform(state_, 16) && V_PREBLK_R_crypto_Transform(block, 64))
__CPROVER_requires((g_k >> 6) == g_tcalls ==> block[g_k & 63] == g_byte)
__CPROVER_assigns(g_tcalls, rA, rB, rC, rD, rS0, rM, __CPROVER_object_upto(state_, 16))
__CPROVER_ensures(g_tcalls == __CPROVER_old(g_tcalls) + 1)
''',
    ('ghost', 'crypto_Transform', 'entry'): 'g_tcalls++;',
    ('ghost', 'crypto_Transform', 'after_call:crypto_Decode:1'): 'REF_INIT();',
    ('ghost', 'crypto_Transform', 'exit'): '#ifdef MD5_STEPS\n__CPROVER_assert(state_[0] == rS0[0] + rA && state_[1] == rS0[1] + rB && state_[2] == rS0[2] + rC && state_[3] == rS0[3] + rD, "final addition of the chaining value (RFC 1321 3.4)");\n#endif',
    ('contract', 'crypto_MD5_ctor'): r'''
__CPROVER_requires(__CPROVER_is_fresh(self, sizeof(*self)))
__CPROVER_assigns(*self, g_N, g_tcalls)
__CPROVER_ensures(self->state_[0] == 0x67452301u && self->state_[1] == 0xefcdab89u && self->state_[2] == 0x98badcfeu && self->state_[3] == 0x10325476u)
__CPROVER_ensures(g_N == 0 && MDINV(self))
''',
    ('ghost', 'crypto_MD5_ctor', 'exit'): 'g_N = 0; g_tcalls = 0;',
    ('contract', 'crypto_MD5_update'): r'''
__CPROVER_requires(__CPROVER_is_fresh(self, sizeof(*self)) && MDINV(self) && g_N < (1UL << 57))
__CPROVER_requires(plain_text_len < V_MAXSZ && __CPROVER_is_fresh(plain_text_ptr, (plain_text_len > 0 ? plain_text_len : 1)))
__CPROVER_requires((g_k >= g_N && g_k < g_N + plain_text_len) ==> ((const uint8_t *)plain_text_ptr)[g_k - g_N] == g_byte)
__CPROVER_assigns(*self, g_N, g_tcalls, v_mc_off, rA, rB, rC, rD, rS0, rM)
__CPROVER_ensures(g_N == __CPROVER_old(g_N) + plain_text_len && MDINV(self))
''',
    ('ghost', 'crypto_MD5_update', 'before_call:memcpy:1'): 'v_mc_off[0] = g_k - g_N; v_mc_off[1] = v_mc_off[0];',
    ('loop', 'crypto_MD5_update', 1): r'''
__CPROVER_assigns(i, g_tcalls, rA, rB, rC, rD, rS0, rM, __CPROVER_object_upto(self->state_, 16))
__CPROVER_loop_invariant(partlen <= i && i <= plain_text_len && ((g_N + i) & 63) == 0 && g_tcalls == ((g_N + i) >> 6))
__CPROVER_decreases(plain_text_len - i)
''',
    ('ghost', 'crypto_MD5_update', 'before_call:memcpy:2'): 'v_mc_off[0] = g_k - g_N - i; v_mc_off[1] = v_mc_off[0];',
    ('ghost', 'crypto_MD5_update', 'exit'): 'g_N += plain_text_len;',
    ('contract', 'crypto_MD5_finish'): r'''
__CPROVER_requires(__CPROVER_is_fresh(self, sizeof(*self)) && MDINV(self) && g_N < (1UL << 56) && __CPROVER_is_fresh(digest, 16))
__CPROVER_requires(PADBYTE_OK(g_N) && g_o < 16)
__CPROVER_assigns(*self, g_N, g_tcalls, v_mc_off, rA, rB, rC, rD, rS0, rM, __CPROVER_object_upto(digest, 16))
__CPROVER_ensures(g_N == PADEND(__CPROVER_old(g_N)) && g_tcalls == (g_N >> 6))
__CPROVER_ensures(digest[g_o] == (uint8_t)(self->state_[g_o >> 2] >> (8 * (g_o & 3))))
''',
}

H = lambda body: '\nvoid H(void)\n{\n' + body + '\n  __CPROVER_assert(0, "VACUITY-CANARY");\n}\n'

for i in range(64):
    SPEC[('ghost', 'crypto_Transform', 'after_block:%d' % (i + 1))] = 'REFSTEP(%d);' % i

H_STEPS = H('  uint32_t st[4]; uint8_t blk[64]; crypto_Transform(st, blk);')

REPLAY_SOURCES = ['modules/crypto/md5.cpp', 'modules/base/log_impl.cpp']
def native_replay(u, t, o, w, workdir):
    import replay as rp
    return rp.attempt('md5', REPLAY_SOURCES, os.path.join(workdir, 'replay'), [('native-search', ['search', 1])])

UNITS = [UnitSpec(
    name='md5', tu='modules/crypto/md5.cpp', filter='tbox::crypto', spec=SPEC, prelude=PRELUDE,
    emit=['tbox::crypto::MD5::ctor', 'tbox::crypto::MD5::update', 'tbox::crypto::MD5::finish'],
    targets=[
        Target('Transform.steps', H_STEPS, loops=False, unwind=18, no_checks=['--signed-overflow-check'], sat='cadical', defines=['MD5_STEPS'], timeout=900,
               clause='64 step lemmas + final add: Transform == RFC 1321 compression function (symbolic block and chaining value)',
               functions=['crypto_Transform', 'crypto_Decode']),
        Target('Transform.contract', H('  uint32_t *st; const uint8_t *blk; crypto_Transform(st, blk);'), enforce='crypto_Transform', loops=False, unwind=18, no_checks=['--signed-overflow-check'],
               clause='Transform counts one block per call and touches only the chaining value'),
        Target('ctor', H('  struct crypto_MD5 *m; crypto_MD5_ctor(m);'), enforce='crypto_MD5_ctor', clause='initial chaining value == RFC 1321 3.3'),
        Target('update', H('  struct crypto_MD5 *m; const void *p; size_t n; crypto_MD5_update(m, p, n);'), enforce='crypto_MD5_update', replace=['crypto_Transform'],
               clause='update hands Transform exactly the consecutive 64-byte chunks of the concatenated stream (any split), bit count maintained'),
        Target('finish', H('  struct crypto_MD5 *m; uint8_t *d; crypto_MD5_finish(m, d);'), enforce='crypto_MD5_finish', replace=['crypto_MD5_update'], loops=False, unwind=24,
               clause='finish appends exactly the RFC 1321 padding (0x80, zeros to 56 mod 64, 64-bit LE bit length) and outputs the state little-endian'),
    ],
)]
