"""Model plugins for cxx2c (std::vector, std::string views, std::function stubs, ...).
Each plugin turns member/operator calls on a modelled type into calls of the C model in /verif/models."""
import re
from cxx2c import Unsupported, fn_param_types
from models import Plugin

def canon_type(qt):
    """normalise a clang type spelling of a std:: container"""
    qt = qt.replace('const ', '').replace(' const', '').strip()
    qt = re.sub(r'\s*&+$', '', qt).strip()
    qt = re.sub(r',\s*std::allocator<[^<>]*(<[^<>]*>)?[^<>]*>\s*', '', qt)
    qt = qt.replace('std::__cxx11::', 'std::')
    qt = qt.replace('unsigned char', 'uint8_t')
    return qt


def unit_ctype_ok(el, abstract):
    return el in ('int', 'unsigned int', 'long', 'size_t') and el in abstract


class StdVector(Plugin):
    """std::vector<T> for scalar / pointer T: struct v_vec_<T> (models/vec_model.h)"""
    def __init__(self, fixed=None, abstract=None, sets=False):
        self.decls = {}   # C struct name -> element C type
        self.abstract = abstract or {}   # element C type -> C predicate over `x` every stored element satisfies (size-only model)
        self.sets = sets                 # also model std::set<int-like> (size-only; requires the element type in `abstract`)
        self.fixed = fixed or {}   # element C type -> constant capacity (bounded model B(cap), DESIGN C08)

    def elem_of(self, name):
        name = canon_type(name)
        name = re.sub(r',\s*std::allocator<.*>\s*>$', '>', name)
        m = re.match(r'^std::(?:vector|deque)<(.*)>$', name)
        if m: return m.group(1).strip()
        m = re.match(r'^std::queue<(.*?)(?:,\s*std::deque<.*>\s*)?>$', name)        # std::queue over std::deque: push = push_back, pop = pop_front
        if m: return m.group(1).strip()
        if self.sets:
            m = re.match(r'^std::set<(.*?)(?:,\s*std::less<.*>\s*)?>$', name)        # std::set, only as a size-only model (iteration yields its elements in some order)
            if m and unit_ctype_ok(m.group(1).strip(), self.abstract): return m.group(1).strip()
        return None

    def type_for(self, name, unit):
        m = re.match(r'^(?:const )?__gnu_cxx::__alloc_traits<std::allocator<(.*)>, \1 ?>::(?:value_type|reference|const_reference)$', name.strip())
        if m: return unit.ctype(m.group(1))           # what vector::operator[] yields, spelled through the allocator traits
        if name.endswith('::value_type') or name.endswith('::reference') or name.endswith('::const_reference'):
            el = self.elem_of(name.rsplit('::', 1)[0])
            if el is not None: return unit.ctype(el)
        ie = self.iter_elem(name)
        if ie is not None and not canon_type(name).startswith('std::vector<'):
            return unit.ctype(ie) + ' *'
        el = self.elem_of(name)
        if el is None: return None
        ect = unit.ctype(el)
        cn = 'v_vec_' + re.sub(r'\W', '_', ect.replace('struct ', '').replace('*', 'p').replace(' ', ''))
        if cn not in self.decls:
            self.decls[cn] = ect
            if ect in self.abstract:
                unit.emitted_types['~' + cn] = 'V_VECABS_DECL(%s, %s, %s)' % (ect, cn, self.abstract[ect])
            elif ect in self.fixed:
                unit.emitted_types['~' + cn] = 'V_VECFIX_DECL(%s, %s, %d)' % (ect, cn, self.fixed[ect])
            else:
                unit.emitted_types['~' + cn] = 'V_VEC_DECL(%s, %s)' % (ect, cn)
            unit.type_order.append('~' + cn)
        return 'struct ' + cn

    def is_model_type(self, ct):
        return ct.replace('const ', '').strip().startswith('struct v_vec_')

    # ---- iterators: T* (forward) / T* one past the element (reverse) ----
    IT_RE = re.compile(r'__normal_iterator<(?:const )?(.*?) ?\*(?:const)?, *std::vector<')
    DQ_RE = re.compile(r'_Deque_iterator<(.*?), *(?:const )?\1 *&, *(?:const )?\1 *\*>')
    def iter_elem(self, qt):
        q = qt.replace('std::__cxx11::', 'std::')
        m = self.IT_RE.search(q) or self.DQ_RE.search(q)
        return m.group(1).strip() if m else None
    def node_iter(self, node):
        t = node.get('type', {})
        for qt in (t.get('desugaredQualType'), t.get('qualType')):
            if qt and self.iter_elem(qt): return ('reverse' if 'reverse_iterator<' in qt else 'forward'), self.iter_elem(qt)
        return None

    def raw_ptr_elem(self, node):
        """pointee type when the node is a plain pointer to a byte/char/integer scalar (std::find over a raw range)"""
        t = node.get('type', {})
        for qt in (t.get('desugaredQualType'), t.get('qualType')):
            m = re.match(r'^(const )?(uint8_t|unsigned char|char|signed char|int|unsigned int|uint16_t|uint32_t) ?\*( ?const)?$', (qt or '').strip())
            if m: return (m.group(1) or '') + m.group(2)
        return None

    def _recv(self, unit, base, is_arrow):
        b = unit.expr(base)
        return b if is_arrow else unit.addr_text(b)

    def _cn(self, unit, node):
        t = node.get('type', {})
        for qt in (t.get('desugaredQualType'), t.get('qualType')):
            if not qt: continue
            q = qt.replace('const ', '').strip()
            q = re.sub(r'\s*\*$', '', q).strip()
            r = self.type_for(q, unit)
            if r and self.is_model_type(r): return r[len('struct '):]       # only the container itself, not what an element type resolves to
        return None

    def member_call(self, unit, n, me, base, args):
        cn = self._cn(unit, base)
        if cn is None: return None
        name = me['name']
        bt = base.get('type', {}); bq = canon_type(bt.get('desugaredQualType') or bt.get('qualType') or '')
        if re.match(r'^std::queue<', re.sub(r'\s*\*$', '', bq)): name = {'push': 'push_back', 'pop': 'pop_front', 'emplace': 'push_back'}.get(name, name)
        recv = self._recv(unit, base, me.get('isArrow'))
        a = [unit.expr(x) for x in args]
        if name in ('size', 'empty', 'data', 'resize', 'reserve', 'clear', 'pop_back', 'pop_front'):
            return '%s_%s(%s)' % (cn, name, ', '.join([recv] + a))
        if self.decls.get(cn) in self.abstract and name in ('begin', 'cbegin', 'rend', 'crend', 'end', 'cend', 'rbegin', 'crbegin'):
            raise Unsupported('iterator/data access on a size-only container model (in %s)' % unit.cur)
        if name in ('begin', 'cbegin', 'rend', 'crend'): return '(%s->data)' % recv
        if name in ('end', 'cend', 'rbegin', 'crbegin'): return '(%s->data + %s->size)' % (recv, recv)
        if name in ('push_back', 'emplace_back') and len(a) == 1:
            a0 = a[0]
            if a0.startswith('(*') and a0.endswith(')') and self.decls.get(cn, '').startswith('struct '): pass
            return '%s_push_back(%s, %s)' % (cn, recv, a0)
        if name == 'erase' and len(a) == 1:
            return '%s_erase_one(%s, %s)' % (cn, recv, a[0])
        if name == 'erase' and len(a) == 2:
            return '%s_erase_to_end(%s, %s, %s)' % (cn, recv, a[0], a[1])
        if name == 'swap' and len(a) == 1:
            return 'V_SWAP(struct %s, *%s, *%s)' % (cn, recv, unit.addr_of(args[0]))
        if name in ('back', 'front'):
            return '(*%s_%s(%s))' % (cn, name, recv)
        if name == 'at':
            unit.stmt_may_throw = True
            return '(*%s_at(%s, %s))' % (cn, recv, a[0])
        raise Unsupported('std::vector::%s (in %s)' % (name, unit.cur))

    def operator_call(self, unit, n, rd, args):
        op = rd.get('name')
        if op == 'operator=' and len(args) == 2:
            cn = self._cn(unit, args[0])
            if cn is not None and self._cn(unit, args[1]) == cn and self.decls.get(cn) not in self.abstract and self.decls.get(cn) not in self.fixed:
                return '(*%s_assign(%s, %s))' % (cn, unit.addr_of(args[0]), unit.addr_of(args[1]))
        if op == 'operator[]' and args:
            cn = self._cn(unit, args[0])
            if cn is None: return None
            return '(*%s_index(%s, %s))' % (cn, unit.addr_of(args[0]), unit.expr(args[1]))
        it = self.node_iter(args[0]) if args else None
        if it:
            kind = it[0]; x = unit.expr(args[0])
            if op in ('operator!=', 'operator==') and len(args) == 2: return '(%s %s %s)' % (x, op[-2:], unit.expr(args[1]))
            if op == 'operator++': return ('(--%s)' if kind == 'reverse' else '(++%s)') % x
            if op == 'operator--': return ('(++%s)' if kind == 'reverse' else '(--%s)') % x
            if op == 'operator->': return ('(%s - 1)' if kind == 'reverse' else '(%s)') % x
            if op == 'operator*': return ('(*(%s - 1))' if kind == 'reverse' else '(*%s)') % x
        return None

    def construct_expr(self, unit, n):
        if self.node_iter(n):
            ks = unit.kids(n)
            if len(ks) == 1 and self.node_iter(ks[0]): return unit.expr(ks[0])      # iterator copy
        return None

    def free_call(self, unit, name, rd, args, n):
        if name in ('push_heap', 'pop_heap', 'make_heap') and len(args) in (2, 3):
            # std heap algorithms over a whole modelled container: stub v_<name>(&container) whose contract (heap typestate, which element
            # ends up where) the spec supplies; the comparator object is not evaluated
            b = unit.strip_tmp(args[0])
            while b['kind'] in ('ImplicitCastExpr', 'CXXConstructExpr', 'MaterializeTemporaryExpr', 'CXXBindTemporaryExpr') and unit.kids(b): b = unit.strip_tmp(unit.kids(b)[0])
            if b['kind'] == 'CXXMemberCallExpr':
                me = unit.kids(b)[0]
                while me['kind'] in ('ParenExpr', 'ImplicitCastExpr'): me = unit.kids(me)[0]
                if me.get('name') in ('begin', 'cbegin') and self._cn(unit, unit.kids(me)[0]):
                    base = unit.kids(me)[0]
                    unit.count_call('v_' + name)
                    return 'v_%s(%s)' % (name, self._recv(unit, base, me.get('isArrow')))
            raise Unsupported('std::%s over something other than container.begin(), container.end() (in %s)' % (name, unit.cur))
        if name in ('find', 'find_if') and len(args) == 3 and (self.node_iter(args[0]) or self.raw_ptr_elem(args[0])):
            # std::find / std::find_if over vector/deque iterators (or plain pointers to scalars): first position that matches, else last (model of the library algorithm)
            elem = unit.ctype(self.node_iter(args[0])[1] if self.node_iter(args[0]) else self.raw_ptr_elem(args[0]))
            if name == 'find_if':
                lam, largs, rt = unit.lift_lambda(args[2])
                proto_l = unit.emitted_protos[lam]; ps = proto_l[proto_l.index('(') + 1:proto_l.rindex(')')]
                plist = [x.strip() for x in ps.split(',')][:-1]; an = [x.rsplit(' ', 1)[-1].lstrip('*') for x in plist]
                h = lam.replace('__lambda', '__find_if'); test = '%s(%s)' % (lam, ', '.join(an + ['&first[i]']))
            else:
                self.find_no = getattr(self, 'find_no', 0); h = '%s__find%d' % (unit.cur, self.find_no); self.find_no += 1
                is_rec = elem.startswith('struct ') and not elem.strip().endswith('*')
                plist = ['%s %sval' % (elem, '*' if is_rec else '')]; largs = [unit.addr_of(args[2]) if is_rec else unit.expr(args[2])]
                # element equality: operator== of the element type, restated by the spec as V_EQ_<elem>(a, b) for records
                test = ('V_EQ_%s(&first[i], val)' % elem[len('struct '):]) if is_rec else '(first[i] == val)'
            proto = 'static %s *%s(%s)' % (elem, h, ', '.join(['%s *first' % elem, '%s *last' % elem] + plist))
            lc = unit.spec.get(('loop', h, 1)); ent = unit.spec.get(('ghost', h, 'entry')) or ''
            for k in (('loop', h, 1), ('ghost', h, 'entry')):
                if k in unit.spec: unit.used_keys.add(k)
            it = unit.spec.get(('ghost', h, 'iter')) or ''
            if ('ghost', h, 'iter') in unit.spec: unit.used_keys.add(('ghost', h, 'iter'))
            hit = unit.spec.get(('ghost', h, 'hit')) or ''
            if ('ghost', h, 'hit') in unit.spec: unit.used_keys.add(('ghost', h, 'hit'))
            body = '  size_t n = (size_t)(last - first), i = 0;\n  %s\n  for (; i < n; ++i)\n%s  {\n    %s\n    if (%s) { %s return first + i; }\n  }\n  return last;\n' % (
                ent, ''.join('  ' + l + '\n' for l in lc.strip('\n').split('\n')) if lc else '', it, test, hit)
            unit.add_helper(h, proto, proto + '\n{\n' + body + '}\n')
            return '%s(%s)' % (h, ', '.join([unit.expr(args[0]), unit.expr(args[1])] + largs))
        if name == 'remove_if' and len(args) == 3 and self.node_iter(args[0]):
            # std::remove_if over vector/deque iterators with a lambda: stable compaction (model of the library algorithm)
            elem = unit.ctype(self.node_iter(args[0])[1])
            lam, largs, rt = unit.lift_lambda(args[2])
            proto_l = unit.emitted_protos[lam]; ps = proto_l[proto_l.index('(') + 1:proto_l.rindex(')')]
            plist = [x.strip() for x in ps.split(',')][:-1]            # the last parameter is the element
            an = [x.rsplit(' ', 1)[-1].lstrip('*') for x in plist]
            h = lam.replace('__lambda', '__remove_if')
            proto = 'static %s *%s(%s)' % (elem, h, ', '.join(['%s *first' % elem, '%s *last' % elem] + plist))
            lc = unit.spec.get(('loop', h, 1)); keep = unit.spec.get(('ghost', h, 'keep')) or ''; ent = unit.spec.get(('ghost', h, 'entry')) or ''
            for k in (('loop', h, 1), ('ghost', h, 'keep'), ('ghost', h, 'entry')):
                if k in unit.spec: unit.used_keys.add(k)
            drop = unit.spec.get(('ghost', h, 'drop')) or ''
            if ('ghost', h, 'drop') in unit.spec: unit.used_keys.add(('ghost', h, 'drop'))
            body = '  size_t n = (size_t)(last - first), out = 0, in = 0;\n  %s\n  for (; in < n; ++in)\n%s  {\n    if (!%s(%s))\n    {\n      %s\n      if (out != in) first[out] = first[in];\n      ++out;\n    }\n    else\n    {\n      %s\n    }\n  }\n  return first + out;\n' % (
                ent, ''.join('  ' + l + '\n' for l in lc.strip('\n').split('\n')) if lc else '', lam, ', '.join(an + ['&first[in]']), keep, drop)
            unit.add_helper(h, proto, proto + '\n{\n' + body + '}\n')
            return '%s(%s)' % (h, ', '.join([unit.expr(args[0]), unit.expr(args[1])] + largs))
        return None

    def range_for(self, unit, n, ind):
        ks = [c for c in n.get('inner', []) if c.get('kind')]
        body = ks[-1]; loopvar = None; rng = None
        for c in ks[:-1]:
            if c['kind'] == 'DeclStmt':
                for v in unit.kids(c):
                    if v.get('kind') != 'VarDecl': continue
                    if v.get('name', '').startswith('__range'): rng = v
                    elif not v.get('name', '').startswith('__'): loopvar = v
        if rng is None or loopvar is None: return False
        rexpr = unit.strip_tmp(unit.kids(rng)[0])
        cn = self._cn(unit, rexpr)
        if cn is None: return False
        p = '  ' * ind
        unit.loop_no += 1; ln = unit.loop_no
        r = unit.addr_of(rexpr)
        unit.w(p + '{')
        unit.w(p + '  struct %s *__r%d = %s; size_t __i%d = 0;' % (cn, ln, r, ln))
        unit.ghost('before_loop:%d' % ln, p + '  ')
        unit.w(p + '  for (; __i%d < __r%d->size; ++__i%d)' % (ln, ln, ln))
        unit.loopc(ln, p + '  ')
        txt, is_ref = unit.decl_text(loopvar, loopvar['name'])
        unit.local_names[loopvar['id']] = (loopvar['name'], is_ref)
        first = '%s = %s__r%d->data[__i%d];' % (txt, '&' if is_ref else '', ln, ln)
        if self.decls.get(cn) in self.abstract: first = '%s = %s%s_index(__r%d, __i%d);' % (txt, '' if is_ref else '*', cn, ln, ln)
        unit.loop_body(body, ind + 1, ln, first_stmt=first)
        unit.ghost('after_loop:%d' % ln, p + '  ')
        unit.w(p + '}')
        return True

    def local_object(self, unit, v, ct, name, ks, p):
        cn = ct.replace('const ', '').strip()[len('struct '):]
        unit.w(p + '%s %s;' % (ct.replace('const ', ''), name))
        ce = unit.strip_tmp(ks[0]) if ks else None
        if ce is None or (ce['kind'] == 'CXXConstructExpr' and not unit.kids(ce)):
            unit.w(p + '%s_init(&%s);' % (cn, name))
        elif ce['kind'] == 'CXXConstructExpr' and len(unit.kids(ce)) == 1 and self._cn(unit, unit.kids(ce)[0]) == cn and self.decls.get(cn) not in self.abstract and self.decls.get(cn) not in self.fixed:
            # copy construction from another vector of the same type
            unit.w(p + '%s_init(&%s);' % (cn, name))
            unit.w(p + '%s_assign(&%s, %s);' % (cn, name, unit.addr_of(unit.kids(ce)[0])))
        else:
            raise Unsupported('std::vector local with initialiser (in %s)' % unit.cur)
        unit.scopes[-1]['vars'].append('%s_destroy(&%s);' % (cn, name))

    def field_init(self, unit, f, ct, target, e):
        cn = ct.replace('const ', '').strip()[len('struct '):]
        if e is None or (unit.strip_tmp(e)['kind'] == 'CXXConstructExpr' and not unit.kids(unit.strip_tmp(e))):
            return ['%s_init(&%s);' % (cn, target)]
        raise Unsupported('std::vector member with initialiser')

    def field_dtor(self, unit, f, ct, target):
        cn = ct.replace('const ', '').strip()[len('struct '):]
        return ['%s_destroy(&%s);' % (cn, target)]


class StdFunction(Plugin):
    """std::function<Sig>: struct v_function {engaged, target}; invocation = call of a callback stub
    v_fn_call__<sig>(f, args...) whose contract/body the spec supplies (what the user callback may do)."""
    def sig_of(self, qt):
        qt = canon_type(qt)
        m = re.match(r'^std::function<(.*)>$', qt)
        return m.group(1).strip() if m else None

    def node_sig(self, node):
        t = node.get('type', {})
        for qt in (t.get('desugaredQualType'), t.get('qualType')):
            if qt:
                s = self.sig_of(re.sub(r'\s*\*$', '', qt.replace('const ', '').strip()))
                if s: return s
        return None

    def type_for(self, name, unit):
        if self.sig_of(name): return 'struct v_function'
        return None

    def is_model_type(self, ct):
        return ct.replace('const ', '').strip() == 'struct v_function'

    def stub_name(self, sig):
        return 'v_fn_call__' + re.sub(r'_+', '_', re.sub(r'\W', '_', sig.replace('*', 'p').replace('&', 'r'))).strip('_')

    def operator_call(self, unit, n, rd, args):
        if not args: return None
        sig = self.node_sig(args[0])
        if sig is None: return None
        op = rd.get('name')
        f = unit.addr_of(args[0])
        if op == 'operator()':
            unit.count_call(self.stub_name(sig))
            _, ptypes, _ = fn_param_types(sig)
            a = [unit.bind_arg(ptypes[i] if i < len(ptypes) else None, x) for i, x in enumerate(args[1:])]
            return '%s(%s)' % (self.stub_name(sig), ', '.join([f] + a))
        if op == 'operator=':
            rhs = unit.strip_tmp(args[1])
            while rhs['kind'] in ('ImplicitCastExpr', 'CXXConstructExpr', 'CXXFunctionalCastExpr') and unit.kids(rhs) and self.node_sig(rhs) and not (rhs['kind'] == 'ImplicitCastExpr' and rhs.get('castKind') == 'LValueToRValue'):
                inner = unit.strip_tmp(unit.kids(rhs)[0])
                if inner['kind'] in ('CXXNullPtrLiteralExpr', 'GNUNullExpr') or self.node_sig(inner): rhs = inner
                else: break
            if rhs['kind'] in ('CXXNullPtrLiteralExpr', 'GNUNullExpr') or (rhs['kind'] == 'ImplicitCastExpr' and rhs.get('castKind') == 'NullToPointer'):
                return '(*v_function_reset(%s))' % f
            if self.node_sig(rhs):
                return '(*v_function_assign(%s, %s))' % (f, unit.addr_of(rhs))
            r = self.assign_other(unit, f, rhs)
            if r: return r
            raise Unsupported('std::function assigned from %s (in %s)' % (rhs['kind'], unit.cur))
        if op in ('operator==', 'operator!='):
            other = unit.strip_tmp(args[1])
            return ('(!v_function_engaged(%s))' if op == 'operator==' else '(v_function_engaged(%s))') % f
        return None

    def assign_other(self, unit, f, rhs):
        if rhs['kind'] == 'LambdaExpr':
            # a closure stored into a std::function: engaged, identity abstract; its body is not part of the unit unless listed separately
            unit.dropped.append('body of a lambda stored into std::function (in %s)' % unit.cur)
            return '(*v_function_set_closure(%s))' % f
        return None

    def free_call(self, unit, name, rd, args, n):
        def _is_lambda(x):
            x = unit.strip_tmp(x)
            while x['kind'] in ('ImplicitCastExpr', 'CXXConstructExpr', 'MaterializeTemporaryExpr', 'CXXBindTemporaryExpr', 'CXXFunctionalCastExpr') and unit.kids(x): x = unit.strip_tmp(unit.kids(x)[0])
            return x['kind'] == 'LambdaExpr'
        if name == 'CatchThrow' and args and self.node_sig(args[0]) and not _is_lambda(args[0]):
            # tbox::CatchThrow(func, ...): invokes func and swallows whatever it throws
            sig = self.node_sig(args[0]); unit.count_call(self.stub_name(sig))
            return '(%s(%s), (_Bool)0)' % (self.stub_name(sig), unit.addr_of(args[0]))
        return None

    def member_call(self, unit, n, me, base, args):
        sig = self.node_sig(base)
        if sig is None: return None
        b = unit.expr(base)
        f = b if me.get('isArrow') else unit.addr_text(b)
        if me['name'].startswith('operator bool'):
            return 'v_function_engaged(%s)' % f
        if me['name'] == 'swap':
            return 'v_function_swap(%s, %s)' % (f, unit.addr_of(args[0]))
        raise Unsupported('std::function::%s (in %s)' % (me['name'], unit.cur))

    def construct_expr(self, unit, n):
        if self.node_sig(n) is None: return None
        ks = unit.kids(n)
        if not ks: return '((struct v_function){0, 0})'
        inner = unit.strip_tmp(ks[0])
        if self.node_sig(inner): return '(*%s)' % unit.addr_of(inner)      # copy
        if inner['kind'] in ('CXXNullPtrLiteralExpr', 'GNUNullExpr'): return '((struct v_function){0, 0})'
        if inner['kind'] == 'LambdaExpr':
            # a closure stored into a std::function: engaged, identity abstract; its body is not part of the unit unless listed separately
            unit.dropped.append('body of a lambda stored into std::function (in %s)' % unit.cur)
            return '((struct v_function){1, (int)v_nondet_i64()})'
        if inner['kind'] == 'CallExpr':
            cal = unit.strip_tmp(unit.kids(inner)[0])
            while cal['kind'] == 'ImplicitCastExpr' and unit.kids(cal): cal = unit.strip_tmp(unit.kids(cal)[0])
            if cal.get('referencedDecl', {}).get('name') == 'bind':
                # std::bind(&C::method, this, ...) stored into a std::function: engaged, identity abstract (as for a lambda); the bound call is not part of the unit
                unit.dropped.append('call bound by std::bind and stored into std::function (in %s)' % unit.cur)
                return '((struct v_function){1, (int)v_nondet_i64()})'
        raise Unsupported('std::function constructed from %s (in %s)' % (inner['kind'], unit.cur))

    def field_init(self, unit, f, ct, target, e):
        if e is None: return ['v_function_init(&%s);' % target]
        se = unit.strip_tmp(e)
        if se['kind'] == 'CXXConstructExpr' and not unit.kids(se): return ['v_function_init(&%s);' % target]
        return ['%s = %s;' % (target, unit.expr(e))]

    def local_object(self, unit, v, ct, name, ks, p):
        unit.w(p + 'struct v_function %s;' % name)
        if not ks: unit.w(p + 'v_function_init(&%s);' % name)
        else: unit.w(p + '%s = %s;' % (name, unit.expr(ks[0])))


class Syscalls(Plugin):
    """libc system calls -> v_sys_<name> stubs (models/sys_model.h): any legal result"""
    NAMES = {'close', 'read', 'write', 'readv', 'writev', 'fcntl', 'open', 'pipe', 'eventfd', 'epoll_ctl', 'epoll_wait'}
    def __init__(self, extra=()):
        self.extra = set(extra)      # further libc functions the spec declares as v_sys_<name> (with a contract)
    def free_call(self, unit, name, rd, args, n):
        if name in ('__builtin_va_start', '__builtin_va_end'): return '((void)0)'      # variadic arguments are abstract: only the formatter stub sees them
        if name == 'vsnprintf' and 'vsnprintf' in self.extra:
            return 'v_sys_vsnprintf(%s)' % ', '.join(unit.expr(a) for a in args[:3])
        if name in self.NAMES or name in self.extra:
            unit.count_call('v_sys_' + name)
            return 'v_sys_%s(%s)' % (name, ', '.join(unit.expr(a) for a in args))
        return None
    def type_for(self, name, unit):
        if name in ('va_list', '__builtin_va_list', '__gnuc_va_list', 'std::va_list'): return 'v_va_list'
        return None
    def enum_constant(self, name):
        if re.match(r'^EPOLL[A-Z_]+$', name): return name       # <sys/epoll.h> enumerators: the C header supplies them
        return None


class OpaqueString(Plugin):
    """std::string where the unit only asks empty()/size()/c_str()/== : struct v_str { size_t size; int tag; } (contents abstract)"""
    def is_str(self, node):
        t = node.get('type', {})
        for qt in (t.get('desugaredQualType'), t.get('qualType')):
            if qt and '>::' not in qt and re.match(r'^(const )?(std::)?(__cxx11::)?(basic_string<char.*>|string)( const)?\s*[&*]*$', canon_type(qt).strip()): return True
        return False
    def type_for(self, name, unit):
        n = canon_type(name)
        if '>::' in n: return None
        if n in ('std::string', 'std::basic_string<char>', 'string') or n.startswith('std::basic_string<char'): return 'struct v_str'
        return None
    def is_model_type(self, ct): return ct.replace('const ', '').strip() == 'struct v_str'
    def member_call(self, unit, n, me, base, args):
        if not self.is_str(base): return None
        b = unit.expr(base); f = b if me.get('isArrow') else unit.addr_text(b)
        nm = me['name']
        if nm == 'empty': return '(%s->size == 0)' % f
        if nm in ('size', 'length'): return '(%s->size)' % f
        if nm in ('c_str', 'data'): return '((const char *)0)'
        if nm == 'substr' and args:
            real = [a for a in args if a.get('kind') != 'CXXDefaultArgExpr']
            unit.stmt_may_throw = True
            return 'v_str_substr2(%s, %s, %s)' % (f, unit.expr(real[0]), unit.expr(real[1]) if len(real) > 1 else 'V_NPOS')
        if nm == 'substr': return 'v_str_substr(%s)' % f
        if nm in ('find', 'find_first_of', 'find_first_not_of', 'rfind', 'find_last_of'):
            real = [a for a in args if a.get('kind') != 'CXXDefaultArgExpr']
            pos = unit.expr(real[1]) if len(real) > 1 else '0'
            if nm == 'find' and self.is_str(real[0]): ln = '(%s)->size' % unit.addr_of(real[0])
            elif nm == 'find' and self.is_cstr(unit.strip(real[0])):
                sl = unit.strip(real[0])
                while sl.get('kind') in ('ImplicitCastExpr',) and unit.kids(sl): sl = unit.kids(sl)[0]
                ln = str(len(eval(sl['value']))) if sl.get('kind') == 'StringLiteral' else '1'
            else: ln = '1'
            if nm in ('rfind', 'find_last_of'): raise Unsupported('std::string::%s (in %s)' % (nm, unit.cur))
            return 'v_str_find(%s, %s, %s)' % (f, pos, ln)
        if nm == 'compare': return '((void)%s, v_nondet_int())' % f
        if nm == 'at' and len(args) == 1:
            unit.stmt_may_throw = True
            return 'v_str_at(%s, %s)' % (f, unit.expr(args[0]))          # bounds-checked access: std::out_of_range beyond size(); the character itself is abstract
        if nm == 'clear': return 'v_str_clear(%s)' % f
        if nm in ('pop_back',): return 'v_str_pop_back(%s)' % f
        if nm in ('erase',): return 'v_str_erase(%s, %s)' % (f, ', '.join(unit.expr(a) for a in args))
        if nm in ('insert',): return 'v_str_insert(%s, %s)' % (f, unit.expr(args[0]))
        if nm in ('push_back',): return 'v_str_push_back(%s)' % f
        raise Unsupported('std::string::%s on the opaque string model (in %s)' % (nm, unit.cur))
    def global_var(self, name): return 'V_NPOS' if name == 'npos' else None
    def range_for(self, unit, n, ind):
        ks = [c for c in n.get('inner', []) if c.get('kind')]
        body = ks[-1]; loopvar = None; rng = None
        for c in ks[:-1]:
            if c['kind'] == 'DeclStmt':
                for v in unit.kids(c):
                    if v.get('kind') != 'VarDecl': continue
                    if v.get('name', '').startswith('__range'): rng = v
                    elif not v.get('name', '').startswith('__'): loopvar = v
        if rng is None or loopvar is None or not self.is_str(unit.strip_tmp(unit.kids(rng)[0])): return False
        # characters of an opaque string: any values, one per position
        p = '  ' * ind
        unit.loop_no += 1; ln = unit.loop_no
        unit.w(p + '{')
        unit.w(p + '  struct v_str *__r%d = %s; size_t __i%d = 0;' % (ln, unit.addr_of(unit.strip_tmp(unit.kids(rng)[0])), ln))
        unit.ghost('before_loop:%d' % ln, p + '  ')
        unit.w(p + '  for (; __i%d < __r%d->size; ++__i%d)' % (ln, ln, ln))
        unit.loopc(ln, p + '  ')
        txt, is_ref = unit.decl_text(loopvar, loopvar['name'])
        unit.local_names[loopvar['id']] = (loopvar['name'], False)
        unit.loop_body(body, ind + 1, ln, first_stmt='%s = (char)v_nondet_int();' % txt.replace('*', ''))
        unit.ghost('after_loop:%d' % ln, p + '  ')
        unit.w(p + '}')
        return True
    def is_cstr(self, node):
        t = node.get('type', {}).get('qualType', '')
        return bool(re.match(r'^const char ?(\*( ?const)?|\[\d*\])$', t.strip()))
    def operator_call(self, unit, n, rd, args):
        op = rd.get('name')
        if len(args) == 2 and op in ('operator==', 'operator!='):
            e = None
            if self.is_str(args[0]) and self.is_str(args[1]): e = '(v_str_eq(%s, %s))' % (unit.addr_of(args[0]), unit.addr_of(args[1]))
            elif self.is_str(args[0]) and self.is_cstr(unit.strip(args[1])): e = '(v_str_eq_lit(%s))' % unit.addr_of(args[0])
            if e: return e if op == 'operator==' else '(!%s)' % e
        if len(args) == 2 and op == 'operator+' and (self.is_str(args[0]) or self.is_str(args[1])):
            a = unit.addr_of(args[0]) if self.is_str(args[0]) else '((struct v_str *)0)'
            b = unit.addr_of(args[1]) if self.is_str(args[1]) else '((struct v_str *)0)'
            return 'v_str_cat(%s, %s)' % (a, b)
        if len(args) == 2 and op == 'operator=' and self.is_str(args[0]):
            if self.is_str(args[1]): return '(%s = %s)' % (unit.expr(args[0]), unit.expr(args[1]))
            return '(%s = v_str_any())' % unit.expr(args[0])
        if len(args) == 2 and op == 'operator[]' and self.is_str(args[0]):
            return 'v_str_char(%s, %s)' % (unit.addr_of(args[0]), unit.expr(args[1]))
        return None
    def construct_expr(self, unit, n):
        if not self.is_str(n): return None
        ks = unit.kids(n)
        if len(ks) == 1 and self.is_str(ks[0]): return '(*%s)' % unit.addr_of(ks[0])
        if not ks: return '((struct v_str){0, 0})'
        real = [k for k in ks if k['kind'] != 'CXXDefaultArgExpr']
        if len(real) == 1 and self.is_cstr(unit.strip(ks[0])): return 'v_str_any()'      # from a C string: contents abstract
        if len(real) == 2 and self.is_cstr(unit.strip(real[0])) and unit.is_intlike(real[1]):      # string(ptr, n): reads n bytes at ptr
            return 'v_str_from(%s, %s)' % (unit.expr(real[0]), unit.expr(real[1]))
        if len(real) == 2 and unit.is_intlike(real[0]):      # string(n, ch)
            unit.stmt_may_throw = True
            return 'v_str_n(%s)' % unit.expr(real[0])
        return None
    def free_call(self, unit, name, rd, args, n):
        if name == 'stoi' and args and self.is_str(args[0]):
            unit.stmt_may_throw = True
            return 'v_stoi(%s)' % unit.addr_of(args[0])
        return None
    def field_init(self, unit, f, ct, target, e):
        if e is None or (unit.strip_tmp(e)['kind'] == 'CXXConstructExpr' and not unit.kids(unit.strip_tmp(e))): return ['%s.size = 0; %s.tag = 0;' % (target, target)]
        return ['%s = %s;' % (target, unit.expr(e))]
    def local_object(self, unit, v, ct, name, ks, p):
        unit.w(p + 'struct v_str %s;' % name)
        if ks and not (unit.strip_tmp(ks[0])['kind'] == 'CXXConstructExpr' and not unit.kids(unit.strip_tmp(ks[0]))):
            unit.flush_expr_stmt('%s = %s;' % (name, unit.expr(ks[0])), p)
            if unit.stmt_may_throw:
                unit.stmt_may_throw = False
                unit.w(p + 'if (__exc != 0)'); unit.w(p + '{'); unit.emit_exc_exit(p + '  '); unit.w(p + '}')
        else: unit.w(p + '%s.size = 0; %s.tag = 0;' % (name, name))


class OpaqueJson(Plugin):
    """nlohmann::json seen only through contains()/operator[]: opaque struct v_json, results are nondeterministic stubs"""
    def is_json(self, node):
        t = node.get('type', {})
        for qt in (t.get('desugaredQualType'), t.get('qualType')):
            if qt and ('nlohmann' in qt or re.match(r'^(const )?(tbox::)?Json\b', qt.strip())): return True
        return False
    def type_for(self, name, unit):
        if 'nlohmann' in name or name in ('Json', 'tbox::Json'): return 'struct v_json'
        return None
    def is_model_type(self, ct): return ct.replace('const ', '').strip() == 'struct v_json'
    def local_object(self, unit, v, ct, name, ks, p):
        unit.w(p + 'struct v_json %s;' % name)
    def free_call(self, unit, name, rd, args, n):
        if name in ('CatchThrow', 'CatchThrowQuietly') and args:
            # the guarded callable is a lambda around Json::parse: whether it throws is the parser's business (any answer)
            unit.dropped.append('lambda body passed to %s in %s (Json::parse)' % (name, unit.cur))
            return 'v_json_parse_throws()'
        return None
    def construct_expr(self, unit, n):
        # Json() / Json(nullptr) / copy of a Json value: an opaque value
        t = n.get('type', {})
        if any(qt and re.match(r'^(const )?((tbox::)?Json|nlohmann::basic_json<.*>)$', qt.strip()) for qt in (t.get('desugaredQualType'), t.get('qualType'))):
            ks = unit.kids(n)
            if len(ks) <= 1: return '((struct v_json){0})'
        return None
    def member_call(self, unit, n, me, base, args):
        if not self.is_json(base): return None
        b = unit.expr(base); f = b if me.get('isArrow') else unit.addr_text(b)
        if me['name'] == 'contains': return 'v_json_contains(%s)' % f
        if me['name'] == 'is_object': return 'v_json_is_object(%s)' % f      # any answer; the question is remembered (ghost) so that a contract can refer to it
        if me['name'] in ('is_array', 'is_string', 'is_number', 'is_null', 'is_boolean', 'empty'): return 'v_json_is(%s)' % f      # any answer
        if me['name'] == 'value' and len(args) == 2 and unit.is_intlike(args[1]):
            # nlohmann value(key, default): throws type_error.302 when the key is present with a value of another type
            unit.stmt_may_throw = True
            return 'v_json_value_int(%s, %s)' % (f, unit.expr(args[1]))
        raise Unsupported('Json::%s (in %s)' % (me['name'], unit.cur))
    def range_for(self, unit, n, ind):
        # for (auto &item : json_array): any number of rounds, each with some element
        ks = [c for c in n.get('inner', []) if c.get('kind')]
        body = ks[-1]; loopvar = None; rng = None
        for c in ks[:-1]:
            if c['kind'] == 'DeclStmt':
                for v in unit.kids(c):
                    if v.get('kind') != 'VarDecl': continue
                    if v.get('name', '').startswith('__range'): rng = v
                    elif not v.get('name', '').startswith('__'): loopvar = v
        if rng is None or loopvar is None or not self.is_json(unit.strip_tmp(unit.kids(rng)[0])): return False
        p = '  ' * ind
        unit.loop_no += 1; ln = unit.loop_no
        unit.w(p + '{')
        unit.w(p + '  size_t __n%d = v_json_size(%s), __i%d = 0;' % (ln, unit.addr_of(unit.strip_tmp(unit.kids(rng)[0])), ln))
        unit.ghost('before_loop:%d' % ln, p + '  ')
        unit.w(p + '  for (; __i%d < __n%d; ++__i%d)' % (ln, ln, ln))
        unit.loopc(ln, p + '  ')
        unit.local_names[loopvar['id']] = (loopvar['name'], True)
        unit.loop_body(body, ind + 1, ln, first_stmt='struct v_json *%s = v_json_index(%s);' % (loopvar['name'], unit.addr_of(unit.strip_tmp(unit.kids(rng)[0]))))
        unit.ghost('after_loop:%d' % ln, p + '  ')
        unit.w(p + '}')
        return True
    def operator_call(self, unit, n, rd, args):
        if rd.get('name') == 'operator[]' and args and self.is_json(args[0]):
            return '(*v_json_index(%s))' % unit.addr_of(args[0])
        return None


class Chrono(Plugin):
    """std::chrono::duration<...> as a plain 64-bit tick count (milliseconds / nanoseconds ...): construction from an integer
    and count() are identity.  With abstract_time=True also time_point (int64), steady_clock::now() (any value) and every
    chrono operator (comparison: any answer; arithmetic: any value) - for code where clock readings only feed statistics/log warnings."""
    def __init__(self, abstract_time=False):
        self.abstract_time = abstract_time
    def is_dur(self, qt):
        q = canon_type(qt)
        if re.match(r'^std::chrono::(duration<.*>|milliseconds|seconds|microseconds|nanoseconds)$', q): return True
        if self.abstract_time and re.match(r'^std::chrono::(time_point<.*>|(steady_clock|system_clock)::(time_point|duration))$', q): return True
        return False
    def node_dur(self, node):
        t = node.get('type', {})
        return any(qt and self.is_dur(qt) for qt in (t.get('desugaredQualType'), t.get('qualType')))
    def type_for(self, name, unit):
        return 'int64_t' if self.is_dur(name) else None
    def construct_expr(self, unit, n):
        if not self.node_dur(n): return None
        ks = unit.kids(n)
        if len(ks) == 1:
            if self.abstract_time and self.node_dur(ks[0]): return 'v_nondet_i64()'       # conversion between periods / clocks
            return '((int64_t)(%s))' % unit.expr(ks[0])
        if not ks: return '((int64_t)0)'
        return None
    def member_call(self, unit, n, me, base, args):
        if self.node_dur(base) and me['name'] == 'count':
            return '(%s)' % unit.expr(base)
        return None
    def free_call(self, unit, name, rd, args, n):
        if self.abstract_time and name == 'now' and not args and self.node_dur(n): return 'v_nondet_i64()'
        if self.abstract_time and name == 'duration_cast' and len(args) == 1: return 'v_nondet_i64()'
        return None
    def operator_call(self, unit, n, rd, args):
        if args and len(args) == 2 and rd.get('name') == 'operator=' and all(self.node_dur(a) for a in args):
            return '(%s = %s)' % (unit.expr(args[0]), unit.expr(args[1]))         # plain assignment of a tick count (also in the exact model)
        if not self.abstract_time or not args or not any(self.node_dur(a) for a in args): return None
        op = rd.get('name')
        if op in ('operator<', 'operator>', 'operator<=', 'operator>=', 'operator==', 'operator!='):
            return '(%s, v_nondet_bool())' % ', '.join('(void)%s' % unit.expr(a) for a in args)
        if op in ('operator-', 'operator+', 'operator/', 'operator*', 'operator%'):
            return '(%s, v_nondet_i64())' % ', '.join('(void)%s' % unit.expr(a) for a in args)
        if op in ('operator=', 'operator+=', 'operator-=') and len(args) == 2:
            if op == 'operator=': return '(%s = %s)' % (unit.expr(args[0]), unit.expr(args[1]))
            return '(%s = ((void)%s, v_nondet_i64()))' % (unit.expr(args[0]), unit.expr(args[1]))
        return None


class OpaqueTypes(Plugin):
    """library types the unit only stores (never looks into): one-byte structs.  patterns: {regex over the canonical C++ type: C struct name}"""
    def __init__(self, patterns):
        self.patterns = dict(patterns); self.names = set('struct ' + v for v in self.patterns.values() if not v.startswith('long:'))
    def type_for(self, name, unit):
        q = canon_type(name)
        if q.startswith('std::pair<') and not getattr(self, '_in_pair', False):
            self._in_pair = True
            try: r = self.pair_type(unit, q)
            finally: self._in_pair = False
            if r: return r
        for rx, cn in self.patterns.items():
            if re.match(rx, q):
                if cn.startswith('long:'):
                    # an opaque position (iterator): a plain scalar
                    nm = cn[len('long:'):]
                    if '~' + nm not in unit.emitted_types:
                        unit.emitted_types['~' + nm] = 'typedef long %s;' % nm; unit.type_order.append('~' + nm)
                    return nm
                if '~' + cn not in unit.emitted_types:
                    unit.emitted_types['~' + cn] = 'struct %s { char opaque; };' % cn; unit.type_order.append('~' + cn)
                return 'struct ' + cn
        return None
    def is_model_type(self, ct): return ct.replace('const ', '').strip() in self.names
    def field_init(self, unit, f, ct, target, e): return []
    def field_dtor(self, unit, f, ct, target): return []
    def local_object(self, unit, v, ct, name, ks, p):
        if ks and not (unit.strip_tmp(ks[0])['kind'] == 'CXXConstructExpr' and not unit.kids(unit.strip_tmp(ks[0]))):
            unit.dropped.append('initialiser of the opaque local %s (%s) in %s: the object is an oracle, its content is not modelled' % (name, ct, unit.cur))
        unit.w(p + '%s %s;' % (ct.replace('const ', ''), name))
    def pair_type(self, unit, qt):
        """std::pair<K, V> (the value type of the opaque maps): a plain struct { K first; V second; }"""
        m = re.match(r'^std::pair<(.*)>$', canon_type(qt.replace('const ', '', 1) if qt.startswith('const ') else qt).strip())
        if not m: return None
        args = []; depth = 0; cur = ''
        for ch in m.group(1):
            if ch in '<(': depth += 1
            elif ch in '>)': depth -= 1
            if ch == ',' and depth == 0: args.append(cur.strip()); cur = ''
            else: cur += ch
        args.append(cur.strip())
        if len(args) != 2: return None
        cts = [unit.ctype(a).replace('const ', '') for a in args]
        nm = 'v_pair_' + re.sub(r'\W+', '_', '_'.join(cts).replace('*', 'p')).strip('_')
        if '~' + nm not in unit.emitted_types:
            unit.emitted_types['~' + nm] = 'struct %s { %s first; %s second; };' % (nm, cts[0], cts[1]); unit.type_order.append('~' + nm)
        self.names.add('struct ' + nm)
        return 'struct ' + nm
    def range_for(self, unit, n, ind):
        # range-for over an opaque associative container: positions are scalars handed out by the stubs `<struct>__begin(c)` /
        # `<struct>__next(c, it)` (0 == end), the element is read through v_map_it_first / v_map_it_second; their contracts come from the spec
        ks = [c for c in n.get('inner', []) if c.get('kind')]
        body = ks[-1]; loopvar = None; rng = None
        for c in ks[:-1]:
            if c['kind'] == 'DeclStmt':
                for v in unit.kids(c):
                    if v.get('kind') != 'VarDecl': continue
                    if v.get('name', '').startswith('__range'): rng = v
                    elif not v.get('name', '').startswith('__'): loopvar = v
        if rng is None or loopvar is None: return False
        rexpr = unit.strip_tmp(unit.kids(rng)[0])
        ct = self._ct(unit, rexpr)
        if not ct or not ct.startswith('struct '): return False
        cn = ct[len('struct '):]
        lt = loopvar.get('type', {})
        pt = None
        for qt in (lt.get('desugaredQualType'), lt.get('qualType')):
            if qt:
                q = qt.strip()
                is_ref = q.endswith('&'); q = q.rstrip('&').strip()
                pt = self.pair_type(unit, q)
                if pt: break
        scalar_first = None
        if pt is None:
            # a set-like opaque container of scalars / pointers: the element is handed out by the stub `<struct>__deref(c, it)`
            txt, is_ref2 = unit.decl_text(loopvar, loopvar['name'])
            if is_ref2 or txt.startswith('struct '): return False
            scalar_first = txt
        elif is_ref and 'const' not in (lt.get('qualType') or ''): raise Unsupported('range-for over an opaque map by mutable reference (in %s)' % unit.cur)
        p = '  ' * ind
        unit.loop_no += 1; ln = unit.loop_no
        for f in ((cn + '__begin', cn + '__next', cn + '__deref') if scalar_first else (cn + '__begin', cn + '__next', 'v_map_it_first', 'v_map_it_second')): unit.count_call(f)
        unit.w(p + '{')
        unit.w(p + '  struct %s *__r%d = %s; long __it%d = %s__begin(__r%d);' % (cn, ln, unit.addr_of(rexpr), ln, cn, ln))
        unit.ghost('before_loop:%d' % ln, p + '  ')
        unit.w(p + '  for (; __it%d != 0; __it%d = %s__next(__r%d, __it%d))' % (ln, ln, cn, ln, ln))
        unit.loopc(ln, p + '  ')
        unit.local_names[loopvar['id']] = (loopvar['name'], False)
        if scalar_first: first = '%s = %s__deref(__r%d, __it%d);' % (scalar_first, cn, ln, ln)
        else: first = '%s %s; %s.first = *v_map_it_first(__it%d); %s.second = *v_map_it_second(__it%d);' % (pt, loopvar['name'], loopvar['name'], ln, loopvar['name'], ln)
        unit.loop_body(body, ind + 1, ln, first_stmt=first)
        unit.ghost('after_loop:%d' % ln, p + '  ')
        unit.w(p + '}')
        return True
    def _ct(self, unit, node):
        t = node.get('type', {})
        for qt in (t.get('desugaredQualType'), t.get('qualType')):
            if qt:
                r = self.type_for(re.sub(r'\s*[\*&]$', '', qt.replace('const ', '').strip()), unit)
                if r: return r
        return None
    def construct_expr(self, unit, n):
        # copy of an opaque position (iterator modelled as a scalar)
        t = n.get('type', {})
        for qt in (t.get('desugaredQualType'), t.get('qualType')):
            if qt:
                r = self.type_for(qt.replace('const ', '').strip(), unit)
                if r and not r.startswith('struct ') and len(unit.kids(n)) == 1: return unit.expr(unit.kids(n)[0])
        return None
    def member_call(self, unit, n, me, base, args):
        # a method of an opaque library object: stub `<struct>__<method>(obj, args...)` (records by address) whose contract the spec supplies
        ct = self._ct(unit, base)
        if ct is None: return None
        b = unit.expr(base); recv = b if me.get('isArrow') else unit.addr_text(b)
        fn = '%s__%s' % (ct[len('struct '):], re.sub(r'\W', '_', me['name']))
        unit.count_call(fn)
        a = []
        for x in args:
            if x.get('kind') == 'CXXDefaultArgExpr': continue       # defaulted parameter of a library method: the stub is declared without it
            sx = unit.strip_tmp(x)
            while sx['kind'] in ('ImplicitCastExpr', 'CXXConstructExpr', 'MaterializeTemporaryExpr', 'CXXBindTemporaryExpr', 'CXXFunctionalCastExpr') and unit.kids(sx): sx = unit.strip_tmp(unit.kids(sx)[0])
            if sx['kind'] == 'LambdaExpr':
                # a callable handed to an opaque library object: the stub receives the addresses of what the lambda captures
                # (its contract says what the invocations may do to them); the invocations themselves are not part of the unit
                lam, largs, rt = unit.lift_lambda(sx)
                unit.dropped.append('invocations of %s by %s (in %s)' % (lam, fn, unit.cur)); a += largs
            else:
                a.append(unit.addr_of(x) if unit.is_record_type(x) else unit.expr(x))
        return '%s(%s)' % (fn, ', '.join([recv] + a))
    def operator_call(self, unit, n, rd, args):
        # iterators of opaque containers are scalars (opaque positions): only (in)equality is supported
        if rd.get('name') in ('operator!=', 'operator==') and len(args) == 2 and all(self._scalar_it(unit, a) for a in args):
            return '(%s %s %s)' % (unit.expr(args[0]), rd['name'][-2:], unit.expr(args[1]))
        if rd.get('name') == 'operator[]' and len(args) == 2 and self._ct(unit, args[0]):
            # map[key]: the mapped value lives behind a stub `<T> *<struct>__index(map, key)` (records by address)
            ct = self._ct(unit, args[0]); fn = '%s__index' % ct[len('struct '):]
            unit.count_call(fn)
            return '(*%s(%s, %s))' % (fn, unit.addr_of(args[0]), unit.addr_of(args[1]) if unit.is_record_type(args[1]) else unit.expr(args[1]))
        if rd.get('name') == 'operator=' and len(args) == 2 and self._scalar_it(unit, args[0]):
            return '(%s = %s)' % (unit.expr(args[0]), unit.expr(args[1]))
        if rd.get('name') == 'operator->' and len(args) == 1 and self._scalar_it(unit, args[0]):
            return 'v_map_it_deref(%s)' % unit.expr(args[0])
        if rd.get('name') == 'operator=' and len(args) == 2 and (self._ct(unit, args[0]) or '').startswith('struct '):
            # assignment of an opaque library object: stub `<struct>__reset(obj)` (from a default-constructed temporary) or `<struct>__assign(obj, src)`
            ct = self._ct(unit, args[0]); sx = unit.strip_tmp(args[1])
            while sx['kind'] in ('ImplicitCastExpr', 'MaterializeTemporaryExpr', 'CXXBindTemporaryExpr', 'CXXFunctionalCastExpr') and unit.kids(sx): sx = unit.strip_tmp(unit.kids(sx)[0])
            if sx['kind'] in ('CXXConstructExpr', 'CXXTemporaryObjectExpr') and not unit.kids(sx):
                fn = '%s__reset' % ct[len('struct '):]; unit.count_call(fn)
                return '%s(%s)' % (fn, unit.addr_of(args[0]))
            fn = '%s__assign' % ct[len('struct '):]; unit.count_call(fn)
            return '%s(%s, %s)' % (fn, unit.addr_of(args[0]), unit.addr_of(args[1]))
        return None
    def member_access(self, unit, n, base_text):
        # it->second of an opaque map iterator: the mapped value lives behind a stub `<T> *v_map_it_second(it)`
        if n.get('name') == 'first' and base_text.startswith('v_map_it_deref('):
            unit.count_call('v_map_it_first')
            return '(*v_map_it_first(%s))' % base_text[len('v_map_it_deref('):-1]
        if n.get('name') == 'second' and base_text.startswith('v_map_it_deref('):
            unit.count_call('v_map_it_second')
            return '(*v_map_it_second(%s))' % base_text[len('v_map_it_deref('):-1]
        if n.get('name') in ('first', 'second'):
            bt = unit.kids(n)[0].get('type', {})
            for qt in (bt.get('desugaredQualType'), bt.get('qualType')):
                if qt and self.pair_type(unit, qt.strip().rstrip('&*').strip()):
                    return '%s%s%s' % (base_text, '->' if n.get('isArrow') else '.', n['name'])
        return None
    def _scalar_it(self, unit, node):
        t = node.get('type', {})
        return any(qt and re.search(r'_Rb_tree(_const)?_iterator<|__detail::_Node_(const_)?iterator(_base)?<', qt) for qt in (t.get('desugaredQualType'), t.get('qualType')))


class StdArray(Plugin):
    """std::array<T, N>: struct v_arr_<T>_<N> { T e[N]; }; at() bounds-checked (ghost exception), operator[] asserted, size() == N"""
    def __init__(self): self.decls = {}
    def parse(self, name):
        m = re.match(r'^std::array<(.*),\s*(\d+)(?:UL|ul)?>$', canon_type(name))
        return (m.group(1).strip(), int(m.group(2))) if m else None
    def type_for(self, name, unit):
        m = re.match(r'^(?:const )?__gnu_cxx::__alloc_traits<std::allocator<(.*)>, \1 ?>::(?:value_type|reference|const_reference)$', name.strip())
        if m: return unit.ctype(m.group(1))           # what vector::operator[] yields, spelled through the allocator traits
        if name.endswith('::value_type') or name.endswith('::reference') or name.endswith('::const_reference'):
            pr = self.parse(name.rsplit('::', 1)[0])
            if pr: return unit.ctype(pr[0])
        pr = self.parse(name)
        if not pr: return None
        ect = unit.ctype(pr[0]); cn = 'v_arr_%s_%d' % (re.sub(r'\W', '_', ect.replace('struct ', '').replace('*', 'p').replace(' ', '')), pr[1])
        if cn not in self.decls:
            self.decls[cn] = (ect, pr[1])
            unit.emitted_types['~' + cn] = ('struct %s { %s e[%d]; };\nstatic %s %s_thrown;\n'
                'static inline %s *%s_at(struct %s *a, size_t i) { if (i >= %d) { __exc = 3; return &%s_thrown; } return &a->e[i]; }\n'
                'static inline %s *%s_index(struct %s *a, size_t i) { __CPROVER_assert(i < %d, "std::array::operator[] index in range"); return &a->e[i]; }') % (
                cn, ect, pr[1], ect, cn, ect, cn, cn, pr[1], cn, ect, cn, cn, pr[1])
            unit.type_order.append('~' + cn)
        return 'struct ' + cn
    def is_model_type(self, ct): return ct.replace('const ', '').strip().startswith('struct v_arr_')
    def _cn(self, unit, node):
        t = node.get('type', {})
        for qt in (t.get('desugaredQualType'), t.get('qualType')):
            if qt:
                r = self.type_for(re.sub(r'\s*[\*&]$', '', qt.replace('const ', '').strip()), unit)
                if r: return r[len('struct '):]
        return None
    def field_init(self, unit, f, ct, target, e):
        cn = ct.replace('const ', '').strip()[len('struct '):]; ect, n = self.decls[cn]
        if unit.models.is_model_type(ect):
            out = []
            for i in range(n): out += unit.models.field_init(unit, f, ect, '%s.e[%d]' % (target, i), None)
            return out
        return []
    def field_dtor(self, unit, f, ct, target): return []
    def member_call(self, unit, n, me, base, args):
        cn = self._cn(unit, base)
        if cn is None: return None
        b = unit.expr(base); recv = b if me.get('isArrow') else unit.addr_text(b)
        if me['name'] == 'size': return '((size_t)%d)' % self.decls[cn][1]
        if me['name'] == 'at':
            unit.stmt_may_throw = True
            return '(*%s_at(%s, %s))' % (cn, recv, unit.expr(args[0]))
        raise Unsupported('std::array::%s (in %s)' % (me['name'], unit.cur))
    def operator_call(self, unit, n, rd, args):
        if rd.get('name') == 'operator[]' and args:
            cn = self._cn(unit, args[0])
            if cn: return '(*%s_index(%s, %s))' % (cn, unit.addr_of(args[0]), unit.expr(args[1]))
        return None


class StringStreamSink(Plugin):
    """std::stringstream / ostringstream used as a write-only sink whose .str() is sent somewhere: contents abstract"""
    def is_ss(self, node):
        t = node.get('type', {})
        return any(qt and '>::' not in qt and re.search(r'basic_(o)?stringstream<char|std::(o)?stringstream', qt) for qt in (t.get('desugaredQualType'), t.get('qualType')))
    def type_for(self, name, unit):
        if '>::' in name: return None      # a member typedef of the stream (e.g. __string_type) is not the stream
        if re.search(r'basic_(o)?stringstream<char|^(std::)?(o)?stringstream$', name): return 'struct v_sstream'
        if re.search(r'basic_ostream<char', name): return 'struct v_sstream'
        return None
    def is_model_type(self, ct): return ct.replace('const ', '').strip() == 'struct v_sstream'
    def global_var(self, name): return 'v_cerr' if name in ('cerr', 'cout', 'clog') else None
    def local_object(self, unit, v, ct, name, ks, p):
        unit.w(p + 'struct v_sstream %s; %s.n = 0;' % (name, name))
    def operator_call(self, unit, n, rd, args):
        if rd.get('name') == 'operator<<' and args and (self.is_ss(args[0]) or 'basic_ostream' in (args[0].get('type', {}).get('desugaredQualType') or args[0].get('type', {}).get('qualType', ''))):
            # evaluate the right operand for its side effects / checks, append nothing observable
            a1 = unit.strip_tmp(args[1])
            while a1['kind'] == 'ImplicitCastExpr' and unit.kids(a1): a1 = unit.kids(a1)[0]
            if a1['kind'] == 'DeclRefExpr' and (a1.get('referencedDecl') or {}).get('name') in ('endl', 'flush', 'hex', 'dec'):
                return '(*v_ss_put(%s, 0))' % unit.addr_of(args[0])
            return '(*v_ss_put(%s, (%s, 0)))' % (unit.addr_of(args[0]), unit.expr(args[1]) if not unit.is_record_type(args[1]) else '(void)%s' % unit.addr_of(args[1]))
        return None
    def member_call(self, unit, n, me, base, args):
        if self.is_ss(base) and me['name'] == 'str' and not args:
            return 'v_str_any()'
        return None


class Sync(Plugin):
    """std::mutex, recursive_mutex, lock_guard, unique_lock, condition_variable, thread (models/sync_model.h).
    cv.wait(lk) -> stub v_cv_wait(cv, lk) (spec gives the contract: what other threads may have done to the guarded state);
    cv.wait(lk, pred) -> helper `while (!pred()) v_cv_wait(cv, lk);` with the lifted lambda; thread::join -> stub v_thread_join."""
    T = {'std::mutex': 'struct v_mutex', 'std::recursive_mutex': 'struct v_rmutex', 'std::condition_variable': 'struct v_cv', 'std::thread': 'struct v_thread'}
    def _norm(self, name):
        return re.sub(r'\s+', '', name.replace('const ', ''))
    def type_for(self, name, unit):
        n = self._norm(name)
        if n in self.T: return self.T[n]
        if n in ('mutex', 'recursive_mutex', 'condition_variable', 'thread'): return self.T['std::' + n]
        if re.match(r'^(std::)?unique_lock<(std::)?mutex>$', n): return 'struct v_ulock'
        if re.match(r'^(std::)?lock_guard<(std::)?(recursive_)?mutex>$', n): return 'struct v_lguard'
        return None
    def is_model_type(self, ct):
        return ct.replace('const ', '').strip() in ('struct v_mutex', 'struct v_rmutex', 'struct v_cv', 'struct v_thread', 'struct v_ulock', 'struct v_lguard')
    def _ct(self, unit, node):
        t = node.get('type', {})
        for qt in (t.get('desugaredQualType'), t.get('qualType')):
            if qt:
                r = self.type_for(re.sub(r'\s*[\*&]$', '', qt.strip()), unit)
                if r: return r
        return None
    def local_object(self, unit, v, ct, name, ks, p):
        ct = ct.replace('const ', '').strip()
        if ct in ('struct v_lguard', 'struct v_ulock'):
            ce = unit.strip_tmp(ks[0]) if ks else None
            if ce is None or ce['kind'] != 'CXXConstructExpr' or len(unit.kids(ce)) != 1: raise Unsupported('lock object without exactly one mutex argument (in %s)' % unit.cur)
            marg = unit.kids(ce)[0]
            mt = self._ct(unit, marg); m = unit.addr_of(marg)
            if ct == 'struct v_lguard':
                fn = 'v_rmutex' if mt == 'struct v_rmutex' else 'v_mutex'
                tmp = unit.new_tmp('__lg')
                unit.w(p + '%s *%s = %s; %s_lock(%s);' % (mt, tmp, m, fn, tmp))
                unit.scopes[-1]['vars'].append('%s_unlock(%s);' % (fn, tmp))
            else:
                # the ghost lock object is declared at function scope (dfcc loses track of address-taken locals declared inside a
                # loop body that is left by break, measured); it is (re)initialised where the C++ object is constructed
                if hasattr(unit, 'hoisted') and unit.spec.get(('hoist_locks', unit.cur)):
                    self.ul_no = getattr(self, 'ul_no', 0) + 1; cname = '%s__%d' % (name, self.ul_no)
                    unit.hoisted.append('struct v_ulock %s;' % cname); unit.local_names[v['id']] = (cname, False)
                else:
                    cname = name; unit.w(p + 'struct v_ulock %s;' % cname)
                unit.w(p + '%s.m = %s; %s.owns = 0; v_ulock_lock(&%s);' % (cname, m, cname, cname))
                unit.scopes[-1]['vars'].append('v_ulock_release(&%s);' % cname)
            return
        if ct == 'struct v_thread':
            unit.w(p + 'struct v_thread %s;' % name)
            if ks: unit.w(p + '%s = %s;' % (name, unit.expr(ks[0])))
            else: unit.w(p + 'v_thread_init(&%s);' % name)
            return
        raise Unsupported('local %s (in %s)' % (ct, unit.cur))
    def new_expr(self, unit, n, elem):
        if elem.strip() == 'struct v_thread':
            unit.dropped.append('thread entry expression in %s (the new thread runs outside this function)' % unit.cur)
            return 'v_thread_new()'
        return None
    def field_init(self, unit, f, ct, target, e):
        ct = ct.replace('const ', '').strip()
        if ct in ('struct v_mutex', 'struct v_rmutex', 'struct v_thread'): return ['%s_init(&%s);' % (ct[len('struct '):], target)]
        if ct == 'struct v_cv': return []
        raise Unsupported('field of ' + ct)
    def construct_expr(self, unit, n):
        if self._ct(unit, n) == 'struct v_thread':
            ks = unit.kids(n)
            if not ks: return '((struct v_thread){0})'
            inner = unit.strip_tmp(ks[0])
            if self._ct(unit, inner) == 'struct v_thread': return unit.expr(inner)     # move
            unit.dropped.append('thread entry expression in %s (the new thread runs outside this function)' % unit.cur)
            return 'v_thread_spawn()'
        return None
    def member_call(self, unit, n, me, base, args):
        ct = self._ct(unit, base)
        if ct is None: return None
        b = unit.expr(base); recv = b if me.get('isArrow') else unit.addr_text(b)
        name = me['name']
        if ct in ('struct v_mutex', 'struct v_rmutex'):
            if name in ('lock', 'unlock') or (name == 'try_lock' and ct == 'struct v_mutex'): return '%s_%s(%s)' % (ct[len('struct '):], name, recv)
        if ct == 'struct v_ulock' and name in ('lock', 'unlock'): return 'v_ulock_%s(%s)' % (name, recv)
        if ct == 'struct v_thread':
            if name == 'join':
                unit.count_call('v_thread_join'); return 'v_thread_join(%s)' % recv
            if name == 'joinable': return 'v_thread_joinable(%s)' % recv
            if name == 'swap': return 'v_thread_swap(%s, %s)' % (recv, unit.addr_of(args[0]))
        if ct == 'struct v_cv':
            if name in ('notify_all', 'notify_one'): return 'v_cv_notify(%s)' % recv
            if name == 'wait' and len(args) == 1:
                unit.count_call('v_cv_wait'); return 'v_cv_wait(%s, %s)' % (recv, unit.addr_of(args[0]))
            if name in ('wait', 'wait_for') and len(args) == (2 if name == 'wait' else 3):
                pa = unit.strip_tmp(args[-1])
                while pa['kind'] in ('ImplicitCastExpr', 'CXXConstructExpr', 'MaterializeTemporaryExpr', 'CXXBindTemporaryExpr', 'CXXFunctionalCastExpr') and unit.kids(pa): pa = unit.strip_tmp(unit.kids(pa)[0])
                if pa['kind'] == 'CallExpr' and (unit.callee_decl(unit.kids(pa)[0]).get('referencedDecl') or {}).get('name') == 'bind':
                    # std::bind(&Class::method, this): the predicate is that method called on this object
                    bk = unit.kids(pa)[1:]
                    mref = unit.strip(bk[0])
                    while mref['kind'] in ('UnaryOperator', 'ImplicitCastExpr', 'ParenExpr'): mref = unit.kids(mref)[0]
                    if len(bk) != 2 or unit.strip(bk[1])['kind'] != 'CXXThisExpr' or mref['kind'] != 'DeclRefExpr': raise Unsupported('bind expression as wait predicate (in %s)' % unit.cur)
                    cidp = unit.canon.get(mref['referencedDecl']['id']); unit.need_func(cidp)
                    lam = unit.func_cname(cidp); largs = ['self']; rt = '_Bool'
                    unit.emitted_protos.setdefault(lam, None)
                    self.bind_no = getattr(self, 'bind_no', 0); h = '%s__cvwait_bind%d' % (unit.cur, self.bind_no); self.bind_no += 1
                    proto = 'static _Bool %s(struct v_cv *cv, struct v_ulock *lk, %s *self)' % (h, unit.cur_self_t)
                    unit.count_call('v_cv_wait')
                    body = '  while (!%s(self))\n%s  {\n    v_cv_wait(cv, lk);\n  }\n  return 1;\n' % (lam, self._loopc(unit, h))
                    g = unit.spec.get(('ghost', h, 'entry'))
                    if g:
                        unit.used_keys.add(('ghost', h, 'entry')); body = '  ' + g + '\n' + body
                    unit.add_helper(h, proto, proto + '\n{\n' + body + '}\n')
                    return '%s(%s)' % (h, ', '.join([recv, unit.addr_of(args[0]), 'self']))
                lam, largs, rt = unit.lift_lambda(args[-1])
                if name == 'wait_for': unit.expr(args[1])     # duration evaluated for its checks; its value only bounds the wait
                proto_l = unit.emitted_protos[lam]
                ps = proto_l[proto_l.index('(') + 1:proto_l.rindex(')')]
                ps = '' if ps == 'void' else ps
                an = ', '.join(x.strip().rsplit(' ', 1)[-1].lstrip('*') for x in ps.split(',')) if ps else ''
                h = lam.replace('__lambda', '__cvwait')
                proto = 'static _Bool %s(struct v_cv *cv, struct v_ulock *lk%s)' % (h, (', ' + ps) if ps else '')
                unit.count_call('v_cv_wait'); unit.count_call('v_cv_wait_timed')
                if name == 'wait':
                    body = '  while (!%s(%s))\n%s  {\n    v_cv_wait(cv, lk);\n  }\n  return 1;\n' % (lam, an, self._loopc(unit, h))
                else:
                    body = '  while (!%s(%s))\n%s  {\n    if (v_cv_wait_timed(cv, lk)) return %s(%s);\n  }\n  return 1;\n' % (lam, an, self._loopc(unit, h), lam, an)
                g = unit.spec.get(('ghost', h, 'entry'))
                if g:
                    unit.used_keys.add(('ghost', h, 'entry')); body = '  ' + g + '\n' + body
                unit.add_helper(h, proto, proto + '\n{\n' + body + '}\n')
                return '%s(%s)' % (h, ', '.join([recv, unit.addr_of(args[0])] + largs))
        raise Unsupported('%s::%s (in %s)' % (ct, name, unit.cur))
    def _loopc(self, unit, h):
        c = unit.spec.get(('loop', h, 1))
        if c:
            unit.used_keys.add(('loop', h, 1))
            return ''.join('  ' + l + '\n' for l in c.strip('\n').split('\n'))
        return ''


class ScopeExit(Plugin):
    """tbox::ScopeExitActionGuard (SetScopeExitAction(lambda)): the lambda is lifted and called where the guard object leaves its scope
    (every exit path: the printer's scope-exit mechanism), which is what the guard's destructor does."""
    def type_for(self, name, unit):
        return 'struct v_scope_guard' if re.match(r'^(tbox::)?ScopeExitActionGuard$', canon_type(name)) else None
    def is_model_type(self, ct): return ct.replace('const ', '').strip() == 'struct v_scope_guard'
    def local_object(self, unit, v, ct, name, ks, p):
        ce = unit.strip_tmp(ks[0]) if ks else None
        if ce is None or ce['kind'] != 'CXXConstructExpr' or len(unit.kids(ce)) != 1: raise Unsupported('ScopeExitActionGuard without a single callable argument (in %s)' % unit.cur)
        lam, largs, rt = unit.lift_lambda(unit.kids(ce)[0])
        unit.scopes[-1]['vars'].append('%s(%s);' % (lam, ', '.join(largs)))
