"""C08 (shared descriptor handle) — util::Fd (modules/util/fd.cpp).

Ghost: g_closes counts every invocation of ::close or of the user's close function, g_closed_fd / g_close_kind remember the
last one.  Each handle operation is under contract: the reference count changes by exactly the handles created/destroyed,
the descriptor is closed exactly when the last handle goes (or on explicit close()), with the right closer, and never
again afterwards (fd == -1 after close()).  Lemma targets run short histories over the real bodies.
std::function is the engaged/target model; ::close and the close function are counting stubs (any return value).
"""
import os
from verif import UnitSpec, Target
from plugins import StdFunction, Syscalls

R = {'util_Fd_ctor__void': 'Fd_ctor', 'util_Fd_ctor__int': 'Fd_ctor_fd', 'util_Fd_ctor__int_Ktbox_util_Fd_CloseFuncr': 'Fd_ctor_fd_func',
     'util_Fd_ctor__Ktbox_util_Fdr': 'Fd_ctor_copy', 'util_Fd_ctor__tbox_util_Fdrr': 'Fd_ctor_move', 'util_Fd_dtor': 'Fd_dtor',
     'util_Fd_assign__Ktbox_util_Fdr': 'Fd_assign_copy', 'util_Fd_assign__tbox_util_Fdrr': 'Fd_assign_move', 'util_Fd_swap': 'Fd_swap',
     'util_Fd_reset': 'Fd_reset', 'util_Fd_close': 'Fd_close', 'util_Fd_Detail_ctor': 'Fd_Detail_ctor'}

PRELUDE = r'''
static unsigned g_closes; static int g_closed_fd; static int g_close_kind;   /* 1 = ::close, 2 = user close function */
static int v_sys_close(int fd) { g_closes++; g_closed_fd = fd; g_close_kind = 1; int r; return r; }
static void v_fn_call__void_int(struct v_function *f, int a0) { __CPROVER_assert(f->engaged, "empty std::function is never invoked"); g_closes++; g_closed_fd = a0; g_close_kind = 2; }
#define DSZ sizeof(struct util_Fd_Detail)
#define DOK(d) ((d)->ref_count >= 1 && (d)->ref_count < 0x7ffffff0)
#define OLD_D __CPROVER_old(self->detail_)
'''
REQ = r'''
__CPROVER_requires(__CPROVER_is_fresh(self, sizeof(*self)))
__CPROVER_requires(self->detail_ != NULL ==> (__CPROVER_is_fresh(self->detail_, DSZ) && DOK(self->detail_)))
'''
REQ_O = r'''
__CPROVER_requires(__CPROVER_is_fresh(other, sizeof(*other)))
__CPROVER_requires(other->detail_ != NULL ==> (__CPROVER_is_fresh(other->detail_, DSZ) && DOK(other->detail_)))
'''
# what releasing one handle of record d (pre-state values captured by the harness ghosts g_rc0, g_fd0, g_eng0) must do
RELEASE = r'''
__CPROVER_ensures((g_had && g_rc0 == 1 && g_fd0 >= 0) ==> (g_closes == __CPROVER_old(g_closes) + 1 && g_closed_fd == g_fd0 && g_close_kind == (g_eng0 ? 2 : 1)))
__CPROVER_ensures((!g_had || g_rc0 > 1 || g_fd0 < 0) ==> g_closes == __CPROVER_old(g_closes))
__CPROVER_ensures((g_had && g_rc0 == 1) ==> __CPROVER_was_freed(OLD_D))
__CPROVER_ensures((g_had && g_rc0 > 1) ==> (OLD_D->ref_count == g_rc0 - 1 && OLD_D->fd == g_fd0))
'''
GHOSTS = r'''
static _Bool g_had; static int g_rc0, g_fd0; static _Bool g_eng0;   /* ghost snapshot of the record before the call (never dereference a ghost pointer: CBMC value sets come from assignments) */
#define SNAP(h) (g_had == ((h)->detail_ != NULL) && (g_had ==> (g_rc0 == (h)->detail_->ref_count && g_fd0 == (h)->detail_->fd && g_eng0 == (h)->detail_->close_func.engaged)))
'''
FRAME_REL = 'g_closes, g_closed_fd, g_close_kind; self->detail_ != NULL: self->detail_->ref_count'

SPEC = {
    ('contract', 'Fd_ctor_fd'): r'''
__CPROVER_requires(__CPROVER_is_fresh(self, sizeof(*self)))
__CPROVER_assigns(*self)
__CPROVER_ensures(__CPROVER_is_fresh(self->detail_, DSZ) && self->detail_->fd == fd && self->detail_->ref_count == 1 && !self->detail_->close_func.engaged)
''',
    ('contract', 'Fd_ctor_fd_func'): r'''
__CPROVER_requires(__CPROVER_is_fresh(self, sizeof(*self)) && __CPROVER_is_fresh(close_func, sizeof(*close_func)))
__CPROVER_assigns(*self)
__CPROVER_ensures(__CPROVER_is_fresh(self->detail_, DSZ) && self->detail_->fd == fd && self->detail_->ref_count == 1)
__CPROVER_ensures(self->detail_->close_func.engaged == close_func->engaged && self->detail_->close_func.target == close_func->target)
''',
    ('contract', 'Fd_dtor'): REQ + r'''
__CPROVER_requires(SNAP(self))
__CPROVER_assigns(''' + FRAME_REL + r''')
__CPROVER_frees(self->detail_)
''' + RELEASE,
    ('contract', 'Fd_ctor_copy'): r'''
__CPROVER_requires(__CPROVER_is_fresh(self, sizeof(*self)))
''' + REQ_O + r'''
__CPROVER_assigns(*self; other->detail_ != NULL: other->detail_->ref_count)
__CPROVER_ensures(self->detail_ == other->detail_ && other->detail_ == __CPROVER_old(other->detail_))
__CPROVER_ensures(other->detail_ != NULL ==> other->detail_->ref_count == __CPROVER_old(other->detail_->ref_count) + 1)
''',
    ('contract', 'Fd_ctor_move'): r'''
__CPROVER_requires(__CPROVER_is_fresh(self, sizeof(*self)))
''' + REQ_O + r'''
__CPROVER_assigns(*self, *other)
__CPROVER_ensures(self->detail_ == __CPROVER_old(other->detail_) && other->detail_ == NULL)
''',
    ('contract', 'Fd_swap'): REQ + REQ_O + r'''
__CPROVER_assigns(*self, *other)
__CPROVER_ensures(self->detail_ == __CPROVER_old(other->detail_) && other->detail_ == OLD_D)
''',
    ('contract', 'Fd_reset'): REQ + r'''
__CPROVER_requires(SNAP(self))
__CPROVER_assigns(*self, ''' + FRAME_REL + r''')
__CPROVER_frees(self->detail_)
__CPROVER_ensures(self->detail_ == NULL)
''' + RELEASE,
    ('contract', 'Fd_assign_copy'): REQ + REQ_O + r'''
__CPROVER_requires(SNAP(self))
__CPROVER_assigns(*self, ''' + FRAME_REL + r'''; other->detail_ != NULL: other->detail_->ref_count)
__CPROVER_frees(self->detail_)
__CPROVER_ensures(__CPROVER_return_value == self && self->detail_ == other->detail_ && other->detail_ == __CPROVER_old(other->detail_))
__CPROVER_ensures(other->detail_ != NULL ==> other->detail_->ref_count == __CPROVER_old(other->detail_->ref_count) + 1)
''' + RELEASE,
    ('contract', 'Fd_assign_move'): REQ + REQ_O + r'''
__CPROVER_requires(SNAP(self))
__CPROVER_assigns(*self, *other, ''' + FRAME_REL + r''')
__CPROVER_frees(self->detail_)
__CPROVER_ensures(__CPROVER_return_value == self && self->detail_ == __CPROVER_old(other->detail_) && other->detail_ == NULL)
''' + RELEASE,
    ('contract', 'Fd_close'): REQ + r'''
__CPROVER_requires(SNAP(self))
__CPROVER_assigns(g_closes, g_closed_fd, g_close_kind; self->detail_ != NULL: self->detail_->fd, self->detail_->close_func)
__CPROVER_ensures(self->detail_ == OLD_D)
__CPROVER_ensures((g_had && g_fd0 >= 0) ==> (g_closes == __CPROVER_old(g_closes) + 1 && g_closed_fd == g_fd0 && g_close_kind == (g_eng0 ? 2 : 1) && self->detail_->fd == -1 && !self->detail_->close_func.engaged))
__CPROVER_ensures((!g_had || g_fd0 < 0) ==> g_closes == __CPROVER_old(g_closes))
__CPROVER_ensures(g_had ==> self->detail_->ref_count == g_rc0)
''',
}

H = lambda body: '\nvoid H(void)\n{\n' + body + '\n  __CPROVER_assert(0, "VACUITY-CANARY");\n}\n'

H_HISTORY = H(r'''  /* short histories over the real bodies: k copies, optional explicit close, all destroyed: closed exactly once */
  int fd; __CPROVER_assume(fd >= 0); _Bool with_func, early_close, use_assign;
  struct v_function cf; cf.engaged = 1; cf.target = 7;
  struct util_Fd a, b, c;
  if (with_func) Fd_ctor_fd_func(&a, fd, &cf); else Fd_ctor_fd(&a, fd);
  Fd_ctor_copy(&b, &a);
  if (use_assign) { Fd_ctor(&c); Fd_assign_copy(&c, &b); } else Fd_ctor_move(&c, &b);
  unsigned before = g_closes;
  if (early_close) { Fd_close(&c); __CPROVER_assert(g_closes == before + 1 && g_closed_fd == fd, "explicit close closes now"); }
  Fd_dtor(&a);
  __CPROVER_assert(early_close || g_closes == before, "never closed while another handle is alive");
  Fd_dtor(&b); Fd_dtor(&c);
  __CPROVER_assert(g_closes == before + 1 && g_closed_fd == fd, "descriptor closed exactly once over the whole history");
  __CPROVER_assert(g_close_kind == (with_func ? 2 : 1), "closed by the user's close function iff one was given");''')

H_SHARED = H(r'''  /* assignment between two handles that already share one record: no close, count unchanged */
  int fd; __CPROVER_assume(fd >= 0); struct util_Fd a, b; Fd_ctor_fd(&a, fd); Fd_ctor_copy(&b, &a);
  unsigned before = g_closes;
  Fd_assign_copy(&a, &b); Fd_assign_copy(&a, &a); Fd_assign_move(&b, &b);
  __CPROVER_assert(g_closes == before && a.detail_ == b.detail_ && a.detail_->ref_count == 2 && a.detail_->fd == fd, "assignment among sharers / self-assignment keeps the descriptor open and the count exact");
  Fd_dtor(&a); Fd_dtor(&b);
  __CPROVER_assert(g_closes == before + 1, "then closed exactly once");''')

REPLAY_SOURCES = ['modules/util/fd.cpp', 'modules/base/log_impl.cpp']
def native_replay(u, t, o, w, workdir):
    import replay as rp
    return rp.attempt('fd', REPLAY_SOURCES, os.path.join(workdir, 'replay'), [('native-search', ['search'])])

def T2(id, fn, args, clause, **kw):
    decl = '  struct util_Fd *self, *other; int fd; struct v_function *cf;\n  '
    return Target(id, H(decl + '%s(%s);' % (fn, args)), enforce=fn, clause=clause, **kw)

UNITS = [UnitSpec(
    name='fd', tu='modules/util/fd.cpp', filter='tbox::util', rename=R, spec=SPEC, prelude=GHOSTS + PRELUDE,
    plugins=[StdFunction(), Syscalls()], model_headers=['fn_model.h'],
    emit=['tbox::util::Fd::ctor', 'tbox::util::Fd::dtor', 'tbox::util::Fd::operator=', 'tbox::util::Fd::swap', 'tbox::util::Fd::reset', 'tbox::util::Fd::close'],
    targets=[
        T2('ctor_fd', 'Fd_ctor_fd', 'self, fd', 'Fd(fd): fresh record, count 1'),
        T2('ctor_fd_func', 'Fd_ctor_fd_func', 'self, fd, cf', 'Fd(fd, close_func): fresh record, closer stored'),
        T2('dtor', 'Fd_dtor', 'self', '~Fd: closes iff last handle and fd >= 0, with the right closer; record freed iff last'),
        T2('ctor_copy', 'Fd_ctor_copy', 'self, other', 'copy shares the record, count + 1, no close'),
        T2('ctor_move', 'Fd_ctor_move', 'self, other', 'move takes the record, source empty'),
        T2('swap', 'Fd_swap', 'self, other', 'swap exchanges records'),
        T2('reset', 'Fd_reset', 'self', 'reset releases this handle like the destructor'),
        T2('assign_copy', 'Fd_assign_copy', 'self, other', 'copy assignment releases the old record (close iff last) and shares the new one'),
        T2('assign_move', 'Fd_assign_move', 'self, other', 'move assignment releases the old record and takes the new one'),
        T2('close', 'Fd_close', 'self', 'close(): closes once now, marks the record closed (fd = -1), count untouched'),
        Target('history', H_HISTORY, clause='three handles, copy/move/assign, optional early close: closed exactly once, never early',
               functions=['Fd_ctor_fd', 'Fd_ctor_fd_func', 'Fd_ctor_copy', 'Fd_ctor_move', 'Fd_assign_copy', 'Fd_close', 'Fd_dtor']),
        Target('shared_assign', H_SHARED, clause='assignment among handles sharing one record and self-assignment',
               functions=['Fd_assign_copy', 'Fd_assign_move']),
    ],
)]
