#!/bin/bash
# run_seeds_parallel.sh: every seed under seeded/, three streams partitioned by property (a property's check uses .work/<ID>, so one
# property never runs in two streams at once), each stream with its own scratch worktree; results are merged into seeded/RESULTS.txt
cd /verif
A="C05"; B="C03 C06 C16 C13"
sa=""; sb=""; sc=""
for d in $(ls seeded | grep -v RESULTS); do
  [ -f seeded/$d/meta.json ] || continue
  P=$(python3 -c "import json;print(json.load(open('seeded/$d/meta.json'))['property'])")
  if echo " $A " | grep -q " $P "; then sa="$sa $d"; elif echo " $B " | grep -q " $P "; then sb="$sb $d"; else sc="$sc $d"; fi
done
mkdir -p /tmp/scr /tmp/scr2 /tmp/scr3
for w in /tmp/scr/wt /tmp/scr2/wt /tmp/scr3/wt; do [ -d $w ] || git -C /repo worktree add --detach $w HEAD -q; done
: > /tmp/scr/res_a.txt; : > /tmp/scr/res_b.txt; : > /tmp/scr/res_c.txt
( SEED_WT=/tmp/scr/wt  SEED_OUT=/tmp/scr/res_a.txt tools/run_seeds.sh $sa ) &
( SEED_WT=/tmp/scr2/wt SEED_OUT=/tmp/scr/res_b.txt tools/run_seeds.sh $sb ) &
( SEED_WT=/tmp/scr3/wt SEED_OUT=/tmp/scr/res_c.txt tools/run_seeds.sh $sc ) &
wait
cat /tmp/scr/res_a.txt /tmp/scr/res_b.txt /tmp/scr/res_c.txt | sort > seeded/RESULTS.txt
wc -l seeded/RESULTS.txt
