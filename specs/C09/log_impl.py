"""C09 — base/log_impl.cpp: the log front end (all at global scope / anonymous namespace).

 Dispatch        PRE  _lock not held by this thread.  Every registered channel with a non-null function is called exactly once, in
                 registration order, with ITS OWN cookie and the record, and every one of those calls happens WITH _lock HELD (the sinks
                 rely on that for per-record atomicity: AsyncSink pushes header and text with two appends); the lock is released
                 afterwards; the channel table is not modified.
 CantDispatch    returns "no channel registered", takes and releases _lock.
 LogPrintfFunc   no channel: nothing is dispatched.  Otherwise EXACTLY ONE record is dispatched, with level clamped to
                 [0, LOG_LEVEL_MAX), module "???" for null, text_ptr readable for text_len bytes at the moment of dispatch (the
                 format buffer is still alive), text_len == min(L, max) and text_trunc == (L > max) where L is the formatted length
                 (vsnprintf's answer, the same on every retry) or strlen(fmt) without arguments; text_len == 0 for a null format.
                 The retry loop has a loop contract with a two-phase variant (first buffer -> exact or truncated buffer -> dispatch).
                 Assumption (stated): the configured maximum is below 2^31 (LogSetMaxLength accepts any size_t; the uint32 buffer size
                 only wraps for maxima >= 2^32 - 1).
 Basename        returns a pointer into the same string, just after its last '/', or the argument itself.
"""
import os
from verif import UnitSpec, Target
from plugins import StdFunction, StdVector, Sync, Chrono, StringStreamSink, Syscalls

TU = 'modules/base/log_impl.cpp'
FILTERS = ['CantDispatch', 'LogPrintfFunc', '::_lock', '_output_chan@_output_channels', 'OutputChannel', 'LogContent', '_LogTextMax@_LogTextMaxLength', 'Basename',
           'LogPrintfFuncTy@LogPrintfFuncType', 'LOG_LEVEL_MAX']
PRELUDE = r'''
#define T(x) ((x) != 0)
typedef struct LogContent LogContent; typedef struct OutputChannel Chan;
static const LogContent *g_content;          /* Dispatch: the record being dispatched */
static size_t g_idx; static _Bool g_called_this; static size_t g_calls, g_engaged;
/* LogPrintfFunc */
static int g_fmtlen;                          /* what vsnprintf answers for (fmt, args): the full formatted length, or -1 */
static size_t g_dispatches; static uint32_t g_d_len; static _Bool g_d_trunc; static int g_d_level; static _Bool g_d_mod_ok;
#define CHANS_OK() (_output_channels.size < 64 && __CPROVER_is_fresh(_output_channels.data, (_output_channels.size ? _output_channels.size : 1) * sizeof(Chan)))
'''
EXTERN = r'''
/* a sink's print function: runs under the dispatch lock, gets the record and the cookie registered with it */
void v_indirect__void_const_LogContent_p_void_p(v_fnptr fp, const LogContent *c, void *ptr)
__CPROVER_requires(_lock.held == 1)                                                     /* sinks are called with the dispatch lock held */
__CPROVER_requires(fp != 0 && c == g_content && g_idx < _output_channels.size && fp == _output_channels.data[g_idx].func && ptr == _output_channels.data[g_idx].ptr)
__CPROVER_requires(!T(g_called_this))                                                   /* at most once per channel */
__CPROVER_assigns(g_called_this, g_calls)
__CPROVER_ensures(g_called_this == 1 && g_calls == __CPROVER_old(g_calls) + 1)
;
int v_sys_gettimeofday(struct timeval *tv, struct timezone *tz)
__CPROVER_requires(__CPROVER_w_ok(tv, sizeof(*tv)) && __CPROVER_w_ok(tz, sizeof(*tz)))
__CPROVER_assigns(*tv, *tz)
__CPROVER_ensures(1)
;
long v_sys_syscall(long nr)
__CPROVER_requires(1)
__CPROVER_assigns()
__CPROVER_ensures(1)
;
/* vsnprintf: writes at most size bytes, answers the full formatted length (deterministic for fixed fmt/args), -1 on an encoding error */
int v_sys_vsnprintf(char *buf, size_t size, const char *fmt)
__CPROVER_requires(size > 0 && __CPROVER_w_ok(buf, size) && fmt != 0)
__CPROVER_assigns(__CPROVER_object_upto(buf, size))
__CPROVER_ensures(__CPROVER_return_value == g_fmtlen)
;
'''
DISPATCH_STUB = r'''
__CPROVER_requires(_lock.held == 0 && __CPROVER_r_ok(content, sizeof(*content)))
__CPROVER_requires(g_dispatches == 0)                                                   /* a log call dispatches at most once */
__CPROVER_requires(content->text_len == 0 || __CPROVER_r_ok(content->text_ptr, content->text_len))      /* the text is alive and long enough when the sinks see it */
__CPROVER_requires(content->text_len <= _LogTextMaxLength && content->level >= 0 && content->level < 8 && content->file_name == g_base_ret)
__CPROVER_assigns(g_dispatches, g_d_len, g_d_trunc, g_d_level, g_d_mod_ok)
__CPROVER_ensures(g_dispatches == 1 && g_d_len == content->text_len && g_d_trunc == T(content->text_trunc) && g_d_level == content->level && g_d_mod_ok == (content->module_id != 0))
'''
SPEC = {
    ('prelude',): PRELUDE + 'static const char *g_base_ret;\n', ('after_protos',): EXTERN,
    ('contract', 'Dispatch'): r'''
__CPROVER_requires(_lock.held == 0 && CHANS_OK() && __CPROVER_is_fresh(content, sizeof(*content)))
__CPROVER_assigns(_lock.held, g_content, g_idx, g_called_this, g_calls, g_engaged, v_noblock_mutex)
__CPROVER_ensures(_lock.held == 0 && g_calls == g_engaged)
''',
    ('ghost', 'Dispatch', 'entry'): 'g_content = content; g_calls = 0; g_engaged = 0; g_called_this = 0; v_noblock_mutex = 0;',
    ('loop', 'Dispatch', 1): r'''
__CPROVER_assigns(__i1, g_idx, g_called_this, g_calls, g_engaged)
__CPROVER_loop_invariant(__i1 <= __r1->size && __r1 == &_output_channels && _lock.held == 1 && g_calls == g_engaged && g_content == content)
__CPROVER_decreases(__r1->size - __i1)
''',
    ('ghost', 'Dispatch', 'loop_body_start:1'): 'g_idx = __i1; g_called_this = 0; if (item->func != 0) g_engaged++;',
    ('ghost', 'Dispatch', 'loop_body_end:1'): '__CPROVER_assert(T(g_called_this) == (item->func != 0), "a channel is called iff its function is set");',
    ('contract', 'CantDispatch'): r'''
__CPROVER_requires(_lock.held == 0 && _output_channels.size < 64)
__CPROVER_assigns(_lock.held, v_noblock_mutex)
__CPROVER_ensures(_lock.held == 0 && T(__CPROVER_return_value) == (_output_channels.size == 0))
''',
    ('ghost', 'CantDispatch', 'entry'): 'v_noblock_mutex = 0;',
    ('contract', 'Basename'): r'''
__CPROVER_requires(full_path == 0 || (g_len < 4096 && __CPROVER_is_fresh(full_path, g_len + 1) && full_path[g_len] == 0 && (g_k < g_len ==> full_path[g_k] != 0)))
__CPROVER_assigns()
__CPROVER_ensures(full_path == 0 ==> __CPROVER_return_value == 0)
__CPROVER_ensures(full_path != 0 ==> (__CPROVER_same_object(__CPROVER_return_value, full_path) && __CPROVER_POINTER_OFFSET(__CPROVER_return_value) <= __CPROVER_POINTER_OFFSET(full_path) + g_len + 1))
''',
}
SPEC[('loop', 'Basename', 1)] = r'''
__CPROVER_assigns(p, p_last)
__CPROVER_loop_invariant(__CPROVER_same_object(p, full_path) && __CPROVER_POINTER_OFFSET(p) <= g_len && __CPROVER_same_object(p_last, full_path) && __CPROVER_POINTER_OFFSET(p_last) <= __CPROVER_POINTER_OFFSET(p))
__CPROVER_decreases(g_len - __CPROVER_POINTER_OFFSET(p))
'''
SPEC[('prelude',)] += 'static size_t g_len, g_k;   /* Basename: ghost length of the string / tracked index */\n'
LPF = r'''
__CPROVER_requires(_lock.held == 0 && _output_channels.size < 64 && _LogTextMaxLength < ((size_t)1 << 31) && g_fmtlen >= -1)
__CPROVER_requires(fmt == 0 || (v_strlen_len < ((size_t)1 << 31) && __CPROVER_is_fresh(fmt, v_strlen_len + 1) && fmt[v_strlen_len] == 0))
__CPROVER_assigns(g_dispatches, g_d_len, g_d_trunc, g_d_level, g_d_mod_ok, g_base_ret, _lock.held, v_noblock_mutex)
__CPROVER_ensures(_lock.held == 0)
__CPROVER_ensures(_output_channels.size == 0 ==> g_dispatches == 0)
__CPROVER_ensures(_output_channels.size != 0 ==> (g_dispatches == 1 && g_d_mod_ok == 1))                                  /* exactly one record */
__CPROVER_ensures(_output_channels.size != 0 ==> g_d_level == (level < 0 ? 0 : (level >= 8 ? 7 : level)))
__CPROVER_ensures((_output_channels.size != 0 && fmt == 0) ==> (g_d_len == 0 && g_d_trunc == 0))
__CPROVER_ensures((_output_channels.size != 0 && fmt != 0 && with_args == 0) ==> (g_d_len == (v_strlen_len > _LogTextMaxLength ? _LogTextMaxLength : v_strlen_len) && g_d_trunc == (v_strlen_len > _LogTextMaxLength)))
__CPROVER_ensures((_output_channels.size != 0 && fmt != 0 && with_args != 0 && g_fmtlen >= 0) ==> (g_d_len == ((size_t)g_fmtlen > _LogTextMaxLength ? _LogTextMaxLength : (size_t)g_fmtlen) && g_d_trunc == ((size_t)g_fmtlen > _LogTextMaxLength)))
'''
H = lambda body: '\nvoid H(void)\n{\n' + body + '\n  __CPROVER_assert(0, "VACUITY-CANARY");\n}\n'
def COMMON(): return dict(tu=TU, filter='Dispatch', more_filters=[(TU, f) for f in FILTERS],
              plugins=[StdFunction(), StdVector(), Sync(), Chrono(), StringStreamSink(), Syscalls(extra=('gettimeofday', 'syscall', 'vsnprintf'))],
              model_headers=['fn_model.h', 'vec_model.h', 'sync_model.h', 'misc_model.h'])
STUBS = ['v_indirect__void_const_LogContent_p_void_p', 'v_sys_gettimeofday', 'v_sys_syscall', 'v_sys_vsnprintf']
SPEC2 = dict(SPEC)
SPEC2[('contract', 'LogPrintfFunc')] = LPF
SPEC2[('contract', 'Dispatch')] = DISPATCH_STUB
SPEC2[('stub', 'Dispatch')] = True
SPEC2[('ghost', 'LogPrintfFunc', 'entry')] = 'g_dispatches = 0; v_noblock_mutex = 0;'
for k in [k for k in SPEC2 if k[0] in ('loop', 'ghost') and k[1] in ('Dispatch', 'Basename', 'CantDispatch')]: del SPEC2[k]
SPEC2[('contract', 'Basename')] = '__CPROVER_assigns(g_base_ret)\n__CPROVER_ensures(__CPROVER_return_value == g_base_ret)\n'
SPEC2[('stub', 'Basename')] = True
SPEC2[('prelude',)] += r'''
#define MAXL _LogTextMaxLength
#define MINB ((MAXL < 2048 ? MAXL : 2048) + 1)
#define FL ((size_t)g_fmtlen)
#define PHASE_B(bs, tr) (T(tr) || (FL <= MAXL && FL >= MINB && (bs) == FL + 1))
'''
SPEC2[('loop', 'LogPrintfFunc', 1)] = r'''
__CPROVER_assigns(buff_size, content.text_trunc, content.text_len, content.text_ptr, g_dispatches, g_d_len, g_d_trunc, g_d_level, g_d_mod_ok)
__CPROVER_loop_invariant(g_dispatches == 0 && _lock.held == 0 && buff_size >= 1 && buff_size <= MAXL + 1 + (MAXL == 0 ? 0 : 0) && (content.text_trunc == 0 || content.text_trunc == 1))
__CPROVER_loop_invariant(T(content.text_trunc) ==> (buff_size == MAXL + 1 && FL > MAXL))
__CPROVER_loop_invariant(!T(content.text_trunc) ==> (buff_size == MINB || (FL <= MAXL && buff_size == FL + 1)))
__CPROVER_decreases(PHASE_B(buff_size, content.text_trunc) ? 0 : 1)
'''
SPEC2[('need_globals',)] = ['_lock', '_output_channels', '_LogTextMaxLength']
SPEC2[('stub', 'CantDispatch')] = True
UNITS = [
  UnitSpec(name='log_dispatch', spec=SPEC, emit=['Dispatch', 'CantDispatch', 'Basename'], targets=[
      Target('Dispatch', H('  struct LogContent *c; Dispatch(c);'), enforce='Dispatch', replace=STUBS[:1],
             clause='Dispatch: every engaged channel called exactly once, in order, with its own cookie, under the dispatch lock; lock released'),
      Target('CantDispatch', H('  CantDispatch();'), enforce='CantDispatch', clause='CantDispatch: empty-table test under the lock'),
      Target('Basename', H('  const char *p; Basename(p);'), enforce='Basename', unwind=None, clause='Basename stays inside the string'),
  ], **COMMON()),
  UnitSpec(name='log_printf', spec=SPEC2, emit=['LogPrintfFunc'], targets=[
      Target('LogPrintfFunc', H('  const char *m, *f, *fl, *fmt; int line, level, wa; LogPrintfFunc(m, f, fl, line, level, wa, fmt);'), enforce='LogPrintfFunc',
             replace=STUBS[1:] + ['Dispatch', 'CantDispatch', 'Basename'], timeout=900,
             clause='LogPrintfFunc: exactly one record per call when a sink is registered; level clamped; text cut to exactly the maximum and marked; text buffer alive at dispatch'),
  ], **COMMON()),
]
