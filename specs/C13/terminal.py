"""C13 — terminal line editor / history (modules/terminal/impl/terminal_key_events.cpp, terminal_commands.cpp).

Strings are the opaque (size, tag) model: contents are abstract, lengths are exact.  Session invariant SCTX:
   history.size <= 20, history_index <= history.size, cursor <= curr_input.size.
Every key handler: SCTX is preserved, no std:: exception escapes (ghost __exc == 0: at()/substr()/erase()/insert()/string(n,c)
throw in the model exactly where libstdc++ does), no container is indexed out of range, and (cursor, length, history_index)
change exactly as in the reference line editor (insert at cursor, backspace, delete, left/right/home/end, history up/down).
executeRunHistoryCmd (!n, !-n, !!): std::stoi may return ANY int or throw invalid_argument / out_of_range: either an existing
entry is addressed or an error is sent - never back()/at() on a missing entry, never an escaping exception, no signed overflow.
The character contents of the edited line (reference editor on the text level) are not covered by this abstraction.
"""
import os
from verif import UnitSpec, Target
from plugins import StdVector, OpaqueString, StringStreamSink

PFX = 'terminal_Terminal_Impl_'
SEND = 'terminal_Connection_send__Ktbox_terminal_SessionTokenr_Kstd_stringr'
SENDC = 'terminal_Connection_send__Ktbox_terminal_SessionTokenr_char'
EARLY = r'''
struct v_TermImpl { char opaque; }; struct v_Path { char opaque; }; struct v_Conn { char opaque; };
'''
PRELUDE = r'''
#define HSZ(s) ((s)->history.size)
#define LEN(s) ((s)->curr_input.size)
#define SCTXP(s) (HSZ(s) <= 20 && (s)->history_index <= HSZ(s) && (s)->cursor <= LEN(s))
#define SCTX(s) (SCTXP(s) && LEN(s) < V_MAXSZ - 8)     /* the length bound is a precondition of the specs only */
static size_t g_hi;      /* ghost: an arbitrary history slot whose length is observed */
static size_t g_hlen;
'''
REQ = r'''
__CPROVER_requires(__CPROVER_is_fresh(s, sizeof(*s)) && SCTX(s))
__CPROVER_requires(__CPROVER_is_fresh(s->history.data, (HSZ(s) > 0 ? HSZ(s) * sizeof(struct v_str) : 1)))
__CPROVER_requires(g_hi < HSZ(s) ==> (s->history.data[g_hi].size == g_hlen && g_hlen < V_MAXSZ - 8))
'''
FRAME = 's->curr_input, s->cursor, s->history_index, __exc, v_mc_off'
def EDIT(extra): return REQ + '__CPROVER_assigns(' + FRAME + ')\n__CPROVER_ensures(__exc == 0 && SCTXP(s) && HSZ(s) == __CPROVER_old(s->history.size))\n' + extra
OLDC = '__CPROVER_old(s->cursor)'; OLDL = '__CPROVER_old(s->curr_input.size)'; OLDH = '__CPROVER_old(s->history_index)'
STUBS = r'''
_Bool %(SEND)s(struct v_Conn *self, struct cabinet_Token *st, struct v_str *str)
__CPROVER_requires(1) __CPROVER_assigns() __CPROVER_ensures(1);
_Bool %(SENDC)s(struct v_Conn *self, struct cabinet_Token *st, char ch)
__CPROVER_requires(1) __CPROVER_assigns() __CPROVER_ensures(1);
''' % {'SEND': SEND, 'SENDC': SENDC}

SPEC_KEYS = {
    ('prelude_early',): EARLY,
    ('stub', SEND): True, ('stub', SENDC): True, ('contract', SEND): '__CPROVER_requires(1)\n__CPROVER_assigns()\n__CPROVER_ensures(1)\n',
    ('contract', SENDC): '__CPROVER_requires(1)\n__CPROVER_assigns()\n__CPROVER_ensures(1)\n', ('optional', SENDC): True,
    # executing the line: user commands run here; they may edit nothing of the session's line state except curr_input (a re-run sets it)
    ('stub', PFX + 'execute'): True,
    ('contract', PFX + 'execute'): '__CPROVER_requires(__CPROVER_rw_ok(s, sizeof(*s)))\n__CPROVER_assigns(s->curr_input)\n__CPROVER_ensures(s->curr_input.size < V_MAXSZ - 8)\n',
    ('stub', PFX + 'printPrompt'): True, ('contract', PFX + 'printPrompt'): '__CPROVER_requires(1)\n__CPROVER_assigns()\n__CPROVER_ensures(1)\n',
    ('stub', 'terminal_CleanupInput'): True,
    ('contract', 'terminal_CleanupInput'): '__CPROVER_requires(__CPROVER_rw_ok(s, sizeof(*s)))\n__CPROVER_assigns(s->cursor)\n__CPROVER_ensures(1)\n',
    ('contract', PFX + 'onChar'): EDIT('__CPROVER_ensures(LEN(s) == %s + 1 && s->cursor == %s + 1 && s->history_index == %s)\n' % (OLDL, OLDC, OLDH)),
    ('contract', PFX + 'onBackspaceKey'): EDIT('__CPROVER_ensures(%s > 0 ? (LEN(s) == %s - 1 && s->cursor == %s - 1) : (LEN(s) == %s && s->cursor == 0))\n' % (OLDC, OLDL, OLDC, OLDL)),
    ('contract', PFX + 'onDeleteKey'): EDIT('__CPROVER_ensures(s->cursor == %s && LEN(s) == (%s < %s ? %s - 1 : %s))\n' % (OLDC, OLDC, OLDL, OLDL, OLDL)),
    ('contract', PFX + 'onMoveLeftKey'): EDIT('__CPROVER_ensures(LEN(s) == %s && s->cursor == (%s > 0 ? %s - 1 : 0))\n' % (OLDL, OLDC, OLDC)),
    ('contract', PFX + 'onMoveRightKey'): EDIT('__CPROVER_ensures(LEN(s) == %s && s->cursor == (%s < %s ? %s + 1 : %s))\n' % (OLDL, OLDC, OLDL, OLDC, OLDL)),
    ('contract', PFX + 'onHomeKey'): EDIT('__CPROVER_ensures(LEN(s) == %s && s->cursor == 0)\n' % OLDL),
    ('contract', PFX + 'onEndKey'): EDIT('__CPROVER_ensures(LEN(s) == %s && s->cursor == LEN(s))\n' % OLDL),
    ('loop', PFX + 'onHomeKey', 1): '__CPROVER_assigns(s->cursor)\n__CPROVER_loop_invariant(s->cursor <= LEN(s))\n__CPROVER_decreases(s->cursor)\n',
    ('loop', PFX + 'onEndKey', 1): '__CPROVER_assigns(s->cursor)\n__CPROVER_loop_invariant(s->cursor <= LEN(s))\n__CPROVER_decreases(LEN(s) - s->cursor)\n',
    ('contract', PFX + 'onMoveUpKey'): EDIT(
        '__CPROVER_ensures(s->history_index == (%s < HSZ(s) ? %s + 1 : %s))\n' % (OLDH, OLDH, OLDH) +
        '__CPROVER_ensures((%s < HSZ(s) && g_hi == HSZ(s) - s->history_index) ==> (LEN(s) == g_hlen && s->cursor == g_hlen))      /* the recalled line is history[size - index] */\n' % OLDH),
    ('contract', PFX + 'onMoveDownKey'): EDIT(
        '__CPROVER_ensures(s->history_index == (%s > 0 ? %s - 1 : 0))\n' % (OLDH, OLDH) +
        '__CPROVER_ensures((%s > 1 && g_hi == HSZ(s) - s->history_index) ==> (LEN(s) == g_hlen && s->cursor == g_hlen))\n' % OLDH +
        '__CPROVER_ensures(%s == 1 ==> (LEN(s) == 0 && s->cursor == 0))\n' % OLDH),
    ('contract', PFX + 'onEnterKey'): REQ + r'''
__CPROVER_assigns(s->curr_input, s->cursor, s->history_index, s->history, __exc, v_mc_off, __CPROVER_object_whole(s->history.data))
__CPROVER_frees(s->history.data)
__CPROVER_ensures(__exc == 0 && SCTXP(s) && LEN(s) == 0 && s->cursor == 0 && s->history_index == 0)      /* fresh line, history position reset - whether or not the line was stored */
__CPROVER_ensures(HSZ(s) == __CPROVER_old(s->history.size) || HSZ(s) == (__CPROVER_old(s->history.size) < 20 ? __CPROVER_old(s->history.size) + 1 : 20))   /* at most one line stored, never more than 20 kept */
''',
}
SPEC_CMD = {
    ('prelude_early',): EARLY,
    ('stub', SEND): True, ('contract', SEND): '__CPROVER_requires(1)\n__CPROVER_assigns()\n__CPROVER_ensures(1)\n',
    ('stub', PFX + 'execute'): True,
    ('contract', PFX + 'execute'): '__CPROVER_requires(__CPROVER_rw_ok(s, sizeof(*s)))\n__CPROVER_assigns(s->curr_input)\n__CPROVER_ensures(s->curr_input.size < V_MAXSZ - 8)\n',
    ('contract', PFX + 'executeRunHistoryCmd'): REQ + r'''
__CPROVER_requires(__CPROVER_is_fresh(args, sizeof(*args)) && args->size >= 1 && args->size < 8 && __CPROVER_is_fresh(args->data, args->size * sizeof(struct v_str)))
__CPROVER_requires(args->data[0].size >= 1 && args->data[0].size < V_MAXSZ - 8)        /* args[0] starts with '!' */
__CPROVER_assigns(s->curr_input, __exc)
__CPROVER_ensures(__exc == 0)                       /* no exception escapes, whatever std::stoi does */
__CPROVER_ensures(s->history_index == __CPROVER_old(s->history_index))    /* history untouched */
__CPROVER_ensures(HSZ(s) == __CPROVER_old(s->history.size))
''',
}

# --- executeCmd: the producer of the "args is not empty" precondition every command handler relies on (args[0] is the command word)
CMDS = ['executeLsCmd', 'executePwdCmd', 'executeCdCmd', 'executeHelpCmd', 'executeHistoryCmd', 'executeExitCmd', 'executeTreeCmd', 'executeRunHistoryCmd', 'executeUserCmd']
SPLIT = 'util_SplitCmdline'
SPEC_EXEC = {('prelude_early',): EARLY,
    ('stub', SEND): True, ('contract', SEND): '__CPROVER_requires(1)\n__CPROVER_assigns()\n__CPROVER_ensures(1)\n',
    # the splitter may succeed with NO words at all (a command part of blanks only): any count 0..7
    ('stub', SPLIT): True, ('contract', SPLIT): '__CPROVER_requires(__CPROVER_rw_ok(args, sizeof(*args)))\n__CPROVER_assigns(*args)\n__CPROVER_ensures(args->size < 8 && __CPROVER_is_fresh(args->data, 8 * sizeof(struct v_str)))\n',
    ('contract', PFX + 'executeCmd'): REQ + r"""
__CPROVER_requires(__CPROVER_is_fresh(cmdline, sizeof(*cmdline)) && cmdline->size < V_MAXSZ - 8)
__CPROVER_assigns(s->curr_input, __exc, g_handlers)
__CPROVER_ensures(__exc == 0 && g_handlers <= 1)        /* at most one handler per command line, no exception, no index outside the word list */
""",
    ('ghost', PFX + 'executeCmd', 'entry'): 'g_handlers = 0;',
}
for _c in CMDS:
    SPEC_EXEC[('stub', PFX + _c)] = True
    # every handler reads args[0] (and more after checking size()): it may be called only with at least the command word
    _a = '_p1' if _c in ('executePwdCmd', 'executeHistoryCmd', 'executeExitCmd') else 'args'      # handlers that ignore their word list leave the parameter unnamed
    SPEC_EXEC[('contract', PFX + _c)] = '__CPROVER_requires(' + _a + '->size >= 1 && g_handlers == 0)\n__CPROVER_assigns(s->curr_input, g_handlers)\n__CPROVER_ensures(g_handlers == 1 && s->curr_input.size < V_MAXSZ - 8)\n'

H = lambda body: '\nvoid H(void)\n{\n  __exc = 0;\n' + body + '\n  __CPROVER_assert(0, "VACUITY-CANARY");\n}\n'
def HK(fn, extra=''): return H('  struct v_TermImpl *t; struct terminal_SessionContext *s; %s %s(t, s%s);' % ('char ch;' if extra else '', PFX + fn, extra))
OPQ = {'tbox::terminal::Terminal::Impl': 'struct v_TermImpl', 'Path': 'struct v_Path', 'tbox::terminal::Connection': 'struct v_Conn'}
PL = lambda: [StdVector(), OpaqueString(), StringStreamSink()]
KEYS = ['onChar', 'onBackspaceKey', 'onDeleteKey', 'onMoveLeftKey', 'onMoveRightKey', 'onHomeKey', 'onEndKey', 'onMoveUpKey', 'onMoveDownKey', 'onEnterKey']
KSTUBS = [SEND, SENDC, PFX + 'execute', PFX + 'printPrompt', 'terminal_CleanupInput']

REPLAY_SOURCES = []
def native_replay(u, t, o, w, workdir):
    import replay as rp
    srcs = ['modules/terminal/impl/terminal.cpp', 'modules/terminal/impl/terminal_key_events.cpp', 'modules/terminal/impl/terminal_commands.cpp', 'modules/terminal/impl/terminal_nodes.cpp',
            'modules/terminal/impl/key_event_scanner.cpp', 'modules/terminal/impl/dir_node.cpp', 'modules/terminal/impl/func_node.cpp', 'modules/terminal/impl/node.cpp', 'modules/terminal/terminal.cpp', 'modules/terminal/session.cpp']
    srcs = [x for x in srcs if os.path.exists(os.path.join(rp.REPO, x))]
    libs = [os.path.join(rp.REPO if os.path.isdir(os.path.join(rp.REPO, '_build')) else '/repo', '_build/modules/%s/libtbox_%s.a' % (m, m)) for m in ('event', 'util', 'base')]
    return rp.attempt('terminal', srcs, os.path.join(workdir, 'replay'), [('native-search', ['search'])], extra=libs + ['-ldl'])

UNITS = [
    UnitSpec(name='key_events', tu='modules/terminal/impl/terminal_key_events.cpp', filter='tbox::terminal', more_filters=[('modules/terminal/impl/terminal_key_events.cpp', 'tbox::cabinet')],
             spec=SPEC_KEYS, prelude=PRELUDE, plugins=PL(), model_headers=['vec_model.h', 'misc_model.h'], opaque_records=OPQ,
             emit=['tbox::terminal::Terminal::Impl::' + k for k in KEYS],
             targets=[Target(k, HK(k, ', ch' if k == 'onChar' else ''), enforce=PFX + k, replace=KSTUBS, clause='%s: session invariant, no exception, (cursor, length, history index) as in the reference editor' % k) for k in KEYS]),
    UnitSpec(name='history_cmd', tu='modules/terminal/impl/terminal_commands.cpp', filter='tbox::terminal', more_filters=[('modules/terminal/impl/terminal_commands.cpp', 'tbox::cabinet')],
             spec=SPEC_CMD, prelude=PRELUDE, plugins=PL(), model_headers=['vec_model.h', 'misc_model.h'], opaque_records=OPQ,
             emit=['tbox::terminal::Terminal::Impl::executeRunHistoryCmd'],
             targets=[Target('executeRunHistoryCmd', H('  struct v_TermImpl *t; struct terminal_SessionContext *s; struct v_vec_v_str *a; %sexecuteRunHistoryCmd(t, s, a);' % PFX),
                             enforce=PFX + 'executeRunHistoryCmd', replace=[SEND, PFX + 'execute'],
                             clause='!n / !-n / !!: any stoi result or exception, any history length 0..20: addressed entry exists or an error is sent; nothing escapes')]),
    UnitSpec(name='execute_cmd', tu='modules/terminal/impl/terminal_commands.cpp', filter='tbox::terminal', more_filters=[('modules/terminal/impl/terminal_commands.cpp', 'tbox::cabinet'), ('modules/terminal/impl/terminal_commands.cpp', 'tbox::util')],
             spec=SPEC_EXEC, prelude=PRELUDE + 'static size_t g_handlers;\n', plugins=PL(), model_headers=['vec_model.h', 'misc_model.h'], opaque_records=OPQ,
             emit=['tbox::terminal::Terminal::Impl::executeCmd'],
             targets=[Target('executeCmd', H('  struct v_TermImpl *t; struct terminal_SessionContext *s; struct v_str *c; %sexecuteCmd(t, s, c);' % PFX),
                             enforce=PFX + 'executeCmd', replace=[SEND, SPLIT] + [PFX + c for c in CMDS], sat='cadical', timeout=600,
                             clause='executeCmd: a handler is called only with a non-empty word list (blank-only command parts included), at most one handler per line, nothing escapes')]),
]
