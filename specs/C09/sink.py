"""C09 — log::Sink (modules/log/sink.cpp): per-sink filtering, enabling and the cached timestamp string.

 filter               true iff level <= the module's own threshold when the module has one (abstract table: found / its level), else <= the
                      default threshold; the table is read with the sink lock held, the lock is released.
 handleLog            exactly one record goes to the front end iff the filter passes, none otherwise.
 updateTimestampStr   representation invariant "the cached string is the string of the cached second" (ghost: the second the string
                      stands for); afterwards both are the second of THIS record, whatever second was formatted before - later ones included.
 setLevel/unsetLevel  the threshold in force for a module afterwards is the one given (default threshold for the empty name), unsetLevel removes
                      it; guarded-by: every read or write of modules_level_ / default_level_ in the unit holds the sink lock - filter()
                      runs on every logging thread [found: unsetLevel erased without the lock - fixed 19ed8d9].
 enable / disable     enable: the sink is made ready (onEnable) BEFORE it is registered with the log front end; idempotent.  disable: it is
                      unregistered first - no new record can arrive - and only then drained and shut down (onDisable), so everything
                      logged before disable() went in before the drain.
"""
import os
from verif import UnitSpec, Target
from plugins import StdFunction, StdVector, Sync, Chrono, StringStreamSink, OpaqueString, OpaqueTypes, Syscalls
TU = 'modules/log/sink.cpp'
R = {'log_Sink_filter': 'Sink_filter', 'log_Sink_handleLog': 'Sink_handleLog', 'log_Sink_updateTimestampStr': 'Sink_updateTs', 'log_Sink_enable': 'Sink_enable', 'log_Sink_disable': 'Sink_disable',
     'log_Sink_onLogFrontEnd': 'Sink_onLogFrontEnd', 'log_Sink_onEnable': 'Sink_onEnable', 'log_Sink_onDisable': 'Sink_onDisable'}
PRELUDE = r"""
typedef struct log_Sink Sink; typedef struct LogContent LogContent;
#define T(x) ((x) != 0)
static Sink *g_s;
static _Bool g_found; static int g_found_level;       /* abstract per-module table: whether the module of this record has its own threshold, and which */
static int g_step; static size_t g_front_calls;
static uint32_t g_tm_sec, g_str_sec;                  /* the second the broken-down time / the cached string stands for */
static _Bool g_tm_set;
"""
EXTERN = r"""
long v_map__find(struct v_map *mp, struct v_str *k) __CPROVER_requires(mp == &g_s->modules_level_ && g_s->lock_.held > 0) __CPROVER_assigns() __CPROVER_ensures((__CPROVER_return_value != 0) == T(g_found));
long v_map__end(struct v_map *mp) __CPROVER_assigns() __CPROVER_ensures(__CPROVER_return_value == 0);
int *v_map_it_second(long it) __CPROVER_requires(it != 0) __CPROVER_assigns() __CPROVER_ensures(__CPROVER_return_value == &g_found_level);
void Sink_onLogFrontEnd(Sink *self, const LogContent *c) __CPROVER_requires(self == g_s && g_front_calls == 0) __CPROVER_assigns(g_front_calls) __CPROVER_ensures(g_front_calls == 1);
void Sink_onEnable(Sink *self) __CPROVER_requires(self == g_s && g_step == 0) __CPROVER_assigns(g_step) __CPROVER_ensures(g_step == 1);
/* registration with the log front end: from here on records arrive; removal: from here on none does */
uint32_t LogAddPrintfFunc(v_fnptr f, void *p) __CPROVER_requires(p == (void *)g_s && g_step == 1) __CPROVER_assigns(g_step) __CPROVER_ensures(g_step == 2 && __CPROVER_return_value != 0);
_Bool LogRemovePrintfFunc(uint32_t id) __CPROVER_requires(id == g_s->output_id_ && id != 0 && g_step == 0) __CPROVER_assigns(g_step) __CPROVER_ensures(g_step == 1);
void Sink_onDisable(Sink *self) __CPROVER_requires(self == g_s && g_step == 1) __CPROVER_assigns(g_step) __CPROVER_ensures(g_step == 2);
struct tm *v_sys_localtime_r(const time_t *t, struct tm *out) __CPROVER_requires(__CPROVER_r_ok(t, sizeof(*t)) && __CPROVER_w_ok(out, sizeof(*out))) __CPROVER_assigns(*out, g_tm_sec, g_tm_set)
  __CPROVER_ensures(g_tm_sec == (uint32_t)*t && g_tm_set == 1 && __CPROVER_return_value == out);
size_t v_sys_strftime(char *buf, size_t n, const char *fmt, const struct tm *tm) __CPROVER_requires(buf == g_s->timestamp_str_ && n == sizeof(g_s->timestamp_str_) && T(g_tm_set)) __CPROVER_assigns(g_str_sec, __CPROVER_object_upto(buf, n))
  __CPROVER_ensures(g_str_sec == g_tm_sec);
"""
SPEC = {('prelude_early',): '#include <time.h>\n', ('prelude',): PRELUDE, ('after_protos',): EXTERN,
    ('stub', 'Sink_onLogFrontEnd'): True, ('stub', 'LogAddPrintfFunc'): True, ('stub', 'LogRemovePrintfFunc'): True, ('stub', 'Sink_onEnable'): True, ('stub', 'Sink_onDisable'): True,
    ('contract', 'Sink_filter'): r"""
__CPROVER_requires(__CPROVER_is_fresh(self, sizeof(*self)) && __CPROVER_is_fresh(module, sizeof(*module)) && self->lock_.held == 0 && (g_found == 0 || g_found == 1))
__CPROVER_assigns(g_s, v_noblock_mutex, self->lock_.held)
__CPROVER_ensures(self->lock_.held == 0)
__CPROVER_ensures(T(__CPROVER_return_value) == (level <= (T(g_found) ? g_found_level : self->default_level_)))       /* the module threshold if the module has one, else the default one */
""",
    ('ghost', 'Sink_filter', 'entry'): 'g_s = self; v_noblock_mutex = 0;',
    ('contract', 'Sink_handleLog'): r"""
__CPROVER_requires(__CPROVER_is_fresh(self, sizeof(*self)) && __CPROVER_is_fresh(content, sizeof(*content)) && (g_pass == 0 || g_pass == 1))
__CPROVER_assigns(g_s, g_front_calls)
__CPROVER_ensures(g_front_calls == (T(g_pass) ? 1 : 0))           /* exactly one record for a call that passes the filter, none otherwise */
""",
    ('ghost', 'Sink_handleLog', 'entry'): 'g_s = self; g_front_calls = 0;',
    ('contract', 'Sink_updateTs'): r"""
__CPROVER_requires(__CPROVER_is_fresh(self, sizeof(*self)) && g_str_sec == self->timestamp_sec_)          /* the cached string is the string of the cached second */
__CPROVER_assigns(g_s, g_tm_sec, g_tm_set, g_str_sec, self->timestamp_sec_, self->timestamp_str_)
__CPROVER_ensures(self->timestamp_sec_ == sec && g_str_sec == sec)      /* whatever second came before (later ones included): the string shown is the one of THIS record's second */
""",
    ('ghost', 'Sink_updateTs', 'entry'): 'g_s = self; g_tm_set = 0;',
    ('contract', 'Sink_enable'): r"""
__CPROVER_requires(__CPROVER_is_fresh(self, sizeof(*self)))
__CPROVER_assigns(g_s, g_step, self->output_id_)
__CPROVER_ensures(T(__CPROVER_return_value) == (__CPROVER_old(self->output_id_) == 0) && self->output_id_ != 0)
__CPROVER_ensures(g_step == (T(__CPROVER_return_value) ? 2 : 0))       /* the sink is made ready BEFORE records can reach it */
""",
    ('ghost', 'Sink_enable', 'entry'): 'g_s = self; g_step = 0;',
    ('contract', 'Sink_disable'): r"""
__CPROVER_requires(__CPROVER_is_fresh(self, sizeof(*self)))
__CPROVER_assigns(g_s, g_step, self->output_id_)
__CPROVER_ensures(self->output_id_ == 0 && g_step == (__CPROVER_old(self->output_id_) != 0 ? 2 : 0))       /* no new records first, THEN the sink drains and shuts down */
""",
    ('ghost', 'Sink_disable', 'entry'): 'g_s = self; g_step = 0;',
}
SPEC_H = {k: v for k, v in SPEC.items() if not (len(k) > 1 and k[0] in ('contract', 'ghost', 'loop') and k[1] != 'Sink_handleLog')}; SPEC_H[('prelude',)] = PRELUDE + 'static _Bool g_pass;\n'
SPEC_H[('stub', 'Sink_filter')] = True
SPEC_H[('contract', 'Sink_filter')] = '__CPROVER_requires(self == g_s && level == g_c->level) __CPROVER_assigns() __CPROVER_ensures(T(__CPROVER_return_value) == T(g_pass))\n'
SPEC_H[('prelude',)] += 'static const LogContent *g_c;\n'
SPEC_H[('ghost', 'Sink_handleLog', 'entry')] = 'g_s = self; g_front_calls = 0; g_c = content;'
SPEC_H[('contract', 'Sink_handleLog')] = SPEC[('contract', 'Sink_handleLog')].replace('__CPROVER_assigns(g_s, g_front_calls)', '__CPROVER_assigns(g_s, g_c, g_front_calls)')
del SPEC[('contract', 'Sink_handleLog')]; del SPEC[('ghost', 'Sink_handleLog', 'entry')]
H = lambda body: '\nvoid H(void)\n{\n' + body + '\n  __CPROVER_assert(0, "VACUITY-CANARY");\n}\n'
def U(name, spec, emit, targets): return UnitSpec(name=name, tu=TU, filter='tbox::log', more_filters=[(TU, 'LogContent'), (TU, 'AddPrintfFunc@LogAddPrintfFunc'), (TU, 'RemovePrintf@LogRemovePrintfFunc')], spec=spec, rename=R,
    plugins=[StdFunction(), StdVector(), Sync(), Chrono(), StringStreamSink(), OpaqueString(), Syscalls(extra=('localtime_r', 'strftime')), OpaqueTypes({r'^std::map<.*>$': 'v_map', r'^std::_Rb_tree_(const_)?iterator<.*>$': 'long:v_map_it'})],
    model_headers=['fn_model.h', 'vec_model.h', 'sync_model.h', 'misc_model.h'], emit=emit, targets=targets,
    trusted=['std::map<std::string, int> (Sink::modules_level_) is an oracle for ONE module name (has a threshold / which): the contracts of find, operator[], erase and emplace restate the standard for that key'])
N = 'tbox::log::Sink::'
UNITS = [
  U('sink', SPEC, [N + 'filter', N + 'updateTimestampStr', N + 'enable', N + 'disable'], [
    Target('filter', H('  Sink *s; int l; struct v_str *m; Sink_filter(s, l, m);'), enforce='Sink_filter', replace=['v_map__find', 'v_map__end', 'v_map_it_second'], clause='filter: level <= the module threshold if the module has one, else <= the default; table read under the sink lock'),
    Target('updateTimestampStr', H('  Sink *s; uint32_t sec; Sink_updateTs(s, sec);'), enforce='Sink_updateTs', replace=['v_sys_localtime_r', 'v_sys_strftime'], clause='cached timestamp string always stands for the second of the record being printed (earlier seconds included)'),
    Target('enable', H('  Sink *s; Sink_enable(s);'), enforce='Sink_enable', replace=['Sink_onEnable', 'LogAddPrintfFunc'], clause='enable: sink made ready, then registered; idempotent'),
    Target('disable', H('  Sink *s; Sink_disable(s);'), enforce='Sink_disable', replace=['LogRemovePrintfFunc', 'Sink_onDisable'], clause='disable: unregistered first (no new records), then drained and shut down')]),
  U('sink_handle', SPEC_H, [N + 'handleLog'], [
    Target('handleLog', H('  Sink *s; const LogContent *c; Sink_handleLog(s, c);'), enforce='Sink_handleLog', replace=['Sink_filter', 'Sink_onLogFrontEnd'], clause='handleLog: exactly one record to the front end iff the filter passes')]),
]
def native_replay(u, t, o, w, workdir):
    import replay as rp
    L = '/repo/_build/modules'
    if 'v_guarded__' in getattr(o, 'name', str(o)):          # a failed guarded-by obligation is replayed under ThreadSanitizer: one thread logs, one edits the table
        return rp.tsan_attempt('sink_unset_level', ['modules/log/sink.cpp'], os.path.join(workdir, 'replay'), extra=['%s/util/libtbox_util.a' % L, '%s/base/libtbox_base.a' % L])
    if t.id != 'updateTimestampStr': return None
    libs = ['%s/%s/libtbox_%s.a' % (L, x, x) for x in ('log', 'util', 'event', 'base')] + ['-ldl']
    return rp.attempt('sink_timestamp', ['modules/log/sink.cpp'], os.path.join(workdir, 'replay'), [('scenario', [])], extra=libs)

# --- the filter configuration: written by setLevel / unsetLevel (the application's thread), read by filter() on every logging thread ---
R.update({'log_Sink_setLevel__int': 'Sink_setDefaultLevel', 'log_Sink_setLevel__Kstd_stringr_int': 'Sink_setModuleLevel', 'log_Sink_unsetLevel': 'Sink_unsetLevel'})
EXTERN_L = '\n'.join(EXTERN.strip().split('\n')[:3]) + r"""
/* the table cell of THIS module; it exists from here on */
int *v_map__index(struct v_map *mp, struct v_str *k) __CPROVER_requires(mp == &g_s->modules_level_ && k == g_mod) __CPROVER_assigns(g_found) __CPROVER_ensures(__CPROVER_return_value == &g_found_level && g_found == 1);
/* std::map::emplace inserts only when the key is absent: an existing threshold stays what it was (a setter written with it does not set) */
void v_map__emplace(struct v_map *mp, struct v_str *k, int v) __CPROVER_requires(mp == &g_s->modules_level_ && k == g_mod) __CPROVER_assigns(g_found, g_found_level)
  __CPROVER_ensures(g_found == 1 && g_found_level == (T(__CPROVER_old(g_found)) ? __CPROVER_old(g_found_level) : v));
size_t v_map__erase(struct v_map *mp, struct v_str *k) __CPROVER_requires(mp == &g_s->modules_level_ && k == g_mod) __CPROVER_assigns(g_found) __CPROVER_ensures(g_found == 0);
"""
LOCKED = 'B->lock_.held > 0'
SPEC_L = {('prelude_early',): '#include <time.h>\n', ('prelude',): PRELUDE + 'static struct v_str *g_mod;\n', ('after_protos',): EXTERN_L,
    # every read or write of the filter configuration, anywhere in the unit, happens with the sink lock held: filter() runs on every logging thread
    ('guarded_by', 'log_Sink'): {'modules_level_': LOCKED, 'default_level_': LOCKED},
    ('contract', 'Sink_setDefaultLevel'): r"""
__CPROVER_requires(__CPROVER_is_fresh(self, sizeof(*self)) && self->lock_.held == 0)
__CPROVER_assigns(g_s, v_noblock_mutex, self->lock_.held, self->default_level_)
__CPROVER_ensures(self->lock_.held == 0 && self->default_level_ == level)
""",
    ('ghost', 'Sink_setDefaultLevel', 'entry'): 'g_s = self; v_noblock_mutex = 0;',
    ('contract', 'Sink_setModuleLevel'): r"""
__CPROVER_requires(__CPROVER_is_fresh(self, sizeof(*self)) && __CPROVER_is_fresh(module, sizeof(*module)) && self->lock_.held == 0 && (g_found == 0 || g_found == 1))
__CPROVER_assigns(g_s, g_mod, g_found, g_found_level, v_noblock_mutex, self->lock_.held, self->default_level_)
__CPROVER_ensures(self->lock_.held == 0)
/* afterwards the threshold in force for this module is `level` - whether or not the module had one before; the empty name means the default threshold */
__CPROVER_ensures(module->size == 0 ? (self->default_level_ == level && T(g_found) == T(__CPROVER_old(g_found)) && g_found_level == __CPROVER_old(g_found_level))
                                    : (T(g_found) && g_found_level == level && self->default_level_ == __CPROVER_old(self->default_level_)))
""",
    ('ghost', 'Sink_setModuleLevel', 'entry'): 'g_s = self; g_mod = module; v_noblock_mutex = 0;',
    ('contract', 'Sink_unsetLevel'): r"""
__CPROVER_requires(__CPROVER_is_fresh(self, sizeof(*self)) && __CPROVER_is_fresh(module, sizeof(*module)) && self->lock_.held == 0 && (g_found == 0 || g_found == 1))
__CPROVER_assigns(g_s, g_mod, g_found, v_noblock_mutex, self->lock_.held)
__CPROVER_ensures(self->lock_.held == 0 && !T(g_found) && self->default_level_ == __CPROVER_old(self->default_level_))        /* the module falls back to the default threshold */
""",
    ('ghost', 'Sink_unsetLevel', 'entry'): 'g_s = self; g_mod = module; v_noblock_mutex = 0;',
}
UNITS.append(U('sink_levels', SPEC_L, [(N + 'setLevel', 'int'), (N + 'setLevel', 'const std::string &, int'), N + 'unsetLevel', N + 'filter'], [
    Target('setLevel_default', H('  Sink *s; int l; Sink_setDefaultLevel(s, l);'), enforce='Sink_setDefaultLevel', clause='setLevel(level): the default threshold is level; written under the sink lock'),
    Target('setLevel_module', H('  Sink *s; int l; struct v_str *m; Sink_setModuleLevel(s, m, l);'), enforce='Sink_setModuleLevel', replace=['v_map__index', 'v_map__emplace'], clause='setLevel(module, level): afterwards the threshold of the module is level, whether or not it had one; table written under the sink lock'),
    Target('unsetLevel', H('  Sink *s; struct v_str *m; Sink_unsetLevel(s, m);'), enforce='Sink_unsetLevel', replace=['v_map__erase'], clause='unsetLevel(module): the module has no threshold of its own afterwards; table written under the sink lock (filter() reads it on every logging thread)')]))
