#!/usr/bin/env python3
"""Regenerates /verif/MANIFEST.json from the table below (kept in one place so it stays valid)."""
import json, os
VERIF = os.path.dirname(os.path.dirname(os.path.abspath(__file__)))

CLAIMS = {
 # id: (category, text, level_note, technique, design_ref)
 'C01': ('other',
         'CommonLoop deferred tasks under CBMC contracts (one thread visible): id spaces (even/odd, never 0) over the full 64-bit domain; cancel routed by parity with the cross-thread queue only touched under lock_; removal keeps the other tasks in submission order; runInLoop/runNext append at the back under the returned id and leave a wake-up committed; batch taken and wake-up acknowledged in one critical section; each popped callable invoked exactly once outside the lock.',
         'Trusted: printer, CBMC, container/function/string models, callback stub (havoc under the queue invariant), eventfd as ghost token counter. Queue-content targets are bounded to 64 items. Interleavings, thread identity and shutdown draining are not decided.',
         'CBMC function/loop contracts with ghost lock state on mechanically extracted C', '6 C01'),
 'C02': ('other',
         'CommonLoop timers under unbounded CBMC contracts: a callback runs only at or after its deadline; one-shot timers leave the heap and release token and record before their callback; persistent timers are re-armed at deadline + interval (no period skipped, no restart from now); the heap is whole whenever user code runs; enable computes the deadline from a clock reading taken during the call; disabling with a stale token is a no-op, a live timer leaves the heap at once and is freed later.',
         'Trusted: printer, CBMC, std heap algorithms as typestate stubs, opaque Cabinet/ObjectPool, clock stub, callback stub. Heap content is abstract; TimerEventImpl and sleep time are not covered.',
         'CBMC function/loop contracts with heap typestate ghost on mechanically extracted C', '6 C02'),
 'C03': ('other',
         'epoll descriptor events under CBMC contracts: enable/disable keep subscriber counts, list membership and kernel registration consistent; kernel interest is exactly the set of conditions with a subscriber (ADD/MOD/DEL chosen correctly); a callback runs only when a subscribed condition is ready, once, a one-shot event being disabled first; dispatch walks a snapshot and calls back only events that are still subscribed at their turn; the epoll and select passes look the shared record up by descriptor for every ready entry, skip it when it is gone and keep it alive during dispatch; select dispatches only when select() reported readiness.',
         'Trusted: printer, CBMC, epoll_ctl / loop hook / callback stubs, vector model. The select event class, fillFdSets and shared-record reference counting are not under contract.',
         'CBMC function/loop contracts with call-order ghosts on mechanically extracted C', '6 C03'),
 'C04': ('other',
         'Signal events, the sequential halves under unbounded CBMC contracts: SignalEventImpl subscribes / unsubscribes every signal of its set exactly once, and a one-shot event is completely disabled before its callback runs (fires at most once); CommonLoop::unsubscribeSignal restores the saved previous disposition exactly when the last loop stops listening to the signal - under the lock, with signals blocked, mask restored before unlocking - and tears the loop-local pipe down when no subscriber is left.',
         'Trusted: printer, CBMC, opaque std::map/std::set oracles, sigaction/sigprocmask/close stubs. Asynchronous delivery to every subscriber in every loop, the handler chain and subscribeSignal are not decided (not expressible as per-call contracts).',
         'CBMC function/loop contracts with call-order ghosts on mechanically extracted C', '6 C04'),
 'C05': ('other',
         'ThreadPool under CBMC contracts (one thread visible): guarded-by obligations (stop flag, idle counter only under the pool mutex), worker loop (idle count restored on every path, stop flag checked after each wake-up, task body exactly once outside the lock between register/unregister, completion callback posted after the body), initialize (flag cleared before workers exist), priority-first FIFO pop and cancel over all priority levels (bounded domain).',
         'Trusted: printer, CBMC, opaque Cabinet/ObjectPool/std::set/std::thread stubs, one-thread view. Interleavings, liveness and WorkThread are not decided; queue targets bounded to 16 tasks per level.',
         'CBMC function/loop contracts with ghost lock state and guarded-by obligations on mechanically extracted C', '6 C05'),
 'C06': ('other',
         'BufferedFd::send and onWriteCallback under CBMC contracts with a ghost byte stream: wire ++ send queue == accepted bytes for every result of write(2) (short, zero, EAGAIN), send-complete only on an empty queue, write event armed whenever Running with queued data (also for data queued before enable and for re-entrant callbacks); enable/disable state contracts. Proved modularly against the util::Buffer and util::Fd contracts, which are re-checked in the same run.',
         'Trusted: printer, CBMC, write(2)/FdEvent stubs (any legal result), user callbacks modelled as havoc-under-invariant (rely/guarantee). Read path and the TCP classes are not covered; liveness only through the arming invariant.',
         'CBMC function contracts (goto-instrument --dfcc) with ghost stream state on mechanically extracted C', '6 C06'),
 'C07': ('proof',
         'Every member of util::Buffer (constructors, destructor, assignments, swap, reset, ensureWritableSize, hasWritten, append, hasRead, hasReadAll, fetch, shrink, cloneFrom) is under a CBMC function contract: representation invariant, abstract FIFO effect on (readable size, tracked byte at an arbitrary offset), frame, and memory safety for all sizes < 2^40. The FIFO property for every operation mix follows by induction over the history.',
         'Trusted: clang-AST->C printer, CBMC+SAT, weak memcpy/memmove models (weaker than libc), allocator never fails; induction over histories is a paper step.',
         'CBMC function contracts (goto-instrument --dfcc) on mechanically extracted C', '6 C07'),
 'C08': ('other',
         'util::Fd: every handle operation under a CBMC function contract (reference count exact, descriptor closed exactly when the last handle goes or on close(), never twice; unbounded) plus short-history lemmas. cabinet::Cabinet<T>: representation invariant + abstract token->object map effect of alloc/free/update/at/clear checked for every cabinet state up to capacity 8 (bounded stand-in: the union in Cell rules out symbolic capacity); dead tokens stay dead across slot reuse and clear(). ObjectPool and lifetime_tag are not covered.',
         'Trusted: printer, CBMC, std::function / std::vector models, explicit-instantiation driver. Cabinet results are B(capacity 8), not proofs. ObjectPool (variadic placement-new template) outside the printer subset: not covered.',
         'CBMC function contracts (Fd) and bounded symbolic harnesses on the extracted real code (Cabinet)', '6 C08'),
 'C09': ('other',
         'Log front end under unbounded CBMC contracts: Dispatch calls every engaged sink exactly once, in order, with the dispatch lock held; LogPrintfFunc dispatches exactly one record with level clamp and truncation to exactly the configured maximum (marked), text alive at dispatch; AsyncSink front end frames header+text under that lock; AsyncPipe units re-checked.',
         'Trusted: printer, CBMC, vsnprintf/gettimeofday/syscall contracts, one-thread view. Sink level filter, back-end re-framing, file roll-over and interleavings are not decided.',
         'CBMC function/loop contracts with ghost lock state on mechanically extracted C', '6 C09'),
 'C10': ('other',
         'AsyncPipe producer, back end and life cycle under unbounded CBMC contracts (one thread visible): bytes handed to buffers once, in order, contiguously; each full buffer delivered to the sink exactly once before reset; lock discipline (guarded-by, lock order, try_lock-only on the producer mutex); cleanup withdraws the stop request and frees everything; initialize accounting.',
         'Trusted: printer, CBMC, size-only container model, Buffer handle contracts restating the Buffer unit, one-thread view (other threads = havoc in wait/join contracts). Interleavings, races and liveness are not decided.',
         'CBMC function/loop contracts with ghost lock state on mechanically extracted C', '6 C10'),
 'C11': ('proof',
         'Module::initialize/start/stop/cleanup under CBMC contracts for every module state, every number of children (loop contracts), every hook outcome: balance invariant (successful init <-> pending cleanup, successful start <-> pending stop) on every exit incl. failing required children, hooks only in legal states (start after init, stop only started, cleanup after stop), parent before children, children in registration order / exact reverse order, optional-child failures tolerated. Recursion through child-view contracts.',
         'Trusted: printer, CBMC, std::vector/std::string/Json models, hook stubs (any result). Induction over tree depth is a paper step; add() / Main() not covered.',
         'CBMC function contracts + loop contracts with ghost call counters on mechanically extracted C', '6 C11'),
 'C20': ('other',
         'Alarm::activeTimer/onTimeExpired/enable/disable/cleanup/refresh under unbounded CBMC contracts: the armed delay in ms (64-bit) is never shorter than the wall-clock distance for every distance, the computation starts from max(now, previous target) so one instant is served once, re-arm before the user callback, a callback that disables the alarm leaves it disabled, disable/cleanup disarm. Next-instant functions of the one-shot, weekly and workday alarms: result matches the configuration, is strictly after the current time and no earlier instant matches (ghost witness) - bounded domain (current time < 32 days from the epoch, thorough 1024 days; all masks, seconds of day, calendars symbolic; workday scan by loop contract).',
         'Trusted: printer, CBMC, clock / time-zone / TimerEvent / callback stubs. / and % by 86400 over 32 bits are out of solver reach, hence the bounded domain for the calendar arithmetic (periodicity beyond the window is an unchecked argument). CronAlarm / ccronexpr not covered.',
         'CBMC function contracts (unbounded) + bounded-domain contracts for the calendar arithmetic', '6 C20'),
 'C12': ('other',
         'HTTP RequestParser::parse under an unbounded CBMC contract with size-only strings: for every input and carried-over state no exception, no index outside the buffer, consumed <= given, valid state, termination of both loops, and a start line is only rejected once its CRLF was seen. Server::Impl::commitRespond: responses are written in request order, once each, parked when out of turn, and nothing is written after the response to the closing request.',
         'Trusted: printer, CBMC, size-only std::string model (find/substr/operator[] bounds), conversion stubs. Request content, whole-stream segmentation independence and the rest of the server pipeline (onTcpReceived, connection close) are not decided.',
         'CBMC function/loop contracts on mechanically extracted C', '6 C12'),
 'C13': ('other',
         'KeyEventScanner::next total over all bytes x states (loop-free, full domain). Line-editor key handlers and history under unbounded CBMC contracts on an abstract string model (exact lengths, abstract contents): session invariant (history <= 20, history index and cursor in range), no std:: exception escapes, no container indexed out of range, (cursor, length, history index) evolve as in the reference editor; history commands !n / !-n / !! for every stoi result or exception and every history length.',
         'Trusted: printer, CBMC, std::string (size/tag), std::deque, std::stoi, stringstream models; Connection stubs. Text contents of the edited line, telnet negotiation (telnetd.cpp), split_cmdline, node tree and session teardown are not covered.',
         'CBMC function contracts on mechanically extracted C with abstract string/container models', '6 C13'),
 'C14': ('other',
         'Framing: FindEndPos memory-safe for every buffer (nested loop contracts, unbounded) plus prefix determinism and equality with a reference scanner (bounded, len <= 10); HeaderStreamProto::onRecvData total for every buffer and every 32-bit length field, text handed to the JSON parser is exactly data[6..6+len), callback exactly once iff bytes are consumed, proved against the Deserializer contracts; RawStreamProto::onRecvData never claims more than given. Deadlines: TimeoutMonitor add/onTimerTick under unbounded contracts (one slot per tick, each value reported once in order, re-entrant adds survive, timer armed iff counter > 0) plus a concrete whole-ring scenario on the real bodies.',
         'Trusted: printer, CBMC, nlohmann::json opaque (parse may succeed or throw), std::string/vector/function models, explicit-instantiation driver for TimeoutMonitor<int>. Rpc request bookkeeping (unordered_map), PacketProto, Proto::onRecvJson field extraction and encoder/decoder value round trip are not covered.',
         'CBMC function/loop contracts on mechanically extracted C; bounded cross-checks', '6 C14'),
 'C15': ('other',
         'DNS name decoder FetchDomain under an unbounded CBMC contract: every read inside the datagram (against the Deserializer contracts), label buffer written within its length, label loop terminates (decreases clause), recursion on compression pointers bounded by a strictly decreasing non-negative measure checked at the recursive call. The deadline wheel (TimeoutMonitor) and Deserializer units it rests on are re-checked in the same run.',
         'Trusted: printer, CBMC, ostringstream as write-only sink (the produced name text is not decided), Deserializer/TimeoutMonitor contracts re-proved here. DnsRequest::onUdpRecv / request / cancel bookkeeping (std::map, callbacks) is not under contract: exactly-once completion is only covered through the TimeoutMonitor contracts.',
         'CBMC function/loop contracts with a recursion measure on mechanically extracted C', '6 C15'),
 'C16': ('other',
         'StateMachine::Impl under CBMC contracts, one level at a time with child-view contracts for the nested machine: rejected calls change nothing; events go to the active sub-machine until it terminated; handler pick, else first route in registration order whose event matches and whose guard holds (guards evaluated only for matching routes, in order, once); exit, route action, enter, notification, sub start/run in that order exactly once each; re-entrancy guard restored on every path; start/stop balanced including the sub-machine.',
         'Trusted: printer, CBMC, opaque std::map stubs, callback stubs, one assume instantiating a quantified precondition. run is checked for states with at most 8 routes. The whole-hierarchy trace equality is the induction over these contracts (paper).',
         'CBMC function/loop contracts with child-view contracts and call-order ghosts on mechanically extracted C', '6 C16'),
 'C17': ('other',
         'Action life cycle and serial-composite bookkeeping under unbounded CBMC contracts, against contract stubs for the virtual hooks: each transition only from the states that allow it; an action finishes at most once per run; stop sets the state before the hook, withdraws queued notifications and runs the final hook once; reset leaves the action like a fresh one; a child finish clears the running child in every state, is handled / held back / dropped by state; a held-back result re-posted on resume is withdrawn by stop and reset; a sequence resets every child exactly once.',
         'Trusted: printer, CBMC, hook/loop/timer stubs. The control-flow meaning of whole action trees is not decided (per-function contracts only).',
         'CBMC function/loop contracts with call-order ghosts on mechanically extracted C', '6 C17'),
 'C18': ('other',
         'Coroutine Semaphore, Mutex and Channel<int> under unbounded CBMC contracts: a routine is queued before every wait and re-checks after every wake-up; every release / unlock / send makes the resource available first and then wakes one live waiter (stale tokens skipped) whatever the count or queue length; semaphore count never negative; mutex taken only when seen free, re-entrant for the holder, unlocked only by the holder; channel reads the front, appends at the back.',
         'Trusted: printer, CBMC, Scheduler stubs (wait = other routines run), size-only queue model. The scheduler, Condition/Broadcast and the whole-run induction are not covered.',
         'CBMC function/loop contracts with ghost waiter bookkeeping on mechanically extracted C', '6 C18'),
 'C19': ('other',
         'Per-function CBMC contracts and loop-free/complete-unwinding lemmas on the C re-printed from the real codec sources: size functions, frames (no write beyond capacity, no read outside input), exact inverse on every value, CRC/checksum/MD5 equal to reference definitions written from the standards (scalable integer, base64, CRC16/32, checksum8, serializer, MD5; AES, hex-string and URL codecs are not under contract).',
         'Trusted: clang-AST->C printer, CBMC+SAT, allocator never fails, libc models; std::string/vector overloads only through their shared loops; see evidence.assumptions.',
         'CBMC function contracts (goto-instrument --dfcc) on mechanically extracted C', '6 C19'),
}
NOT_YET = 'claimable clauses not built yet in this round; the rest of the property quantifies over thread schedules / liveness / kernel behaviour, which sequential function contracts cannot express (DESIGN.md section 7)'
ALL = ['C%02d' % i for i in range(1, 21)]


# later additions (kept apart so the original claim texts stay readable): appended to the claim text / replacing stale fragments of the notes
ADD_TEXT = {
 'C01': 'runThisAfterLoop: the eventfd is closed once and no wake-up flag is left raised for the next run of the same loop. Guarded-by obligations on the cross-thread queue and its wake-up flag (every access holds lock_).',
 'C02': 'TimerEventImpl enable / disable / initialize / onEvent (one registration per enabled event, one-shot disabled before its callback).',
 'C03': 'SelectLoop::fillFdSets: a descriptor is in the read/write/except set handed to select() iff the loop holds enabled events of that kind for it (descriptor 0 included), nfds covers it.',
 'C04': 'CommonLoop::onSignal: the pipe is read in whole signal numbers and every subscriber of every number read is called exactly once. SignalHandlerFunc: the previously installed handler is chained exactly once (never for default/ignore dispositions), every listening loop gets one write of the signal number.',
 'C05': 'ThreadPool::execute and the whole of WorkThread (execute, popOneTask, cancel with the order of the remaining tasks, worker loop, cleanup, guarded-by stop flag) are under contract as well; the guarded-by discipline covers every shared member of both Data records (queues, cabinets, executing set, object pool), not only the flags.',
 'C06': 'TcpConnection and TcpServer: the buffered descriptor / the connection object is disabled, detached and destroyed only by a posted task, exactly once; a peer close is reported exactly once; sends after the close are refused.',
 'C07': 'hasRead / hasWritten are proved for ANY size (no wrap of index + size).',
 'C09': 'Sink (filter, handleLog, setLevel / unsetLevel with the filter configuration guarded by the sink lock, cached timestamp string, enable/disable order), the AsyncSink back-end re-framing loop and the record formatting (every append inside its source object) are under contract as well.',
 'C11': 'Module::~Module: cleanup first, then every child destroyed exactly once, in registration order. Module::addAs: registered once through add() with the caller\'s required flag.',
 'C12': 'Server::Impl::commitRespond (order, once, nothing after the closing response) and Server::Impl::onTcpReceived (one context per request, the closing request is the last one, the read side stays open while a response is owed, clean drop on parse failure), Server::Impl::onTcpSendCompleted (closed exactly when the response to the closing request has gone out); the parser contract also states that a declared body is part of what is consumed and that a body length declared in one segment is still in force when parsing resumes in the next.',
 'C13': 'Terminal::Impl::onRecvString (scanner restarted per segment and per key, every completed key dispatched to exactly its editor action once). Telnetd::Impl::onTcpReceived framing loop: bounds of every byte looked at, complete-negotiation-or-wait, progress (bounded domain: 64 pending bytes). Terminal::Impl::executeCmd: handlers are called only with a non-empty word list, at most one per line.',
 'C14': 'Rpc::request / onRecvRespond / onRequestTimeout: one fresh id per request for callback, deadline and message; an outstanding id is completed exactly once, unknown / duplicate / late ids are ignored. Proto::onRecvJson: no exception for any JSON content, at most one callback per message, recursion into batch elements bounded by one level.',
 'C15': 'UdpSocket::onSocketEvent hands the receive callback only bytes that recvfrom stored; Deserializer::checkSize / setEndian are under contract.',
 'C19': 'HexStrToRawData(text, buffer, capacity): writes inside the stated capacity, reads inside the text, size rule, invalid digit -> exception (character values abstract).',
 'C18': 'Condition<int>, Broadcast and the Scheduler bookkeeping around the context switches (makeRoutineReady, resume, cancel, switchToRoutine, wait, yield, join; swapcontext as a direction-specific stub) are under contract as well.',
}
FIX_NOTE = {
 'C01': ('Interleavings, thread identity and shutdown draining are not decided.', 'Interleavings, thread identity, shutdown draining (cleanupDeferredTasks) and runThisBeforeLoop are not decided.'),
 'C02': ('TimerEventImpl and sleep time are not covered.', 'The sleep-time computation (getWaitTime) is not covered.'),
 'C03': ('The select event class, fillFdSets and shared-record reference counting are not under contract.', 'The select event class, removeInvalidFds and shared-record reference counting are not under contract; select(2) descriptors are assumed < FD_SETSIZE.'),
 'C04': ('Asynchronous delivery to every subscriber in every loop, the handler chain and subscribeSignal are not decided (not expressible as per-call contracts).', 'Kernel delivery of the signal, the thread each loop runs on and subscribeSignal are not decided; the fan-out (handler -> pipe of every loop -> every subscriber) is decided per call, not end to end.'),
 'C05': ('Interleavings, liveness and WorkThread are not decided', 'Interleavings and liveness are not decided'),
 'C06': ('Read path and the TCP classes are not covered', 'The read path (attempted; the harness is beyond the installed solvers, DESIGN I.8) and acceptor/connector/client are not covered'),
 'C09': ('Sink level filter, back-end re-framing, file roll-over and interleavings are not decided.', 'The produced text, file roll-over and interleavings are not decided.'),
 'C12': ('and the rest of the server pipeline (onTcpReceived, connection close) are not decided', 'and the handler chain is not decided; at most 10^9 bytes pending per receive call'),
 'C13': ('telnet negotiation (telnetd.cpp), ', 'content-level telnet framing, '),
 'C14': ('Rpc request bookkeeping (unordered_map), PacketProto, Proto::onRecvJson field extraction and encoder/decoder value round trip are not covered.', 'The Rpc service side, re-entrant completion callbacks, PacketProto, the JSON values extracted by Proto::onRecvJson and the encoder/decoder value round trip are not covered.'),
 'C15': ('DnsRequest::onUdpRecv / request / cancel bookkeeping (std::map, callbacks) is not under contract', 'DnsRequest::onUdpRecv / request / cancel bookkeeping (std::map, callbacks) is not under contract (onUdpRecv was attempted; the harness is beyond the installed solvers, DESIGN I.8)'),
 'C18': ('The scheduler, Condition/Broadcast and the whole-run induction are not covered.', 'Scheduler::schedule / cleanup / create, the context switch itself and the whole-run induction are not covered.'),
}

def main():
    checks = []
    for pid in ALL:
        if pid not in CLAIMS: continue
        cat, text, note, tech, ref = CLAIMS[pid]
        if pid in ADD_TEXT: text = text.rstrip() + ' Added later: ' + ADD_TEXT[pid]
        if pid in FIX_NOTE:
            assert FIX_NOTE[pid][0] in note, pid
            note = note.replace(FIX_NOTE[pid][0], FIX_NOTE[pid][1])
        checks.append({
            'property_id': pid,
            'quick_cmd': './check %s --tier quick' % pid,
            'thorough_cmd': './check %s --tier thorough' % pid,
            'evidence_file': 'evidence/%s.json' % pid,
            'replay_cmd_template': './check %s --replay {path}' % pid,
            'engine': 'cbmc-contracts',
            'level_claimed': {'category': cat, 'text': text, 'design_ref': 'DESIGN.md Part I (I.4, I.5) and section ' + ref},
            'level_note': note,
            'technique': tech,
        })
    na = [{'property_id': pid, 'reason': NA.get(pid, NOT_YET)} for pid in ALL if pid not in CLAIMS]
    m = {
        'version': 1,
        'setup_cmd': 'python3 tools/setup_check.py',
        'hooks': {'guard': 'TBOX_VERIF', 'enable': 'none needed: contracts are checked on C extracted from the unmodified sources; native replay drivers use -fno-access-control',
                  'baseline_off_cmd': 'cmake --build /repo/_build -- -k 0; ctest --test-dir /repo/_build -j8 --timeout 900',
                  'source_commits': [], 'add_only': True},
        'engines': [{'name': 'cbmc-contracts', 'path': 'tools/verif.py', 'serves_properties': sorted(CLAIMS),
                     'kind_free_text': 'clang AST -> C printer (tools/cxx2c.py) + goto-cc/goto-instrument --dfcc/cbmc 6.11 per function under contract; native ASan/UBSan replay drivers in replay/'}],
        'checks': checks,
        'not_applicable': na,
        'notes': 'Exit codes: 0 held (KNOWN-FINDING lines possible), 1 VIOLATION, 2 undecided (extraction abort / solver timeout / vacuity guard) - never reported as a violation. fix: commits in /repo are listed in known_findings.json.',
    }
    json.dump(m, open(os.path.join(VERIF, 'MANIFEST.json'), 'w'), indent=1)

NA = {'C04': 'Delivery of a signal to every subscriber of every loop on that loop\'s thread, and restoration of the previous disposition, are properties of the kernel signal machinery, an asynchronous handler and a process-wide std::map shared between threads: CBMC function contracts have no model of asynchronous signal delivery or of sigaction state across calls beyond restating the code, and the one per-call fact within reach (tear-down only when the last loop unsubscribes) needs std::map/std::set content models that do not exist in this machinery (DESIGN.md I.8). No check is registered.'}
if __name__ == '__main__':
    main()
