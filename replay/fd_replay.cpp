// native replay driver for util::Fd: counting close function, every small history over 3 handles.
#include <cstdio>
#include <cstdlib>
#include <cstring>
#include <functional>
#include <vector>
#include <unistd.h>
#include <fcntl.h>
#include <tbox/util/fd.h>
using tbox::util::Fd;
static int g_closes, g_last;
static int run(int fdnum, int script) {
  // script digits (base 6) applied to handles a,b,c: 0 copy a->b, 1 b=c(assign), 2 move a->c, 3 close b, 4 reset a, 5 swap a,c
  g_closes = 0; g_last = -100;
  {
    Fd a(fdnum, [](int fd) { ++g_closes; g_last = fd; }); Fd b, c;
    bool closed_explicitly = false;
    for (int s = script, k = 0; k < 4; ++k, s /= 6) {
      switch (s % 6) {
        case 0: b = a; break; case 1: b = c; break; case 2: c = std::move(a); break;
        case 3: if (!b.isNull()) closed_explicitly = true; b.close(); break; case 4: a.reset(); break; case 5: a.swap(c); break; }
      bool any = !(a.get() == -1 && b.get() == -1 && c.get() == -1);
      if (!closed_explicitly && any && g_closes != 0) { printf("VIOLATION: descriptor %d closed while a handle is still alive (script %d step %d)\n", fdnum, script, k); return 1; }
      if (!any && !closed_explicitly && g_closes != 1) { printf("VIOLATION: last handle gone but descriptor %d closed %d times (script %d)\n", fdnum, g_closes, script); return 1; }
    }
  }
  if (g_closes != 1 || g_last != fdnum) { printf("VIOLATION: descriptor %d closed %d times over the history (script %d)\n", fdnum, g_closes, script); return 1; }
  return 0;
}
int main(int argc, char **argv) {
  if (argc >= 4 && !strcmp(argv[1], "run")) return run(atoi(argv[2]), atoi(argv[3]));
  int fds[] = {0, 1, 7, 1023};
  for (int fd : fds) for (int s = 0; s < 6 * 6 * 6 * 6; ++s) if (run(fd, s)) { printf("input: run %d %d\n", fd, s); return 1; }
  return 0;
}
