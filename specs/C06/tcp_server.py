"""C06 — network::TcpServer (modules/network/tcp_server.cpp): connection objects are destroyed only by deferred tasks, exactly once.

TcpConnection is an opaque handle (its contracts: tcp_connection.py), the connection cabinet an oracle (does the token still resolve).
 disconnect(client)     token released, connection disconnected, ONE destruction task posted for it (never destroyed on the spot: delete stub
                        requires false - disconnect is called from inside the connection's own callbacks); stale token: refused.
 onTcpDisconnected      the user's callback runs FIRST, while the token still resolves (it may look at the connection - or call
                        disconnect(client) itself, modelled with that call's contract); afterwards the token is released and exactly ONE
                        destruction task exists for the connection, whichever of the two released it.
 send                   forwarded while the token resolves, refused afterwards.
"""
import os
from verif import UnitSpec, Target
from plugins import StdFunction, StdVector, OpaqueString, StringStreamSink, Syscalls, OpaqueTypes
TU = 'modules/network/tcp_server.cpp'
P = 'network_TcpServer_'
R = {P + 'disconnect': 'Srv_disconnect', P + 'onTcpDisconnected': 'Srv_onTcpDisconnected', P + 'send': 'Srv_send',
     'network_TcpConnection_disconnect': 'Conn_disconnect', 'network_TcpConnection_send': 'Conn_send', 'event_Loop_runNext__tbox_event_Loop_Funcrr_Kstd_stringr': 'Loop_runNext'}
PRELUDE = r"""
typedef struct network_TcpServer Srv; typedef struct cabinet_Token Token;
#define T(x) ((x) != 0)
static Srv *g_s; static Token *g_tokp; static v_hconn g_conn, g_captured;
static _Bool g_in;                       /* the token still resolves to the connection */
static size_t g_disc, g_posts, g_real, g_cb_calls, g_sends;       /* g_real: destruction tasks posted for the connection */
"""
EXTERN = r"""
v_hconn v_conncab__free(struct v_conncab *c, Token *t) __CPROVER_requires(c == &g_s->d_->conns && t == g_tokp) __CPROVER_assigns(g_in)
  __CPROVER_ensures(__CPROVER_return_value == (T(__CPROVER_old(g_in)) ? g_conn : (v_hconn)0) && !T(g_in));
v_hconn v_conncab__at(struct v_conncab *c, Token *t) __CPROVER_requires(c == &g_s->d_->conns && t == g_tokp) __CPROVER_assigns()
  __CPROVER_ensures(__CPROVER_return_value == (T(g_in) ? g_conn : (v_hconn)0));
_Bool Conn_disconnect(v_hconn h) __CPROVER_requires(h != 0 && h == g_conn && g_disc == 0) __CPROVER_assigns(g_disc) __CPROVER_ensures(g_disc == 1);
_Bool Conn_send(v_hconn h, const void *p, size_t n) __CPROVER_requires(h != 0 && h == g_conn && T(g_in) && g_sends == 0) __CPROVER_assigns(g_sends) __CPROVER_ensures(g_sends == 1);
/* a deferred task; g_captured (set by a ghost statement from the local it captures) says which connection it will destroy */
unsigned long Loop_runNext(struct v_Loop *l, struct v_function *f, struct v_str *what)
__CPROVER_requires(l == g_s->d_->wp_loop && T(f->engaged) && !T(g_in)) __CPROVER_assigns(g_posts, g_real)
__CPROVER_ensures(g_posts == __CPROVER_old(g_posts) + 1 && g_real == __CPROVER_old(g_real) + (g_captured != 0 ? 1 : 0));
void v_delete__v_hconn(v_hconn h) __CPROVER_requires(0) __CPROVER_assigns() __CPROVER_ensures(1);      /* never on the spot: the connection is on the stack */
/* the user's disconnected callback: the connection is still reachable; it may itself call disconnect(client) - with that call's contract */
void v_fn_call__void_tbox_cabinet_Token_r(struct v_function *f, Token *t)
__CPROVER_requires(f == &g_s->d_->disconnected_cb && T(f->engaged) && t == g_tokp && T(g_in) && g_cb_calls == 0 && g_s->d_->cb_level >= 1)
__CPROVER_assigns(g_cb_calls, g_in, g_disc, g_real)
__CPROVER_ensures(g_cb_calls == 1 && (g_in == 0 || g_in == 1))
__CPROVER_ensures(T(g_in) ? (g_disc == __CPROVER_old(g_disc) && g_real == __CPROVER_old(g_real)) : (g_disc == __CPROVER_old(g_disc) + 1 && g_real == __CPROVER_old(g_real) + 1));
"""
FRESH = '__CPROVER_requires(__CPROVER_is_fresh(self, sizeof(*self)) && __CPROVER_is_fresh(self->d_, sizeof(*self->d_)) && __CPROVER_is_fresh(client, sizeof(*client)) && g_conn != 0 && (g_in == 0 || g_in == 1) && self->d_->cb_level >= 0 && self->d_->cb_level < 1000)\n'
FRAME = 'g_s, g_tokp, g_captured, g_in, g_disc, g_posts, g_real, g_cb_calls, g_sends, self->d_->cb_level'
ENTRY = 'g_s = self; g_tokp = client; g_disc = 0; g_posts = 0; g_real = 0; g_cb_calls = 0; g_sends = 0; g_captured = 0;'
SPEC = {('stub', 'Conn_disconnect'): True, ('stub', 'Conn_send'): True, ('stub', 'Loop_runNext'): True,
    ('prelude_early',): 'struct v_Loop { char opaque; }; struct v_SockAddr { char opaque; }; struct v_Acceptor { char opaque; }; typedef unsigned long v_hconn;\n', ('prelude',): PRELUDE, ('after_protos',): EXTERN,
    ('contract', 'Srv_disconnect'): FRESH + '__CPROVER_assigns(' + FRAME + r""")
__CPROVER_ensures(!T(g_in))
__CPROVER_ensures(T(__CPROVER_old(g_in)) ? (T(__CPROVER_return_value) && g_disc == 1 && g_real == 1 && g_posts == 1) : (!T(__CPROVER_return_value) && g_disc == 0 && g_real == 0 && g_posts == 0))
""",
    ('ghost', 'Srv_disconnect', 'entry'): ENTRY,
    ('ghost', 'Srv_disconnect', 'after_call:v_conncab__free:1'): 'g_captured = conn;',
    ('contract', 'Srv_onTcpDisconnected'): FRESH + '__CPROVER_requires(T(g_in))\n__CPROVER_assigns(' + FRAME + r""")
/* whatever the callback did (nothing, or disconnect(client) itself): the token no longer resolves and ONE destruction task exists for the connection */
__CPROVER_ensures(!T(g_in) && g_real == 1 && self->d_->cb_level == __CPROVER_old(self->d_->cb_level))
__CPROVER_ensures(g_cb_calls == (T(self->d_->disconnected_cb.engaged) ? 1 : 0))
""",
    ('ghost', 'Srv_onTcpDisconnected', 'entry'): ENTRY,
    ('ghost', 'Srv_onTcpDisconnected', 'after_call:v_conncab__free:1'): 'g_captured = conn;',
    ('contract', 'Srv_send'): FRESH + '__CPROVER_assigns(' + FRAME + r""")
__CPROVER_ensures(g_sends == (T(g_in) ? 1 : 0) && (!T(g_in) ==> !T(__CPROVER_return_value)))
""",
    ('ghost', 'Srv_send', 'entry'): ENTRY,
}
ST = ['v_conncab__free', 'v_conncab__at', 'Conn_disconnect', 'Conn_send', 'Loop_runNext', 'v_delete__v_hconn', 'v_fn_call__void_tbox_cabinet_Token_r']
H = lambda body: '\nvoid H(void)\n{\n' + body + '\n  __CPROVER_assert(0, "VACUITY-CANARY");\n}\n'
UNITS = [UnitSpec(name='tcp_server', tu=TU, filter='tbox::network', more_filters=[(TU, 'tbox::event'), (TU, 'cabinet::Token')], rename=R, spec=SPEC,
    plugins=[StdFunction(), StdVector(), OpaqueString(), StringStreamSink(), Syscalls(), OpaqueTypes({r'^(tbox::)?cabinet::Cabinet<.*>$': 'v_conncab'})], model_headers=['fn_model.h', 'vec_model.h', 'misc_model.h'],
    opaque_records={'tbox::network::TcpConnection': 'handle:v_hconn', 'tbox::network::SockAddr': 'struct v_SockAddr', 'tbox::event::Loop': 'struct v_Loop', 'tbox::network::TcpAcceptor': 'struct v_Acceptor'},
    emit=['tbox::network::TcpServer::disconnect', 'tbox::network::TcpServer::onTcpDisconnected', 'tbox::network::TcpServer::send'],
    targets=[Target('disconnect', H('  Srv *s; Token *t; Srv_disconnect(s, t);'), enforce='Srv_disconnect', replace=ST, clause='disconnect(client): token released, connection disconnected, ONE destruction task posted; stale token: refused, nothing posted'),
             Target('onTcpDisconnected', H('  Srv *s; Token *t; Srv_onTcpDisconnected(s, t);'), enforce='Srv_onTcpDisconnected', replace=ST, clause='peer close: user callback first (connection still reachable), then the token is released; exactly one destruction task for the connection even when the callback disconnects it itself'),
             Target('send', H('  Srv *s; Token *t; const void *p; size_t n; Srv_send(s, t, p, n);'), enforce='Srv_send', replace=ST, clause='send: forwarded while the token resolves, refused afterwards')])]
