"""C10 — util::AsyncPipe (modules/util/async_pipe.cpp).

The verifier sees one thread.  What contracts decide here is the sequential half of the property and the LOCK DISCIPLINE that the
concurrent half rests on (who may touch what while holding which mutex, who may block on what):

 unit async_pipe_buffer (real Buffer, heap):
   Buffer::append  copies min(n, capacity - size) bytes to data+size, in order (tracked byte), grows size by exactly that, returns it,
                   never writes outside data[0..capacity).
 unit async_pipe (Buffer is an opaque handle; fill of the CURRENT buffer is ghost state; containers are size-only):
   appendLockless  PRE  curr_buffer_mutex_ held by the caller, no other pipe mutex held.
                   POST every byte of [data, data+n) handed to Buffer::append exactly once, in order, contiguously (ghost offset:
                   each call gets base+off with the whole remainder), a buffer is pushed to full_buffers_ iff it has just become
                   full, under full_buffers_mutex_, and then curr_buffer_ is null; never appends into a full buffer; free_buffers_
                   only touched under free_buffers_mutex_, buff_num_ only under buff_num_mutex_; buff_num_ <= buff_max_num;
                   the producer waits for a free buffer holding ONLY curr_buffer_mutex_ + free_buffers_mutex_ (anything else would
                   stop the back end from ever freeing one); all mutexes back to their entry state.
   append          takes curr_buffer_mutex_ for the whole append and releases it.
   threadFunc      (back end) never BLOCKS on curr_buffer_mutex_ (try_lock only: a producer holding it may be waiting for this very
                   thread - lock-order contract); full_buffers_ touched only under full_buffers_mutex_ or, with curr_buffer_mutex_
                   held, by the back end alone; every buffer popped is handed to the sink exactly once with its own data/size, BEFORE
                   it is reset, and is then either freed (buff_num_ > min, counted) or pushed to free_buffers_ EMPTY; pops are from
                   the FRONT; the sink is called with no pipe mutex held; the thread leaves only after stop_signal_ was seen, and
                   if no producer is inside append at that time, with curr_buffer_ flushed and full_buffers_ empty
                   (everything appended before cleanup is delivered).
   initialize      refuses the four bad configurations; on success buff_num_ == free_buffers_.size() == buff_min_num, inited_.
   cleanup         no-op when not inited; otherwise raises stop_signal_, joins, and leaves stop_signal_ == false, inited_ == false,
                   curr_buffer_ == null, free_buffers_ empty, callback cleared: the object can be initialised again.
Not decided here (DESIGN, C10): interleavings, data races as such, liveness (that waits end), the FIFO behaviour of std::deque.
"""
import os
from verif import UnitSpec, Target
from plugins import StdFunction, StdVector, Sync, Chrono, StringStreamSink

C = 'tbox::util::AsyncPipe::Impl::'
P = 'util_AsyncPipe_Impl_'
R = {P + 'appendLockless': 'Pipe_appendLockless', P + 'append': 'Pipe_append', P + 'threadFunc': 'Pipe_threadFunc', P + 'initialize': 'Pipe_initialize',
     P + 'cleanup': 'Pipe_cleanup', P + 'Buffer_append': 'Buf_append', P + 'Buffer_full': 'Buf_full', P + 'Buffer_data': 'Buf_data', P + 'Buffer_size': 'Buf_size',
     P + 'Buffer_reset': 'Buf_reset', P + 'Buffer_ctor__size_t': 'Buf_ctor', P + 'Buffer_dtor': 'Buf_dtor'}

# ------------------------------------------------------------------ unit 1: the real Buffer
BUF_PRE = r'''
typedef struct util_AsyncPipe_Impl_Buffer Buf;
static size_t g_j; static uint8_t g_byte;   /* tracked source byte */
'''
BUF_SPEC = {
    ('prelude',): BUF_PRE,
    ('contract', 'Buf_append'): r'''
__CPROVER_requires(__CPROVER_is_fresh(self, sizeof(*self)) && self->capacity_ < V_MAXSZ && self->size_ <= self->capacity_)
__CPROVER_requires(__CPROVER_is_fresh(self->data_, self->capacity_ ? self->capacity_ : 1))
__CPROVER_requires(data_size < V_MAXSZ && __CPROVER_is_fresh(data_ptr, data_size ? data_size : 1))
__CPROVER_requires(g_j < data_size ==> ((const uint8_t *)data_ptr)[g_j] == g_byte)
__CPROVER_assigns(v_mc_off, self->size_, __CPROVER_object_whole(self->data_))
__CPROVER_ensures(__CPROVER_return_value == (data_size <= (__CPROVER_old(self->capacity_) - __CPROVER_old(self->size_)) ? data_size : (__CPROVER_old(self->capacity_) - __CPROVER_old(self->size_))))
__CPROVER_ensures(self->size_ == __CPROVER_old(self->size_) + __CPROVER_return_value && self->size_ <= self->capacity_)
__CPROVER_ensures(g_j < __CPROVER_return_value ==> self->data_[__CPROVER_old(self->size_) + g_j] == g_byte)      /* byte j of the source is byte old_size+j of the buffer */
''',
    ('ghost', 'Buf_append', 'entry'): 'v_mc_off[0] = g_j;',
}
H = lambda body: '\nvoid H(void)\n{\n' + body + '\n  __CPROVER_assert(0, "VACUITY-CANARY");\n}\n'

# ------------------------------------------------------------------ unit 2: the pipe, Buffer opaque
EARLY = r'''
typedef unsigned long v_hbuf;                /* opaque Buffer* */
void v_guard_check(const void *container);   /* guarded-by discipline of the size-only containers (defined below) */
#undef V_GUARD
#define V_GUARD(v) v_guard_check((const void *)(v))
'''
PRELUDE = r'''
typedef struct util_AsyncPipe_Impl Pipe;
#define T(x) ((x) != 0)
static size_t g_joined_free, g_joined_cur; static _Bool g_joined;   /* cleanup: the back end has been joined */
static Pipe *g_p;                      /* the pipe under analysis (assigned at entry) */
static _Bool g_backend;                /* the function under contract runs on the back-end thread */
static _Bool g_quiet;                  /* no producer is inside append()/appendLockless() while the back end runs */
static size_t g_cur_size;              /* fill of *curr_buffer_ (meaningful while curr_buffer_ != 0) */
static const uint8_t *g_base; static size_t g_off, g_total;    /* producer: bytes of this append handed to Buffer::append so far */
static size_t g_pushed_full;           /* producer: buffers pushed to full_buffers_ by this call */
/* back end: the buffer in hand */
static v_hbuf g_hand; static int g_hand_state;   /* 0 none, 1 popped, 2 delivered to the sink, 3 reset */
static unsigned long g_hand_data; static size_t g_hand_size;
static size_t g_popped, g_delivered, g_freed, g_recycled;
#define CFG_OK(p) ((p)->cfg_.buff_size > 0 && (p)->cfg_.buff_size < V_MAXSZ && (p)->cfg_.buff_min_num > 0 && (p)->cfg_.buff_min_num <= (p)->cfg_.buff_max_num && (p)->cfg_.buff_max_num < V_MAXSZ && (p)->cfg_.interval > 0)
#define CUR_OK(p) ((p)->curr_buffer_ == 0 || g_cur_size < (p)->cfg_.buff_size)         /* the current buffer is never left full */
#define LOCKS(p, cur, fre, ful, num) ((p)->curr_buffer_mutex_.held == (cur) && (p)->free_buffers_mutex_.held == (fre) && (p)->full_buffers_mutex_.held == (ful) && (p)->buff_num_mutex_.held == (num))
'''
EXTERN = r'''
void v_guard_check(const void *c)
{
  if (c == (const void *)&g_p->free_buffers_) __CPROVER_assert(g_p->free_buffers_mutex_.held == 1 || g_p->inited_ == 0 || g_joined, "free_buffers_ is touched only with free_buffers_mutex_ held (or before/after the back end runs)");
  if (c == (const void *)&g_p->full_buffers_) __CPROVER_assert(g_p->full_buffers_mutex_.held == 1 || (g_backend && g_p->curr_buffer_mutex_.held == 1) || g_p->inited_ == 0 || g_joined, "full_buffers_ is touched only with full_buffers_mutex_ held (back end alone: curr_buffer_mutex_)");
}
/* ---- Buffer through its handle: contracts mirror unit async_pipe_buffer in terms of the ghost fill of the current buffer ---- */
size_t Buf_append(v_hbuf self, const void *data_ptr, size_t data_size)
__CPROVER_requires(self != 0 && self == g_p->curr_buffer_ && g_p->curr_buffer_mutex_.held == 1)        /* curr_buffer_ is guarded by curr_buffer_mutex_ */
__CPROVER_requires(g_cur_size < g_p->cfg_.buff_size)                                                    /* never append into a full buffer (it would take 0 bytes: no progress) */
__CPROVER_requires((const uint8_t *)data_ptr == g_base + g_off && data_size == g_total - g_off && data_size > 0)   /* next byte, whole remainder: in order, no gap, no repeat */
__CPROVER_assigns(g_cur_size, g_off)
__CPROVER_ensures(__CPROVER_return_value == (data_size <= g_p->cfg_.buff_size - __CPROVER_old(g_cur_size) ? data_size : g_p->cfg_.buff_size - __CPROVER_old(g_cur_size)))
__CPROVER_ensures(g_cur_size == __CPROVER_old(g_cur_size) + __CPROVER_return_value && g_off == __CPROVER_old(g_off) + __CPROVER_return_value)
;
_Bool Buf_full(v_hbuf self)
__CPROVER_requires(self != 0 && self == g_p->curr_buffer_)
__CPROVER_assigns()
__CPROVER_ensures(T(__CPROVER_return_value) == (g_cur_size == g_p->cfg_.buff_size))
;
v_hbuf v_new__v_hbuf(size_t cap)
__CPROVER_requires(cap == g_p->cfg_.buff_size)
__CPROVER_assigns()
__CPROVER_ensures(__CPROVER_return_value != 0)
;
void *Buf_data(v_hbuf self)
__CPROVER_requires(self != 0 && self == g_hand && g_hand_state == 1)
__CPROVER_assigns()
__CPROVER_ensures((unsigned long)__CPROVER_return_value == g_hand_data)
;
size_t Buf_size(v_hbuf self)
__CPROVER_requires(self != 0 && self == g_hand && g_hand_state == 1)
__CPROVER_assigns()
__CPROVER_ensures(__CPROVER_return_value == g_hand_size)
;
void Buf_reset(v_hbuf self)
__CPROVER_requires(self != 0 && self == g_hand && (g_hand_state == 2 || (g_hand_state == 1 && !T(g_p->cb_.engaged))))   /* reset only AFTER the sink has seen the data */
__CPROVER_assigns(g_hand_state)
__CPROVER_ensures(g_hand_state == 3)
;
void v_delete__v_hbuf(v_hbuf self)
__CPROVER_requires(self == 0 || g_p->inited_ == 0 || !g_backend || (self == g_hand && g_hand_state == 3 && g_p->buff_num_mutex_.held == 0))
__CPROVER_assigns(g_hand_state, g_freed)
__CPROVER_ensures(g_freed == __CPROVER_old(g_freed) + 1 && g_hand_state == 0)
;
/* the sink: called on the back end only, with no pipe mutex held (it may take as long as it likes without stalling producers),
 * with exactly the data/size of the buffer in hand; it does not touch the pipe */
void v_fn_call__void_void_p_unsigned_long(struct v_function *f, const void *a0, size_t a1)
__CPROVER_requires(T(f->engaged) && g_backend && LOCKS(g_p, 0, 0, 0, 0))
__CPROVER_requires(g_hand_state == 1 && (unsigned long)a0 == g_hand_data && a1 == g_hand_size)
__CPROVER_assigns(g_hand_state, g_delivered)
__CPROVER_ensures(g_hand_state == 2 && g_delivered == __CPROVER_old(g_delivered) + 1)
;
/* waiting: the mutex of `lk` is released while blocked, so other threads change what it guards.
 * PRE (lock order): besides lk's mutex the waiter holds at most curr_buffer_mutex_ (producer) - the back end needs the others to make progress */
void v_cv_wait(struct v_cv *cv, struct v_ulock *lk)
__CPROVER_requires(!g_backend && cv == &g_p->free_buffers_cv_ && T(lk->owns) && lk->m == &g_p->free_buffers_mutex_ && LOCKS(g_p, 1, 1, 0, 0))
__CPROVER_assigns(g_p->free_buffers_.size)
__CPROVER_ensures(g_p->free_buffers_.size < V_MAXSZ)
;
_Bool v_cv_wait_timed(struct v_cv *cv, struct v_ulock *lk)
__CPROVER_requires(g_backend && cv == &g_p->full_buffers_cv_ && T(lk->owns) && lk->m == &g_p->full_buffers_mutex_ && LOCKS(g_p, 0, 0, 1, 0))
__CPROVER_assigns(g_p->full_buffers_.size, g_p->stop_signal_)
__CPROVER_ensures(g_p->full_buffers_.size < V_MAXSZ && (T(g_quiet) ==> g_p->full_buffers_.size == __CPROVER_old(g_p->full_buffers_.size)))
__CPROVER_ensures(g_p->stop_signal_ == 0 || g_p->stop_signal_ == 1)
;
/* join: the back end has run to its end (its own contract: Pipe_threadFunc) */
void v_thread_join(struct v_thread *t)
__CPROVER_requires(T(t->joinable) && T(g_p->stop_signal_) && LOCKS(g_p, 0, 0, 0, 0))          /* joined only after the stop request; holding a pipe mutex here would deadlock */
__CPROVER_assigns(g_joined, t->joinable, g_p->curr_buffer_, g_p->full_buffers_.size, g_p->free_buffers_.size, g_p->buff_num_)
__CPROVER_ensures(g_joined == 1 && !T(t->joinable) && g_p->full_buffers_.size == 0 && g_p->curr_buffer_ == 0 && g_p->free_buffers_.size < V_MAXSZ)
;
'''
PIPE_FRESH = '__CPROVER_requires(__CPROVER_is_fresh(self, sizeof(*self)) && CFG_OK(self) && self->free_buffers_.size < V_MAXSZ && self->full_buffers_.size < V_MAXSZ && self->buff_num_ <= self->cfg_.buff_max_num)\n'
SPEC = {
    ('prelude_early',): EARLY, ('prelude',): PRELUDE, ('after_protos',): EXTERN,
    # stop_signal_ is read by the back end's wait predicate under full_buffers_mutex_: every access needs that mutex
    # (or happens while no back end exists: before initialize's thread start / after the join)
    ('guarded_by', 'util_AsyncPipe_Impl'): {'stop_signal_': 'B->full_buffers_mutex_.held == 1 || !T(B->inited_) || T(g_joined)'},
    ('stub', 'Buf_append'): True, ('stub', 'Buf_full'): True, ('stub', 'Buf_data'): True, ('stub', 'Buf_size'): True, ('stub', 'Buf_reset'): True,
    # ---------------- producer
    ('contract', 'Pipe_appendLockless'): PIPE_FRESH + r'''
__CPROVER_requires(T(self->inited_) && LOCKS(self, 1, 0, 0, 0) && CUR_OK(self))
__CPROVER_requires(data_size < V_MAXSZ && __CPROVER_is_fresh(data_ptr, data_size ? data_size : 1))
__CPROVER_assigns(g_p, g_backend, v_noblock_mutex, g_base, g_off, g_total, g_cur_size, g_pushed_full, self->curr_buffer_, self->free_buffers_.size, self->full_buffers_.size, self->buff_num_,
                  self->free_buffers_mutex_.held, self->full_buffers_mutex_.held, self->buff_num_mutex_.held, v_vec_v_hbuf_cell)
__CPROVER_ensures(g_off == data_size)                                        /* every byte handed over, once, in order */
__CPROVER_ensures(LOCKS(self, 1, 0, 0, 0) && CUR_OK(self))
__CPROVER_ensures(self->full_buffers_.size == __CPROVER_old(self->full_buffers_.size) + g_pushed_full)
__CPROVER_ensures(self->buff_num_ <= self->cfg_.buff_max_num && self->buff_num_ >= __CPROVER_old(self->buff_num_))
''',
    ('ghost', 'Pipe_appendLockless', 'entry'): 'g_p = self; g_backend = 0; v_noblock_mutex = 0; g_base = (const uint8_t *)data_ptr; g_off = 0; g_total = data_size; g_pushed_full = 0;',
    ('loop', 'Pipe_appendLockless', 1): r'''
__CPROVER_assigns(ptr, remain_size, g_off, g_cur_size, g_pushed_full, self->curr_buffer_, self->free_buffers_.size, self->full_buffers_.size, self->buff_num_,
                  self->free_buffers_mutex_.held, self->full_buffers_mutex_.held, self->buff_num_mutex_.held, v_vec_v_hbuf_cell)
__CPROVER_loop_invariant(remain_size <= data_size && g_off == data_size - remain_size && ptr == g_base + g_off && g_total == data_size)
__CPROVER_loop_invariant(LOCKS(self, 1, 0, 0, 0) && CUR_OK(self) && self->free_buffers_.size < V_MAXSZ && self->full_buffers_.size < V_MAXSZ)
__CPROVER_loop_invariant(self->full_buffers_.size == g_full0 + g_pushed_full && self->buff_num_ <= self->cfg_.buff_max_num && self->buff_num_ >= g_num0)
__CPROVER_decreases(remain_size)
''',
    ('ghost', 'Pipe_appendLockless', 'before_loop:1'): 'size_t g_full0 = self->full_buffers_.size, g_num0 = self->buff_num_;',
    # a buffer taken from free_buffers_ is empty (representation invariant of free_buffers_: established by initialize / the back end)
    ('ghost', 'Pipe_appendLockless', 'after_call:pop_back:1'): 'g_cur_size = 0;',
    ('ghost', 'Pipe_appendLockless', 'before_call:push_back:2'): '__CPROVER_assert(g_cur_size == self->cfg_.buff_size && self->curr_buffer_ != 0, "only a buffer that has just become full is queued for the back end"); g_pushed_full++;',
    ('ghost', 'Pipe_appendLockless', 'before_call:push_back:1'): '__CPROVER_assert(self->buff_num_mutex_.held == 0, "buff_num_mutex_ is released before allocating");',
    ('loop', 'Pipe_appendLockless__cvwait0', 1): r'''
__CPROVER_assigns(self->free_buffers_.size)
__CPROVER_loop_invariant(T(lk->owns) && lk->m == &g_p->free_buffers_mutex_ && cv == &g_p->free_buffers_cv_ && self == g_p && !g_backend && LOCKS(g_p, 1, 1, 0, 0) && self->free_buffers_.size < V_MAXSZ)
''',
    ('contract', 'Pipe_append'): PIPE_FRESH + r'''
__CPROVER_requires(T(self->inited_) && LOCKS(self, 0, 0, 0, 0) && CUR_OK(self))
__CPROVER_requires(data_size < V_MAXSZ && __CPROVER_is_fresh(data_ptr, data_size ? data_size : 1))
__CPROVER_assigns(g_p, g_backend, v_noblock_mutex, g_base, g_off, g_total, g_cur_size, g_pushed_full, self->curr_buffer_, self->free_buffers_.size, self->full_buffers_.size, self->buff_num_,
                  self->curr_buffer_mutex_.held, self->free_buffers_mutex_.held, self->full_buffers_mutex_.held, self->buff_num_mutex_.held, v_vec_v_hbuf_cell)
__CPROVER_ensures(g_off == data_size && LOCKS(self, 0, 0, 0, 0) && CUR_OK(self))
''',
    ('ghost', 'Pipe_append', 'entry'): 'g_p = self; g_backend = 0; v_noblock_mutex = 0;',
    # ---------------- back end
    ('contract', 'Pipe_threadFunc'): PIPE_FRESH + r'''
__CPROVER_requires(T(self->inited_) && LOCKS(self, 0, 0, 0, 0) && CUR_OK(self) && self->buff_num_ >= self->cfg_.buff_min_num && (self->stop_signal_ == 0 || self->stop_signal_ == 1) && (g_quiet == 0 || g_quiet == 1))
__CPROVER_assigns(g_p, g_backend, v_noblock_mutex, v_no_contention, g_hand, g_hand_state, g_hand_data, g_hand_size, g_popped, g_delivered, g_freed, g_recycled,
                  self->curr_buffer_, self->free_buffers_.size, self->full_buffers_.size, self->buff_num_, self->stop_signal_,
                  self->curr_buffer_mutex_.held, self->free_buffers_mutex_.held, self->full_buffers_mutex_.held, self->buff_num_mutex_.held, v_vec_v_hbuf_cell)
__CPROVER_ensures(LOCKS(self, 0, 0, 0, 0) && T(self->stop_signal_))                                  /* leaves only on a stop request, holding nothing */
__CPROVER_ensures(T(self->cb_.engaged) ==> g_delivered == g_popped)                                   /* every buffer popped went to the sink exactly once */
__CPROVER_ensures(g_popped == g_freed + g_recycled && g_hand_state == 0)                              /* and was then freed or recycled: none leaked, none kept */
__CPROVER_ensures(T(g_quiet) ==> (self->curr_buffer_ == 0 && self->full_buffers_.size == 0))          /* no producer mid-append: everything appended is delivered */
__CPROVER_ensures(T(g_quiet) ==> g_popped == __CPROVER_old(self->full_buffers_.size) + (__CPROVER_old(self->curr_buffer_) != 0 ? 1 : 0))
__CPROVER_ensures(self->buff_num_ >= self->cfg_.buff_min_num)
''',
    ('ghost', 'Pipe_threadFunc', 'entry'): 'g_p = self; g_backend = 1; v_no_contention = g_quiet; v_noblock_mutex = &self->curr_buffer_mutex_; g_hand = 0; g_hand_state = 0; g_popped = 0; g_delivered = 0; g_freed = 0; g_recycled = 0;\n'
                                            '  size_t g_work0 = self->full_buffers_.size + (self->curr_buffer_ != 0 ? 1 : 0);',
    ('loop', 'Pipe_threadFunc', 1): r'''
__CPROVER_assigns(g_hand, g_hand_state, g_hand_data, g_hand_size, g_popped, g_delivered, g_freed, g_recycled,
                  self->curr_buffer_, self->free_buffers_.size, self->full_buffers_.size, self->buff_num_, self->stop_signal_,
                  self->curr_buffer_mutex_.held, self->free_buffers_mutex_.held, self->full_buffers_mutex_.held, self->buff_num_mutex_.held, v_vec_v_hbuf_cell)
__CPROVER_loop_invariant(LOCKS(self, 0, 0, 0, 0) && self->free_buffers_.size < V_MAXSZ && self->full_buffers_.size < V_MAXSZ && g_hand_state == 0)
__CPROVER_loop_invariant((T(self->cb_.engaged) ==> g_delivered == g_popped) && g_popped == g_freed + g_recycled)
__CPROVER_loop_invariant(T(g_quiet) ==> g_popped + self->full_buffers_.size + (self->curr_buffer_ != 0 ? 1 : 0) == g_work0)
__CPROVER_loop_invariant(self->buff_num_ >= self->cfg_.buff_min_num && self->buff_num_ <= self->cfg_.buff_max_num && (self->stop_signal_ == 0 || self->stop_signal_ == 1))
''',
    ('loop', 'Pipe_threadFunc', 2): r'''
__CPROVER_assigns(g_hand, g_hand_state, g_hand_data, g_hand_size, g_popped, g_delivered, g_freed, g_recycled,
                  self->free_buffers_.size, self->full_buffers_.size, self->buff_num_,
                  self->free_buffers_mutex_.held, self->full_buffers_mutex_.held, self->buff_num_mutex_.held, v_vec_v_hbuf_cell)
__CPROVER_loop_invariant(LOCKS(self, 0, 0, 0, 0) && self->free_buffers_.size < V_MAXSZ && self->full_buffers_.size < V_MAXSZ && g_hand_state == 0)
__CPROVER_loop_invariant((T(self->cb_.engaged) ==> g_delivered == g_popped) && g_popped == g_freed + g_recycled)
__CPROVER_loop_invariant(T(g_quiet) ==> g_popped + self->full_buffers_.size + (self->curr_buffer_ != 0 ? 1 : 0) == g_work0)
__CPROVER_loop_invariant(self->buff_num_ >= self->cfg_.buff_min_num && self->buff_num_ <= self->cfg_.buff_max_num)
__CPROVER_loop_invariant((T(is_wake_for_quit) && T(g_quiet)) ==> self->curr_buffer_ == 0)
__CPROVER_loop_invariant(T(is_wake_for_quit) ==> T(self->stop_signal_))
''',
    ('loop', 'Pipe_threadFunc__cvwait0', 1): r'''
__CPROVER_assigns(self->full_buffers_.size, self->stop_signal_, *cap_is_wake_for_quit, *cap_is_wake_for_timeup)
__CPROVER_loop_invariant(T(lk->owns) && lk->m == &g_p->full_buffers_mutex_ && cv == &g_p->full_buffers_cv_ && self == g_p && g_backend && LOCKS(g_p, 0, 0, 1, 0) && self->full_buffers_.size < V_MAXSZ)
__CPROVER_loop_invariant((self->stop_signal_ == 0 || self->stop_signal_ == 1) && (T(g_quiet) ==> self->full_buffers_.size == g_fs0) && (T(*cap_is_wake_for_quit) ==> T(self->stop_signal_)))
''',
    ('ghost', 'Pipe_threadFunc__cvwait0', 'entry'): 'size_t g_fs0 = self->full_buffers_.size;',
    # the partial buffer joins the queue at the BACK, behind everything already full
    ('ghost', 'Pipe_threadFunc', 'after_call:pop_front:1'): 'g_hand = buff; g_hand_state = 1; g_popped++; { unsigned long d; size_t s; g_hand_data = d; g_hand_size = s; }',
    ('ghost', 'Pipe_threadFunc', 'before_call:push_back:2'): '__CPROVER_assert(buff == g_hand && g_hand_state == 3, "a buffer returns to free_buffers_ only after it was delivered and reset (free buffers are empty)"); g_hand_state = 0; g_recycled++;',
    # ---------------- life cycle
    ('contract', 'Pipe_initialize'): r'''
__CPROVER_requires(__CPROVER_is_fresh(self, sizeof(*self)) && __CPROVER_is_fresh(cfg, sizeof(*cfg)) && !T(self->inited_) && self->free_buffers_.size == 0 && self->full_buffers_.size == 0 && self->curr_buffer_ == 0)
__CPROVER_requires(cfg->buff_size < V_MAXSZ && cfg->buff_max_num < V_MAXSZ && !T(self->backend_thread_.joinable))
__CPROVER_assigns(g_p, g_backend, self->cfg_, self->free_buffers_.size, self->buff_num_, self->backend_thread_, self->inited_, v_cerr)
__CPROVER_ensures(T(__CPROVER_return_value) == (cfg->buff_size != 0 && cfg->buff_min_num != 0 && cfg->buff_min_num <= cfg->buff_max_num && cfg->interval != 0))
__CPROVER_ensures(T(__CPROVER_return_value) ==> (T(self->inited_) && self->buff_num_ == cfg->buff_min_num && self->free_buffers_.size == cfg->buff_min_num && T(self->backend_thread_.joinable) && CFG_OK(self)))
__CPROVER_ensures(!T(__CPROVER_return_value) ==> (!T(self->inited_) && self->free_buffers_.size == 0))
''',
    ('ghost', 'Pipe_initialize', 'entry'): 'g_p = self; g_backend = 0;',
    ('loop', 'Pipe_initialize', 1): r'''
__CPROVER_assigns(i, self->free_buffers_.size)
__CPROVER_loop_invariant(i <= cfg->buff_min_num && self->free_buffers_.size == i)
__CPROVER_decreases(cfg->buff_min_num - i)
''',
    ('contract', 'Pipe_cleanup'): PIPE_FRESH + r'''
__CPROVER_requires(LOCKS(self, 0, 0, 0, 0) && (T(self->inited_) ==> T(self->backend_thread_.joinable)) && !T(self->stop_signal_))
__CPROVER_assigns(g_p, g_backend, v_noblock_mutex, g_joined, g_joined_free, g_joined_cur, g_hand_state, g_freed, self->full_buffers_mutex_.held, self->stop_signal_, self->backend_thread_.joinable, self->curr_buffer_, self->full_buffers_.size, self->free_buffers_.size, self->buff_num_, self->cb_, self->inited_, v_vec_v_hbuf_cell)
__CPROVER_ensures(!T(self->inited_) && !T(self->stop_signal_))                                              /* stop request withdrawn: the object can be initialised again */
__CPROVER_ensures(T(__CPROVER_old(self->inited_)) ==> (self->curr_buffer_ == 0 && self->free_buffers_.size == 0 && self->full_buffers_.size == 0 && !T(self->cb_.engaged) && !T(self->backend_thread_.joinable)))
__CPROVER_ensures(T(__CPROVER_old(self->inited_)) ==> g_freed == g_joined_free + g_joined_cur)               /* every buffer left after the join is freed */
''',
    ('ghost', 'Pipe_cleanup', 'entry'): 'g_p = self; g_backend = 0; g_freed = 0; g_joined = 0; v_noblock_mutex = 0;',
    ('ghost', 'Pipe_cleanup', 'after_call:v_thread_join:1'): 'g_joined_free = self->free_buffers_.size; g_joined_cur = self->curr_buffer_ != 0 ? 1 : 0;',
    ('loop', 'Pipe_cleanup', 1): r'''
__CPROVER_assigns(__i1, g_hand_state, g_freed, v_vec_v_hbuf_cell)
__CPROVER_loop_invariant(__i1 <= __r1->size && __r1 == &self->free_buffers_ && g_freed == g_joined_cur + __i1 && __r1->size == g_joined_free)
__CPROVER_decreases(__r1->size - __i1)
''',
}


STUBS = ['Buf_append', 'Buf_full', 'Buf_data', 'Buf_size', 'Buf_reset', 'v_new__v_hbuf', 'v_delete__v_hbuf', 'v_fn_call__void_void_p_unsigned_long', 'v_cv_wait', 'v_cv_wait_timed', 'v_thread_join']
COMMON = dict(tu='modules/util/async_pipe.cpp', filter='tbox::util', rename=R)
UNITS = [
  UnitSpec(name='async_pipe_buffer', spec=BUF_SPEC, plugins=[StdFunction(), StdVector(), Sync(), Chrono(), StringStreamSink()],
    model_headers=['fn_model.h', 'vec_model.h', 'sync_model.h', 'misc_model.h'], emit=[C + 'Buffer::append'],
    targets=[Target('Buffer_append', H('  Buf *b; const void *p; size_t n; Buf_append(b, p, n);'), enforce='Buf_append',
                    clause='Buffer::append: min(n, room) bytes copied in order to data+size, size grows by that, nothing outside the storage')], **COMMON),
  UnitSpec(name='async_pipe', spec=SPEC, plugins=[StdFunction(), StdVector(abstract={'v_hbuf': 'x != 0'}), Sync(), Chrono(), StringStreamSink()],
    model_headers=['fn_model.h', 'vec_model.h', 'sync_model.h', 'misc_model.h'],
    opaque_records={'tbox::util::AsyncPipe::Impl::Buffer': 'handle:v_hbuf'},
    emit=[C + 'appendLockless', C + 'append', C + 'threadFunc', C + 'initialize', C + 'cleanup'],
    trusted=['Buffer is an opaque handle in this unit: its contracts restate unit async_pipe_buffer in terms of the ghost fill of the current buffer',
             'std::vector/std::deque of Buffer* are size-only models (content abstract; FIFO order of std::deque is the library\'s)',
             'one thread visible: other threads appear only as the havoc in the wait/join/lock contracts'],
    targets=[
      Target('appendLockless', H('  Pipe *p; const void *d; size_t n; Pipe_appendLockless(p, d, n);'), enforce='Pipe_appendLockless', replace=STUBS,
             clause='producer: every byte handed to a buffer once, in order; full buffer queued under its mutex; guarded-by and lock-order discipline; waits hold nothing the back end needs'),
      Target('append', H('  Pipe *p; const void *d; size_t n; Pipe_append(p, d, n);'), enforce='Pipe_append', replace=STUBS + ['Pipe_appendLockless'],
             clause='append holds curr_buffer_mutex_ for the whole operation and releases it'),
      Target('threadFunc', H('  Pipe *p; Pipe_threadFunc(p);'), enforce='Pipe_threadFunc', replace=STUBS, timeout=900,
             clause='back end: never blocks on curr_buffer_mutex_; each popped buffer delivered once before reset, then freed or recycled empty; sink called with no mutex held; exits only on stop, flushed when no producer is active'),
      Target('initialize', H('  Pipe *p; struct util_AsyncPipe_Config *c; Pipe_initialize(p, c);'), enforce='Pipe_initialize', replace=STUBS,
             clause='initialize: config validation; buff_num_ == free_buffers_.size() == buff_min_num'),
      Target('cleanup', H('  Pipe *p; Pipe_cleanup(p);'), enforce='Pipe_cleanup', replace=STUBS,
             clause='cleanup: stop request raised, joined, withdrawn; every buffer freed; object reusable'),
    ], **COMMON),
]


REPLAY_SOURCES = ['modules/util/async_pipe.cpp']
def native_replay(u, t, o, w, workdir):
    """lock-discipline obligations have no single failing input; a failed guarded-by obligation is replayed under ThreadSanitizer"""
    import replay as rp
    names = getattr(o, 'name', str(o))
    if 'v_guarded__' in names or 'v_guard_check' in names:
        return rp.tsan_attempt('async_pipe_stop_signal', REPLAY_SOURCES, os.path.join(workdir, 'replay'))
    return {'reproduced': False, 'note': 'no native driver for this obligation'}
