/* std::function model (A-models): engaged flag + opaque target identity.  Invocation goes to a callback stub
 * v_fn_call__<sig> declared by the spec. */
#ifndef V_FN_MODEL_H
#define V_FN_MODEL_H
struct v_function { _Bool engaged; int target; };
static inline void v_function_init(struct v_function *f) { f->engaged = 0; f->target = 0; }
static inline struct v_function *v_function_reset(struct v_function *f) { f->engaged = 0; f->target = 0; return f; }
static inline struct v_function *v_function_assign(struct v_function *f, const struct v_function *o) { f->engaged = o->engaged; f->target = o->target; return f; }
static inline struct v_function *v_function_set_closure(struct v_function *f) { int t; f->engaged = 1; f->target = t; return f; }
static inline _Bool v_function_engaged(const struct v_function *f) { return f->engaged; }
static inline void v_function_swap(struct v_function *a, struct v_function *b) { struct v_function t = *a; *a = *b; *b = t; }
#endif
