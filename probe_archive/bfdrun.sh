#!/bin/bash
cd /tmp/probe
v=$1
case $v in
 a) sed -e 's/ && \\$/ \&\& \\/' -e 's/   ((g_k >= g_X \&\& g_k < g_A) ==> AT(&(s)->send_buff_, g_k - g_X) == g_v))/   1)/' bfd.c > bfd_$v.c;;
 b) sed -e 's/#define MAXSZ ((size_t)1<<40)/#define MAXSZ ((size_t)1<<12)/' bfd.c > bfd_$v.c;;
 c) sed -e 's/#define MAXSZ ((size_t)1<<40)/#define MAXSZ ((size_t)64)/' bfd.c > bfd_$v.c;;
esac
goto-cc --function harness bfd_$v.c -o bfd_$v.gb 2>&1 | tail -3
goto-instrument --dfcc harness --enforce-contract BufferedFd_send --replace-call-with-contract Buffer_append --replace-call-with-contract Fd_write --replace-call-with-contract FdEvent_enable_write bfd_$v.gb bfd_${v}2.gb 2>&1 | grep -i -E "error|unsupp|violation|not found"
ulimit -v 12000000
/usr/bin/time -f "$v wall %es mem %MKB" timeout 900 cbmc bfd_${v}2.gb --bounds-check --pointer-check 2>&1 | grep -E "VERIFICATION|wall|FAIL" | head -20
