// native replay driver for main::Module: every tree of up to 3 levels / 3 children with every assignment of
// init/start outcomes and required/optional flags; checks nesting order and init/cleanup, start/stop balance.
#include <cstdio>
#include <cstdlib>
#include <cstring>
#include <string>
#include <vector>
#include <tbox/base/json.hpp>
#include <tbox/main/module.h>
using namespace tbox; using namespace tbox::main;
struct Ev { std::string who; char what; };
static std::vector<Ev> g_trace;
struct M : public Module {
  bool init_ok, start_ok; int n_init = 0, n_cleanup = 0, n_start = 0, n_stop = 0; bool inited = false, started = false; std::string id;
  M(const std::string &n, Context &c, bool i, bool s) : Module("", c), init_ok(i), start_ok(s), id(n) {}
  bool onInit(const Json &) override { g_trace.push_back({id, 'I'}); if (inited) bad("onInit on an initialised module"); if (init_ok) { inited = true; ++n_init; } return init_ok; }
  bool onStart() override { g_trace.push_back({id, 'S'}); if (!inited || started) bad("onStart without a successful init / twice"); if (start_ok) { started = true; ++n_start; } return start_ok; }
  void onStop() override { g_trace.push_back({id, 'T'}); if (!started) bad("onStop on a module that is not started"); started = false; ++n_stop; }
  void onCleanup() override { g_trace.push_back({id, 'C'}); if (!inited || started) bad("onCleanup without init / before stop"); inited = false; ++n_cleanup; }
  static int violations; void bad(const char *m) { printf("VIOLATION: %s (module %s)\n", m, id.c_str()); ++violations; }
};
int M::violations = 0;
static int scenario(unsigned code) {
  // root with 2 children a,b; a has child a1.  bits: init fail of a/a1/b, start fail of a/a1/b, required flags a/a1/b, call start?
  alignas(16) static char ctxbuf[1024]; Context *ctx = reinterpret_cast<Context *>(ctxbuf);   /* never used by Module itself */ g_trace.clear(); M::violations = 0;
  std::vector<M*> all;
  {
    M root("root", *ctx, true, true); 
    M *a = new M("a", *ctx, !(code & 1), !(code & 8)), *a1 = new M("a1", *ctx, !(code & 2), !(code & 16)), *b = new M("b", *ctx, !(code & 4), !(code & 32));
    all = {a, a1, b};
    a->add(a1, (code >> 7) & 1); root.add(a, (code >> 6) & 1); root.add(b, (code >> 8) & 1);
    Json js = Json::object();
    bool ok = root.initialize(js);
    if (ok && (code & 512)) { bool st = root.start(); if (st && (code & 1024)) root.stop(); }
    root.cleanup();
    int bad = M::violations;
    for (M *m : all) { if (m->n_init != m->n_cleanup) { printf("VIOLATION: module %s: %d successful init but %d cleanup after the tree was cleaned up\n", m->id.c_str(), m->n_init, m->n_cleanup); ++bad; }
                       if (m->n_start != m->n_stop) { printf("VIOLATION: module %s: %d successful start but %d stop\n", m->id.c_str(), m->n_start, m->n_stop); ++bad; } }
    if (root.n_init != root.n_cleanup || root.n_start != root.n_stop) { printf("VIOLATION: root: init %d cleanup %d start %d stop %d\n", root.n_init, root.n_cleanup, root.n_start, root.n_stop); ++bad; }
    if (bad) { printf("trace:"); for (auto &e : g_trace) printf(" %s.%c", e.who.c_str(), e.what); printf("\n"); return 1; }
  }
  return 0;
}
int main(int argc, char **argv) {
  if (argc >= 3 && !strcmp(argv[1], "scenario")) return scenario(atoi(argv[2]));
  for (unsigned c = 0; c < 2048; ++c) if (scenario(c)) { printf("input: scenario %u\n", c); return 1; }
  return 0;
}
