"""C02 — event::TimerEventImpl (modules/event/timer_event_impl.cpp): the timer event object in front of CommonLoop's timer heap.

 enable     not initialised: refused.  Already enabled: nothing (no second registration - one registration per enabled event, so one callback per
            period).  Otherwise exactly one addTimer(interval, repeat) with repeat == 1 for a one-shot event and 0 (= for ever) for a persistent
            one, its token kept; the event is enabled.
 disable    enabled: exactly one deleteTimer with the token that enable() got (so no callback can come after disable()); not enabled: nothing.
 initialize disables first (an enabled timer is never re-parameterised behind the loop's back), then stores interval and mode.
 onEvent    a one-shot event is marked disabled and forgets its token BEFORE the callback (the callback may enable it again: a new
            registration, not a stale one); the callback runs once, between beginEventProcess / endEventProcess, with cb_level_ raised.
The loop side (addTimer / deleteTimer / handleExpiredTimers) has its own contracts in common_loop_timer.py.
"""
import os
from verif import UnitSpec, Target
from plugins import StdFunction, StdVector, OpaqueString, StringStreamSink, Chrono
TU = 'modules/event/timer_event_impl.cpp'
P = 'event_TimerEventImpl_'
R = {P + 'enable': 'Tm_enable', P + 'disable': 'Tm_disable', P + 'initialize': 'Tm_initialize', P + 'onEvent': 'Tm_onEvent', P + 'isEnabled': 'Tm_isEnabled',
     'event_CommonLoop_addTimer': 'CL_addTimer', 'event_CommonLoop_deleteTimer': 'CL_deleteTimer', 'event_CommonLoop_beginEventProcess': 'CL_begin', 'event_CommonLoop_endEventProcess': 'CL_end'}
PRELUDE = r'''
typedef struct event_TimerEventImpl Tm; typedef struct cabinet_Token Token;
#define T(x) ((x) != 0)
#define K_ONESHOT event_Event_Mode_kOneshot
static Tm *g_t; static Token g_tok; static size_t g_adds, g_dels, g_cb_calls, g_begins, g_ends; static unsigned long g_add_interval, g_add_repeat; static Token g_del_tok;
#define SAMETOK(a, b) ((a).id_ == (b).id_ && (a).pos_ == (b).pos_)
'''
EXTERN = r'''
Token CL_addTimer(struct v_CLoop *l, uint64_t interval, uint64_t repeat, struct v_function *cb) __CPROVER_requires(l == g_t->wp_loop_ && T(cb->engaged) && g_adds == 0) __CPROVER_assigns(g_adds, g_add_interval, g_add_repeat)
  __CPROVER_ensures(g_adds == 1 && g_add_interval == interval && g_add_repeat == repeat && SAMETOK(__CPROVER_return_value, g_tok));
void CL_deleteTimer(struct v_CLoop *l, Token *t) __CPROVER_requires(l == g_t->wp_loop_ && g_dels == 0) __CPROVER_assigns(g_dels, g_del_tok) __CPROVER_ensures(g_dels == 1 && SAMETOK(g_del_tok, *t));
void CL_begin(struct v_CLoop *l) __CPROVER_requires(g_begins == 0 && g_cb_calls == 0) __CPROVER_assigns(g_begins) __CPROVER_ensures(g_begins == 1);
void CL_end(struct v_CLoop *l, void *ev) __CPROVER_requires(g_begins == 1 && g_ends == 0) __CPROVER_assigns(g_ends) __CPROVER_ensures(g_ends == 1);
/* the user's callback: the one-shot event is already disabled (it may be enabled again from here) */
void v_fn_call__void(struct v_function *f) __CPROVER_requires(f == &g_t->cb_ && T(f->engaged) && g_cb_calls == 0 && g_begins == 1 && g_ends == 0 && g_t->cb_level_ >= 1 && (g_t->mode_ != K_ONESHOT || (!T(g_t->is_enabled_) && g_t->token_.id_ == 0)))
  __CPROVER_assigns(g_cb_calls) __CPROVER_ensures(g_cb_calls == 1);
'''
FRESH = '__CPROVER_requires(__CPROVER_is_fresh(self, sizeof(*self)) && self->wp_loop_ != 0 && (self->is_inited_ == 0 || self->is_inited_ == 1) && (self->is_enabled_ == 0 || self->is_enabled_ == 1) && self->cb_level_ >= 0 && self->cb_level_ < 1000 && self->interval_ >= 0)\n'
FRAME = 'g_t, g_adds, g_dels, g_cb_calls, g_begins, g_ends, g_add_interval, g_add_repeat, g_del_tok, self->token_, self->is_enabled_, self->is_inited_, self->interval_, self->mode_, self->cb_level_'
ENTRY = 'g_t = self; g_adds = 0; g_dels = 0; g_cb_calls = 0; g_begins = 0; g_ends = 0;'
ENABLED0 = '(T(__CPROVER_old(self->is_inited_)) && T(__CPROVER_old(self->is_enabled_)))'
SPEC = {('prelude_early',): 'struct v_CLoop { char opaque; }; struct v_Loop { char opaque; };\n', ('prelude',): PRELUDE, ('after_protos',): EXTERN,
    ('stub', 'CL_addTimer'): True, ('stub', 'CL_deleteTimer'): True, ('stub', 'CL_begin'): True, ('stub', 'CL_end'): True,
    ('contract', 'Tm_enable'): FRESH + '__CPROVER_assigns(' + FRAME + r''')
__CPROVER_ensures(T(__CPROVER_return_value) == T(self->is_inited_) && g_dels == 0)
__CPROVER_ensures((T(self->is_inited_) && !T(__CPROVER_old(self->is_enabled_))) ? (g_adds == 1 && g_add_interval == (unsigned long)self->interval_ && g_add_repeat == (self->mode_ == K_ONESHOT ? 1 : 0) && SAMETOK(self->token_, g_tok) && T(self->is_enabled_))
                                                                                 : (g_adds == 0 && self->is_enabled_ == __CPROVER_old(self->is_enabled_)))
''',
    ('ghost', 'Tm_enable', 'entry'): ENTRY,
    ('contract', 'Tm_disable'): FRESH + '__CPROVER_assigns(' + FRAME + r''')
__CPROVER_ensures(T(__CPROVER_return_value) == T(self->is_inited_) && g_adds == 0)
__CPROVER_ensures(''' + ENABLED0 + r''' ? (g_dels == 1 && SAMETOK(g_del_tok, __CPROVER_old(self->token_)) && !T(self->is_enabled_)) : (g_dels == 0 && self->is_enabled_ == __CPROVER_old(self->is_enabled_)))
''',
    ('ghost', 'Tm_disable', 'entry'): ENTRY,
    ('contract', 'Tm_initialize'): FRESH + '__CPROVER_requires(__CPROVER_is_fresh(interval, sizeof(*interval)))\n__CPROVER_assigns(' + FRAME + r''')
__CPROVER_ensures(T(__CPROVER_return_value) && T(self->is_inited_) && self->interval_ == *interval && self->mode_ == mode && g_adds == 0)
__CPROVER_ensures(''' + ENABLED0 + r''' ? (g_dels == 1 && SAMETOK(g_del_tok, __CPROVER_old(self->token_)) && !T(self->is_enabled_)) : g_dels == 0)      /* a running timer is stopped first */
''',
    ('ghost', 'Tm_initialize', 'entry'): ENTRY,
    ('contract', 'Tm_onEvent'): FRESH + '__CPROVER_assigns(' + FRAME + r''')
__CPROVER_ensures(g_begins == 1 && g_ends == 1 && g_cb_calls == (T(self->cb_.engaged) ? 1 : 0) && self->cb_level_ == __CPROVER_old(self->cb_level_) && g_adds == 0 && g_dels == 0)
__CPROVER_ensures(self->mode_ == K_ONESHOT ? (!T(self->is_enabled_) && self->token_.id_ == 0) : (self->is_enabled_ == __CPROVER_old(self->is_enabled_) && SAMETOK(self->token_, __CPROVER_old(self->token_))))
''',
    ('ghost', 'Tm_onEvent', 'entry'): ENTRY,
}
H = lambda body: '\nvoid H(void)\n{\n' + body + '\n  __CPROVER_assert(0, "VACUITY-CANARY");\n}\n'
ST = ['CL_addTimer', 'CL_deleteTimer', 'CL_begin', 'CL_end', 'v_fn_call__void']
N = 'tbox::event::TimerEventImpl::'
UNITS = [UnitSpec(name='timer_event', tu=TU, filter='tbox::event', more_filters=[(TU, 'cabinet::Token')], rename=R, spec=SPEC,
    plugins=[StdFunction(), StdVector(), OpaqueString(), StringStreamSink(), Chrono()], model_headers=['fn_model.h', 'vec_model.h', 'misc_model.h'],
    opaque_records={'tbox::event::CommonLoop': 'struct v_CLoop', 'tbox::event::Loop': 'struct v_Loop'},
    emit=[N + 'enable', N + 'disable', N + 'initialize', N + 'onEvent'],
    targets=[Target('enable', H('  Tm *t; Tm_enable(t);'), enforce='Tm_enable', replace=ST, clause='enable: one registration per enabled event, one-shot <-> repeat 1, persistent <-> repeat 0; idempotent; refused before initialize'),
             Target('disable', H('  Tm *t; Tm_disable(t);'), enforce='Tm_disable', replace=ST, clause='disable: the registration enable() made is withdrawn, once; idempotent'),
             Target('initialize', H('  Tm *t; int64_t *iv; int m; Tm_initialize(t, iv, m);'), enforce='Tm_initialize', replace=ST, clause='initialize: a running timer is stopped before interval and mode change'),
             Target('onEvent', H('  Tm *t; Tm_onEvent(t);'), enforce='Tm_onEvent', replace=ST, clause='expiry: a one-shot event is disabled and forgets its token before its callback; callback once, inside begin/endEventProcess')])]
