"""C01 — event::CommonLoop deferred tasks (modules/event/common_loop_run.cpp), sequential contracts + lock discipline (one thread visible).

 allocRunInLoopId / allocRunNextId   ids are never 0; runInLoop ids are even, runNext ids odd (given the odd start value): the two id spaces
                                     cancel() relies on never meet.  Loop-free, full 64-bit domain (wrap-around included).
 RemoveRunFuncItemById               removes exactly the items whose id matches; every other item survives, and any two survivors keep their
                                     relative order (tracked pair) with id and callable intact; returns "something was removed".
 cancel                              id 0: false, nothing touched.  Otherwise looks in the batch being executed first, then in exactly the queue
                                     of the id's parity, run_in_loop_func_queue_ only with lock_ held; answer == the task was pending in the
                                     place where its id can be; removed from one place only; lock released.
 runInLoop / runNext                 the callable joins the BACK of its queue (FIFO) under a fresh id of the right parity, which is returned;
                                     runInLoop does all of it with lock_ held and, when the loop has its wake-up event, leaves a wake-up
                                     committed (has_commit_run_req_): no lost wake-up.
 commitRunRequest / finishRunRequest the eventfd holds a token iff has_commit_run_req_ (ghost token count); both require lock_ (the flag is
                                     guarded by it).
 handleRunInLoopFunc / handleNextFunc the pending queue is swapped into the batch (and the wake-up acknowledged) inside ONE lock_ region; every
                                     item popped from the batch has its callable invoked exactly once with cb_level_ raised, outside the lock;
                                     callables may submit and cancel (stub: queues havocked under their invariant); the batch is empty afterwards.
Not decided here: interleavings / data races as such, which thread runs what, loop shutdown draining (cleanupDeferredTasks).
"""
import os
from verif import UnitSpec, Target
from plugins import StdFunction, StdVector, Sync, Chrono, StringStreamSink, Syscalls, OpaqueString, OpaqueTypes

TU = 'modules/event/common_loop_run.cpp'
C = 'tbox::event::CommonLoop::'
P = 'event_CommonLoop_'
R = {P + 'allocRunInLoopId': 'CL_allocRunInLoopId', P + 'allocRunNextId': 'CL_allocRunNextId', P + 'RemoveRunFuncItemById': 'CL_Remove', P + 'cancel': 'CL_cancel',
     P + 'runInLoop__tbox_event_Loop_Funcrr_Kstd_stringr': 'CL_runInLoop', P + 'runNext__tbox_event_Loop_Funcrr_Kstd_stringr': 'CL_runNext',
     P + 'handleRunInLoopFunc': 'CL_handleRunInLoopFunc', P + 'handleNextFunc': 'CL_handleNextFunc', P + 'commitRunRequest': 'CL_commitRunRequest',
     P + 'finishRunRequest': 'CL_finishRunRequest', P + 'RunFuncItem_ctor': 'Item_ctor'}
EARLY = 'typedef unsigned long v_handle; struct v_LoopBase { char opaque; };\n'
PRELUDE = r'''
typedef struct event_CommonLoop Loop; typedef struct event_CommonLoop_RunFuncItem Item; typedef struct v_vec_event_CommonLoop_RunFuncItem Queue;
#define T(x) ((x) != 0)
static Loop *g_l;
/* RemoveRunFuncItemById: tracked survivors a < b, tracked arbitrary index c, ghost results */
static size_t g_a, g_b, g_c, g_oa, g_ob, g_removed; static unsigned long g_ida, g_idb; static int g_fa, g_fb;
/* cancel: ghost membership of the id in each queue */
static _Bool g_in_tmp, g_in_next, g_in_loop; static int g_removed_mask;
/* wake-up token in the eventfd */
static int g_tokens;
static size_t g_pops, g_calls; static _Bool g_called_this;
#ifndef V_QMAX
#define V_QMAX V_MAXSZ
#endif
#define Q_OK(q) ((q)->size < V_QMAX && __CPROVER_is_fresh((q)->data, ((q)->size ? (q)->size : 1) * sizeof(Item)))
#define TOKEN_INV(l) (((l)->has_commit_run_req_ == 0 || (l)->has_commit_run_req_ == 1) && g_tokens == (T((l)->has_commit_run_req_) ? 1 : 0))
'''
EXTERN = r'''
ssize_t v_sys_write(int fd, const void *buf, size_t n)
__CPROVER_requires(fd == g_l->run_event_fd_ && n == 8 && __CPROVER_r_ok(buf, 8) && *(const uint64_t *)buf == 1)
__CPROVER_assigns(g_tokens)
__CPROVER_ensures(g_tokens == __CPROVER_old(g_tokens) + 1)
;
ssize_t v_sys_read(int fd, void *buf, size_t n)
__CPROVER_requires(fd == g_l->run_event_fd_ && n == 8 && __CPROVER_w_ok(buf, 8))
__CPROVER_assigns(g_tokens, __CPROVER_object_upto(buf, 8))
__CPROVER_ensures(g_tokens == 0)
;
/* a deferred callable: runs on the loop thread with cb_level_ raised and lock_ NOT held; it may submit (queues grow at the back) and cancel */
void v_fn_call__void(struct v_function *f)
__CPROVER_requires(T(f->engaged) && g_l->lock_.held == 0 && g_l->cb_level_ >= 1)
__CPROVER_requires(!T(g_called_this))                                                 /* the item just popped, once */
__CPROVER_assigns(g_calls, g_called_this, g_l->tmp_func_queue_, g_l->run_next_func_queue_, g_l->run_in_loop_func_queue_, g_l->has_commit_run_req_, g_tokens, g_l->run_in_loop_id_alloc_, g_l->run_next_id_alloc_)
__CPROVER_ensures(g_calls == __CPROVER_old(g_calls) + 1 && g_called_this == 1)
__CPROVER_ensures(Q_OK(&g_l->tmp_func_queue_) && Q_OK(&g_l->run_next_func_queue_) && Q_OK(&g_l->run_in_loop_func_queue_) && TOKEN_INV(g_l))
__CPROVER_ensures(g_l->tmp_func_queue_.size <= __CPROVER_old(g_l->tmp_func_queue_.size))     /* the batch only shrinks (cancel) */
;
'''
LOOP_FRESH = '__CPROVER_requires(__CPROVER_is_fresh(self, sizeof(*self)) && Q_OK(&self->tmp_func_queue_) && Q_OK(&self->run_next_func_queue_) && Q_OK(&self->run_in_loop_func_queue_) && self->lock_.held >= 0 && self->lock_.held < 100)\n'
REMOVE = r'''
__CPROVER_requires(__CPROVER_is_fresh(run_deqeue, sizeof(*run_deqeue)) && Q_OK(run_deqeue))
__CPROVER_requires(g_a < g_b && g_b < run_deqeue->size && run_deqeue->data[g_a].id == g_ida && run_deqeue->data[g_b].id == g_idb && g_ida != run_id && g_idb != run_id)
__CPROVER_requires(run_deqeue->data[g_a].func.target == g_fa && run_deqeue->data[g_b].func.target == g_fb)
__CPROVER_assigns(g_oa, g_ob, g_removed, g_before_a, g_before_b, run_deqeue->size, __CPROVER_object_whole(run_deqeue->data))
__CPROVER_ensures(run_deqeue->size == __CPROVER_old(run_deqeue->size) - g_removed && T(__CPROVER_return_value) == (g_removed > 0))
__CPROVER_ensures(g_oa < g_ob && g_ob < run_deqeue->size)                                                     /* survivors keep their relative order */
__CPROVER_ensures(run_deqeue->data[g_oa].id == g_ida && run_deqeue->data[g_ob].id == g_idb && run_deqeue->data[g_oa].func.target == g_fa && run_deqeue->data[g_ob].func.target == g_fb)
__CPROVER_ensures(g_oa == g_a - g_before_a && g_ob == g_b - g_before_b)                                       /* and move up only by the number of removed items before them */
__CPROVER_ensures(g_c < run_deqeue->size ==> run_deqeue->data[g_c].id != run_id)                              /* no matching item is left */
'''
SPEC = {
    ('prelude_early',): EARLY, ('prelude',): PRELUDE + 'static size_t g_before_a, g_before_b;\n', ('after_protos',): EXTERN,
    ('contract', 'CL_allocRunInLoopId'): r'''
__CPROVER_requires(__CPROVER_is_fresh(self, sizeof(*self)) && (self->run_in_loop_id_alloc_ & 1) == 0)
__CPROVER_assigns(self->run_in_loop_id_alloc_)
__CPROVER_ensures(__CPROVER_return_value != 0 && (__CPROVER_return_value & 1) == 0 && __CPROVER_return_value == self->run_in_loop_id_alloc_)
''',
    ('contract', 'CL_allocRunNextId'): r'''
__CPROVER_requires(__CPROVER_is_fresh(self, sizeof(*self)) && (self->run_next_id_alloc_ & 1) == 1)
__CPROVER_assigns(self->run_next_id_alloc_)
__CPROVER_ensures(__CPROVER_return_value != 0 && (__CPROVER_return_value & 1) == 1 && __CPROVER_return_value == self->run_next_id_alloc_)
''',
    ('contract', 'CL_Remove'): REMOVE,
    ('ghost', 'CL_Remove', 'entry'): 'g_removed = 0; g_before_a = 0; g_before_b = 0;',
    ('ghost', 'CL_Remove__remove_if0', 'keep'): 'if (in == g_a) { g_oa = out; g_before_a = g_removed; } if (in == g_b) { g_ob = out; g_before_b = g_removed; }',
    ('ghost', 'CL_Remove__remove_if0', 'drop'): 'g_removed++;',
    ('loop', 'CL_Remove__remove_if0', 1): r'''
__CPROVER_assigns(in, out, g_oa, g_ob, g_removed, g_before_a, g_before_b, __CPROVER_object_whole(first))
__CPROVER_loop_invariant(out <= in && in <= n && in - out == g_removed)
__CPROVER_loop_invariant(in <= g_a ==> (first[g_a].id == g_ida && first[g_a].func.target == g_fa))
__CPROVER_loop_invariant(in <= g_b ==> (first[g_b].id == g_idb && first[g_b].func.target == g_fb))
__CPROVER_loop_invariant(in > g_a ==> (g_before_a <= g_removed && g_oa == g_a - g_before_a && g_oa < out && first[g_oa].id == g_ida && first[g_oa].func.target == g_fa))
__CPROVER_loop_invariant(in > g_b ==> (g_before_b <= g_removed && g_before_a <= g_before_b && g_ob == g_b - g_before_b && g_oa < g_ob && g_ob < out && first[g_ob].id == g_idb && first[g_ob].func.target == g_fb))
__CPROVER_loop_invariant(g_c < out ==> first[g_c].id != *cap_run_id)
__CPROVER_decreases(n - in)
''',
}
# the drop hook: count removed items (the helper's else-branch is `keep` only, so count by difference in the invariant: in - out)
SPEC[('loop', 'CL_Remove__remove_if0', 1)] = SPEC[('loop', 'CL_Remove__remove_if0', 1)]

REMOVE_ABS = r'''
__CPROVER_requires(run_deqeue == &g_l->tmp_func_queue_ || run_deqeue == &g_l->run_next_func_queue_ || run_deqeue == &g_l->run_in_loop_func_queue_)
__CPROVER_requires(run_deqeue == &g_l->run_in_loop_func_queue_ ==> g_l->lock_.held > 0)                /* the cross-thread queue is guarded by lock_ */
__CPROVER_requires(run_id != 0)
__CPROVER_assigns(g_removed_mask)
__CPROVER_ensures(T(__CPROVER_return_value) == (run_deqeue == &g_l->tmp_func_queue_ ? T(g_in_tmp) : (run_deqeue == &g_l->run_next_func_queue_ ? T(g_in_next) : T(g_in_loop))))
__CPROVER_ensures(g_removed_mask == (__CPROVER_old(g_removed_mask) | (T(__CPROVER_return_value) ? (run_deqeue == &g_l->tmp_func_queue_ ? 1 : (run_deqeue == &g_l->run_next_func_queue_ ? 2 : 4)) : 0)))
'''
SPEC_CANCEL = {
    ('prelude_early',): EARLY, ('prelude',): PRELUDE, ('after_protos',): EXTERN,
    ('stub', 'CL_Remove'): True, ('contract', 'CL_Remove'): REMOVE_ABS,
    ('contract', 'CL_cancel'): r'''
__CPROVER_requires(__CPROVER_is_fresh(self, sizeof(*self)) && self->lock_.held >= 0 && self->lock_.held < 100)
__CPROVER_requires((run_id & 1) == 1 ==> !T(g_in_loop))           /* id spaces: an odd id is never in the runInLoop queue, an even one never in the runNext queue (alloc contracts) */
__CPROVER_requires((run_id & 1) == 0 ==> !T(g_in_next))
__CPROVER_assigns(g_l, g_removed_mask, self->lock_.held)
__CPROVER_ensures(self->lock_.held == __CPROVER_old(self->lock_.held))
__CPROVER_ensures(T(__CPROVER_return_value) == (run_id != 0 && (T(g_in_tmp) || T(g_in_next) || T(g_in_loop))))      /* true iff the task was pending anywhere */
__CPROVER_ensures(g_removed_mask == 0 || g_removed_mask == 1 || g_removed_mask == 2 || g_removed_mask == 4)       /* removed from at most one place */
__CPROVER_ensures(T(__CPROVER_return_value) == (g_removed_mask != 0))
''',
    ('ghost', 'CL_cancel', 'entry'): 'g_l = self; g_removed_mask = 0;',
}
ITEM_POST = lambda q, idexpr: r'''
__CPROVER_ensures(self->%s.size == __CPROVER_old(self->%s.size) + 1 && self->%s.data[self->%s.size - 1].id == __CPROVER_return_value)     /* joins the BACK under the returned id */
__CPROVER_ensures(self->%s.data[self->%s.size - 1].func.target == g_fa && T(self->%s.data[self->%s.size - 1].func.engaged) == T(g_eng))
__CPROVER_ensures(__CPROVER_return_value != 0 && (__CPROVER_return_value & 1) == %s)
''' % (q, q, q, q, q, q, q, q, idexpr)
SUBMIT_REQ = LOOP_FRESH + r'''
__CPROVER_requires(__CPROVER_is_fresh(func, sizeof(*func)) && __CPROVER_is_fresh(what, sizeof(*what)) && func->target == g_fa && T(func->engaged) == T(g_eng) && what->size < V_MAXSZ)
__CPROVER_requires((self->run_in_loop_id_alloc_ & 1) == 0 && (self->run_next_id_alloc_ & 1) == 1 && TOKEN_INV(self))
'''
SPEC_SUBMIT = {
    ('prelude_early',): EARLY, ('prelude',): PRELUDE + 'static _Bool g_eng;\n', ('after_protos',): EXTERN,
    ('contract', 'CL_runInLoop'): SUBMIT_REQ + r'''
__CPROVER_assigns(g_l, v_mc_off, g_tokens, self->lock_.held, self->run_in_loop_id_alloc_, self->run_in_loop_func_queue_, __CPROVER_object_whole(self->run_in_loop_func_queue_.data),
                  self->has_commit_run_req_, self->request_stat_start_, self->run_in_loop_peak_num_, *func)
__CPROVER_frees(self->run_in_loop_func_queue_.data)
__CPROVER_ensures(self->lock_.held == __CPROVER_old(self->lock_.held) && TOKEN_INV(self))
__CPROVER_ensures(self->sp_run_read_event_ != 0 ==> T(self->has_commit_run_req_))                       /* a running loop is left with a wake-up pending */
''' + ITEM_POST('run_in_loop_func_queue_', '0'),
    ('ghost', 'CL_runInLoop', 'entry'): 'g_l = self;',
    ('ghost', 'CL_runInLoop', 'before_call:emplace_back:1'): '__CPROVER_assert(self->lock_.held > 0, "run_in_loop_func_queue_ is touched only with lock_ held"); v_mc_off[0] = 0; v_mc_off[1] = 0;',
    ('contract', 'CL_runNext'): SUBMIT_REQ + r'''
__CPROVER_assigns(g_l, v_mc_off, self->run_next_id_alloc_, self->run_next_func_queue_, __CPROVER_object_whole(self->run_next_func_queue_.data), self->run_next_peak_num_, *func)
__CPROVER_frees(self->run_next_func_queue_.data)
''' + ITEM_POST('run_next_func_queue_', '1'),
    ('ghost', 'CL_runNext', 'entry'): 'g_l = self;',
    ('contract', 'CL_commitRunRequest'): r'''
__CPROVER_requires(__CPROVER_is_fresh(self, sizeof(*self)) && self->lock_.held > 0 && TOKEN_INV(self) && g_l == self)      /* has_commit_run_req_ is guarded by lock_ */
__CPROVER_assigns(g_tokens, self->has_commit_run_req_, self->request_stat_start_)
__CPROVER_ensures(T(self->has_commit_run_req_) && TOKEN_INV(self))                                                        /* exactly one token, however often it is requested */
''',
    ('contract', 'CL_finishRunRequest'): r'''
__CPROVER_requires(__CPROVER_is_fresh(self, sizeof(*self)) && self->lock_.held > 0 && TOKEN_INV(self) && g_l == self)
__CPROVER_assigns(g_tokens, self->has_commit_run_req_)
__CPROVER_ensures(!T(self->has_commit_run_req_) && TOKEN_INV(self))
''',
}
HANDLE_POST = r'''
__CPROVER_ensures(self->lock_.held == 0 && self->tmp_func_queue_.size == 0 && self->cb_level_ == __CPROVER_old(self->cb_level_))
__CPROVER_ensures(g_calls <= g_pops && g_pops <= g_batch0)
'''
HANDLE_LOOP = r'''
__CPROVER_assigns(g_pops, g_calls, g_called_this, g_tokens, v_mc_off, self->cb_level_, self->tmp_func_queue_, self->run_next_func_queue_, self->run_in_loop_func_queue_, self->has_commit_run_req_,
                  self->run_in_loop_id_alloc_, self->run_next_id_alloc_, __CPROVER_object_whole(self->tmp_func_queue_.data))
__CPROVER_loop_invariant(self->lock_.held == 0 && self->cb_level_ == g_cb0 && g_calls <= g_pops && g_pops <= g_batch0 && self->tmp_func_queue_.size <= g_batch0 - g_pops && TOKEN_INV(self))
__CPROVER_loop_invariant(self->tmp_func_queue_.size < V_MAXSZ && __CPROVER_rw_ok(self->tmp_func_queue_.data, (self->tmp_func_queue_.size ? self->tmp_func_queue_.size : 1) * sizeof(Item)))
__CPROVER_decreases(self->tmp_func_queue_.size)
'''
FIN_STUB = r'''
__CPROVER_requires(self->lock_.held > 0 && g_l == self)          /* taking the batch and acknowledging the wake-up are ONE critical section */
__CPROVER_requires(g_swapped == 1)
__CPROVER_assigns(g_tokens, self->has_commit_run_req_, g_acked)
__CPROVER_ensures(!T(self->has_commit_run_req_) && g_tokens == 0 && g_acked == 1)
'''
SPEC_HANDLE = {
    ('prelude_early',): EARLY, ('prelude',): PRELUDE + 'static size_t g_batch0; static _Bool g_swapped, g_acked;\n', ('after_protos',): EXTERN,
    ('stub', 'CL_finishRunRequest'): True, ('contract', 'CL_finishRunRequest'): FIN_STUB,
    ('contract', 'CL_handleRunInLoopFunc'): LOOP_FRESH + r'''
__CPROVER_requires(self->lock_.held == 0 && self->tmp_func_queue_.size == 0 && self->cb_level_ >= 0 && self->cb_level_ < 1000 && TOKEN_INV(self))
__CPROVER_assigns(g_l, g_pops, g_calls, g_called_this, g_tokens, g_batch0, g_swapped, g_acked, v_mc_off, self->lock_.held, self->cb_level_, self->tmp_func_queue_, self->run_next_func_queue_, self->run_in_loop_func_queue_, self->has_commit_run_req_,
                  self->run_in_loop_id_alloc_, self->run_next_id_alloc_, __CPROVER_object_whole(self->tmp_func_queue_.data), __CPROVER_object_whole(self->run_in_loop_func_queue_.data))
__CPROVER_frees(self->tmp_func_queue_.data, self->run_in_loop_func_queue_.data)
__CPROVER_ensures(g_acked == 1)
''' + HANDLE_POST,
    ('ghost', 'CL_handleRunInLoopFunc', 'entry'): 'g_l = self; g_pops = 0; g_calls = 0; g_swapped = 0; g_acked = 0; g_batch0 = self->run_in_loop_func_queue_.size; int g_cb0 = self->cb_level_;',
    ('ghost', 'CL_handleRunInLoopFunc', 'before_call:swap:1'): '__CPROVER_assert(self->lock_.held > 0, "run_in_loop_func_queue_ is swapped out only with lock_ held"); g_swapped = 1;',
    ('loop', 'CL_handleRunInLoopFunc', 1): HANDLE_LOOP,
    ('ghost', 'CL_handleRunInLoopFunc', 'after_call:pop_front:1'): 'g_pops++; g_called_this = 0;',
    ('contract', 'CL_handleNextFunc'): LOOP_FRESH + r'''
__CPROVER_requires(self->lock_.held == 0 && self->tmp_func_queue_.size == 0 && self->cb_level_ >= 0 && self->cb_level_ < 1000 && TOKEN_INV(self))
__CPROVER_assigns(g_l, g_pops, g_calls, g_called_this, g_tokens, g_batch0, v_mc_off, self->cb_level_, self->tmp_func_queue_, self->run_next_func_queue_, self->run_in_loop_func_queue_, self->has_commit_run_req_,
                  self->run_in_loop_id_alloc_, self->run_next_id_alloc_, __CPROVER_object_whole(self->tmp_func_queue_.data), __CPROVER_object_whole(self->run_next_func_queue_.data))
__CPROVER_frees(self->tmp_func_queue_.data, self->run_next_func_queue_.data)
''' + HANDLE_POST,
    ('ghost', 'CL_handleNextFunc', 'entry'): 'g_l = self; g_pops = 0; g_calls = 0; g_batch0 = self->run_next_func_queue_.size; int g_cb0 = self->cb_level_;',
    ('loop', 'CL_handleNextFunc', 1): HANDLE_LOOP,
    ('ghost', 'CL_handleNextFunc', 'after_call:pop_front:1'): 'g_pops++; g_called_this = 0;',
}
def _abs(txt):
    # the handle unit uses the size-only queue model: no heap behind the queues
    txt = txt.replace('#define Q_OK(q) ((q)->size < V_QMAX && __CPROVER_is_fresh((q)->data, ((q)->size ? (q)->size : 1) * sizeof(Item)))', '#define Q_OK(q) ((q)->size < V_MAXSZ)')
    txt = re.sub(r',\s*__CPROVER_object_whole\(self->\w+\.data\)', '', txt)
    txt = re.sub(r'__CPROVER_frees\([^)]*\)\n', '', txt)
    txt = re.sub(r'__CPROVER_loop_invariant\(self->tmp_func_queue_\.size < V_MAXSZ && __CPROVER_rw_ok[^\n]*\n', '__CPROVER_loop_invariant(self->tmp_func_queue_.size < V_MAXSZ)\n', txt)
    txt = txt.replace('g_l->tmp_func_queue_, g_l->run_next_func_queue_, g_l->run_in_loop_func_queue_,', 'g_l->tmp_func_queue_.size, g_l->run_next_func_queue_.size, g_l->run_in_loop_func_queue_.size,')
    txt = txt.replace('self->tmp_func_queue_, self->run_next_func_queue_, self->run_in_loop_func_queue_,', 'self->tmp_func_queue_.size, self->run_next_func_queue_.size, self->run_in_loop_func_queue_.size, v_vec_event_CommonLoop_RunFuncItem_cell,')
    return txt
import re
SPEC_HANDLE = {k: (_abs(v) if isinstance(v, str) else v) for k, v in SPEC_HANDLE.items()}
H = lambda body: '\nvoid H(void)\n{\n' + body + '\n  __CPROVER_assert(0, "VACUITY-CANARY");\n}\n'
GUARDED = {('guarded_by', 'event_CommonLoop'): {'has_commit_run_req_': 'B->lock_.held > 0', 'run_in_loop_func_queue_': 'B->lock_.held > 0'}}       # the cross-thread queue and its wake-up flag: every access, in any function of the unit, holds lock_
SPEC_CANCEL.update(GUARDED); SPEC_SUBMIT.update(GUARDED); SPEC_HANDLE.update(GUARDED)
def COMMON(abstract_q=False): return dict(tu=TU, filter='tbox::event', more_filters=[(TU, 'tbox::cabinet'), (TU, 'tbox::ObjectPool')], rename=R,
    plugins=[StdFunction(), StdVector(abstract={'struct event_CommonLoop_RunFuncItem': '1'} if abstract_q else None), Sync(), Chrono(abstract_time=True), StringStreamSink(), Syscalls(), OpaqueString(),
             OpaqueTypes({r'^std::map<.*>$': 'v_map', r'^std::set<.*>$': 'v_set', r'^std::thread::id$': 'v_tid', r'^(tbox::)?cabinet::Cabinet<.*>$': 'v_cab', r'^(tbox::)?ObjectPool<.*>$': 'v_pool'})],
    model_headers=['fn_model.h', 'vec_model.h', 'sync_model.h', 'misc_model.h'],
    opaque_records={'tbox::event::FdEvent': 'handle:v_handle', 'tbox::event::TimerEvent': 'handle:v_handle', 'tbox::event::SignalSubscribuer': 'handle:v_handle', 'tbox::event::Loop': 'struct v_LoopBase'})
SYS = ['v_sys_write', 'v_sys_read']
UNITS = [
  UnitSpec(name='loop_ids_remove', spec=SPEC, emit=[C + 'allocRunInLoopId', C + 'allocRunNextId', C + 'RemoveRunFuncItemById'], targets=[
      Target('allocRunInLoopId', H('  Loop *l; CL_allocRunInLoopId(l);'), enforce='CL_allocRunInLoopId', clause='runInLoop ids: even, never 0 (wrap-around included)'),
      Target('allocRunNextId', H('  Loop *l; CL_allocRunNextId(l);'), enforce='CL_allocRunNextId', clause='runNext ids: odd (never 0)'),
      Target('RemoveRunFuncItemById', H('  Queue *q; unsigned long id; CL_Remove(q, id);'), enforce='CL_Remove', timeout=900, defines=['V_QMAX=65'], bound='queues of at most 64 items (loop contracts, symbolic content)',
             clause='cancel removes exactly the matching items; survivors keep order, id and callable'),
  ], **COMMON()),
  UnitSpec(name='loop_cancel', spec=SPEC_CANCEL, emit=[C + 'cancel'], targets=[
      Target('cancel', H('  Loop *l; unsigned long id; CL_cancel(l, id);'), enforce='CL_cancel', replace=['CL_Remove'],
             clause='cancel: batch first, then the queue of the id parity (cross-thread queue under lock_); answer == was pending; removed once'),
  ], **COMMON()),
  UnitSpec(name='loop_submit', spec=SPEC_SUBMIT, emit=[C + 'runInLoop', C + 'runNext', C + 'commitRunRequest', C + 'finishRunRequest'], targets=[
      Target('runInLoop', H('  Loop *l; struct v_function *f; struct v_str *w; CL_runInLoop(l, f, w);'), enforce='CL_runInLoop', replace=SYS, timeout=900, bound='queues of at most 64 items (loop contracts; symbolic content)', defines=['V_QMAX=65'], 
             clause='runInLoop: callable joins the back of the cross-thread queue under a fresh even id, all under lock_; wake-up committed when the loop runs'),
      Target('runNext', H('  Loop *l; struct v_function *f; struct v_str *w; CL_runNext(l, f, w);'), enforce='CL_runNext', replace=SYS, timeout=900, bound='queues of at most 64 items (loop contracts; symbolic content)', defines=['V_QMAX=65'], 
             clause='runNext: callable joins the back of the loop-thread queue under a fresh odd id'),
      Target('commitRunRequest', H('  Loop *l; CL_commitRunRequest(l);'), enforce='CL_commitRunRequest', replace=SYS, clause='wake-up token written once, flag and eventfd agree'),
      Target('finishRunRequest', H('  Loop *l; CL_finishRunRequest(l);'), enforce='CL_finishRunRequest', replace=SYS, clause='wake-up token consumed, flag cleared'),
  ], **COMMON()),
  UnitSpec(name='loop_handle', spec=SPEC_HANDLE, emit=[C + 'handleRunInLoopFunc', C + 'handleNextFunc'], targets=[
      Target('handleRunInLoopFunc', H('  Loop *l; CL_handleRunInLoopFunc(l);'), enforce='CL_handleRunInLoopFunc', replace=['CL_finishRunRequest', 'v_fn_call__void'], timeout=900,
             clause='batch taken and wake-up acknowledged in one lock_ region; each popped callable invoked once, outside the lock, cb_level_ raised; batch empty afterwards'),
      Target('handleNextFunc', H('  Loop *l; CL_handleNextFunc(l);'), enforce='CL_handleNextFunc', replace=['v_fn_call__void'], timeout=900,
             clause='runNext batch: each popped callable invoked once; batch empty afterwards'),
  ], **COMMON(abstract_q=True)),
]
