// native replay driver for crypto::MD5: independent RFC 1321 reference, every split of short messages,
// and large single updates (the bit-count arithmetic).  ASan/UBSan on.
#include <cstdio>
#include <cstdlib>
#include <cstring>
#include <cstdint>
#include <string>
#include <vector>
#include <unistd.h>
#include <signal.h>
#include <sys/mman.h>
#include <tbox/crypto/md5.h>
using tbox::crypto::MD5;

namespace ref {   // straight from the RFC's description: loop/table form
static uint32_t rl(uint32_t x, int n) { return (x << n) | (x >> (32 - n)); }
static const int S[64] = {7,12,17,22,7,12,17,22,7,12,17,22,7,12,17,22,5,9,14,20,5,9,14,20,5,9,14,20,5,9,14,20,4,11,16,23,4,11,16,23,4,11,16,23,4,11,16,23,6,10,15,21,6,10,15,21,6,10,15,21,6,10,15,21};
struct Ctx { uint32_t h[4]; uint64_t n; uint8_t buf[64]; size_t fill; };
static uint32_t T(int i) { static uint32_t t[64]; static bool init = false; if (!init) { for (int k = 0; k < 64; ++k) { double s = __builtin_fabs(__builtin_sin((double)(k + 1))); t[k] = (uint32_t)(uint64_t)(s * 4294967296.0); } init = true; } return t[i]; }
static void block(Ctx &c, const uint8_t *p) {
  uint32_t m[16]; for (int i = 0; i < 16; ++i) m[i] = p[4*i] | p[4*i+1] << 8 | p[4*i+2] << 16 | (uint32_t)p[4*i+3] << 24;
  uint32_t a = c.h[0], b = c.h[1], cc = c.h[2], d = c.h[3];
  for (int i = 0; i < 64; ++i) { uint32_t f; int g;
    if (i < 16) { f = (b & cc) | (~b & d); g = i; } else if (i < 32) { f = (d & b) | (~d & cc); g = (5*i+1) % 16; } else if (i < 48) { f = b ^ cc ^ d; g = (3*i+5) % 16; } else { f = cc ^ (b | ~d); g = (7*i) % 16; }
    f = f + a + T(i) + m[g]; a = d; d = cc; cc = b; b = b + rl(f, S[i]); }
  c.h[0] += a; c.h[1] += b; c.h[2] += cc; c.h[3] += d; }
static void init(Ctx &c) { c.h[0] = 0x67452301; c.h[1] = 0xefcdab89; c.h[2] = 0x98badcfe; c.h[3] = 0x10325476; c.n = 0; c.fill = 0; }
static void update(Ctx &c, const uint8_t *p, size_t n) { c.n += n; while (n) { size_t k = 64 - c.fill; if (k > n) k = n; memcpy(c.buf + c.fill, p, k); c.fill += k; p += k; n -= k; if (c.fill == 64) { block(c, c.buf); c.fill = 0; } } }
static void finish(Ctx &c, uint8_t out[16]) { uint64_t bits = c.n * 8; uint8_t pad = 0x80; update(c, &pad, 1); uint8_t z = 0; while (c.fill != 56) update(c, &z, 1); uint8_t l[8]; for (int i = 0; i < 8; ++i) l[i] = bits >> (8*i); update(c, l, 8); for (int i = 0; i < 16; ++i) out[i] = c.h[i/4] >> (8*(i%4)); }
}
static void alarm_handler(int) { printf("VIOLATION: MD5::update does not terminate on a large single update (hang)\n"); fflush(stdout); _exit(1); }

static int check_splits(const std::vector<uint8_t> &msg) {
  uint8_t want[16]; ref::Ctx c; ref::init(c); ref::update(c, msg.data(), msg.size()); ref::finish(c, want);
  for (size_t s1 = 0; s1 <= msg.size(); ++s1) {
    size_t step = msg.size() > 80 ? 17 : 1;
    for (size_t s2 = s1; s2 <= msg.size(); s2 += step) {
      MD5 m; uint8_t got[16]; uint8_t dummy = 0;
      const uint8_t *p = msg.empty() ? &dummy : msg.data();
      m.update(p, s1); m.update(p + s1, s2 - s1); m.update(p + s2, msg.size() - s2); m.finish(got);
      if (memcmp(got, want, 16)) { printf("VIOLATION: MD5 of %zu bytes split at %zu/%zu differs from the RFC 1321 reference\n", msg.size(), s1, s2); return 1; }
    }
    if (msg.size() > 80) s1 += 12;
  }
  return 0;
}
static int check_big(size_t total, size_t first) {
  // zero pages (never touched => no real memory); digest must not depend on the split and must equal the reference
  uint8_t *p = (uint8_t *)mmap(0, total, PROT_READ, MAP_PRIVATE | MAP_ANONYMOUS | MAP_NORESERVE, -1, 0);
  if (p == MAP_FAILED) { printf("mmap failed, skipped\n"); return 0; }
  signal(SIGALRM, alarm_handler); alarm(120);
  uint8_t a[16], b[16];
  { MD5 m; m.update(p, total); m.finish(a); }
  { MD5 m; size_t done = 0; while (done < total) { size_t k = total - done < first ? total - done : first; m.update(p + done, k); done += k; } m.finish(b); }
  alarm(0); munmap(p, total);
  if (memcmp(a, b, 16)) { printf("VIOLATION: MD5 of %zu zero bytes in one update differs from the same message fed in %zu-byte updates\n", total, first); return 1; }
  return 0;
}
int main(int argc, char **argv) {
  if (argc >= 4 && !strcmp(argv[1], "big")) return check_big(strtoull(argv[2], 0, 10), strtoull(argv[3], 0, 10));
  if (argc >= 2 && !strcmp(argv[1], "search")) {
    for (size_t n = 0; n <= 200; ++n) { std::vector<uint8_t> m(n); for (size_t i = 0; i < n; ++i) m[i] = (uint8_t)(i * 167 + n); if (check_splits(m)) return 1; }
    if (check_big((size_t)1 << 29, (size_t)1 << 20)) return 1;          // 512 MiB in one update: bit count carries
    if (check_big(((size_t)1 << 29) + 77, (size_t)1 << 28)) return 1;
    if (argc >= 3 && !strcmp(argv[2], "huge")) if (check_big(((size_t)1 << 32) + 128, (size_t)1 << 28)) return 1;   // > 4 GiB in one update: 32-bit block index
    return 0;
  }
  fprintf(stderr, "usage: search [huge] | big <total> <chunk>\n"); return 2;
}
