// explicit instantiation only (no logic): makes the header-only coroutine primitives visible to the AST dump
#include <tbox/coroutine/scheduler.h>
#include <tbox/coroutine/semaphore.hpp>
#include <tbox/coroutine/mutex.hpp>
#include <tbox/coroutine/channel.hpp>
template class tbox::coroutine::Channel<int>;
#include <tbox/coroutine/condition.hpp>
#include <tbox/coroutine/broadcast.hpp>
template class tbox::coroutine::Condition<int>;
