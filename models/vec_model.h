/* std::vector<T> model (trusted base A-models): a heap block of exactly `size` live elements.
 * Capacity is not modelled (reserve is a no-op): every growth reallocates, which is the worst case for
 * reference/pointer stability that std::vector allows.  New elements are value-initialised like the real resize
 * only at the tracked offsets (weaker).  Element access outside [0,size) is a failed assertion (at(): ghost exception).
 */
#ifndef V_VEC_MODEL_H
#define V_VEC_MODEL_H
#define V_EXC_OUT_OF_RANGE 3
/* element copy on reallocation: the weak tracked-offset memcpy (unbounded proofs) or, with -DV_VEC_LOOPCOPY, an element loop
 * (concrete small scenarios under --unwind) */
#ifdef V_VEC_LOOPCOPY
#define V_VEC_COPY(T, d, s, n) do { for (size_t __k = 0; __k < (n); ++__k) (d)[__k] = (s)[__k]; } while (0)
#else
#define V_VEC_COPY(T, d, s, n) do { if (n) v_memcpy((d), (s), (n) * sizeof(T)); } while (0)
#endif
#ifndef V_GUARD
#define V_GUARD(v) ((void)0)     /* guarded-by hook: a spec may #undef and define it to check the lock that guards v */
#endif
#ifndef V_ERASE_ONE_HOOK
#define V_ERASE_ONE_HOOK(v, k) ((void)0)
#endif
#define V_VEC_DECL(T, N) \
  struct N { T *data; size_t size; }; \
  static inline void N##_init(struct N *v) { v->data = NULL; v->size = 0; } \
  static inline void N##_destroy(struct N *v) { if (v->data != NULL) free(v->data); v->data = NULL; v->size = 0; } \
  static inline size_t N##_size(const struct N *v) { V_GUARD(v); return v->size; } \
  static inline _Bool N##_empty(const struct N *v) { V_GUARD(v); return v->size == 0; } \
  static inline T *N##_data(struct N *v) { return v->data; } \
  static inline void N##_resize(struct N *v, size_t n) { \
    __CPROVER_assert(n < V_MAXSZ, "vector::resize below the modelled maximum"); \
    if (n == v->size) return; \
    T *nd = n ? (T *)v_alloc_ok(n * sizeof(T)) : NULL; \
    size_t keep = n < v->size ? n : v->size; \
    V_VEC_COPY(T, nd, v->data, keep); \
    if (v->data != NULL) free(v->data); \
    v->data = nd; v->size = n; } \
  static inline void N##_reserve(struct N *v, size_t n) { (void)v; (void)n; } \
  static inline void N##_clear(struct N *v) { V_GUARD(v); N##_resize(v, 0); } \
  static inline T *N##_erase_to_end(struct N *v, T *from, T *to) { V_GUARD(v); __CPROVER_assert(to == v->data + v->size, "erase(it, end()): second iterator is end()"); \
    __CPROVER_assert(__CPROVER_same_object(from, to) && from <= to && (v->size == 0 || from >= v->data), "erase(it, end()): first iterator inside the container"); \
    v->size -= (size_t)(to - from); return v->data + v->size; }   /* erasing a tail neither moves nor reallocates the elements before it */ \
  static inline T *N##_erase_one(struct N *v, T *it) { V_GUARD(v); __CPROVER_assert(v->size > 0 && __CPROVER_same_object(it, v->data) && it >= v->data && it < v->data + v->size, "erase(it): iterator designates an element"); \
    size_t k = (size_t)(it - v->data); V_ERASE_ONE_HOOK(v, k); if (k + 1 < v->size) v_memmove(v->data + k, v->data + k + 1, (v->size - k - 1) * sizeof(T)); v->size--; return v->data + k; } \
  static inline struct N *N##_assign(struct N *d, const struct N *s) { V_GUARD(d); V_GUARD(s); if (d != s) { N##_resize(d, 0); N##_resize(d, s->size); V_VEC_COPY(T, d->data, s->data, s->size); } return d; } \
  static inline void N##_push_back(struct N *v, T x) { V_GUARD(v); size_t s = v->size; N##_resize(v, s + 1); v->data[s] = x; } \
  static inline void N##_pop_back(struct N *v) { V_GUARD(v); __CPROVER_assert(v->size > 0, "vector::pop_back on a non-empty vector"); N##_resize(v, v->size - 1); } \
  static inline void N##_pop_front(struct N *v) { V_GUARD(v); __CPROVER_assert(v->size > 0, "deque::pop_front on a non-empty container"); \
    if (v->size > 1) v_memmove(v->data, v->data + 1, (v->size - 1) * sizeof(T)); N##_resize(v, v->size - 1); } \
  static T N##_thrown;   /* at() that throws yields no value: the enclosing statement is abandoned right after */ \
  static inline T *N##_at(struct N *v, size_t i) { if (i >= v->size) { __exc = V_EXC_OUT_OF_RANGE; return &N##_thrown; } return &v->data[i]; } \
  static inline T *N##_index(struct N *v, size_t i) { V_GUARD(v); __CPROVER_assert(i < v->size, "vector::operator[] index in range"); return &v->data[i]; } \
  static inline T *N##_back(struct N *v) { V_GUARD(v); __CPROVER_assert(v->size > 0, "vector::back on a non-empty vector"); return &v->data[v->size - 1]; } \
  static inline T *N##_front(struct N *v) { V_GUARD(v); __CPROVER_assert(v->size > 0, "vector::front on a non-empty vector"); return &v->data[0]; }
/* fixed-capacity variant for element types that contain a union (symbolic-size arrays of such structs exhaust the
 * SAT back end, DESIGN section 2): growth beyond CAP is cut off by an assumption => every result is B(CAP). */
#define V_VECFIX_DECL(T, N, CAP) \
  struct N { T data[CAP]; size_t size; }; \
  static inline void N##_init(struct N *v) { v->size = 0; } \
  static inline void N##_destroy(struct N *v) { v->size = 0; } \
  static inline size_t N##_size(const struct N *v) { V_GUARD(v); return v->size; } \
  static inline _Bool N##_empty(const struct N *v) { V_GUARD(v); return v->size == 0; } \
  static inline void N##_reserve(struct N *v, size_t n) { (void)v; (void)n; } \
  static inline void N##_clear(struct N *v) { V_GUARD(v); v->size = 0; } \
  static inline void N##_push_back(struct N *v, T x) { V_GUARD(v); __CPROVER_assume(v->size < CAP); v->data[v->size] = x; v->size++; } \
  static inline T *N##_at(struct N *v, size_t i) { if (i >= v->size) { __exc = V_EXC_OUT_OF_RANGE; return NULL; } return &v->data[i]; } \
  static inline T *N##_index(struct N *v, size_t i) { V_GUARD(v); __CPROVER_assert(i < v->size, "vector::operator[] index in range"); return &v->data[i]; }
#ifndef V_ABS_HOOK
#define V_ABS_HOOK(v, op) ((void)0)   /* typestate hook of the size-only model: op 1 push_back, 2 pop_back, 3 front */
#endif
/* size-only variant ("abstract bag") for containers whose CONTENT the contracts do not speak about: the sequence is its
 * length; an element read out is any value satisfying OK (the representation invariant the spec states for members). */
#define V_VECABS_DECL(T, N, OK) \
  struct N { size_t size; }; \
  static T N##_cell; \
  static inline T *N##_any(void) { T x; __CPROVER_assume(OK); N##_cell = x; return &N##_cell; } \
  static inline void N##_init(struct N *v) { v->size = 0; } \
  static inline void N##_destroy(struct N *v) { v->size = 0; } \
  static inline size_t N##_size(const struct N *v) { V_GUARD(v); return v->size; } \
  static inline _Bool N##_empty(const struct N *v) { V_GUARD(v); return v->size == 0; } \
  static inline void N##_reserve(struct N *v, size_t n) { (void)v; (void)n; } \
  static inline void N##_clear(struct N *v) { V_GUARD(v); v->size = 0; } \
  static inline void N##_push_back(struct N *v, T x) { V_GUARD(v); V_ABS_HOOK(v, 1); (void)x; __CPROVER_assume(v->size < V_MAXSZ - 1); v->size++; } \
  static inline void N##_pop_back(struct N *v) { V_GUARD(v); V_ABS_HOOK(v, 2); __CPROVER_assert(v->size > 0, "vector::pop_back on a non-empty vector"); v->size--; } \
  static inline void N##_pop_front(struct N *v) { V_GUARD(v); __CPROVER_assert(v->size > 0, "deque::pop_front on a non-empty container"); v->size--; } \
  static inline T *N##_index(struct N *v, size_t i) { V_GUARD(v); __CPROVER_assert(i < v->size, "vector::operator[] index in range"); return N##_any(); } \
  static inline T *N##_at(struct N *v, size_t i) { V_GUARD(v); if (i >= v->size) { __exc = V_EXC_OUT_OF_RANGE; return &N##_cell; } return N##_any(); } \
  static inline void N##_resize(struct N *v, size_t n) { V_GUARD(v); __CPROVER_assert(n < V_MAXSZ, "vector::resize below the modelled maximum"); v->size = n; } \
  static inline T *N##_data(struct N *v) { V_GUARD(v); return &N##_cell; }   /* storage is abstract: only a stub may take this pointer */ \
  static inline T *N##_back(struct N *v) { V_GUARD(v); __CPROVER_assert(v->size > 0, "vector::back on a non-empty vector"); return N##_any(); } \
  static inline T *N##_front(struct N *v) { V_GUARD(v); V_ABS_HOOK(v, 3); __CPROVER_assert(v->size > 0, "vector::front on a non-empty vector"); return N##_any(); }
#endif
