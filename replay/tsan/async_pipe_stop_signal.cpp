#include <tbox/util/async_pipe.h>
#include <cstdio>
using namespace tbox::util;
int main() {
    for (int r = 0; r < 200; ++r) {
        AsyncPipe p; AsyncPipe::Config c; c.buff_size = 64; c.buff_min_num = 2; c.buff_max_num = 4; c.interval = 5;
        p.initialize(c);
        size_t n = 0; p.setCallback([&](const void*, size_t s){ n += s; });
        char b[100] = {0}; p.append(b, sizeof(b));
        p.cleanup();
        if (n != 100) { printf("lost bytes: %zu\n", n); return 1; }
    }
    puts("ok"); return 0;
}
