"""C11 — main::Module::addAs (modules/main/module.cpp): registration under another name.

Decided: addAs(child, name, required) registers the child through add() exactly once and with the caller's `required` flag - an optional
module stays optional, so its failure later does not stop its siblings or its parent - and answers what add() answered.
Not decided here: add() itself (state / parent / duplicate-name checks over the vector of children), the name strings.
"""
import os, importlib.util
from verif import UnitSpec, Target, VERIF
_s = importlib.util.spec_from_file_location('c11_mod', os.path.join(VERIF, 'specs', 'C11', 'module.py'))
m = importlib.util.module_from_spec(_s); _s.loader.exec_module(m)
R = dict(m.R); R.update({'main_Module_addAs': 'Mod_addAs', 'main_Module_add': 'Mod_add'})
PRELUDE = r'''
typedef struct main_Module Mod;
#define T(x) ((x) != 0)
static Mod *g_m, *g_child; static size_t g_adds; static _Bool g_required_seen, g_add_ok;
'''
EXTERN = r'''
_Bool Mod_add(Mod *self, Mod *child, _Bool required) __CPROVER_requires(self == g_m && child == g_child && g_adds == 0) __CPROVER_assigns(g_adds, g_required_seen, g_add_ok)
  __CPROVER_ensures(g_adds == 1 && T(g_required_seen) == T(required) && (g_add_ok == 0 || g_add_ok == 1) && T(__CPROVER_return_value) == T(g_add_ok));
'''
SPEC = {('prelude_early',): m.EARLY, ('prelude',): PRELUDE, ('after_protos',): EXTERN, ('stub', 'Mod_add'): True,
    ('contract', 'Mod_addAs'): r'''
__CPROVER_requires(__CPROVER_is_fresh(self, sizeof(*self)) && __CPROVER_is_fresh(child, sizeof(*child)) && __CPROVER_is_fresh(name, sizeof(*name)) && (required == 0 || required == 1))
__CPROVER_assigns(g_m, g_child, g_adds, g_required_seen, g_add_ok, __exc, child->name_)
/* registered once, through add(), with the caller's own `required`: an optional module stays optional */
__CPROVER_ensures(g_adds == 1 && T(g_required_seen) == T(required) && T(__CPROVER_return_value) == T(g_add_ok))
''',
    ('ghost', 'Mod_addAs', 'entry'): 'g_m = self; g_child = child; g_adds = 0;',
}
H = m.H
U0 = m.UNITS[0]
UNITS = [UnitSpec(name='module_add_as', tu=U0.tu, filter='tbox::main', rename=R, spec=SPEC, clang_flags=['-include', 'tbox/base/json.hpp'],
    plugins=U0.plugins, model_headers=U0.model_headers, opaque_records=U0.opaque_records,
    emit=['tbox::main::Module::addAs'],
    targets=[Target('addAs', H('  Mod *m, *c; struct v_str *n; _Bool r; Mod_addAs(m, c, n, r);'), enforce='Mod_addAs', replace=['Mod_add'], timeout=200,
                    clause='addAs: the child is registered once through add() with the caller\'s required flag; the answer is add()\'s')])]
