#include <stddef.h>
#include <stdint.h>
#include <stdbool.h>
#include <string.h>
#define NPOS ((size_t)-1)
#ifndef MAXLEN
#define MAXLEN 24
#endif
struct vstr { const char *p; size_t n; };
static size_t v_find_ch_first_of(struct vstr s, char c, size_t pos) { for (size_t i = pos; i < s.n; i++) if (s.p[i] == c) return i; return NPOS; }
static size_t v_find_first_not_of(struct vstr s, char c, size_t pos) { for (size_t i = pos; i < s.n; i++) if (s.p[i] != c) return i; return NPOS; }
static size_t v_find_crlf(struct vstr s, size_t pos) { for (size_t i = pos; i + 1 < s.n; i++) if (s.p[i] == '\r' && s.p[i+1] == '\n') return i; return NPOS; }
static struct vstr v_substr(struct vstr s, size_t pos, size_t len) { /* pos <= n required (else out_of_range) */
  __CPROVER_assert(pos <= s.n, "substr pos in range (else std::out_of_range escapes)");
  struct vstr r; r.p = s.p + pos; size_t rem = s.n - pos; r.n = len < rem ? len : rem; return r; }
static bool v_eq(struct vstr s, const char *lit) { size_t l = strlen(lit); if (s.n != l) return false; for (size_t i = 0; i < l; i++) if (s.p[i] != lit[i]) return false; return true; }
enum Method { kUnset, kGet, kHead, kPut, kPost, kDelete };
static int StringToMethod(struct vstr s) { if (v_eq(s,"GET")) return kGet; if (v_eq(s,"HEAD")) return kHead; if (v_eq(s,"PUT")) return kPut; if (v_eq(s,"POST")) return kPost; if (v_eq(s,"DELETE")) return kDelete; return kUnset; }
enum PState { kInit, kFinishedStartLine, kFinishedHeads, kFinishedAll, kFail };
struct Parser { int state_; int method; struct vstr url; struct vstr ver; };
/* start-line stage of RequestParser::parse, as printed (url/version checks reduced to presence + "HTTP/") */
size_t parse_startline(struct Parser *self, const char *data_ptr, size_t data_size)
{
    struct vstr str = { data_ptr, data_size };
    size_t pos = 0;
    if (self->state_ == kInit) {
        size_t method_str_end = v_find_ch_first_of(str, ' ', pos);
        struct vstr method_str = v_substr(str, pos, method_str_end);
        int method = StringToMethod(method_str);
        if (method == kUnset) { self->state_ = kFail; return pos; }
        size_t end_pos = v_find_crlf(str, method_str_end);
        if (end_pos == NPOS) return 0;
        self->method = method;
        size_t url_str_begin = v_find_first_not_of(str, ' ', method_str_end);
        if (url_str_begin == NPOS || url_str_begin >= end_pos) { self->state_ = kFail; return pos; }
        size_t url_str_end = v_find_ch_first_of(str, ' ', url_str_begin);
        self->url = v_substr(str, url_str_begin, url_str_end - url_str_begin);
        size_t ver_str_begin = v_find_first_not_of(str, ' ', url_str_end);
        if (ver_str_begin == NPOS || ver_str_begin >= end_pos) { self->state_ = kFail; return pos; }
        self->ver = v_substr(str, ver_str_begin, end_pos - ver_str_begin);
        if (!(self->ver.n >= 5 && self->ver.p[0]=='H' && self->ver.p[1]=='T' && self->ver.p[2]=='T' && self->ver.p[3]=='P' && self->ver.p[4]=='/')) { self->state_ = kFail; return pos; }
        pos = end_pos + 2;
        self->state_ = kFinishedStartLine;
    }
    return pos;
}
int main(void) {
  char buf[MAXLEN]; size_t n, cut; __CPROVER_assume(n <= MAXLEN && cut <= n);
  /* lemma: feeding a prefix without a complete first line must not consume or change state (resumability) */
  struct Parser p1 = { kInit }, p2 = { kInit };
  size_t r_full = parse_startline(&p1, buf, n);
  __CPROVER_assert(r_full <= n, "never consumes more than given");
  size_t r_pre = parse_startline(&p2, buf, cut);
  __CPROVER_assert(r_pre <= cut, "prefix: never consumes more than given");
  if (p1.state_ == kFinishedStartLine && r_full > cut) /* prefix ends inside the first line of a well-formed request */
    __CPROVER_assert(r_pre == 0 && p2.state_ == kInit, "incomplete first line: consume nothing, stay in kInit");
  return 0;
}
