"""C02 — eventx::TimerPool::Impl::cancel (modules/eventx/timer_pool.cpp): "once a timer has been disabled ... it is never invoked again".
A cancelled job's timer is DISABLED in cancel() itself - before its deletion is deferred to the loop (the loop may run a timer pass before
the deferred delete) or before it is deleted at once (loop not running); unknown token: false, nothing happens."""
import os
from verif import UnitSpec, Target
from plugins import StdFunction, StdVector, OpaqueString, Chrono, OpaqueTypes
TU = 'modules/eventx/timer_pool.cpp'
R = {'eventx_TimerPool_Impl_cancel': 'TPool_cancel', 'event_Event_disable': 'Tm_disable', 'event_Loop_isRunning': 'Loop_isRunning', 'event_Loop_run__tbox_event_Loop_Funcrr_Kstd_stringr': 'Loop_run'}
EARLY = 'typedef unsigned long v_htimer; struct v_Loop { char opaque; };\n'
PRELUDE = r'''
typedef struct eventx_TimerPool_Impl TPool; typedef struct cabinet_Token Token;
#define T(x) ((x) != 0)
static v_htimer g_timer; static _Bool g_running; static size_t g_disables, g_deferred, g_deleted;
'''
EXTERN = r'''
v_htimer v_cab__free(struct v_cab *c, Token *t)
__CPROVER_assigns()
__CPROVER_ensures(__CPROVER_return_value == g_timer)
;
_Bool Tm_disable(v_htimer t)
__CPROVER_requires(t == g_timer && t != 0 && g_deferred == 0 && g_deleted == 0)
__CPROVER_assigns(g_disables)
__CPROVER_ensures(g_disables == __CPROVER_old(g_disables) + 1)
;
_Bool Loop_isRunning(struct v_Loop *l)
__CPROVER_assigns()
__CPROVER_ensures(T(__CPROVER_return_value) == T(g_running))
;
unsigned long Loop_run(struct v_Loop *l, struct v_function *f, struct v_str *w)
__CPROVER_requires(g_disables == 1 && T(g_running) && T(f->engaged))                 /* disabled first: the deferred delete may come after a timer pass */
__CPROVER_assigns(g_deferred)
__CPROVER_ensures(g_deferred == 1)
;
void v_delete__v_htimer(v_htimer t)
__CPROVER_requires(t == g_timer && g_disables == 1 && !T(g_running))
__CPROVER_assigns(g_deleted)
__CPROVER_ensures(g_deleted == 1)
;
'''
SPEC = {
    ('prelude_early',): EARLY, ('prelude',): PRELUDE, ('after_protos',): EXTERN, ('stub', 'Tm_disable'): True, ('stub', 'Loop_isRunning'): True, ('stub', 'Loop_run'): True,
    ('contract', 'TPool_cancel'): r'''
__CPROVER_requires(__CPROVER_is_fresh(self, sizeof(*self)) && __CPROVER_is_fresh(token, sizeof(*token)) && (g_running == 0 || g_running == 1))
__CPROVER_assigns(g_disables, g_deferred, g_deleted)
__CPROVER_ensures(T(__CPROVER_return_value) == (g_timer != 0))
__CPROVER_ensures(g_timer == 0 ==> (g_disables == 0 && g_deferred == 0 && g_deleted == 0))
__CPROVER_ensures(g_timer != 0 ==> (g_disables == 1 && g_deferred == (T(g_running) ? 1 : 0) && g_deleted == (T(g_running) ? 0 : 1)))
''',
    ('ghost', 'TPool_cancel', 'entry'): 'g_disables = 0; g_deferred = 0; g_deleted = 0;',
}
H = lambda body: '\nvoid H(void)\n{\n' + body + '\n  __CPROVER_assert(0, "VACUITY-CANARY");\n}\n'
UNITS = [UnitSpec(name='timer_pool', tu=TU, filter='tbox::eventx', more_filters=[(TU, 'cabinet::Token'), (TU, 'tbox::event')], rename=R, spec=SPEC, emit=['tbox::eventx::TimerPool::Impl::cancel'],
    plugins=[StdFunction(), StdVector(), OpaqueString(), Chrono(abstract_time=True), OpaqueTypes({r'^(tbox::)?cabinet::Cabinet<.*>$': 'v_cab'})], model_headers=['fn_model.h', 'vec_model.h', 'misc_model.h'],
    opaque_records={'tbox::event::Loop': 'struct v_Loop', 'tbox::event::TimerEvent': 'handle:v_htimer', 'tbox::event::Event': 'handle:v_htimer'},
    targets=[Target('cancel', H('  TPool *p; Token *t; TPool_cancel(p, t);'), enforce='TPool_cancel', replace=['v_cab__free', 'Tm_disable', 'Loop_isRunning', 'Loop_run', 'v_delete__v_htimer'],
                    clause='TimerPool::cancel: the job timer is disabled at once, before its deletion is deferred or done; unknown token is a no-op')])]
