"""C05 — eventx::WorkThread (modules/eventx/work_thread.cpp): the single work thread, same discipline as the pool (thread_pool.py).

 guarded-by     stop_flag is only read or written with d_->lock held [found: cleanup() raised it with the lock released, the constructor wrote
                it after the worker had started - ThreadSanitizer data race, a notify between predicate and wait is lost - fixed 16c1f12]
 popOneTask     PRE lock held: the FRONT token is popped and released from the cabinet; every other waiting token moves up by exactly one.
 cancel         a task being executed: 2; a waiting task is removed, released from the cabinet and returned to the pool exactly once: 0;
                every other waiting task keeps its place relative to the others (an arbitrary tracked byte of an arbitrary other token ends
                up exactly one slot earlier iff it was behind the cancelled one) - first in, first out survives a cancel.
 threadProc     stop flag examined under the lock after every wake-up, no task taken once it is seen; the body runs once, lock NOT held,
                between register / unregister in the running set; completion posted after the body; record returned under the lock.
 cleanup        waiting tasks dropped exactly once under the lock, stop flag raised under the lock, the worker joined with the lock free and
                the stop request visible, data released; a second cleanup is a no-op.
"""
import os, importlib.util
from verif import UnitSpec, Target, VERIF
from plugins import StdFunction, StdVector, StdArray, Sync, Chrono, StringStreamSink, Syscalls, OpaqueString, OpaqueTypes
TU = 'modules/eventx/work_thread.cpp'
C = 'tbox::eventx::WorkThread::'
P = 'eventx_WorkThread_'
R = {P + 'execute__tbox_eventx_WorkThread_NonReturnFuncrr_tbox_eventx_WorkThread_NonReturnFuncrr_event_Loopp': 'WT_execute', P + 'cancel': 'WT_cancel', P + 'popOneTask': 'WT_popOneTask', P + 'threadProc': 'WT_threadProc', P + 'cleanup': 'WT_cleanup', P + 'shouldThreadExitWaiting': 'WT_shouldExit',
     'event_Loop_runInLoop__Ktbox_event_Loop_Funcr_Kstd_stringr': 'Loop_runInLoop_c', 'event_Loop_runInLoop__tbox_event_Loop_Funcrr_Kstd_stringr': 'Loop_runInLoop_m',
     'cabinet_Token_ctor__Ktbox_cabinet_Tokenr': 'Token_copy'}
EARLY = 'struct v_Loop { char opaque; };\n#define V_EQ_cabinet_Token(a, b) ((a)->id_ == (b)->id_ && (a)->pos_ == (b)->pos_)    /* Token::operator== (cabinet_token.h:43,47) */\n'
_s = importlib.util.spec_from_file_location('c05_tp', os.path.join(VERIF, 'specs', 'C05', 'thread_pool.py'))
tp = importlib.util.module_from_spec(_s); _s.loader.exec_module(tp)
EARLY_Q = EARLY + r"""
/* sizeof(cabinet::Token) == 16 (two size_t fields; checked by a static assertion in the harness).  erase(it) moves the tail down by one element: the ghost byte tracker of the memmove model is pointed at byte g_k of the tracked waiting token */
static size_t g_a, g_k, g_er;
#define V_ERASE_ONE_HOOK(v, k) do { g_er = (k); v_mc_off[0] = (g_a > (k)) ? (g_a - (k) - 1) * 16 + g_k : (size_t)-1; v_mc_off[1] = v_mc_off[0]; } while (0)
"""
PRELUDE = r"""
typedef struct eventx_WorkThread WT; typedef struct eventx_WorkThread_Data Data; typedef struct cabinet_Token Token; typedef struct eventx_WorkThread_Task Task; typedef struct v_vec_cabinet_Token TQ;
#define T(x) ((x) != 0)
#define Q(d) ((d)->undo_tasks_token_deque)
#define BYTE(tokp, k) (((const uint8_t *)(tokp))[k])
static WT *g_tp;
static size_t g_pos; static Token g_tok; static uint8_t g_byte;     /* cancel: where the token waits; byte g_k of another waiting token (at g_a) */
static _Bool g_in_doing;
static size_t g_cab_frees, g_pool_frees, g_body_calls, g_posted, g_inserted, g_erased;
static Task *g_cab_result; static Token g_freed_tok;
#ifndef V_QMAX
#define V_QMAX V_MAXSZ
#endif
"""
EXTERN_COMMON = tp.EXTERN_COMMON
GUARD = {('guarded_by', 'eventx_WorkThread_Data'): {'stop_flag': 'B->lock.held == 1', 'undo_tasks_cabinet': 'B->lock.held == 1', 'undo_tasks_token_deque': 'B->lock.held == 1', 'doing_tasks_token': 'B->lock.held == 1', 'task_pool': 'B->lock.held == 1'}}
SELF = '__CPROVER_requires(__CPROVER_is_fresh(self, sizeof(*self)) && __CPROVER_is_fresh(self->d_, sizeof(Data)))\n'
Q_FRESH = '__CPROVER_requires(Q(self->d_).size < V_QMAX && __CPROVER_is_fresh(Q(self->d_).data, (Q(self->d_).size ? Q(self->d_).size : 1) * sizeof(Token)))\n'
SPEC_Q = dict(GUARD)
SPEC_Q.update({
    ('prelude_early',): EARLY_Q, ('prelude',): PRELUDE, ('after_protos',): EXTERN_COMMON,
    ('contract', 'WT_popOneTask'): SELF + Q_FRESH + r"""
__CPROVER_requires(self->d_->lock.held == 1 && (Q(self->d_).size > 0 ==> (Q(self->d_).data[0].id_ == g_tok.id_ && Q(self->d_).data[0].pos_ == g_tok.pos_)))
__CPROVER_requires(g_k < 16 && ((g_a >= 1 && g_a < Q(self->d_).size) ==> BYTE(&Q(self->d_).data[g_a], g_k) == g_byte))
__CPROVER_assigns(g_tp, g_cab_frees, g_freed_tok, v_mc_off, __exc, Q(self->d_), __CPROVER_object_whole(Q(self->d_).data))
__CPROVER_frees(Q(self->d_).data)
__CPROVER_ensures(__CPROVER_old(Q(self->d_).size) == 0 ==> (__CPROVER_return_value == 0 && g_cab_frees == 0 && Q(self->d_).size == 0))
__CPROVER_ensures(__CPROVER_old(Q(self->d_).size) > 0 ==> (g_cab_frees == 1 && __CPROVER_return_value == g_cab_result && g_freed_tok.id_ == g_tok.id_ && g_freed_tok.pos_ == g_tok.pos_ && Q(self->d_).size == __CPROVER_old(Q(self->d_).size) - 1))      /* the FRONT token */
__CPROVER_ensures((g_a >= 1 && g_a < __CPROVER_old(Q(self->d_).size)) ==> BYTE(&Q(self->d_).data[g_a - 1], g_k) == g_byte)     /* everybody else moves up by exactly one: first in, first out */
__CPROVER_ensures(self->d_->lock.held == 1 && __exc == 0)
""",
    ('ghost', 'WT_popOneTask', 'entry'): 'g_tp = self; g_cab_frees = 0; __exc = 0; v_mc_off[0] = (g_a >= 1 ? (g_a - 1) * 16 + g_k : (size_t)-1); v_mc_off[1] = v_mc_off[0];',
    ('contract', 'WT_cancel'): SELF + Q_FRESH + r"""
__CPROVER_requires(self->d_->lock.held == 0 && g_pos < Q(self->d_).size && (g_in_doing == 0 || g_in_doing == 1))
__CPROVER_requires(Q(self->d_).data[g_pos].id_ == token.id_ && Q(self->d_).data[g_pos].pos_ == token.pos_)                /* the token waits at position g_pos */
__CPROVER_requires(g_k < 16 && g_a < Q(self->d_).size && !(Q(self->d_).data[g_a].id_ == token.id_ && Q(self->d_).data[g_a].pos_ == token.pos_) && BYTE(&Q(self->d_).data[g_a], g_k) == g_byte)     /* another waiting token */
__CPROVER_assigns(g_tp, g_er, g_cab_frees, g_pool_frees, g_freed_tok, v_mc_off, v_noblock_mutex, __exc, self->d_->lock.held, Q(self->d_), __CPROVER_object_whole(Q(self->d_).data))
__CPROVER_ensures(self->d_->lock.held == 0)
__CPROVER_ensures(T(g_in_doing) ==> (__CPROVER_return_value == 2 && g_cab_frees == 0 && g_pool_frees == 0 && Q(self->d_).size == __CPROVER_old(Q(self->d_).size)))
__CPROVER_ensures(!T(g_in_doing) ==> (__CPROVER_return_value == 0 && g_cab_frees == 1 && g_pool_frees == 1 && g_freed_tok.id_ == token.id_ && g_freed_tok.pos_ == token.pos_ && Q(self->d_).size == __CPROVER_old(Q(self->d_).size) - 1))
/* every other waiting task keeps its place in the queue relative to the others: the ones behind the cancelled task move up by exactly one */
__CPROVER_ensures(!T(g_in_doing) ==> (g_er <= g_pos && g_a != g_er && BYTE(&Q(self->d_).data[g_a > g_er ? g_a - 1 : g_a], g_k) == g_byte))
__CPROVER_ensures(T(g_in_doing) ==> BYTE(&Q(self->d_).data[g_a], g_k) == g_byte)
""",
    ('ghost', 'WT_cancel', 'entry'): 'g_tp = self; g_cab_frees = 0; g_pool_frees = 0; v_noblock_mutex = 0; __exc = 0; g_er = (size_t)-1;',
    ('loop', 'WT_cancel__find0', 1): r"""
__CPROVER_assigns(i)
__CPROVER_loop_invariant(i <= n && (first == Q(g_tp->d_).data ==> i <= g_pos))
__CPROVER_decreases(n - i)
""",
})
# ---------------------------------------------------------------- worker and cleanup: size-only queue
EXTERN_W = EXTERN_COMMON + r"""
/* blocked on the condition variable: the lock is released, other threads submit / cancel / raise the stop flag */
void v_cv_wait(struct v_cv *cv, struct v_ulock *lk)
__CPROVER_requires(T(lk->owns) && lk->m == &g_tp->d_->lock && g_tp->d_->lock.held == 1 && cv == &g_tp->d_->cond_var)
__CPROVER_assigns(Q(g_tp->d_).size, g_tp->d_->stop_flag)
__CPROVER_ensures(Q(g_tp->d_).size < V_MAXSZ && (g_tp->d_->stop_flag == 0 || g_tp->d_->stop_flag == 1))
;
void v_fn_call__void(struct v_function *f)
__CPROVER_requires(g_tp->d_->lock.held == 0 && g_inserted == g_erased + 1 && g_body_calls + 1 == g_inserted)        /* the body: once, lock not held, registered as running */
__CPROVER_assigns(g_body_calls)
__CPROVER_ensures(g_body_calls == __CPROVER_old(g_body_calls) + 1)
;
unsigned long Loop_runInLoop_c(struct v_Loop *self, struct v_function *func, struct v_str *what)
__CPROVER_requires(g_tp->d_->lock.held == 0 && g_body_calls == g_inserted && g_inserted == g_erased + 1)        /* completion callback: after the body, before the task is forgotten */
__CPROVER_assigns(g_posted)
__CPROVER_ensures(g_posted == __CPROVER_old(g_posted) + 1)
;
unsigned long Loop_runInLoop_m(struct v_Loop *self, struct v_function *func, struct v_str *what) __CPROVER_assigns() __CPROVER_ensures(1);
void v_thread_join(struct v_thread *t)
__CPROVER_requires(t == &g_tp->d_->work_thread && g_tp->d_->lock.held == 0 && T(g_tp->d_->stop_flag) && g_joins == 0)      /* joined with the lock free and the stop request visible, else the worker can never leave */
__CPROVER_assigns(g_joins)
__CPROVER_ensures(g_joins == 1)
;
"""
POP_STUB = r"""
__CPROVER_requires(self == g_tp && self->d_->lock.held == 1 && !T(self->d_->stop_flag))      /* no task is taken once the stop flag is seen */
__CPROVER_assigns(Q(self->d_).size)
__CPROVER_ensures(__CPROVER_return_value == 0 || __CPROVER_is_fresh(__CPROVER_return_value, sizeof(Task)))
__CPROVER_ensures(Q(self->d_).size < V_MAXSZ)
"""
SPEC_W = dict(GUARD)
SPEC_W.update({
    ('prelude_early',): EARLY, ('prelude',): PRELUDE + 'static size_t g_joins, g_deletes, g_waiting0; static Data *g_d0;\n', ('after_protos',): EXTERN_W,
    ('stub', 'WT_popOneTask'): True, ('contract', 'WT_popOneTask'): POP_STUB,
    ('stub', 'Loop_runInLoop_c'): True, ('stub', 'Loop_runInLoop_m'): True,
    ('contract', 'WT_threadProc'): SELF + r"""
__CPROVER_requires(self->d_->lock.held == 0 && Q(self->d_).size < V_MAXSZ && (self->d_->stop_flag == 0 || self->d_->stop_flag == 1))
__CPROVER_assigns(g_tp, g_cab_frees, g_pool_frees, g_body_calls, g_posted, g_inserted, g_erased, v_noblock_mutex, __exc, self->d_->lock.held, self->d_->stop_flag, Q(self->d_).size)
__CPROVER_ensures(self->d_->lock.held == 0)
__CPROVER_ensures(g_inserted == g_erased && g_body_calls == g_inserted && g_pool_frees == g_erased)         /* every task taken: registered, run once, unregistered, record returned */
""",
    ('hoist_locks', 'WT_threadProc'): True,
    ('ghost', 'WT_threadProc', 'entry'): 'g_tp = self; g_pool_frees = 0; g_body_calls = 0; g_posted = 0; g_inserted = 0; g_erased = 0; v_noblock_mutex = 0; __exc = 0;',
    ('loop', 'WT_threadProc', 1): r"""
__CPROVER_assigns(g_pool_frees, g_body_calls, g_posted, g_inserted, g_erased, __exc, self->d_->lock.held, self->d_->stop_flag, lk__1, Q(self->d_).size)
__CPROVER_loop_invariant(self->d_->lock.held == 0 && g_inserted == g_erased && g_body_calls == g_inserted && g_pool_frees == g_erased && Q(self->d_).size < V_MAXSZ && (self->d_->stop_flag == 0 || self->d_->stop_flag == 1))
""",
    ('loop', 'WT_threadProc__cvwait_bind0', 1): r"""
__CPROVER_assigns(__exc, Q(self->d_).size, self->d_->stop_flag)
__CPROVER_loop_invariant(self == g_tp && T(lk->owns) && lk->m == &self->d_->lock && self->d_->lock.held == 1 && cv == &self->d_->cond_var && Q(self->d_).size < V_MAXSZ && (self->d_->stop_flag == 0 || self->d_->stop_flag == 1))
""",
    ('contract', 'WT_cleanup'): r"""
__CPROVER_requires(__CPROVER_is_fresh(self, sizeof(*self)) && (self->d_ == 0 || __CPROVER_is_fresh(self->d_, sizeof(Data))))
__CPROVER_requires(self->d_ != 0 ==> (self->d_->lock.held == 0 && Q(self->d_).size < V_MAXSZ && (self->d_->stop_flag == 0 || self->d_->stop_flag == 1)))
__CPROVER_assigns(g_tp, g_d0, g_cab_frees, g_pool_frees, g_freed_tok, g_joins, g_deletes, g_waiting0, v_noblock_mutex, __exc, self->d_, v_vec_cabinet_Token_cell; self->d_ != 0: self->d_->lock.held, self->d_->stop_flag, Q(self->d_).size)
__CPROVER_frees(self->d_)
__CPROVER_ensures(self->d_ == 0 && __exc == 0)
__CPROVER_ensures(g_d0 == 0 ==> (g_joins == 0 && g_cab_frees == 0))
__CPROVER_ensures(g_d0 != 0 ==> (g_cab_frees == g_waiting0 && g_pool_frees == g_waiting0 && g_joins == 1 && __CPROVER_was_freed(__CPROVER_old(self->d_))))      /* every waiting task dropped once; the worker joined; the data released */
""",
    ('ghost', 'WT_cleanup', 'entry'): 'g_tp = self; g_d0 = self->d_; g_cab_frees = 0; g_pool_frees = 0; g_joins = 0; g_deletes = 0; v_noblock_mutex = 0; __exc = 0; g_waiting0 = self->d_ ? Q(self->d_).size : 0;',
    ('loop', 'WT_cleanup', 1): r"""
__CPROVER_assigns(g_cab_frees, g_pool_frees, g_freed_tok, __exc, Q(self->d_).size, v_vec_cabinet_Token_cell)
__CPROVER_loop_invariant(self->d_ == g_d0 && self->d_->lock.held == 1 && __exc == 0 && g_cab_frees == g_pool_frees && Q(self->d_).size <= g_waiting0 && g_cab_frees + Q(self->d_).size == g_waiting0)
__CPROVER_decreases(Q(self->d_).size)
""",
})
# ---------------------------------------------------------------- submission
EXTERN_S = EXTERN_COMMON + r"""
void v_q_hook(const void *v, int op) { if (op == 1) __CPROVER_assert(g_tp->d_->lock.held == 1 && g_cab_allocs == 1, "the queue grows only under the lock, by the token just issued"); }
Task *v_pool__alloc(struct v_pool *p) __CPROVER_requires(g_tp->d_->lock.held == 1 && g_allocs == 0) __CPROVER_assigns(g_allocs) __CPROVER_ensures(g_allocs == 1 && __CPROVER_return_value == g_item);
Token v_taskcab__alloc(struct v_taskcab *c, Task *t) __CPROVER_requires(g_tp->d_->lock.held == 1 && t == g_item && g_cab_allocs == 0) __CPROVER_assigns(g_cab_allocs)
  __CPROVER_ensures(g_cab_allocs == 1 && __CPROVER_return_value.id_ == g_tok.id_ && __CPROVER_return_value.pos_ == g_tok.pos_);
"""
SPEC_S = dict(GUARD)
SPEC_S.update({
    ('prelude_early',): EARLY + 'void v_q_hook(const void *v, int op);\n#undef V_ABS_HOOK\n#define V_ABS_HOOK(v, op) v_q_hook((const void *)(v), op)\n',
    ('prelude',): PRELUDE.replace('g_cab_frees,', 'g_cab_frees, g_allocs, g_cab_allocs,') + 'static Task *g_item;\n', ('after_protos',): EXTERN_S,
    ('contract', 'WT_execute'): r"""
__CPROVER_requires(__CPROVER_is_fresh(self, sizeof(*self)) && (self->d_ == 0 || __CPROVER_is_fresh(self->d_, sizeof(Data))) && __CPROVER_is_fresh(backend_task, sizeof(*backend_task)) && __CPROVER_is_fresh(main_cb, sizeof(*main_cb)) && __CPROVER_is_fresh(g_item, sizeof(Task)))
__CPROVER_requires(self->d_ != 0 ==> (self->d_->lock.held == 0 && Q(self->d_).size < V_MAXSZ - 1) && g_tok.id_ != 0)
__CPROVER_assigns(g_tp, g_allocs, g_cab_allocs, v_noblock_mutex, *g_item, *backend_task, *main_cb, v_vec_cabinet_Token_cell; self->d_ != 0: self->d_->lock.held, Q(self->d_).size)
__CPROVER_ensures(self->d_ == 0 ==> (__CPROVER_return_value.id_ == 0 && g_allocs == 0))                     /* after cleanup: refused with a null token, nothing queued */
__CPROVER_ensures(self->d_ != 0 ==> (self->d_->lock.held == 0 && g_allocs == 1 && g_cab_allocs == 1 && Q(self->d_).size == __CPROVER_old(Q(self->d_).size) + 1 &&
                  __CPROVER_return_value.id_ == g_tok.id_ && __CPROVER_return_value.pos_ == g_tok.pos_ && g_item->token.id_ == g_tok.id_ && g_item->token.pos_ == g_tok.pos_ &&
                  g_item->main_loop == (main_loop != 0 ? main_loop : self->d_->default_main_loop)))         /* one record, one token (returned and stored in the record), queued once at the back */
""",
    ('ghost', 'WT_execute', 'entry'): 'g_tp = self; g_allocs = 0; g_cab_allocs = 0; v_noblock_mutex = 0;',
})
ST_W = ['v_set__insert', 'v_set__erase', 'v_pool__free', 'v_cv_wait', 'v_fn_call__void', 'Loop_runInLoop_c', 'Loop_runInLoop_m', 'WT_popOneTask']
H = lambda body: '\nvoid H(void)\n{\n  __CPROVER_assert(sizeof(struct cabinet_Token) == 16, "token layout the byte tracker relies on");\n' + body + '\n  __CPROVER_assert(0, "VACUITY-CANARY");\n}\n'
def COMMON(abstract_q): return dict(tu=TU, filter='tbox::eventx', more_filters=[(TU, 'cabinet::Token'), (TU, 'tbox::event')], rename=R,
    plugins=[StdFunction(), StdVector(abstract={'struct cabinet_Token': '1'} if abstract_q else None), StdArray(), Sync(), Chrono(abstract_time=True), StringStreamSink(), Syscalls(), OpaqueString(),
             OpaqueTypes({r'^std::set<.*>$': 'v_set', r'^std::_Rb_tree_const_iterator<.*>$': 'v_set_it', r'^(tbox::)?cabinet::Cabinet<.*Task>$': 'v_taskcab', r'^(tbox::)?ObjectPool<.*>$': 'v_pool'})],
    model_headers=['fn_model.h', 'vec_model.h', 'sync_model.h', 'misc_model.h'], opaque_records={'tbox::event::Loop': 'struct v_Loop'})
UNITS = [
  UnitSpec(name='work_thread_queue', spec=SPEC_Q, emit=[C + 'popOneTask', C + 'cancel'], targets=[
      Target('popOneTask', H('  WT *p; WT_popOneTask(p);'), enforce='WT_popOneTask', replace=['v_taskcab__free'], timeout=900, clause='the FRONT waiting task is taken; every other one moves up by exactly one (FIFO)', **tp.BQ),
      Target('cancel', H('  WT *p; Token t; WT_cancel(p, t);'), enforce='WT_cancel', replace=tp.ST_Q, timeout=900, clause='cancel: executing: 2; a waiting task is removed and released exactly once; every other waiting task keeps its order', **tp.BQ)], **COMMON(False)),
  UnitSpec(name='work_thread_worker', spec=SPEC_W, emit=[C + 'threadProc', C + 'cleanup'], targets=[
      Target('threadProc', H('  WT *p; WT_threadProc(p);'), enforce='WT_threadProc', replace=ST_W, timeout=900,
             clause='worker: stop flag examined under the lock after each wake-up; no task taken once it is seen; body once, outside the lock, between register/unregister; completion posted after the body; record returned under the lock'),
      Target('cleanup', H('  WT *p; WT_cleanup(p);'), enforce='WT_cleanup', replace=['v_taskcab__free', 'v_pool__free', 'v_thread_join'], timeout=600,
             clause='cleanup: every waiting task dropped exactly once under the lock, stop flag raised under the lock, the worker joined with the lock free, data released; idempotent')], **COMMON(True)),
  UnitSpec(name='work_thread_submit', spec=SPEC_S, emit=[C + 'execute'], targets=[
      Target('execute', H('  WT *p; struct v_function *b, *m; struct v_Loop *l; WT_execute(p, b, m, l);'), enforce='WT_execute', replace=['v_pool__alloc', 'v_taskcab__alloc'], timeout=600,
             clause='execute: one task record, one token (returned and stored), queued exactly once at the back, all under the lock; refused after cleanup')], **COMMON(True)),
]
REPLAY_SOURCES = ['modules/eventx/work_thread.cpp']
def native_replay(u, t, o, w, workdir):
    """a failed guarded-by obligation is replayed under ThreadSanitizer (construct / execute / cleanup cycles)"""
    import replay as rp
    if 'v_guarded__' in getattr(o, 'name', str(o)):
        L = '/repo/_build/modules'
        libs = ['%s/event/libtbox_event.a' % L, '%s/util/libtbox_util.a' % L, '%s/base/libtbox_base.a' % L]
        return rp.tsan_attempt('work_thread_stop_flag', REPLAY_SOURCES, os.path.join(workdir, 'replay'), extra=libs)
    return {'reproduced': False, 'note': 'no native driver for this obligation'}
