// native replay driver for network::BufferedFd on real pipes with the real event loop: every scenario checks that the
// peer receives exactly the bytes handed to send(), in order, and that send-complete fires only on an empty queue.
#include <cstdio>
#include <cstdlib>
#include <cstring>
#include <string>
#include <vector>
#include <unistd.h>
#include <fcntl.h>
#include <tbox/event/loop.h>
#include <tbox/event/timer_event.h>
#include <tbox/network/buffered_fd.h>
#include <tbox/base/scope_exit.hpp>
using namespace tbox; using namespace tbox::event; using namespace tbox::network;

static std::string pattern(size_t off, size_t n) { std::string s(n, 0); for (size_t i = 0; i < n; ++i) s[i] = (char)((off + i) * 131 + 7); return s; }

// scenario A: send() before enable(); B: chained sends from the send-complete callback with a slow reader; C: many small sends
static int scenario(int which) {
  int fds[2]; if (pipe(fds)) return 2;
  fcntl(fds[0], F_SETFL, O_NONBLOCK);
  Loop *loop = Loop::New(); SetScopeExitAction([loop] { delete loop; });
  BufferedFd bfd(loop); bfd.initialize(util::Fd(fds[1]), BufferedFd::kWriteOnly);
  std::string sent, got; int completes = 0; int chain = 0; bool bad_complete = false;
  auto do_send = [&](size_t n) { std::string d = pattern(sent.size(), n); sent += d; bfd.send(d.data(), d.size()); };
  bfd.setSendCompleteCallback([&] { ++completes; if (bfd.send_buff_.readableSize() != 0) bad_complete = true;
      if (which == 1 && chain < 8) { ++chain; do_send(100000); } });
  if (which == 0) { do_send(5); bfd.enable(); }
  else if (which == 1) { bfd.enable(); do_send(100000); }
  else { bfd.enable(); for (int i = 0; i < 300; ++i) do_send(1 + (i * 37) % 700); }
  // slow reader: a timer drains the pipe in small pieces
  TimerEvent *rd = loop->newTimerEvent(); rd->initialize(std::chrono::milliseconds(2), Event::Mode::kPersist);
  int idle = 0;
  rd->setCallback([&] { char buf[20000]; ssize_t r = read(fds[0], buf, sizeof(buf)); if (r > 0) { got.append(buf, r); idle = 0; } else if (++idle > 150) loop->exitLoop(); });
  rd->enable();
  loop->exitLoop(std::chrono::seconds(20));
  loop->runLoop();
  delete rd; close(fds[0]);
  if (bad_complete) { printf("VIOLATION: send-complete fired while the send queue was not empty (scenario %d)\n", which); return 1; }
  if (got != sent) { size_t i = 0; while (i < got.size() && i < sent.size() && got[i] == sent[i]) ++i;
    printf("VIOLATION: peer received %zu of %zu bytes handed to send(); first difference at offset %zu (scenario %d: %s)\n", got.size(), sent.size(), i, which,
           which == 0 ? "send before enable" : which == 1 ? "sends chained from the send-complete callback, slow reader" : "many small sends"); return 1; }
  return 0;
}
int main(int argc, char **argv) {
  if (argc >= 3 && !strcmp(argv[1], "scenario")) return scenario(atoi(argv[2]));
  for (int s = 0; s < 3; ++s) if (scenario(s)) { printf("input: scenario %d\n", s); return 1; }
  return 0;
}
