#include <stddef.h>
#include <stdint.h>
#include <stdbool.h>
#define POSMAX ((size_t)-1)
struct Token { size_t id_; size_t pos_; };
struct Cell { size_t id; union { void *obj_ptr; size_t next_free; }; };
struct vec_Cell { struct Cell *data; size_t size; size_t cap; };
struct Cabinet { size_t last_id_; struct vec_Cell cells_; size_t first_free_; size_t count_; };
size_t g_i, g_j;   /* two tracked cell indices */
size_t g_dead;     /* a token id that has been freed */
#define C(c,i) ((c)->cells_.data[i])
#define FREEP(c,p) ((p) == POSMAX || ((p) < (c)->cells_.size && C(c,p).id == 0))
/* pointwise representation invariant, instantiated at tracked indices i, j */
#define INV1(c,i) ((i) < (c)->cells_.size ==> ( C(c,i).id <= (c)->last_id_ && (C(c,i).id == 0 ==> (FREEP(c, C(c,i).next_free) && C(c,i).next_free != (c)->first_free_ && C(c,i).next_free != (i))) ))
#define INV2(c,i,j) (((i) < (c)->cells_.size && (j) < (c)->cells_.size && (i) != (j)) ==> ( \
      ((C(c,i).id != 0 && C(c,j).id != 0) ==> C(c,i).id != C(c,j).id) && \
      ((C(c,i).id == 0 && C(c,j).id == 0 && C(c,i).next_free != POSMAX) ==> C(c,i).next_free != C(c,j).next_free) ))
#define INVG(c) (FREEP(c,(c)->first_free_) && (c)->cells_.size <= (c)->cells_.cap && (c)->cells_.cap < 1000000 && (c)->last_id_ < POSMAX - 1)
#define INV(c) (INVG(c) && INV1(c,g_i) && INV1(c,g_j) && INV2(c,g_i,g_j))
#define DEAD(c) (g_dead != 0 && g_dead <= (c)->last_id_ && (g_i < (c)->cells_.size ==> C(c,g_i).id != g_dead))

/* Cabinet<T>::free as printed */
void *Cabinet_free(struct Cabinet *self, const struct Token *token)
__CPROVER_requires(__CPROVER_is_fresh(self, sizeof(*self)) && __CPROVER_is_fresh(token, sizeof(*token)))
__CPROVER_requires(self->cells_.cap == 8 && __CPROVER_is_fresh(self->cells_.data, 8 * sizeof(struct Cell)))
__CPROVER_requires(INV(self) && DEAD(self) && self->count_ > 0)
__CPROVER_assigns(self->first_free_, self->count_, __CPROVER_object_whole(self->cells_.data))
__CPROVER_ensures(INV(self) && DEAD(self))
__CPROVER_ensures(token->pos_ < self->cells_.size && token->id_ != 0 ==> C(self, token->pos_).id != token->id_)   /* the token is dead afterwards */
{
    if (token->id_ == 0 || token->pos_ >= self->cells_.size)
        return NULL;
    struct Cell *cell = &self->cells_.data[token->pos_];   /* cells_.at(pos): in range here */
    if (cell->id == token->id_) {
        void *ptr = cell->obj_ptr;
        cell->id = 0;
        cell->next_free = self->first_free_;
        self->first_free_ = token->pos_;
        --self->count_;
        return ptr;
    }
    return NULL;
}
void harness(void) { struct Cabinet *c; struct Token *t; Cabinet_free(c, t); }
