#!/usr/bin/env python3
"""setup_cmd: checks the tool versions, byte-compiles the tools. Builds nothing from /repo
(every check re-extracts from the working tree itself)."""
import subprocess, sys, py_compile, os, glob
HERE = os.path.dirname(os.path.abspath(__file__))
ok = True
for tool, arg in (('cbmc', '--version'), ('goto-cc', '--version'), ('goto-instrument', '--version'), ('clang++', '--version'), ('g++', '--version')):
    try:
        out = subprocess.run([tool, arg], stdout=subprocess.PIPE, stderr=subprocess.STDOUT, universal_newlines=True, timeout=60).stdout.split('\n')[0]
        print('%-16s %s' % (tool, out))
    except Exception as e:
        print('%-16s MISSING (%s)' % (tool, e)); ok = False
for f in glob.glob(os.path.join(HERE, '*.py')) + glob.glob(os.path.join(HERE, '..', 'specs', '*', '*.py')):
    try: py_compile.compile(f, doraise=True)
    except Exception as e:
        print('compile error in %s: %s' % (f, e)); ok = False
sys.exit(0 if ok else 1)
