// AsyncSink back end: records with text and a record with EMPTY text as the last one before disable().  Every record handed to the enabled
// sink must come out of the back end exactly once, complete, before disable() returns.
#include <tbox/base/log.h>
#include <tbox/base/log_impl.h>
#include <tbox/log/async_sink.h>
#include <cstdio>
#include <cstring>
#include <string>
#include <vector>
using namespace tbox::log;
struct CaptureSink : public AsyncSink {
    std::vector<std::string> lines; std::string cur; int flushes = 0;
    void push(const LogContent *c) { onLogFrontEnd(c); }
    virtual void endline() override { lines.push_back(std::string(cache_.begin(), cache_.end())); cache_.clear(); }
    virtual void flush() override { ++flushes; }
};
int main(int argc, char **argv) {
    // "longname": a source file path longer than the 1 KiB formatting buffer (legal: PATH_MAX is 4096) - under ASan the over-read of that buffer shows
    static std::string longname(1500, 'a'); bool use_long = argc > 1 && std::string(argv[1]) == "longname";
    CaptureSink sink;
    AsyncSink::Config cfg; cfg.buff_size = 1024; cfg.buff_min_num = 2; cfg.buff_max_num = 4; cfg.interval = 50;
    sink.setConfig(cfg);
    sink.setLevel("", LOG_LEVEL_TRACE);
    sink.enable();
    LogContent c; memset(&c, 0, sizeof(c));
    c.thread_id = 1; c.module_id = "m"; c.func_name = "f"; c.file_name = use_long ? longname.c_str() : "x.cpp"; c.line = 7; c.level = LOG_LEVEL_INFO;
    const char *t1 = "first"; c.text_ptr = t1; c.text_len = 5; sink.push(&c);
    c.line = 8; c.text_ptr = ""; c.text_len = 0; sink.push(&c);           // empty text, last record of the batch
    sink.disable();
    printf("records out of the back end: %zu (expected 2), flushes: %d\n", sink.lines.size(), sink.flushes);
    for (auto &l : sink.lines) printf("  | %s\n", l.c_str());
    if (sink.lines.size() != 2 || sink.lines[1].find(":8") == std::string::npos) {
        printf("VIOLATION: a record logged before disable() never came out of the async back end (empty text as the last record)\n");
        return 1;
    }
    return 0;
}
