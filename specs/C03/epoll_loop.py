"""C03 — EpollLoop::runLoop (modules/event/engines/epoll/loop.cpp): the per-pass dispatch.

For every ready entry the kernel reported, the shared record is looked up BY DESCRIPTOR in this pass (never taken from the kernel's
cookie: an earlier callback of the pass may have freed the record, and the pool may have handed it to another descriptor), an
entry whose descriptor has no record any more is skipped, and the record is kept alive (ref + 1) for exactly the duration of its
dispatch, then released.  Callbacks may do anything to the loop's records (stub: havoc).  [found: stale record used / reused in
the same pass - fixed c081c20]
The pass structure (begin, expired timers, descriptors, deferred tasks, end) is checked as call order.  The loop itself does not
terminate by design (kForever), so no variant is given for the outer loop.
"""
import os
from verif import UnitSpec, Target
from plugins import StdFunction, StdVector, Sync, Chrono, StringStreamSink, OpaqueString, Syscalls, OpaqueTypes
TU = 'modules/event/engines/epoll/loop.cpp'
R = {'event_EpollLoop_runLoop': 'EL_runLoop', 'event_EpollFdEvent_OnEventCallback': 'Ev_OnEventCallback', 'event_EpollLoop_unrefFdSharedData': 'EL_unref',
     'event_CommonLoop_runThisBeforeLoop': 'CL_before', 'event_CommonLoop_runThisAfterLoop': 'CL_after', 'event_CommonLoop_beginLoopProcess': 'CL_begin', 'event_CommonLoop_endLoopProcess': 'CL_end',
     'event_CommonLoop_handleExpiredTimers': 'CL_timers', 'event_CommonLoop_handleNextFunc': 'CL_next', 'event_CommonLoop_getWaitTime': 'CL_wait'}
EARLY = 'typedef unsigned long v_handle; struct v_CLoop { char opaque; }; struct v_Loop { char opaque; };\n'
PRELUDE = r'''
typedef struct event_EpollLoop EL; typedef struct event_EpollFdSharedData SD;
#define T(x) ((x) != 0)
static EL *g_l; static SD *g_rec; static _Bool g_present;
static int g_phase;                /* within a pass: 0 idle, 1 begun, 2 timers done, 3 next-funcs done */
static int g_step;                 /* within one ready entry: 0 nothing, 1 looked up, 2 dispatched */
static int g_lookup_fd; static int g_ref_before; static size_t g_dispatches, g_skips;
'''
EXTERN = r'''
int v_sys_epoll_wait(int epfd, struct epoll_event *evs, int maxevents, int timeout)
__CPROVER_requires(g_phase == 0 && maxevents > 0 && evs == &v_vec_epoll_event_cell)          /* the kernel fills the (abstract) entry array of exactly maxevents entries */
__CPROVER_assigns(v_vec_epoll_event_cell)
__CPROVER_ensures(__CPROVER_return_value >= -1 && __CPROVER_return_value <= maxevents && __CPROVER_return_value <= (1 << 20))      /* assumption: never more ready entries than descriptors a process can have (<= 2^20) */
;
long CL_wait(struct v_CLoop *l)
__CPROVER_assigns()
__CPROVER_ensures(1)
;
void CL_before(struct v_CLoop *l)
__CPROVER_assigns()
__CPROVER_ensures(1)
;
void CL_after(struct v_CLoop *l)
__CPROVER_requires(g_phase == 0)
__CPROVER_assigns()
__CPROVER_ensures(1)
;
void CL_begin(struct v_CLoop *l)
__CPROVER_requires(g_phase == 0)
__CPROVER_assigns(g_phase)
__CPROVER_ensures(g_phase == 1)
;
void CL_timers(struct v_CLoop *l)
__CPROVER_requires(g_phase == 1)
__CPROVER_assigns(g_phase, g_l->keep_running_)
__CPROVER_ensures(g_phase == 2 && (g_l->keep_running_ == 0 || g_l->keep_running_ == 1))
;
void CL_next(struct v_CLoop *l)
__CPROVER_requires(g_phase == 2 && g_step == 0)
__CPROVER_assigns(g_phase, g_l->keep_running_)
__CPROVER_ensures(g_phase == 3 && (g_l->keep_running_ == 0 || g_l->keep_running_ == 1))
;
void CL_end(struct v_CLoop *l)
__CPROVER_requires(g_phase == 3)
__CPROVER_assigns(g_phase)
__CPROVER_ensures(g_phase == 0)
;
long v_umap__find(struct v_umap *m, int fd)
__CPROVER_requires(m == &g_l->fd_data_map_ && g_phase == 2 && g_step == 0)
__CPROVER_assigns(g_step, g_lookup_fd)
__CPROVER_ensures(g_step == (T(g_present) ? 1 : 0) && g_lookup_fd == fd && (__CPROVER_return_value != 0) == T(g_present))          /* absent: the entry is skipped, nothing pending */
;
long v_umap__end(struct v_umap *m)
__CPROVER_assigns()
__CPROVER_ensures(__CPROVER_return_value == 0)
;
SD **v_map_it_second(long it)
__CPROVER_requires(it != 0 && g_step == 1)
__CPROVER_assigns(g_ref_before)
__CPROVER_ensures(__CPROVER_return_value == &g_rec && g_ref_before == g_rec->ref)
;
/* dispatch of one ready descriptor: user callbacks run in here and may enable, disable, create and destroy any event */
void Ev_OnEventCallback(uint32_t events, void *obj)
__CPROVER_requires(g_step == 1 && obj == (void *)g_rec)                              /* the record found by descriptor in THIS pass, not the kernel's cookie */
__CPROVER_requires(g_rec->ref == g_ref_before + 1)                                    /* kept alive while its subscribers are called back */
__CPROVER_assigns(g_step, g_dispatches, g_present, g_l->keep_running_)
__CPROVER_ensures(g_step == 2 && g_dispatches == __CPROVER_old(g_dispatches) + 1 && (g_l->keep_running_ == 0 || g_l->keep_running_ == 1) && (g_present == 0 || g_present == 1))
;
void EL_unref(EL *self, int fd)
__CPROVER_requires(g_step == 2 && fd == g_lookup_fd && self == g_l)                   /* released after the dispatch, by the same descriptor */
__CPROVER_assigns(g_step, g_rec->ref)
__CPROVER_ensures(g_step == 0 && g_rec->ref == __CPROVER_old(g_rec->ref) - 1)
;
'''
SPEC = {
    ('prelude_early',): EARLY, ('prelude',): PRELUDE, ('after_protos',): EXTERN, ('need_records',): ['tbox::event::EpollFdSharedData'],
    ('stub', 'Ev_OnEventCallback'): True, ('stub', 'EL_unref'): True, ('stub', 'CL_before'): True, ('stub', 'CL_after'): True, ('stub', 'CL_begin'): True, ('stub', 'CL_end'): True,
    ('stub', 'CL_timers'): True, ('stub', 'CL_next'): True, ('stub', 'CL_wait'): True,
    ('contract', 'EL_runLoop'): r'''
__CPROVER_requires(__CPROVER_is_fresh(self, sizeof(*self)) && self->max_loop_entries_ >= 1 && self->max_loop_entries_ <= (1 << 20) && __CPROVER_is_fresh(g_rec, sizeof(SD)) && g_rec->ref >= 1 && g_rec->ref < 1000 && (g_present == 0 || g_present == 1))
__CPROVER_requires(__exc == 0)
__CPROVER_assigns(g_l, g_phase, g_step, g_lookup_fd, g_ref_before, g_dispatches, g_present, __exc, v_mc_off, v_vec_epoll_event_cell, self->keep_running_, self->max_loop_entries_, g_rec->ref)
__CPROVER_ensures(g_phase == 0 && g_step == 0 && __exc == 0 && g_rec->ref == __CPROVER_old(g_rec->ref))                /* every keep-alive reference was given back */
''',
    ('ghost', 'EL_runLoop', 'entry'): 'g_l = self; g_phase = 0; g_step = 0; g_dispatches = 0; int g_ref0 = g_rec->ref;',
    ('loop', 'EL_runLoop', 1): r'''
__CPROVER_assigns(__first1, g_phase, g_step, g_lookup_fd, g_ref_before, g_dispatches, g_present, __exc, v_mc_off, self->keep_running_, self->max_loop_entries_, g_rec->ref, events.size, v_vec_epoll_event_cell)
__CPROVER_loop_invariant(g_phase == 0 && g_step == 0 && __exc == 0 && g_rec->ref == g_ref0 && (self->keep_running_ == 0 || self->keep_running_ == 1) && (__first1 == 0 || __first1 == 1))
__CPROVER_loop_invariant(self->max_loop_entries_ >= 1 && self->max_loop_entries_ <= (3 << 19) && events.size == (size_t)self->max_loop_entries_ && (g_present == 0 || g_present == 1))
''',
    ('loop', 'EL_runLoop', 2): r'''
__CPROVER_assigns(i, g_step, g_lookup_fd, g_ref_before, g_dispatches, g_present, __exc, self->keep_running_, g_rec->ref, v_vec_epoll_event_cell)
__CPROVER_loop_invariant(i >= 0 && (fds < 0 || i <= fds) && g_phase == 2 && g_step == 0 && __exc == 0 && g_rec->ref == g_ref0 && (self->keep_running_ == 0 || self->keep_running_ == 1) && (g_present == 0 || g_present == 1))
__CPROVER_decreases(fds - i)
''',
}
H = lambda body: '\nvoid H(void)\n{\n' + body + '\n  __CPROVER_assert(0, "VACUITY-CANARY");\n}\n'
ST = ['v_sys_epoll_wait', 'CL_wait', 'CL_before', 'CL_after', 'CL_begin', 'CL_timers', 'CL_next', 'CL_end', 'v_umap__find', 'v_umap__end', 'v_map_it_second', 'Ev_OnEventCallback', 'EL_unref']
UNITS = [UnitSpec(name='epoll_loop', tu=TU, filter='tbox::event', rename=R, spec=SPEC, emit=['tbox::event::EpollLoop::runLoop'],
    plugins=[StdFunction(), StdVector(abstract={'struct epoll_event': '1'}), Sync(), Chrono(abstract_time=True), StringStreamSink(), OpaqueString(), Syscalls(extra=('epoll_wait', 'epoll_ctl')),
             OpaqueTypes({r'^std::unordered_map<.*>$': 'v_umap', r'^std::__detail::_Node_(const_)?iterator(_base)?<.*>$': 'long:v_umap_it', r'^(tbox::)?ObjectPool<.*>$': 'v_pool'})],
    model_headers=['fn_model.h', 'vec_model.h', 'sync_model.h', 'misc_model.h'],
    opaque_records={'tbox::event::CommonLoop': 'struct v_CLoop', 'tbox::event::Loop': 'struct v_Loop', 'tbox::event::TimerEvent': 'handle:v_handle', 'tbox::event::SignalSubscribuer': 'handle:v_handle'},
    targets=[Target('runLoop', H('  EL *l; int m; EL_runLoop(l, m);'), enforce='EL_runLoop', replace=ST, timeout=300, sat='cadical', object_bits=12,
                    clause='epoll pass: begin, timers, each ready entry looked up by descriptor / skipped if gone / kept alive during dispatch / released, deferred tasks, end')])]
def native_replay(u, t, o, w, workdir):
    import replay as rp
    L = '/repo/_build/modules'
    libs = ['%s/event/libtbox_event.a' % L, '%s/util/libtbox_util.a' % L, '%s/base/libtbox_base.a' % L, '-ldl']
    return rp.attempt('fd_event_pass', ['modules/event/engines/epoll/fd_event.cpp', 'modules/event/engines/epoll/loop.cpp'], os.path.join(workdir, 'replay'), [('scenario', ['epoll'])], extra=libs)
