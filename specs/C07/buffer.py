"""C07 — util::Buffer is a FIFO byte queue (modules/util/buffer.{h,cpp}).

Abstraction (DESIGN 4.1/4.2): the readable window [read_index_, write_index_) of the owned block is the
queue content.  One ghost offset g_j with ghost byte g_byte stands for "every byte": the harness leaves
both nondeterministic, every contract says where the byte at abstract offset g_j is afterwards.
Representation invariant BWF: read <= write <= size < V_MAXSZ, (size == 0) <=> (ptr == NULL), and the block
is a live heap object of exactly `size` bytes (is_fresh in requires / ensures).
All functions are loop-free; memcpy/memmove are the weak tracked-offset models => every target is U.
"""
from verif import UnitSpec, Target

RENAME = {
    'util_Buffer_ctor__size_t': 'Buffer_ctor', 'util_Buffer_ctor__Ktbox_util_Bufferr': 'Buffer_ctor_copy',
    'util_Buffer_ctor__tbox_util_Bufferrr': 'Buffer_ctor_move', 'util_Buffer_assign__Ktbox_util_Bufferr': 'Buffer_assign_copy',
    'util_Buffer_assign__tbox_util_Bufferrr': 'Buffer_assign_move', 'util_Buffer_dtor': 'Buffer_dtor', 'util_Buffer_swap': 'Buffer_swap',
    'util_Buffer_reset': 'Buffer_reset', 'util_Buffer_ensureWritableSize': 'Buffer_ensureWritableSize',
    'util_Buffer_hasWritten': 'Buffer_hasWritten', 'util_Buffer_append': 'Buffer_append', 'util_Buffer_hasRead': 'Buffer_hasRead',
    'util_Buffer_hasReadAll': 'Buffer_hasReadAll', 'util_Buffer_fetch': 'Buffer_fetch', 'util_Buffer_shrink': 'Buffer_shrink',
    'util_Buffer_cloneFrom': 'Buffer_cloneFrom', 'util_Buffer_writableSize': 'Buffer_writableSize', 'util_Buffer_writableBegin': 'Buffer_writableBegin',
    'util_Buffer_readableSize': 'Buffer_readableSize', 'util_Buffer_readableBegin': 'Buffer_readableBegin',
}

PRELUDE = r'''
/* ---- ghost state and abstraction of util::Buffer ---- */
static size_t g_j;        /* tracked offset inside the abstract queue content */
static uint8_t g_byte;    /* the byte the queue holds at that offset */
#define BSHAPE_LIM(b, lim) ((b)->read_index_ <= (b)->write_index_ && (b)->write_index_ <= (b)->buffer_size_ && (b)->buffer_size_ < (lim) && \
                   (((b)->buffer_size_ == 0) == ((b)->buffer_ptr_ == NULL)))
#define BSHAPE(b) BSHAPE_LIM(b, V_MAXSZ)
#define BSHAPE_POST(b) BSHAPE_LIM(b, 4 * V_MAXSZ)
#define BEMPTY(b) ((b)->buffer_ptr_ == NULL && (b)->buffer_size_ == 0 && (b)->read_index_ == 0 && (b)->write_index_ == 0)
#define READABLE(b) ((b)->write_index_ - (b)->read_index_)
#define WRITABLE(b) ((b)->buffer_size_ - (b)->write_index_)
#define AT(b, o) ((b)->buffer_ptr_[(b)->read_index_ + (o)])
/* the tracked byte is where the abstraction says it is */
#define HOLDS(b, off) ((off) < READABLE(b) ==> AT(b, off) == g_byte)
/* same, over the whole block behind the read index (reserve-write-commit: bytes the user wrote before the commit) */
#define HOLDS_CAP(b, off) ((off) < (b)->buffer_size_ - (b)->read_index_ ==> AT(b, off) == g_byte)
#define OLD_READABLE (__CPROVER_old(self->write_index_) - __CPROVER_old(self->read_index_))
#define V_MIN2(a, b) ((a) < (b) ? (a) : (b))
'''

# requires shared by every member function: live object with a well-formed representation
REQ_SELF = r'''
__CPROVER_requires(__CPROVER_is_fresh(self, sizeof(*self)) && BSHAPE(self))
__CPROVER_requires(self->buffer_size_ > 0 ==> __CPROVER_is_fresh(self->buffer_ptr_, self->buffer_size_))
'''
def ENS_SELF(fn): return r'''
__CPROVER_ensures(BSHAPE_POST(self))
__CPROVER_ensures(self->buffer_size_ > 0 ==> V_POSTBLK_%s(self->buffer_ptr_, self->buffer_size_))
''' % fn
REQ_OTHER = r'''
__CPROVER_requires(__CPROVER_is_fresh(other, sizeof(*other)) && BSHAPE(other))
__CPROVER_requires(other->buffer_size_ > 0 ==> __CPROVER_is_fresh(other->buffer_ptr_, other->buffer_size_))
'''
OTHER_UNCHANGED = r'''
__CPROVER_ensures(other->buffer_ptr_ == __CPROVER_old(other->buffer_ptr_) && other->buffer_size_ == __CPROVER_old(other->buffer_size_))
__CPROVER_ensures(other->read_index_ == __CPROVER_old(other->read_index_) && other->write_index_ == __CPROVER_old(other->write_index_))
__CPROVER_ensures(HOLDS(other, g_j))
'''
def CLONE_POST(fn): return ENS_SELF(fn) + r'''
__CPROVER_ensures(READABLE(self) == READABLE(other) && self->read_index_ == 0 && self->buffer_size_ == READABLE(other))
__CPROVER_ensures(HOLDS(self, g_j))
__CPROVER_ensures(self->buffer_ptr_ != NULL ==> !__CPROVER_same_object(self->buffer_ptr_, other->buffer_ptr_))
''' + OTHER_UNCHANGED
MOVED_POST = r'''
__CPROVER_ensures(self->buffer_ptr_ == __CPROVER_old(other->buffer_ptr_) && self->buffer_size_ == __CPROVER_old(other->buffer_size_))
__CPROVER_ensures(self->read_index_ == __CPROVER_old(other->read_index_) && self->write_index_ == __CPROVER_old(other->write_index_))
'''

SPEC = {
    ('contract', 'Buffer_ctor'): r'''
__CPROVER_requires(__CPROVER_is_fresh(self, sizeof(*self)) && reverse_size < V_MAXSZ)
__CPROVER_assigns(*self)
''' + ENS_SELF('Buffer_ctor') + r'''
__CPROVER_ensures(self->buffer_size_ == reverse_size && READABLE(self) == 0 && self->read_index_ == 0)
''',
    ('contract', 'Buffer_ctor_copy'): r'''
__CPROVER_requires(__CPROVER_is_fresh(self, sizeof(*self)))
''' + REQ_OTHER + r'''
__CPROVER_requires(HOLDS(other, g_j))
__CPROVER_assigns(*self, v_mc_off)
''' + CLONE_POST('Buffer_ctor_copy'),
    ('contract', 'Buffer_ctor_move'): r'''
__CPROVER_requires(__CPROVER_is_fresh(self, sizeof(*self)))
''' + REQ_OTHER + r'''
__CPROVER_assigns(*self, *other)
''' + MOVED_POST + r'''
__CPROVER_ensures(BEMPTY(other))
''',
    ('contract', 'Buffer_dtor'): REQ_SELF + r'''
__CPROVER_assigns(self->buffer_ptr_)
__CPROVER_frees(self->buffer_ptr_)
__CPROVER_ensures(self->buffer_ptr_ == NULL)
__CPROVER_ensures(__CPROVER_old(self->buffer_ptr_) != NULL ==> __CPROVER_was_freed(__CPROVER_old(self->buffer_ptr_)))
''',
    ('contract', 'Buffer_assign_copy'): REQ_SELF + REQ_OTHER + r'''
__CPROVER_requires(HOLDS(other, g_j))
__CPROVER_assigns(*self, v_mc_off)
__CPROVER_frees(self->buffer_ptr_)
__CPROVER_ensures(__CPROVER_return_value == self)
''' + CLONE_POST('Buffer_assign_copy'),
    ('contract', 'Buffer_assign_move'): REQ_SELF + REQ_OTHER + r'''
__CPROVER_assigns(*self, *other)
__CPROVER_frees(self->buffer_ptr_)
__CPROVER_ensures(__CPROVER_return_value == self)
''' + MOVED_POST + r'''
__CPROVER_ensures(BEMPTY(other))
__CPROVER_ensures(__CPROVER_old(self->buffer_ptr_) != NULL ==> __CPROVER_was_freed(__CPROVER_old(self->buffer_ptr_)))
''',
    ('contract', 'Buffer_swap'): REQ_SELF + REQ_OTHER + r'''
__CPROVER_assigns(*self, *other)
''' + MOVED_POST + r'''
__CPROVER_ensures(other->buffer_ptr_ == __CPROVER_old(self->buffer_ptr_) && other->buffer_size_ == __CPROVER_old(self->buffer_size_))
__CPROVER_ensures(other->read_index_ == __CPROVER_old(self->read_index_) && other->write_index_ == __CPROVER_old(self->write_index_))
''',
    ('contract', 'Buffer_reset'): REQ_SELF + r'''
__CPROVER_assigns(*self)
__CPROVER_frees(self->buffer_ptr_)
__CPROVER_ensures(BEMPTY(self))
__CPROVER_ensures(__CPROVER_old(self->buffer_ptr_) != NULL ==> __CPROVER_was_freed(__CPROVER_old(self->buffer_ptr_)))
''',
    ('contract', 'Buffer_ensureWritableSize'): REQ_SELF + r'''
__CPROVER_requires(write_size < V_MAXSZ && HOLDS(self, g_j))
__CPROVER_assigns(*self, v_mc_off; self->buffer_ptr_ != NULL: __CPROVER_object_whole(self->buffer_ptr_))
__CPROVER_frees(self->buffer_ptr_)
__CPROVER_ensures(__CPROVER_return_value == 1)
''' + ENS_SELF('Buffer_ensureWritableSize') + r'''
__CPROVER_ensures(WRITABLE(self) >= write_size)
__CPROVER_ensures(READABLE(self) == OLD_READABLE)
__CPROVER_ensures(HOLDS(self, g_j))
''',
    ('ghost', 'Buffer_ensureWritableSize', 'entry'): 'v_mc_off[0] = g_j; v_mc_off[1] = g_j;',
    ('contract', 'Buffer_hasWritten'): REQ_SELF + r'''
__CPROVER_requires(HOLDS_CAP(self, g_j))                                   /* ANY write_size: the clamp must not wrap */
__CPROVER_assigns(self->write_index_)
__CPROVER_ensures(BSHAPE(self))
__CPROVER_ensures(self->write_index_ == (write_size > self->buffer_size_ - __CPROVER_old(self->write_index_) ? self->buffer_size_ : __CPROVER_old(self->write_index_) + write_size))
__CPROVER_ensures(HOLDS(self, g_j))
''',
    ('contract', 'Buffer_append'): REQ_SELF + r'''
__CPROVER_requires(data_size < V_MAXSZ && (data_size > 0 ==> __CPROVER_is_fresh(p_data, data_size)))
__CPROVER_requires(HOLDS(self, g_j))
__CPROVER_requires((g_j >= READABLE(self) && g_j < READABLE(self) + data_size) ==> ((const uint8_t *)p_data)[g_j - READABLE(self)] == g_byte)
__CPROVER_assigns(*self, v_mc_off; self->buffer_ptr_ != NULL: __CPROVER_object_whole(self->buffer_ptr_))
__CPROVER_frees(self->buffer_ptr_)
__CPROVER_ensures(__CPROVER_return_value == data_size)
''' + ENS_SELF('Buffer_append') + r'''
__CPROVER_ensures(READABLE(self) == OLD_READABLE + data_size)
__CPROVER_ensures(HOLDS(self, g_j))
''',
    ('ghost', 'Buffer_append', 'entry'): 'size_t g_old_readable = READABLE(self);',
    ('ghost', 'Buffer_append', 'before_call:memcpy:1'): 'v_mc_off[0] = g_j - g_old_readable; v_mc_off[1] = v_mc_off[0];',
    ('contract', 'Buffer_hasRead'): REQ_SELF + r'''
__CPROVER_requires(HOLDS(self, g_j))                                       /* ANY read_size: the clamp must not wrap */
__CPROVER_assigns(self->read_index_, self->write_index_)
__CPROVER_ensures(BSHAPE(self))
__CPROVER_ensures(READABLE(self) == OLD_READABLE - V_MIN2(read_size, OLD_READABLE))
__CPROVER_ensures((g_j >= read_size && g_j < OLD_READABLE) ==> AT(self, g_j - read_size) == g_byte)
''',
    ('contract', 'Buffer_hasReadAll'): REQ_SELF + r'''
__CPROVER_assigns(self->read_index_, self->write_index_)
__CPROVER_ensures(BSHAPE(self) && READABLE(self) == 0)
''',
    ('contract', 'Buffer_fetch'): REQ_SELF + r'''
__CPROVER_requires(buff_size < V_MAXSZ && (buff_size > 0 ==> __CPROVER_is_fresh(p_buff, buff_size)))
__CPROVER_requires(HOLDS(self, g_j))
__CPROVER_assigns(self->read_index_, self->write_index_, v_mc_off; buff_size > 0: __CPROVER_object_upto(p_buff, buff_size))
__CPROVER_ensures(BSHAPE(self))
__CPROVER_ensures(__CPROVER_return_value == V_MIN2(buff_size, OLD_READABLE))
__CPROVER_ensures(READABLE(self) == OLD_READABLE - __CPROVER_return_value)
__CPROVER_ensures(g_j < __CPROVER_return_value ==> ((uint8_t *)p_buff)[g_j] == g_byte)
__CPROVER_ensures((g_j >= __CPROVER_return_value && g_j < OLD_READABLE) ==> AT(self, g_j - __CPROVER_return_value) == g_byte)
''',
    ('ghost', 'Buffer_fetch', 'entry'): 'v_mc_off[0] = g_j; v_mc_off[1] = g_j;',
    ('contract', 'Buffer_cloneFrom'): REQ_SELF + REQ_OTHER + r'''
__CPROVER_requires(HOLDS(other, g_j))
__CPROVER_assigns(*self, v_mc_off)
__CPROVER_frees(self->buffer_ptr_)
''' + CLONE_POST('Buffer_cloneFrom'),
    ('ghost', 'Buffer_cloneFrom', 'entry'): 'v_mc_off[0] = g_j; v_mc_off[1] = g_j;',
    ('contract', 'Buffer_shrink'): REQ_SELF + r'''
__CPROVER_requires(HOLDS(self, g_j))
__CPROVER_assigns(*self, v_mc_off)
__CPROVER_frees(self->buffer_ptr_)
''' + ENS_SELF('Buffer_shrink') + r'''
__CPROVER_ensures(READABLE(self) == OLD_READABLE && self->read_index_ == 0 && self->buffer_size_ == READABLE(self))
__CPROVER_ensures(HOLDS(self, g_j))
''',
}

H = lambda body: '\nvoid H(void)\n{\n' + body + '\n  __CPROVER_assert(0, "VACUITY-CANARY");\n}\n'

EMIT = ['tbox::util::Buffer::ctor', 'tbox::util::Buffer::dtor', 'tbox::util::Buffer::operator=', 'tbox::util::Buffer::swap',
        'tbox::util::Buffer::reset', 'tbox::util::Buffer::ensureWritableSize', 'tbox::util::Buffer::hasWritten', 'tbox::util::Buffer::append',
        'tbox::util::Buffer::hasRead', 'tbox::util::Buffer::hasReadAll', 'tbox::util::Buffer::fetch', 'tbox::util::Buffer::shrink',
        'tbox::util::Buffer::cloneFrom']

UNITS = [UnitSpec(
    name='buffer', tu='modules/util/buffer.cpp', filter='tbox::util', emit=EMIT, spec=SPEC, prelude=PRELUDE, rename=RENAME,
    targets=[
        Target('ctor', H('  struct util_Buffer *b; size_t n; Buffer_ctor(b, n);'), enforce='Buffer_ctor', clause='Buffer(n): empty, capacity n'),
        Target('ctor_copy', H('  struct util_Buffer *b, *o; Buffer_ctor_copy(b, o);'), enforce='Buffer_ctor_copy', replace=['Buffer_cloneFrom'],
               clause='copy: equal content in independent storage, source unchanged'),
        Target('ctor_move', H('  struct util_Buffer *b, *o; Buffer_ctor_move(b, o);'), enforce='Buffer_ctor_move', clause='move: takes the representation, source left empty'),
        Target('dtor', H('  struct util_Buffer *b; Buffer_dtor(b);'), enforce='Buffer_dtor', clause='~Buffer releases the block exactly once'),
        Target('assign_copy', H('  struct util_Buffer *b, *o; Buffer_assign_copy(b, o);'), enforce='Buffer_assign_copy', replace=['Buffer_cloneFrom'],
               clause='copy assignment: as copy, old block released'),
        Target('assign_move', H('  struct util_Buffer *b, *o; Buffer_assign_move(b, o);'), enforce='Buffer_assign_move',
               clause='move assignment: takes the representation, old block released, source empty'),
        Target('swap', H('  struct util_Buffer *b, *o; Buffer_swap(b, o);'), enforce='Buffer_swap', clause='swap exchanges the representations'),
        Target('reset', H('  struct util_Buffer *b; Buffer_reset(b);'), enforce='Buffer_reset', clause='reset: empty and reusable, block released'),
        Target('ensureWritableSize', H('  struct util_Buffer *b; size_t n; Buffer_ensureWritableSize(b, n);'), enforce='Buffer_ensureWritableSize',
               clause='room guaranteed, content preserved in all three branches (in place / compaction / reallocation)'),
        Target('hasWritten', H('  struct util_Buffer *b; size_t n; Buffer_hasWritten(b, n);'), enforce='Buffer_hasWritten', clause='commit clamps to capacity; committed bytes are the bytes written in place'),
        Target('append', H('  struct util_Buffer *b; const void *p; size_t n; Buffer_append(b, p, n);'), enforce='Buffer_append',
               replace=['Buffer_ensureWritableSize'], clause='append: content\' = content ++ data (proved against the contract of ensureWritableSize)'),
        Target('hasRead', H('  struct util_Buffer *b; size_t n; Buffer_hasRead(b, n);'), enforce='Buffer_hasRead', clause='consume drops exactly the oldest min(n, readable) bytes'),
        Target('hasReadAll', H('  struct util_Buffer *b; Buffer_hasReadAll(b);'), enforce='Buffer_hasReadAll', clause='consume-all empties'),
        Target('fetch', H('  struct util_Buffer *b; void *p; size_t n; Buffer_fetch(b, p, n);'), enforce='Buffer_fetch',
               clause='fetch copies out exactly the oldest min(n, readable) bytes, in order, and consumes them'),
        Target('cloneFrom', H('  struct util_Buffer *b, *o; Buffer_cloneFrom(b, o);'), enforce='Buffer_cloneFrom', clause='clone: equal content, independent storage'),
        Target('shrink', H('  struct util_Buffer *b; Buffer_shrink(b);'), enforce='Buffer_shrink', replace=['Buffer_cloneFrom'],
               clause='shrink keeps the content, capacity == readable'),
        Target('self_ops', H('''  struct util_Buffer b; size_t sz, r, w; __CPROVER_assume(sz < 64 && r <= w && w <= sz);
  b.buffer_ptr_ = sz ? v_alloc_ok(sz) : NULL; b.buffer_size_ = sz; b.read_index_ = r; b.write_index_ = w;
  struct util_Buffer c = b; uint8_t keep = 0; _Bool has = g_j < w - r; if (has) keep = b.buffer_ptr_[r + g_j];
  Buffer_swap(&b, &b); Buffer_assign_copy(&b, &b); Buffer_assign_move(&b, &b);
  __CPROVER_assert(b.buffer_ptr_ == c.buffer_ptr_ && b.buffer_size_ == c.buffer_size_ && b.read_index_ == c.read_index_ && b.write_index_ == c.write_index_, "self swap / self assignment leave the buffer unchanged");
  __CPROVER_assert(!has || b.buffer_ptr_[r + g_j] == keep, "self swap / self assignment keep the content");'''),
               clause='self-swap and self-assignment are no-ops', functions=['Buffer_swap', 'Buffer_assign_copy', 'Buffer_assign_move']),
    ],
)]

import os
REPLAY_SOURCES = ['modules/util/buffer.cpp']

def native_replay(u, t, o, w, workdir):
    """CBMC counterexample (small world) -> representation state (capacity, read, write) + argument of the real Buffer"""
    import replay as rp
    ins = w.get('inputs', {})
    def field(sfx):
        for k, v in ins.items():
            if k.endswith(sfx) and 'dynamic_object' in k: return rp.to_int(v)
        return None
    cap, r, wr = field('.buffer_size_'), field('.read_index_'), field('.write_index_')
    n = rp.to_int(ins.get('n'), 0)
    op = t.id
    tries = []
    if cap is not None and cap <= 4096 and n <= 4096:
        tries.append(('cbmc-trace', ['op', op, cap, r or 0, wr or 0, n]))
    tries.append(('native-search', ['search', op if op not in ('self_ops', 'dtor') else 'all']))
    return rp.attempt('buffer', REPLAY_SOURCES, os.path.join(workdir, 'replay'), tries)
