// Condition<int>, kAll over {1, 2}: 1 is posted BEFORE the routine starts to wait, 2 afterwards.  Both conditions have been posted, so the
// waiting routine must be resumed.  Broadcast: two routines wait, one post: both resumed.
#include <tbox/coroutine/scheduler.h>
#include <tbox/coroutine/condition.hpp>
#include <tbox/coroutine/broadcast.hpp>
#include <tbox/event/loop.h>
#include <cstdio>
using namespace tbox; using namespace tbox::coroutine;
int main(int argc, char **argv) {
    auto loop = event::Loop::New();
    int bad = 0;
    {
        Scheduler sch(loop);
        Condition<int> cond(sch, Condition<int>::Logic::kAll);
        cond.add(1); cond.add(2);
        int woken = 0;
        cond.post(1);                                                       // nobody waits yet
        sch.create([&](Scheduler &) { if (cond.wait()) ++woken; });
        sch.create([&](Scheduler &s) { s.yield(); s.yield(); cond.post(2); });
        loop->exitLoop(std::chrono::milliseconds(200)); loop->runLoop();
        printf("condition(all of 1,2): waiter resumed %d time(s) after post(1), wait(), post(2)\n", woken);
        if (woken != 1) { printf("VIOLATION: every condition was posted but the waiting routine was not resumed (lost wake-up)\n"); bad = 1; }
        sch.cleanup();
    }
    {
        Scheduler sch(loop);
        Broadcast bc(sch);
        int woken = 0;
        auto waiter = [&](Scheduler &) { if (bc.wait()) ++woken; };
        sch.create(waiter); sch.create(waiter);
        sch.create([&](Scheduler &s) { s.yield(); s.yield(); bc.post(); });
        loop->exitLoop(std::chrono::milliseconds(200)); loop->runLoop();
        printf("broadcast: %d of 2 waiters resumed by one post\n", woken);
        if (woken != 2) { printf("VIOLATION: a routine waiting on the broadcast when it was posted was not resumed\n"); bad = 1; }
        sch.cleanup();
    }
    delete loop;
    return bad;
}
