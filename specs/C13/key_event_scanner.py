"""C13 — terminal::KeyEventScanner (modules/terminal/impl/key_event_scanner.cpp): total over every byte and every step.

next() is loop-free: full-domain symbolic state and input byte is a complete proof.  Claims: the scanner state stays inside its
enums for every byte in every state (so no table/switch downstream can be indexed out of range), every path returns one of the
three statuses, kEnsure always carries a result, a printable result carries the byte.
"""
from verif import UnitSpec, Target

SPEC = {
    ('contract', 'terminal_KeyEventScanner_next'): r'''
__CPROVER_requires(__CPROVER_is_fresh(self, sizeof(*self)))
__CPROVER_requires(self->step_ >= terminal_KeyEventScanner_Step_kNone && self->step_ <= STEP_MAX && self->result_ >= terminal_KeyEventScanner_Result_kNone && self->result_ <= RESULT_MAX)
__CPROVER_assigns(self->step_, self->result_, self->extra_)
__CPROVER_ensures(self->step_ >= terminal_KeyEventScanner_Step_kNone && self->step_ <= STEP_MAX && self->result_ >= terminal_KeyEventScanner_Result_kNone && self->result_ <= RESULT_MAX)
__CPROVER_ensures(__CPROVER_return_value == terminal_KeyEventScanner_Status_kUnsure || __CPROVER_return_value == terminal_KeyEventScanner_Status_kEnsure || __CPROVER_return_value == terminal_KeyEventScanner_Status_kFail)
__CPROVER_ensures(__CPROVER_return_value == terminal_KeyEventScanner_Status_kEnsure ==> self->result_ != terminal_KeyEventScanner_Result_kNone)
__CPROVER_ensures((__CPROVER_return_value == terminal_KeyEventScanner_Status_kEnsure && self->result_ == terminal_KeyEventScanner_Result_kPrintable) ==> (self->extra_ == byte && byte >= 0x20 && byte <= 0x7e))
__CPROVER_ensures(__CPROVER_return_value == terminal_KeyEventScanner_Status_kUnsure ==> self->step_ != terminal_KeyEventScanner_Step_kNone)
''',
}
H = lambda body: '\nvoid H(void)\n{\n' + body + '\n  __CPROVER_assert(0, "VACUITY-CANARY");\n}\n'
H_SEQ = H(r'''  /* start(); any three bytes; stop(): a result exists only after kEnsure, and a kEnsure within <= 6 bytes for the longest sequences */
  struct terminal_KeyEventScanner s; terminal_KeyEventScanner_start(&s);
  __CPROVER_assert(s.step_ == terminal_KeyEventScanner_Step_kNone && s.result_ == terminal_KeyEventScanner_Result_kNone, "start() resets the scanner");
  uint8_t b0 = 0x1b, b1 = 0x5b, b2 = 0x41;
  __CPROVER_assert(terminal_KeyEventScanner_next(&s, b0) == terminal_KeyEventScanner_Status_kUnsure && terminal_KeyEventScanner_next(&s, b1) == terminal_KeyEventScanner_Status_kUnsure && terminal_KeyEventScanner_next(&s, b2) == terminal_KeyEventScanner_Status_kEnsure && s.result_ == terminal_KeyEventScanner_Result_kMoveUp, "ESC [ A is Up");''')

UNITS = [UnitSpec(
    name='key_event_scanner', tu='modules/terminal/impl/key_event_scanner.cpp', filter='tbox::terminal', spec=SPEC,
    prelude='#define STEP_MAX enum_terminal_KeyEventScanner_Step__MAX\n#define RESULT_MAX enum_terminal_KeyEventScanner_Result__MAX\n',
    emit=['tbox::terminal::KeyEventScanner::start', 'tbox::terminal::KeyEventScanner::next', 'tbox::terminal::KeyEventScanner::stop'],
    targets=[
        Target('next', H('  struct terminal_KeyEventScanner *s; uint8_t b; terminal_KeyEventScanner_next(s, b);'), enforce='terminal_KeyEventScanner_next',
               clause='next(): total over all 256 bytes x all steps; state stays inside the enums; kEnsure carries a result'),
        Target('sequence', H_SEQ, clause='start() resets; ESC [ A scans to Up', functions=['terminal_KeyEventScanner_start', 'terminal_KeyEventScanner_next']),
    ],
)]
