"""C14 — jsonrpc::Rpc (modules/jsonrpc/rpc.cpp): request completion bookkeeping.

The table of outstanding requests (unordered_map<int, callback>) is an oracle for ONE id: whether it is outstanding, and the stored
callback.  Decided per call:
 request            with a completion callback: a fresh id (id_alloc_ + 1, non-zero), the callback stored under it, the deadline armed for it
                    and the request sent with it - all four with the same id; without a callback: sent with id 0, nothing stored or armed.
 onRecvRespond      outstanding id: its callback is invoked exactly once with the response's error code and the entry leaves the table;
 onRequestTimeout   same with ErrorCode::kRequestTimeout.  Unknown, duplicate or late id (not in the table): nothing happens - which,
                    together with "the entry leaves the table on completion", is the exactly-once argument: whichever of response and
                    deadline comes first completes the request, the other finds nothing.
Not decided: a callback that re-enters the Rpc object while its entry is still in the table (the entry is erased after the call, through an
iterator kept across it), id wrap-around after 2^31 requests, the service side (onRecvRequest / respond), JSON contents.
"""
import os
from verif import UnitSpec, Target
from plugins import StdFunction, StdVector, OpaqueString, OpaqueJson, StringStreamSink, OpaqueTypes, Chrono
TU = 'modules/jsonrpc/rpc.cpp'
P = 'jsonrpc_Rpc_'
R = {P + 'onRecvRespond': 'Rpc_onRecvRespond', P + 'onRequestTimeout': 'Rpc_onRequestTimeout', P + 'request__Kstd_stringr_Ktbox_Jsonr_tbox_jsonrpc_Rpc_RequestCallbackrr': 'Rpc_request', 'jsonrpc_Proto_sendRequest__int_Kstd_stringr_Ktbox_Jsonr': 'Proto_sendRequest'}
PRELUDE = r"""
typedef struct jsonrpc_Rpc Rpc;
#define T(x) ((x) != 0)
static Rpc *g_r; static struct v_function g_cell;      /* the stored completion callback of the id in question */
static _Bool g_in;                                     /* the id is in the table of outstanding requests */
static int g_id, g_code; static size_t g_cb_calls, g_erases, g_adds, g_sends, g_stores; static int g_sent_id, g_added_id, g_stored_id;
"""
EXTERN = r"""
long v_cbmap__find(struct v_cbmap *m, int id) __CPROVER_requires(m == &g_r->request_callback_ && id == g_id) __CPROVER_assigns() __CPROVER_ensures((__CPROVER_return_value != 0) == T(g_in));
long v_cbmap__end(struct v_cbmap *m) __CPROVER_assigns() __CPROVER_ensures(__CPROVER_return_value == 0);
struct v_function *v_map_it_second(long it) __CPROVER_requires(it != 0 && T(g_in)) __CPROVER_assigns() __CPROVER_ensures(__CPROVER_return_value == &g_cell);
/* the entry leaves the table: afterwards a duplicate or late answer for the id finds nothing */
void v_cbmap__erase(struct v_cbmap *m, long it) __CPROVER_requires(m == &g_r->request_callback_ && it != 0 && T(g_in) && g_erases == 0) __CPROVER_assigns(g_erases, g_in) __CPROVER_ensures(g_erases == 1 && !T(g_in));
struct v_function *v_cbmap__index(struct v_cbmap *m, int id) __CPROVER_requires(m == &g_r->request_callback_) __CPROVER_assigns(g_stores, g_stored_id, g_in)
  __CPROVER_ensures(g_stores == __CPROVER_old(g_stores) + 1 && g_stored_id == id && T(g_in) && __CPROVER_return_value == &g_cell);
/* the completion callback: once, while its entry is still in the table (so a re-entrant duplicate cannot call it again is NOT implied - see not_covered) */
void v_fn_call__void_int_nlohmann_basic_json_r(struct v_function *f, int code, struct v_json *js) __CPROVER_requires(f == &g_cell && T(f->engaged) && g_cb_calls == 0) __CPROVER_assigns(g_cb_calls, g_code)
  __CPROVER_ensures(g_cb_calls == 1 && g_code == code);
void v_TM__add(struct v_TM *t, int id) __CPROVER_requires(t == &g_r->request_timeout_ && id != 0) __CPROVER_assigns(g_adds, g_added_id) __CPROVER_ensures(g_adds == __CPROVER_old(g_adds) + 1 && g_added_id == id);
void Proto_sendRequest(struct v_Proto *p, int id, struct v_str *method, struct v_json *params) __CPROVER_requires(p == g_r->proto_) __CPROVER_assigns(g_sends, g_sent_id) __CPROVER_ensures(g_sends == __CPROVER_old(g_sends) + 1 && g_sent_id == id);
"""
FRESH = '__CPROVER_requires(__CPROVER_is_fresh(self, sizeof(*self)) && (g_in == 0 || g_in == 1) && (g_cell.engaged == 0 || g_cell.engaged == 1))\n'
FRAME = 'g_r, g_id, g_in, g_code, g_cb_calls, g_erases, g_adds, g_sends, g_stores, g_sent_id, g_added_id, g_stored_id'
ENTRY = 'g_r = self; g_cb_calls = 0; g_erases = 0; g_adds = 0; g_sends = 0; g_stores = 0;'
DONE = r"""
/* outstanding id: its callback (if engaged) is invoked exactly once with this outcome and the entry is removed; unknown / already completed id: ignored */
__CPROVER_ensures(T(__CPROVER_old(g_in)) ? (g_erases == 1 && !T(g_in) && g_cb_calls == (T(g_cell.engaged) ? 1 : 0)) : (g_erases == 0 && g_cb_calls == 0))
"""
SPEC = {('stub', 'Proto_sendRequest'): True, ('prelude_early',): 'struct v_Loop { char opaque; }; struct v_Proto { char opaque; };\n', ('prelude',): PRELUDE, ('after_protos',): EXTERN,
    ('contract', 'Rpc_onRecvRespond'): FRESH + '__CPROVER_assigns(' + FRAME + ')' + DONE + '__CPROVER_ensures(g_cb_calls == 1 ==> g_code == errcode)\n',
    ('ghost', 'Rpc_onRecvRespond', 'entry'): ENTRY + ' g_id = id;',
    ('contract', 'Rpc_onRequestTimeout'): FRESH + '__CPROVER_assigns(' + FRAME + ')' + DONE + '__CPROVER_ensures(g_cb_calls == 1 ==> g_code == -32000)       /* ErrorCode::kRequestTimeout */\n',
    ('ghost', 'Rpc_onRequestTimeout', 'entry'): ENTRY + ' g_id = id;',
    ('contract', 'Rpc_request'): FRESH + '__CPROVER_requires(__CPROVER_is_fresh(cb, sizeof(*cb)) && (cb->engaged == 0 || cb->engaged == 1) && self->id_alloc_ >= 0 && self->id_alloc_ < 2000000000)\n__CPROVER_assigns(' + FRAME + r""", self->id_alloc_, g_cell, *cb)
/* with a completion callback: a fresh non-zero id, the callback stored under it, the deadline armed for it, the request sent with it */
__CPROVER_ensures(T(__CPROVER_old(cb->engaged)) ? (self->id_alloc_ == __CPROVER_old(self->id_alloc_) + 1 && g_stores == 1 && g_stored_id == self->id_alloc_ && T(g_cell.engaged) && g_adds == 1 && g_added_id == self->id_alloc_ && g_sends == 1 && g_sent_id == self->id_alloc_)
                                              : (self->id_alloc_ == __CPROVER_old(self->id_alloc_) && g_stores == 0 && g_adds == 0 && g_sends == 1 && g_sent_id == 0))       /* a notification-style request: id 0, nothing to complete */
""",
    ('ghost', 'Rpc_request', 'entry'): ENTRY,
}
ST = ['v_cbmap__find', 'v_cbmap__end', 'v_map_it_second', 'v_cbmap__erase', 'v_cbmap__index', 'v_fn_call__void_int_nlohmann_basic_json_r', 'v_TM__add', 'Proto_sendRequest']
H = lambda body: '\nvoid H(void)\n{\n' + body + '\n  __CPROVER_assert(0, "VACUITY-CANARY");\n}\n'
UNITS = [UnitSpec(name='rpc', tu=TU, filter='tbox::jsonrpc', rename=R, spec=SPEC,
    trusted=['std::unordered_map<int, callback> (Rpc::request_callback_) is an oracle for ONE request id (outstanding or not, its callback): the contracts of find, operator[] and erase restate the standard for that key'],
    plugins=[StdFunction(), StdVector(), OpaqueString(), StringStreamSink(), Chrono(),
             OpaqueTypes({r'^(tbox::)?eventx::TimeoutMonitor<.*>$': 'v_TM', r'^std::unordered_map<int, .*>$': 'v_cbmap', r'^std::unordered_map<.*>$': 'v_umap', r'^std::unordered_set<.*>$': 'v_uset',
                          r'^std::__detail::_Node_(const_)?iterator(_base)?<.*>$': 'long:v_umap_it'}), OpaqueJson()],
    model_headers=['fn_model.h', 'vec_model.h', 'misc_model.h'],
    opaque_records={'tbox::event::Loop': 'struct v_Loop', 'tbox::jsonrpc::Proto': 'struct v_Proto'},
    emit=['tbox::jsonrpc::Rpc::onRecvRespond', 'tbox::jsonrpc::Rpc::onRequestTimeout', 'tbox::jsonrpc::Rpc::request'],
    targets=[Target('onRecvRespond', H('  Rpc *r; int id, e; struct v_json *j; Rpc_onRecvRespond(r, id, e, j);'), enforce='Rpc_onRecvRespond', replace=ST, clause='response: outstanding id -> its callback once with the response, entry removed; unknown / duplicate / late id -> ignored'),
             Target('onRequestTimeout', H('  Rpc *r; int id; Rpc_onRequestTimeout(r, id);'), enforce='Rpc_onRequestTimeout', replace=ST, clause='deadline: outstanding id -> its callback once with the timeout error, entry removed; already completed -> ignored'),
             Target('request', H('  Rpc *r; struct v_str *m; struct v_json *j; struct v_function *cb; Rpc_request(r, m, j, cb);'), enforce='Rpc_request', replace=ST, clause='request: fresh non-zero id, callback stored, deadline armed, request sent - all for the same id; without a callback: id 0, nothing stored')])]
