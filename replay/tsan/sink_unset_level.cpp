// log::Sink: one thread logs with a module name (Sink::filter() looks the module up in the per-module threshold table under the sink
// lock) while the application thread gives that module a threshold and takes it away again.  Under ThreadSanitizer no access to the
// table may race: every reader and writer holds the sink lock.
#include <tbox/base/log.h>
#include <tbox/base/log_impl.h>
#include <tbox/log/sink.h>
#include <thread>
#include <atomic>
#include <cstdio>
#include <string>
using namespace tbox;
struct CountSink : public log::Sink {
    std::atomic<long> n{0};
    void onLogFrontEnd(const LogContent *) override { ++n; }
};
int main() {
    CountSink s;
    s.setLevel(LOG_LEVEL_TRACE);
    s.enable();
    std::atomic<bool> stop{false};
    std::thread logger([&] {
        while (!stop)
            LogPrintfFunc("net", "f", "x.cpp", 1, LOG_LEVEL_INFO, 0, "hello");
    });
    for (int i = 0; i < 20000; ++i) {
        s.setLevel("net", LOG_LEVEL_TRACE);
        s.setLevel(std::string("m") + std::to_string(i % 7), LOG_LEVEL_INFO);
        s.unsetLevel("net");
        s.unsetLevel(std::string("m") + std::to_string((i + 3) % 7));
    }
    stop = true;
    logger.join();
    s.disable();
    printf("done, records=%ld\n", (long)s.n);
    return 0;
}
