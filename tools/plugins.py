"""Model plugins for cxx2c (std::vector, std::string views, std::function stubs, ...).
Each plugin turns member/operator calls on a modelled type into calls of the C model in /verif/models."""
import re
from cxx2c import Unsupported, fn_param_types
from models import Plugin

def canon_type(qt):
    """normalise a clang type spelling of a std:: container"""
    qt = qt.replace('const ', '').replace(' const', '').strip()
    qt = re.sub(r'\s*&+$', '', qt).strip()
    qt = re.sub(r',\s*std::allocator<[^<>]*(<[^<>]*>)?[^<>]*>\s*', '', qt)
    qt = qt.replace('std::__cxx11::', 'std::')
    qt = qt.replace('unsigned char', 'uint8_t')
    return qt


class StdVector(Plugin):
    """std::vector<T> for scalar / pointer T: struct v_vec_<T> (models/vec_model.h)"""
    def __init__(self, fixed=None):
        self.decls = {}   # C struct name -> element C type
        self.fixed = fixed or {}   # element C type -> constant capacity (bounded model B(cap), DESIGN C08)

    def elem_of(self, name):
        name = canon_type(name)
        m = re.match(r'^std::vector<(.*)>$', name)
        return m.group(1).strip() if m else None

    def type_for(self, name, unit):
        el = self.elem_of(name)
        if el is None: return None
        ect = unit.ctype(el)
        cn = 'v_vec_' + re.sub(r'\W', '_', ect.replace('struct ', '').replace('*', 'p').replace(' ', ''))
        if cn not in self.decls:
            self.decls[cn] = ect
            if ect in self.fixed:
                unit.emitted_types['~' + cn] = 'V_VECFIX_DECL(%s, %s, %d)' % (ect, cn, self.fixed[ect])
            else:
                unit.emitted_types['~' + cn] = 'V_VEC_DECL(%s, %s)' % (ect, cn)
            unit.type_order.append('~' + cn)
        return 'struct ' + cn

    def is_model_type(self, ct):
        return ct.replace('const ', '').strip().startswith('struct v_vec_')

    def _recv(self, unit, base, is_arrow):
        b = unit.expr(base)
        return b if is_arrow else unit.addr_text(b)

    def _cn(self, unit, node):
        t = node.get('type', {})
        for qt in (t.get('desugaredQualType'), t.get('qualType')):
            if not qt: continue
            q = qt.replace('const ', '').strip()
            q = re.sub(r'\s*\*$', '', q).strip()
            r = self.type_for(q, unit)
            if r: return r[len('struct '):]
        return None

    def member_call(self, unit, n, me, base, args):
        cn = self._cn(unit, base)
        if cn is None: return None
        name = me['name']
        recv = self._recv(unit, base, me.get('isArrow'))
        a = [unit.expr(x) for x in args]
        if name in ('size', 'empty', 'data', 'resize', 'reserve', 'clear', 'pop_back'):
            return '%s_%s(%s)' % (cn, name, ', '.join([recv] + a))
        if name in ('push_back', 'emplace_back') and len(a) == 1:
            a0 = a[0]
            if a0.startswith('(*') and a0.endswith(')') and self.decls.get(cn, '').startswith('struct '): pass
            return '%s_push_back(%s, %s)' % (cn, recv, a0)
        if name in ('back', 'front'):
            return '(*%s_%s(%s))' % (cn, name, recv)
        if name == 'at':
            unit.stmt_may_throw = True
            return '(*%s_at(%s, %s))' % (cn, recv, a[0])
        raise Unsupported('std::vector::%s (in %s)' % (name, unit.cur))

    def operator_call(self, unit, n, rd, args):
        if rd.get('name') == 'operator[]' and args:
            cn = self._cn(unit, args[0])
            if cn is None: return None
            return '(*%s_index(%s, %s))' % (cn, unit.addr_of(args[0]), unit.expr(args[1]))
        return None

    def local_object(self, unit, v, ct, name, ks, p):
        cn = ct.replace('const ', '').strip()[len('struct '):]
        unit.w(p + '%s %s;' % (ct.replace('const ', ''), name))
        ce = unit.strip_tmp(ks[0]) if ks else None
        if ce is None or (ce['kind'] == 'CXXConstructExpr' and not unit.kids(ce)):
            unit.w(p + '%s_init(&%s);' % (cn, name))
        else:
            raise Unsupported('std::vector local with initialiser (in %s)' % unit.cur)
        unit.scopes[-1]['vars'].append('%s_destroy(&%s);' % (cn, name))

    def field_init(self, unit, f, ct, target, e):
        cn = ct.replace('const ', '').strip()[len('struct '):]
        if e is None or (unit.strip_tmp(e)['kind'] == 'CXXConstructExpr' and not unit.kids(unit.strip_tmp(e))):
            return ['%s_init(&%s);' % (cn, target)]
        raise Unsupported('std::vector member with initialiser')

    def field_dtor(self, unit, f, ct, target):
        cn = ct.replace('const ', '').strip()[len('struct '):]
        return ['%s_destroy(&%s);' % (cn, target)]


class StdFunction(Plugin):
    """std::function<Sig>: struct v_function {engaged, target}; invocation = call of a callback stub
    v_fn_call__<sig>(f, args...) whose contract/body the spec supplies (what the user callback may do)."""
    def sig_of(self, qt):
        qt = canon_type(qt)
        m = re.match(r'^std::function<(.*)>$', qt)
        return m.group(1).strip() if m else None

    def node_sig(self, node):
        t = node.get('type', {})
        for qt in (t.get('desugaredQualType'), t.get('qualType')):
            if qt:
                s = self.sig_of(re.sub(r'\s*\*$', '', qt.replace('const ', '').strip()))
                if s: return s
        return None

    def type_for(self, name, unit):
        if self.sig_of(name): return 'struct v_function'
        return None

    def is_model_type(self, ct):
        return ct.replace('const ', '').strip() == 'struct v_function'

    def stub_name(self, sig):
        return 'v_fn_call__' + re.sub(r'_+', '_', re.sub(r'\W', '_', sig.replace('*', 'p').replace('&', 'r'))).strip('_')

    def operator_call(self, unit, n, rd, args):
        if not args: return None
        sig = self.node_sig(args[0])
        if sig is None: return None
        op = rd.get('name')
        f = unit.addr_of(args[0])
        if op == 'operator()':
            unit.count_call(self.stub_name(sig))
            _, ptypes, _ = fn_param_types(sig)
            a = [unit.bind_arg(ptypes[i] if i < len(ptypes) else None, x) for i, x in enumerate(args[1:])]
            return '%s(%s)' % (self.stub_name(sig), ', '.join([f] + a))
        if op == 'operator=':
            rhs = unit.strip_tmp(args[1])
            while rhs['kind'] in ('ImplicitCastExpr', 'CXXConstructExpr', 'CXXFunctionalCastExpr') and unit.kids(rhs) and self.node_sig(rhs) and not (rhs['kind'] == 'ImplicitCastExpr' and rhs.get('castKind') == 'LValueToRValue'):
                inner = unit.strip_tmp(unit.kids(rhs)[0])
                if inner['kind'] in ('CXXNullPtrLiteralExpr', 'GNUNullExpr') or self.node_sig(inner): rhs = inner
                else: break
            if rhs['kind'] in ('CXXNullPtrLiteralExpr', 'GNUNullExpr') or (rhs['kind'] == 'ImplicitCastExpr' and rhs.get('castKind') == 'NullToPointer'):
                return '(*v_function_reset(%s))' % f
            if self.node_sig(rhs):
                return '(*v_function_assign(%s, %s))' % (f, unit.addr_of(rhs))
            r = self.assign_other(unit, f, rhs)
            if r: return r
            raise Unsupported('std::function assigned from %s (in %s)' % (rhs['kind'], unit.cur))
        if op in ('operator==', 'operator!='):
            other = unit.strip_tmp(args[1])
            return ('(!v_function_engaged(%s))' if op == 'operator==' else '(v_function_engaged(%s))') % f
        return None

    def assign_other(self, unit, f, rhs):
        return None

    def member_call(self, unit, n, me, base, args):
        sig = self.node_sig(base)
        if sig is None: return None
        b = unit.expr(base)
        f = b if me.get('isArrow') else unit.addr_text(b)
        if me['name'].startswith('operator bool'):
            return 'v_function_engaged(%s)' % f
        if me['name'] == 'swap':
            return 'v_function_swap(%s, %s)' % (f, unit.addr_of(args[0]))
        raise Unsupported('std::function::%s (in %s)' % (me['name'], unit.cur))

    def construct_expr(self, unit, n):
        if self.node_sig(n) is None: return None
        ks = unit.kids(n)
        if not ks: return '((struct v_function){0, 0})'
        inner = unit.strip_tmp(ks[0])
        if self.node_sig(inner): return '(*%s)' % unit.addr_of(inner)      # copy
        if inner['kind'] in ('CXXNullPtrLiteralExpr', 'GNUNullExpr'): return '((struct v_function){0, 0})'
        raise Unsupported('std::function constructed from %s (in %s)' % (inner['kind'], unit.cur))

    def field_init(self, unit, f, ct, target, e):
        if e is None: return ['v_function_init(&%s);' % target]
        se = unit.strip_tmp(e)
        if se['kind'] == 'CXXConstructExpr' and not unit.kids(se): return ['v_function_init(&%s);' % target]
        return ['%s = %s;' % (target, unit.expr(e))]

    def local_object(self, unit, v, ct, name, ks, p):
        unit.w(p + 'struct v_function %s;' % name)
        if not ks: unit.w(p + 'v_function_init(&%s);' % name)
        else: unit.w(p + '%s = %s;' % (name, unit.expr(ks[0])))


class Syscalls(Plugin):
    """libc system calls -> v_sys_<name> stubs (models/sys_model.h): any legal result"""
    NAMES = {'close', 'read', 'write', 'readv', 'writev', 'fcntl', 'open', 'pipe', 'eventfd', 'epoll_ctl', 'epoll_wait'}
    def free_call(self, unit, name, rd, args, n):
        if name in self.NAMES:
            return 'v_sys_%s(%s)' % (name, ', '.join(unit.expr(a) for a in args))
        return None
