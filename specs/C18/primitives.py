"""C18 — coroutine Semaphore / Mutex / Channel<int> (modules/coroutine/*.hpp, instantiated by drivers/coroutine_tu.cpp).
One routine is visible; the others appear as the havoc of Scheduler::wait() (they run while this one is suspended).

The no-lost-wake-up argument rests on one representation invariant per primitive - EVERY routine suspended in the primitive has its
token in the waiter queue - and on "every hand-over wakes one live waiter if there is one".  Per call that is:
 acquire / lock / operator>>   each wait() is preceded by queueing the routine's own token (on EVERY pass of the loop: whoever woke the
                              routine popped the token), the condition is re-checked after every wake-up, failure only when cancelled;
                              acquire: count_ never goes below 0 and drops by exactly one on success; lock: hold_token_ becomes the
                              caller (re-entrant lock by the holder succeeds at once); operator>>: the value returned is the FRONT of
                              the queue (FIFO, tracked element), the queue shrinks by one.
 release / unlock / operator<< the resource is made available FIRST and then waiters are popped in FIFO order until resume() succeeds
                              on one (stale tokens of cancelled routines are skipped) or the queue is empty: one live waiter is woken
                              per release / unlock / value sent, whatever the count or queue length was [found: two releases / sends
                              in a row, or a re-lock by the releaser, lost a wake-up - fixed cda2bca, 53bfbfa, 851fdd8];
                              operator<< appends at the BACK; unlock by a non-holder does nothing.
Condition<int> / Broadcast: specs/C18/condition.py.
Not decided: the scheduler itself (context switches, cancel, cleanup, join), interleavings of more than the calls above.
"""
import os
from verif import UnitSpec, Target
from plugins import StdFunction, StdVector, OpaqueString
TU = '/verif/drivers/coroutine_tu.cpp'
N = 'tbox::coroutine::'
R = {'coroutine_Semaphore_acquire': 'Sem_acquire', 'coroutine_Semaphore_release': 'Sem_release', 'coroutine_Mutex_lock': 'Mu_lock', 'coroutine_Mutex_unlock': 'Mu_unlock',
     'coroutine_Channel_int__op_shr': 'Ch_recv', 'coroutine_Channel_int__op_shl': 'Ch_send', 'coroutine_Scheduler_wait': 'Sch_wait', 'coroutine_Scheduler_resume': 'Sch_resume',
     'coroutine_Scheduler_getToken': 'Sch_getToken', 'coroutine_Scheduler_isCanceled': 'Sch_isCanceled', 'cabinet_Token_ctor__Ktbox_cabinet_Tokenr': 'Token_copy'}
EARLY = 'struct v_Sched { char opaque; };\nvoid v_ch_hook(const void *v, int op);\n#undef V_ABS_HOOK\n#define V_ABS_HOOK(v, op) v_ch_hook((const void *)(v), op)\nstatic int g_elem;\n'
PRELUDE = r'''
typedef struct coroutine_Semaphore Sem; typedef struct coroutine_Mutex Mu; typedef struct coroutine_Channel_int_ Ch; typedef struct cabinet_Token Token; typedef struct v_vec_cabinet_Token TQ;
#define T(x) ((x) != 0)
static Token g_me;                              /* the calling routine */
static TQ *g_q;                                  /* the waiter queue of the primitive under contract */
static _Bool g_queued;                           /* my token is in the waiter queue */
static _Bool g_cancelled;                        /* what isCanceled() answers after the last wait */
static size_t g_waits, g_pushes;
static size_t g_first_live;                      /* index (from the front) of the first waiter whose resume() succeeds */
static size_t g_resume_calls, g_resumed;
static const void *g_valq; static int *g_count; static Token *g_hold; static size_t *g_vals;   /* state other routines may change while this one is suspended */
static int g_seen, g_cnt_after; static _Bool g_free_seen; static size_t g_qsize_seen, g_q0, g_sz_after, g_front_reads, g_back_pushes;
static size_t g_j;           /* channel: tracked element */
'''
EXTERN = r'''
void v_ch_hook(const void *v, int op) { if (v == (const void *)g_valq) { if (op == 3) g_front_reads++; if (op == 1) g_back_pushes++; if (op == 2) __CPROVER_assert(0, "a channel never removes from the back"); } }
Token Sch_getToken(struct v_Sched *s)
__CPROVER_assigns()
__CPROVER_ensures(__CPROVER_return_value.id_ == g_me.id_ && __CPROVER_return_value.pos_ == g_me.pos_)
;
_Bool Sch_isCanceled(struct v_Sched *s)
__CPROVER_assigns()
__CPROVER_ensures(T(__CPROVER_return_value) == T(g_cancelled))
;
/* suspended: other routines run.  PRE: my token is queued (else nobody can ever wake me: a lost wake-up in the making). */
void Sch_wait(struct v_Sched *s)
__CPROVER_requires(T(g_queued) && g_pushes == g_waits + 1)
__CPROVER_assigns(g_waits, g_queued, g_cancelled, g_q->size, WAIT_ASSIGNS)
__CPROVER_ensures(g_waits == __CPROVER_old(g_waits) + 1 && (g_cancelled == 0 || g_cancelled == 1) && (g_queued == 0 || g_queued == 1))
__CPROVER_ensures(!T(g_cancelled) ==> !T(g_queued))                                  /* woken by a hand-over: the waker popped my token */
__CPROVER_ensures(g_q->size < V_MAXSZ && WAIT_ENSURES)
;
/* resume succeeds exactly for live waiters: the first g_first_live tokens in the queue are stale */
_Bool Sch_resume(struct v_Sched *s, Token *t)
__CPROVER_requires(g_resumed == 0)                                                   /* at most one routine is woken per hand-over */
__CPROVER_assigns(g_resume_calls, g_resumed)
__CPROVER_ensures(g_resume_calls == __CPROVER_old(g_resume_calls) + 1 && T(__CPROVER_return_value) == (__CPROVER_old(g_resume_calls) == g_first_live) && g_resumed == (T(__CPROVER_return_value) ? 1 : 0))
;
'''
WAITER_POST = r'''
__CPROVER_ensures(g_pushes == g_waits)                                              /* queued before every single wait */
__CPROVER_ensures(!T(__CPROVER_return_value) ==> T(g_cancelled))   /* failure only because the routine was cancelled */
'''
def WAKER_POST(q): return r'''
__CPROVER_ensures(g_resume_calls == (g_first_live < __CPROVER_old(Q.size) ? g_first_live + 1 : __CPROVER_old(Q.size)))       /* stale tokens skipped, in FIFO order */
__CPROVER_ensures(g_resumed == (g_first_live < __CPROVER_old(Q.size) ? 1 : 0))                                             /* a live waiter, if any, is woken - always */
__CPROVER_ensures(Q.size == __CPROVER_old(Q.size) - g_resume_calls)
'''.replace('Q', q)
WAKER_LOOP = lambda q: r'''
__CPROVER_assigns(g_resume_calls, g_resumed, Q.size, v_vec_cabinet_Token_cell)
__CPROVER_loop_invariant(g_resumed == 0 && g_resume_calls <= g_first_live && g_resume_calls <= g_q0 && Q.size == g_q0 - g_resume_calls)
__CPROVER_decreases(Q.size)
'''.replace('Q', q)
SPEC = {
    ('prelude_early',): EARLY, ('prelude',): PRELUDE, ('after_protos',): EXTERN,
    ('stub', 'Sch_wait'): True, ('stub', 'Sch_resume'): True, ('stub', 'Sch_getToken'): True, ('stub', 'Sch_isCanceled'): True,
    # ---------------- semaphore
    ('contract', 'Sem_acquire'): r'''
__CPROVER_requires(__CPROVER_is_fresh(self, sizeof(*self)) && self->count_ >= 0 && self->count_ < 1000000 && self->token_.size < V_MAXSZ)
__CPROVER_assigns(g_valq, g_q, g_count, g_hold, g_vals, g_queued, g_cancelled, g_waits, g_pushes, g_seen, g_free_seen, g_qsize_seen, self->count_, self->token_.size)
__CPROVER_ensures(self->count_ >= 0)                                               /* never more acquisitions than releases + initial count */
__CPROVER_ensures(T(__CPROVER_return_value) ==> (self->count_ == g_seen - 1 && g_seen >= 1))
''' + WAITER_POST,
    ('ghost', 'Sem_acquire', 'entry'): 'g_valq = 0; g_q = &self->token_; g_count = &self->count_; g_hold = 0; g_vals = 0; g_queued = 0; g_waits = 0; g_pushes = 0; g_seen = self->count_;',
    ('loop', 'Sem_acquire', 1): r'''
__CPROVER_assigns(g_queued, g_cancelled, g_waits, g_pushes, g_seen, self->count_, self->token_.size)
__CPROVER_loop_invariant(g_pushes == g_waits && !T(g_queued) && self->count_ >= 0 && self->count_ < 1000000 && self->token_.size < V_MAXSZ && g_seen == self->count_)
''',
    ('ghost', 'Sem_acquire', 'after_call:push:1'): 'g_queued = 1; g_pushes++;',
    ('ghost', 'Sem_acquire', 'after_call:Sch_wait:1'): 'g_seen = self->count_;',
    ('contract', 'Sem_release'): r'''
__CPROVER_requires(__CPROVER_is_fresh(self, sizeof(*self)) && self->count_ >= 0 && self->count_ < 1000000 && self->token_.size < V_MAXSZ)
__CPROVER_assigns(g_valq, g_resume_calls, g_resumed, g_q0, g_cnt_after, self->count_, self->token_.size, v_vec_cabinet_Token_cell)
__CPROVER_ensures(self->count_ == __CPROVER_old(self->count_) + 1)
''' + WAKER_POST('self->token_'),
    ('ghost', 'Sem_release', 'entry'): 'g_cnt_after = self->count_; g_valq = 0; g_resume_calls = 0; g_resumed = 0; g_q0 = self->token_.size;',
    ('loop', 'Sem_release', 1): WAKER_LOOP('self->token_'),
    ('ghost', 'Sem_release', 'before_call:Sch_resume:1'): '__CPROVER_assert(self->count_ == g_cnt_after + 1, "the unit is made available before a waiter is woken");',
    # ---------------- mutex
    ('contract', 'Mu_lock'): r'''
__CPROVER_requires(__CPROVER_is_fresh(self, sizeof(*self)) && self->wait_tokens_.size < V_MAXSZ && g_me.id_ != 0)
__CPROVER_assigns(g_valq, g_q, g_count, g_hold, g_vals, g_queued, g_cancelled, g_waits, g_pushes, g_seen, g_free_seen, g_qsize_seen, self->hold_token_, self->wait_tokens_.size)
__CPROVER_ensures(T(__CPROVER_return_value) ==> (self->hold_token_.id_ == g_me.id_ && self->hold_token_.pos_ == g_me.pos_))       /* held by the caller */
__CPROVER_ensures((T(__CPROVER_return_value) && g_waits > 0) ==> g_free_seen == 1)                                                 /* taken only when seen free */
/* never taken from another holder: whoever waited and ends up as the holder saw the mutex free - the cancelled waiter included; a refused lock() holds nothing */
__CPROVER_ensures((self->hold_token_.id_ == g_me.id_ && self->hold_token_.pos_ == g_me.pos_ && g_waits > 0) ==> g_free_seen == 1)
__CPROVER_ensures(!T(__CPROVER_return_value) ==> !(self->hold_token_.id_ == g_me.id_ && self->hold_token_.pos_ == g_me.pos_))
''' + WAITER_POST,
    ('ghost', 'Mu_lock', 'entry'): 'g_valq = 0; g_q = &self->wait_tokens_; g_count = 0; g_hold = &self->hold_token_; g_vals = 0; g_queued = 0; g_waits = 0; g_pushes = 0; g_free_seen = 0;',
    ('loop', 'Mu_lock', 1): r'''
__CPROVER_assigns(g_queued, g_cancelled, g_waits, g_pushes, g_free_seen, self->hold_token_, self->wait_tokens_.size)
__CPROVER_loop_invariant(g_pushes == g_waits && !T(g_queued) && self->wait_tokens_.size < V_MAXSZ && (g_free_seen == 0 || g_free_seen == 1) && (g_waits > 0 ==> T(g_free_seen) == (self->hold_token_.id_ == 0)))
''',
    ('ghost', 'Mu_lock', 'after_call:push:1'): 'g_queued = 1; g_pushes++;',
    ('ghost', 'Mu_lock', 'after_call:Sch_wait:1'): 'g_free_seen = (self->hold_token_.id_ == 0);',
    ('contract', 'Mu_unlock'): r'''
__CPROVER_requires(__CPROVER_is_fresh(self, sizeof(*self)) && self->wait_tokens_.size < V_MAXSZ && g_me.id_ != 0)
__CPROVER_assigns(g_valq, g_resume_calls, g_resumed, g_q0, self->hold_token_, self->wait_tokens_.size, v_vec_cabinet_Token_cell)
__CPROVER_ensures(IS_HOLDER ==> self->hold_token_.id_ == 0)
__CPROVER_ensures(!IS_HOLDER ==> (g_resume_calls == 0 && self->hold_token_.id_ == __CPROVER_old(self->hold_token_.id_) && self->wait_tokens_.size == __CPROVER_old(self->wait_tokens_.size)))
__CPROVER_ensures(IS_HOLDER ==> (g_resume_calls == (g_first_live < __CPROVER_old(self->wait_tokens_.size) ? g_first_live + 1 : __CPROVER_old(self->wait_tokens_.size)) &&
                  g_resumed == (g_first_live < __CPROVER_old(self->wait_tokens_.size) ? 1 : 0)))
''',
    ('ghost', 'Mu_unlock', 'entry'): 'g_valq = 0; g_resume_calls = 0; g_resumed = 0; g_q0 = self->wait_tokens_.size;',
    ('loop', 'Mu_unlock', 1): WAKER_LOOP('self->wait_tokens_'),
    ('ghost', 'Mu_unlock', 'before_call:Sch_resume:1'): '__CPROVER_assert(self->hold_token_.id_ == 0, "the mutex is free before a waiter is woken");',
    # ---------------- channel
    ('contract', 'Ch_recv'): r'''
__CPROVER_requires(__CPROVER_is_fresh(self, sizeof(*self)) && __CPROVER_is_fresh(out, sizeof(int)) && self->token_.size < V_MAXSZ && self->queue_.size < V_MAXSZ)
__CPROVER_assigns(g_q, g_count, g_hold, g_vals, g_queued, g_cancelled, g_waits, g_pushes, g_seen, g_free_seen, g_qsize_seen, g_front_reads, g_back_pushes, g_valq, *out, self->queue_.size, self->token_.size, v_vec_int_cell, v_vec_cabinet_Token_cell)
__CPROVER_ensures(T(__CPROVER_return_value) ==> (*out == g_elem && g_front_reads == 1 && self->queue_.size == g_qsize_seen - 1 && g_qsize_seen >= 1))   /* the value at the FRONT, removed exactly once */
__CPROVER_ensures(!T(__CPROVER_return_value) ==> g_front_reads == 0)
''' + WAITER_POST,
    ('ghost', 'Ch_recv', 'entry'): 'g_q = &self->token_; g_count = 0; g_hold = 0; g_vals = &self->queue_.size; g_valq = &self->queue_; g_queued = 0; g_waits = 0; g_pushes = 0; g_qsize_seen = self->queue_.size; g_front_reads = 0;',
    ('loop', 'Ch_recv', 1): r'''
__CPROVER_assigns(g_queued, g_cancelled, g_waits, g_pushes, g_qsize_seen, self->queue_.size, self->token_.size)
__CPROVER_loop_invariant(g_pushes == g_waits && !T(g_queued) && self->token_.size < V_MAXSZ && self->queue_.size < V_MAXSZ && g_qsize_seen == self->queue_.size && g_front_reads == 0)
''',
    ('ghost', 'Ch_recv', 'after_call:push:1'): 'g_queued = 1; g_pushes++;',
    ('ghost', 'Ch_recv', 'after_call:Sch_wait:1'): 'g_qsize_seen = self->queue_.size;',
    ('contract', 'Ch_send'): r'''
__CPROVER_requires(__CPROVER_is_fresh(self, sizeof(*self)) && __CPROVER_is_fresh(value, sizeof(int)) && self->token_.size < V_MAXSZ && self->queue_.size < V_MAXSZ - 1)
__CPROVER_assigns(g_resume_calls, g_resumed, g_q0, g_sz_after, g_front_reads, g_back_pushes, g_valq, self->queue_.size, self->token_.size, v_vec_cabinet_Token_cell)
__CPROVER_ensures(self->queue_.size == __CPROVER_old(self->queue_.size) + 1 && g_back_pushes == 1)    /* appended at the back, once */
''' + WAKER_POST('self->token_'),
    ('ghost', 'Ch_send', 'entry'): 'g_resume_calls = 0; g_resumed = 0; g_q0 = self->token_.size; g_back_pushes = 0; g_valq = &self->queue_; g_sz_after = self->queue_.size;',
    ('loop', 'Ch_send', 1): WAKER_LOOP('self->token_') .replace('__CPROVER_loop_invariant(g_resumed == 0', '__CPROVER_loop_invariant(self->queue_.size == g_sz_after + 1 && g_back_pushes == 1 && g_resumed == 0'),
    ('ghost', 'Ch_send', 'before_call:Sch_resume:1'): '__CPROVER_assert(self->queue_.size == g_sz_after + 1, "the value is in the queue before a reader is woken");',
}
SPEC[('prelude',)] = PRELUDE + '#define IS_HOLDER (__CPROVER_old(self->hold_token_.id_) == g_me.id_ && __CPROVER_old(self->hold_token_.pos_) == g_me.pos_)\n'
H = lambda body: '\nvoid H(void)\n{\n' + body + '\n  __CPROVER_assert(0, "VACUITY-CANARY");\n}\n'
ST = ['Sch_wait', 'Sch_resume', 'Sch_getToken', 'Sch_isCanceled']
WAITS = {'Sem_': ('*g_count', '*g_count >= 0 && *g_count < 1000000'), 'Mu_': ('*g_hold', '!(g_hold->id_ == g_me.id_ && g_hold->pos_ == g_me.pos_)'),       # rely: while this routine is suspended the others store only THEIR OWN token (lock's postcondition, applied to them)
         'Ch_': ('*g_vals', '*g_vals < V_MAXSZ')}
def _sub(prefix):
    d = {k: v for k, v in SPEC.items() if len(k) < 2 or k[0] == 'stub' or k[1].startswith(prefix)}
    d[('after_protos',)] = EXTERN.replace('WAIT_ASSIGNS', WAITS[prefix][0]).replace('WAIT_ENSURES', WAITS[prefix][1])
    return d
def U(name, emit, targets, prefix): return UnitSpec(name=name, tu=TU, filter='tbox::coroutine', more_filters=[(TU, 'cabinet::Token')], rename=R, spec=_sub(prefix), emit=emit, targets=targets,
    plugins=[StdFunction(), StdVector(abstract={'struct cabinet_Token': '1', 'int': 'x == g_elem'}), OpaqueString()], model_headers=['fn_model.h', 'vec_model.h', 'misc_model.h'],
    opaque_records={'tbox::coroutine::Scheduler': 'struct v_Sched'}, trusted=['drivers/coroutine_tu.cpp: includes + explicit instantiation Channel<int> (no logic)'])
UNITS = [
  U('co_semaphore', [N + 'Semaphore::acquire', N + 'Semaphore::release'], [
      Target('acquire', H('  Sem *s; Sem_acquire(s);'), enforce='Sem_acquire', replace=ST, clause='acquire: queued before every wait, re-check after every wake-up, count never negative'),
      Target('release', H('  Sem *s; Sem_release(s);'), enforce='Sem_release', replace=ST, clause='release: count + 1, then one live waiter woken (stale tokens skipped) whatever the count was')], 'Sem_'),
  U('co_mutex', [N + 'Mutex::lock', N + 'Mutex::unlock'], [
      Target('lock', H('  Mu *m; Mu_lock(m);'), enforce='Mu_lock', replace=ST, clause='lock: queued before every wait, taken only when seen free, re-entrant for the holder'),
      Target('unlock', H('  Mu *m; Mu_unlock(m);'), enforce='Mu_unlock', replace=ST, clause='unlock: by the holder only; freed, then one live waiter woken')], 'Mu_'),
  U('co_channel', [N + 'Channel<int>::operator>>', N + 'Channel<int>::operator<<'], [
      Target('recv', H('  Ch *c; int *o; Ch_recv(c, o);'), enforce='Ch_recv', replace=ST, clause='receive: FIFO front, once; queued before every wait'),
      Target('send', H('  Ch *c; const int *v; Ch_send(c, v);'), enforce='Ch_send', replace=ST, clause='send: appended at the back, then one live reader woken')], 'Ch_'),
]
REPLAY_SOURCES = []
def native_replay(u, t, o, w, workdir):
    import replay as rp
    L = '/repo/_build/modules'
    libs = ['%s/coroutine/libtbox_coroutine.a' % L, '%s/event/libtbox_event.a' % L, '%s/util/libtbox_util.a' % L, '%s/base/libtbox_base.a' % L, '-ldl']
    return rp.attempt('coroutine', [], os.path.join(workdir, 'replay'), [('scenario', [])], extra=libs)
