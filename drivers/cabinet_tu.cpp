// explicit instantiation driver (no logic): makes clang instantiate every member of Cabinet<VObj> / ObjectPool<VObj>
#include <cstddef>
#include <tbox/base/cabinet.hpp>
#include <tbox/base/object_pool.hpp>
struct VObj { int x; };
template class tbox::cabinet::Cabinet<VObj>;
