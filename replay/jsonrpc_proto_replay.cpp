// native replay driver for the jsonrpc framings (HeaderStreamProto / RawStreamProto): hostile length fields, every
// segmentation of a short stream, encoder/decoder round trip.
#include <cstdio>
#include <cstdlib>
#include <cstring>
#include <string>
#include <vector>
#include <tbox/base/json.hpp>
#include <tbox/jsonrpc/protos/header_stream_proto.h>
#include <tbox/jsonrpc/protos/raw_stream_proto.h>
using namespace tbox; using namespace tbox::jsonrpc;

template <typename P> static int feed(P &proto, const std::vector<uint8_t> &stream, size_t cut1, size_t cut2, int &msgs) {
  // drive onRecvData the way a connection does: keep unconsumed bytes, append the next segment
  std::vector<uint8_t> pending; size_t cuts[3] = {cut1, cut2, stream.size()}; size_t from = 0;
  for (size_t c : cuts) {
    if (c < from) continue;
    pending.insert(pending.end(), stream.begin() + from, stream.begin() + c); from = c;
    for (;;) {
      uint8_t *exact = (uint8_t *)malloc(pending.size() ? pending.size() : 1); memcpy(exact, pending.data(), pending.size());
      ssize_t r;
      try { r = proto.onRecvData(exact, pending.size()); }
      catch (const std::exception &e) { free(exact); printf("VIOLATION: exception '%s' escaped onRecvData (%zu bytes pending)\n", e.what(), pending.size()); return 1; }
      free(exact);
      if (r > (ssize_t)pending.size()) { printf("VIOLATION: onRecvData consumed %zd of %zu bytes\n", r, pending.size()); return 1; }
      if (r <= 0) break;
      pending.erase(pending.begin(), pending.begin() + r);
    }
  }
  return 0;
}
int main(int argc, char **argv) {
  // 1. hostile length fields
  for (uint32_t len : {0xffffffffu, 0xfffffffeu, 0xfffffffau, 0xfffffff9u, 0x80000000u, 100u}) {
    HeaderStreamProto p(0x3e5a); int n = 0; p.setRecvCallback([&](int, const std::string &, const Json &) { ++n; }, [&](int, int, const Json &) {});
    std::vector<uint8_t> d = {0x3e, 0x5a, (uint8_t)(len >> 24), (uint8_t)(len >> 16), (uint8_t)(len >> 8), (uint8_t)len, '{', '}'};
    int m = 0; if (feed(p, d, d.size(), d.size(), m)) { printf("input: header frame with length field 0x%08x and 2 bytes of text\n", len); return 1; }
  }
  // 2. every 2-cut segmentation of a stream of three encoded requests decodes to the same messages
  for (int kind = 0; kind < 2; ++kind) {
    std::vector<uint8_t> stream; int sent = 0;
    auto sink = [&](const void *p, size_t n) { stream.insert(stream.end(), (const uint8_t *)p, (const uint8_t *)p + n); };
    HeaderStreamProto he(0x3e5a); RawStreamProto re; Proto *enc = kind == 0 ? (Proto *)&he : (Proto *)&re;
    enc->setSendCallback(sink);
    enc->sendRequest(1, "a", Json::object()); enc->sendRequest(2, "b\"\\\\", Json({{"k", "v\\\"{[" }})); enc->sendResult(3, Json::array({1, 2}));
    for (size_t c1 = 0; c1 <= stream.size(); ++c1) for (size_t c2 = c1; c2 <= stream.size(); c2 += 3) {
      HeaderStreamProto hd(0x3e5a); RawStreamProto rd; Proto *dec = kind == 0 ? (Proto *)&hd : (Proto *)&rd;
      int got = 0; dec->setRecvCallback([&](int, const std::string &, const Json &) { ++got; }, [&](int, int, const Json &) { ++got; });
      int m = 0; int bad = kind == 0 ? feed(hd, stream, c1, c2, m) : feed(rd, stream, c1, c2, m);
      if (bad || got != 3) { printf("VIOLATION: %s framing, stream of 3 messages cut at %zu/%zu decoded %d messages\n", kind == 0 ? "header" : "raw", c1, c2, got); return 1; }
    }
  }
  return 0;
}
