"""C19 — scalable integer codec (modules/util/scalable_integer.cpp).

Reference taken from the published format, not from the code's tables: an n-byte
encoding carries 7 payload bits per byte, and the value ranges of successive
lengths are stacked (length n starts where length n-1 ends), so
  MAX(1)=0x7f, MAX(n)=MAX(n-1)+2^(7n)   (n<=9),  length 10 covers the rest.
Both loops are bounded by the constant 10, so --unwind 12 with unwinding
assertions is a complete unrolling (strength U).
"""
from verif import UnitSpec, Target

PRELUDE = r'''
/* spec function: bytes needed for v, from the format definition */
#define SI_MAX1 0x7fUL
#define SI_MAX2 (SI_MAX1 + (1UL << 14))
#define SI_MAX3 (SI_MAX2 + (1UL << 21))
#define SI_MAX4 (SI_MAX3 + (1UL << 28))
#define SI_MAX5 (SI_MAX4 + (1UL << 35))
#define SI_MAX6 (SI_MAX5 + (1UL << 42))
#define SI_MAX7 (SI_MAX6 + (1UL << 49))
#define SI_MAX8 (SI_MAX7 + (1UL << 56))
#define SI_MAX9 (SI_MAX8 + (1UL << 63))
#define SI_NEED(v) ((v) <= SI_MAX1 ? 1UL : (v) <= SI_MAX2 ? 2UL : (v) <= SI_MAX3 ? 3UL : (v) <= SI_MAX4 ? 4UL : \
                    (v) <= SI_MAX5 ? 5UL : (v) <= SI_MAX6 ? 6UL : (v) <= SI_MAX7 ? 7UL : (v) <= SI_MAX8 ? 8UL : (v) <= SI_MAX9 ? 9UL : 10UL)
'''

SPEC = {
    ('contract', 'util_DumpScalableInteger'): r'''
__CPROVER_requires(buff_size < V_MAXSZ)
__CPROVER_requires(buff_size == 0 || __CPROVER_is_fresh(buff_ptr, buff_size))
__CPROVER_assigns(buff_size >= 10: __CPROVER_object_upto(buff_ptr, 10); buff_size > 0 && buff_size < 10: __CPROVER_object_upto(buff_ptr, buff_size))
__CPROVER_ensures(__CPROVER_return_value == (buff_size < SI_NEED(in_value) ? 0UL : SI_NEED(in_value)))
__CPROVER_ensures(__CPROVER_return_value <= buff_size && __CPROVER_return_value <= 10)
''',
    ('contract', 'util_ParseScalableInteger'): r'''
__CPROVER_requires(buff_size < V_MAXSZ)
__CPROVER_requires(buff_size == 0 || __CPROVER_is_fresh(buff_ptr, buff_size))
__CPROVER_requires(__CPROVER_is_fresh(out_value, sizeof(uint64_t)))
__CPROVER_assigns(*out_value)
__CPROVER_ensures(__CPROVER_return_value <= buff_size && __CPROVER_return_value <= 10)
__CPROVER_ensures(__CPROVER_return_value == 0 ==> *out_value == __CPROVER_old(*out_value))
''',
}

H_DUMP = r'''
void H(void) { uint64_t v; void *p; size_t n; util_DumpScalableInteger(v, p, n); __CPROVER_assert(0, "VACUITY-CANARY"); }
'''
H_PARSE = r'''
void H(void) { const void *p; size_t n; uint64_t *o; util_ParseScalableInteger(p, n, o); __CPROVER_assert(0, "VACUITY-CANARY"); }
'''
# frame at byte granularity: bytes at and beyond the returned length keep their value (tracked index k)
H_DUMP_FRAME = r'''
void H(void)
{
  uint64_t v; size_t n; size_t k; __CPROVER_assume(n >= 1 && n <= 16 && k < n);
  uint8_t *p = v_alloc_ok(n); uint8_t old = p[k];
  size_t r = util_DumpScalableInteger(v, p, n);
  __CPROVER_assert(k >= r ==> p[k] == old, "Dump writes only the first ret bytes (tracked byte beyond ret unchanged; ret==0: nothing written)");
  __CPROVER_assert(r >= 1 ==> (p[r - 1] & 0x80) == 0, "last byte of an encoding has the continuation bit clear");
  __CPROVER_assert((r >= 1 && k < r - 1) ==> (p[k] & 0x80) != 0, "every earlier byte has the continuation bit set");
  __CPROVER_assert(0, "VACUITY-CANARY");
}
'''
# inverse pair on every 64-bit value; the decoder is given the encoding followed by arbitrary trailing bytes
H_ROUNDTRIP = r'''
void H(void)
{
  uint64_t v; uint8_t buf[16]; size_t m; __CPROVER_assume(m >= 10 && m <= 16);
  uint8_t fill; for (int i = 0; i < 16; ++i) { uint8_t x; buf[i] = x; }
  size_t r = util_DumpScalableInteger(v, buf, 10);
  __CPROVER_assert(r == SI_NEED(v), "Dump into 10 bytes always succeeds with the advertised size");
  uint64_t out = 0; size_t w = util_ParseScalableInteger(buf, m, &out);
  __CPROVER_assert(w == r, "Parse consumes exactly the bytes Dump produced");
  __CPROVER_assert(out == v, "Parse(Dump(v)) == v for every 64-bit v");
  uint64_t out2 = 0; size_t w2 = util_ParseScalableInteger(buf, r, &out2);
  __CPROVER_assert(w2 == r && out2 == v, "Parse of exactly the encoding");
  if (r >= 2) { uint64_t o3 = 77; size_t w3 = util_ParseScalableInteger(buf, r - 1, &o3);
    __CPROVER_assert(w3 == 0 && o3 == 77, "truncated encoding is rejected and the output untouched"); }
  __CPROVER_assert(0, "VACUITY-CANARY");
}
'''

UNITS = [UnitSpec(
    name='scalable_integer', tu='modules/util/scalable_integer.cpp', filter='tbox::util',
    emit=['tbox::util::DumpScalableInteger', 'tbox::util::ParseScalableInteger'],
    spec=SPEC, prelude=PRELUDE, defines=['V_MEM_PRECISE'],
    targets=[
        Target('dump.contract', H_DUMP, enforce='util_DumpScalableInteger', unwind=12, loops=False,
               clause='Dump: size advertised by the format, never beyond capacity, frame = first min(cap,10) bytes'),
        Target('parse.contract', H_PARSE, enforce='util_ParseScalableInteger', unwind=13, loops=False,
               clause='Parse: arbitrary bytes, reads inside input, tables indexed in range, returns 0 or consumed <= 10'),
        Target('dump.frame', H_DUMP_FRAME, unwind=12, loops=False, functions=['util_DumpScalableInteger'],
               clause='Dump byte frame + continuation-bit shape (buffer sizes 1..16 symbolic; loops constant-bounded)'),
        Target('roundtrip', H_ROUNDTRIP, unwind=18, loops=False, functions=['util_DumpScalableInteger', 'util_ParseScalableInteger'],
               clause='Parse(Dump(v)) == v for all 2^64 v, with trailing garbage, exact and truncated input'),
    ],
)]


REPLAY_SOURCES = ['modules/util/scalable_integer.cpp']

def native_replay(u, t, o, w, workdir):
    """decode the CBMC counterexample into concrete arguments of the real function, else fall back to the driver's search"""
    import replay as rp
    tries = []
    if t.enforce == 'util_ParseScalableInteger' or 'Parse' in o.name:
        vals = [rp.to_int(v) & 0xff for v in rp.steps_values(w, 'util_ParseScalableInteger', 'value')]
        n = rp.to_int(w.get('inputs', {}).get('n'), len(vals))
        n = min(n, 16)
        data = (vals + [0] * 16)[:max(n, 0)]
        tries.append(('cbmc-trace', ['parse', n, ''.join('%02x' % b for b in data) or '00']))
    v = w.get('inputs', {}).get('v')
    if v is not None:
        cap = rp.to_int(w.get('inputs', {}).get('n'), 10)
        tries.append(('cbmc-trace', ['dump', rp.to_int(v), min(cap, 32)]))
    tries.append(('native-search', ['search', 1]))
    return rp.attempt('scalable_integer', REPLAY_SOURCES, os.path.join(workdir, 'replay'), tries)
import os
