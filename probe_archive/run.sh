#!/bin/bash
# usage: run.sh file.c func "stubs..." [cbmc flags]
f=$1; fn=$2; stubs=$3; shift 3
rep=""; for s in $stubs; do rep="$rep --replace-call-with-contract $s"; done
goto-cc --function harness $f -o ${f%.c}.gb 2>&1 | tail -5 || exit 2
goto-instrument --dfcc harness --enforce-contract $fn $rep --apply-loop-contracts ${f%.c}.gb ${f%.c}2.gb 2>&1 | grep -v "^Reading\|^Loading\|^Adding\|^Instrument\|^Specializ\|^Removing\|^Writing\|^Inlining\|^Updating\|^Dropping\|^Parsing\|^Convert\|^Type-check\|^Generat" | tail -10
ulimit -v 12000000
/usr/bin/time -f "wall %es mem %MKB" timeout 600 cbmc ${f%.c}2.gb --bounds-check --pointer-check --pointer-overflow-check --unsigned-overflow-check "$@" 2>&1 | grep -v ": SUCCESS" | tail -40
