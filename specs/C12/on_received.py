"""C12 — http::server::Server::Impl::onTcpReceived (modules/http/server/server_imp.cpp): from received bytes to request contexts.

The parser (own contract: request_parser.py), the receive buffer (abstract: number of unconsumed bytes), the connection set and the handler
chain are stubs.  Decided here, for every sequence of parser outcomes:
 - each complete request gets exactly one context whose index is the next request index, and goes to the handler chain once;
 - the request that asks for the connection to be closed is the LAST one a context is created for: nothing behind it in the same segment is
   parsed (the rest is discarded), later segments are discarded unparsed - this is the producer side of commitRespond's assumption
   close_index >= res_index  [found: a pipelined request behind the closing one was handled and answered - fixed e0c7034];
 - the read side is never shut down while a response is still owed: EOF makes TcpConnection tear the connection down
   [found: shutdown(SHUT_RD) at the closing request lost late / partly written responses - fixed 196251e];
 - malformed input: disconnect, forget, destroy - once each - and the connection record is not touched afterwards.
"""
import os, importlib.util
from verif import UnitSpec, Target, VERIF
from plugins import StdFunction, StdVector, OpaqueString, StringStreamSink, OpaqueTypes
from models import Plugin
_s = importlib.util.spec_from_file_location('c12_commit', os.path.join(VERIF, 'specs', 'C12', 'commit_respond.py'))
m = importlib.util.module_from_spec(_s); _s.loader.exec_module(m)
TU = m.TU
class HttpGlue(Plugin):
    """std::make_shared<Context>(server, token, index, request) -> stub v_make_ctx (the context object itself is opaque); SHUT_* constants"""
    def enum_constant(self, name): return {'SHUT_RD': '0', 'SHUT_WR': '1', 'SHUT_RDWR': '2'}.get(name)
    def free_call(self, unit, name, rd, args, n):
        if name == 'make_shared':
            unit.count_call('v_make_ctx')
            return 'v_make_ctx(%s)' % ', '.join(unit.addr_of(a) if unit.is_record_type(a) else unit.expr(a) for a in args)
        return None
    def is_model_type(self, ct): return ct.replace('const ', '').strip() == 'struct v_sp'
    def construct_expr(self, unit, n):
        t = n.get('type', {}); q = (t.get('desugaredQualType') or t.get('qualType') or '')
        if 'shared_ptr<' in q and len(unit.kids(n)) == 1: return unit.expr(unit.kids(n)[0])       # copy of the (opaque) shared pointer
        return None
    def local_object(self, unit, v, ct, name, ks, p):
        unit.w(p + 'struct v_sp %s = %s;' % (name, unit.expr(ks[0])))
R = dict(m.R); R.update({'network_TcpServer_shutdown': 'Tcp_shutdown', 'network_TcpServer_disconnect': 'Tcp_disconnect', 'util_Buffer_hasReadAll': 'Buf_hasReadAll', 'util_Buffer_readableSize': 'Buf_readableSize', 'util_Buffer_readableBegin': 'Buf_readableBegin', 'util_Buffer_hasRead': 'Buf_hasRead',
  'http_server_RequestParser_parse': 'RP_parse', 'http_server_RequestParser_state': 'RP_state', 'http_server_RequestParser_getRequest': 'RP_getRequest', 'http_server_IsLastRequest': 'IsLastRequest',
  'http_server_Server_Impl_onTcpReceived': 'Srv_onTcpReceived', 'http_server_Server_Impl_handle': 'Srv_handle'})
STUBS = ['Tcp_getContext', 'Tcp_shutdown', 'Tcp_disconnect', 'Buf_hasReadAll', 'Buf_readableSize', 'Buf_readableBegin', 'Buf_hasRead', 'RP_parse', 'RP_state', 'RP_getRequest', 'IsLastRequest', 'Srv_handle']
PRELUDE = r"""
typedef struct http_server_Server_Impl Srv; typedef struct http_server_Server_Impl_Connection Conn; typedef struct cabinet_Token Token;
#define T(x) ((x) != 0)
#define NOCLOSE 2147483647
#define K_ALL http_server_RequestParser_State_kFinishedAll
#define K_FAIL http_server_RequestParser_State_kFail
static Conn *g_conn; static struct v_Buffer *g_buf;
static size_t g_readable;                 /* abstract receive buffer: bytes not yet consumed */
static int g_state; static _Bool g_last;  /* parser state after the last parse; whether the request just taken asks for the connection to be closed */
static size_t g_parses, g_ctxs, g_handles, g_shutdowns, g_disconnects, g_erases; static _Bool g_deleted; static int g_req0;
/* once a request asked for the connection to be closed, it is the last one a context is created for */
#define CLOSE_INV(c) ((c)->close_index == NOCLOSE || (c)->req_index == (c)->close_index + 1)
"""
EXTERN = r"""
void *Tcp_getContext(struct v_TcpServer *s, Token *ct) __CPROVER_assigns() __CPROVER_ensures(__CPROVER_return_value == (void *)g_conn);
size_t Buf_readableSize(struct v_Buffer *b) __CPROVER_requires(b == g_buf) __CPROVER_assigns() __CPROVER_ensures(__CPROVER_return_value == g_readable);
uint8_t *Buf_readableBegin(struct v_Buffer *b) __CPROVER_requires(b == g_buf) __CPROVER_assigns() __CPROVER_ensures(__CPROVER_return_value != 0);
void Buf_hasReadAll(struct v_Buffer *b) __CPROVER_requires(b == g_buf) __CPROVER_assigns(g_readable) __CPROVER_ensures(g_readable == 0);
void Buf_hasRead(struct v_Buffer *b, size_t n) __CPROVER_requires(b == g_buf && n <= g_readable) __CPROVER_assigns(g_readable) __CPROVER_ensures(g_readable == __CPROVER_old(g_readable) - n);
/* the parser (its own contract: specs/C12/request_parser.py): never claims more than it was given; ends in any state */
size_t RP_parse(struct v_Parser *p, const void *d, size_t n)
__CPROVER_requires(!T(g_deleted) && p == &g_conn->req_parser && d != 0 && n == g_readable && n > 0 && g_conn->close_index == NOCLOSE)     /* nothing is parsed once the closing request has been seen */
__CPROVER_assigns(g_state, g_parses)
__CPROVER_ensures((g_state == K_ALL ==> __CPROVER_return_value >= 1) && __CPROVER_return_value <= n && g_state >= 0 && g_state <= 4 && g_parses == __CPROVER_old(g_parses) + 1)
;
int RP_state(struct v_Parser *p) __CPROVER_requires(!T(g_deleted) && p == &g_conn->req_parser) __CPROVER_assigns() __CPROVER_ensures(__CPROVER_return_value == g_state);
v_hreq RP_getRequest(struct v_Parser *p)
__CPROVER_requires(!T(g_deleted) && p == &g_conn->req_parser && g_state == K_ALL)
__CPROVER_assigns(g_state, g_last)
__CPROVER_ensures(__CPROVER_return_value != 0 && g_state == 0 && (g_last == 0 || g_last == 1))
;
_Bool IsLastRequest(v_hreq r) __CPROVER_requires(r != 0) __CPROVER_assigns() __CPROVER_ensures(T(__CPROVER_return_value) == T(g_last));
/* shutting down the READ side makes the next read return EOF, and TcpConnection tears the whole connection down on EOF (onSocketClosed):
   a response still owed on this connection would never be written.  Allowed only when nothing is owed any more. */
_Bool Tcp_shutdown(struct v_TcpServer *s, Token *ct, int how)
__CPROVER_requires((how != 0 && how != 2) || g_conn->res_index > g_conn->close_index)
__CPROVER_assigns(g_shutdowns) __CPROVER_ensures(g_shutdowns == __CPROVER_old(g_shutdowns) + 1);
/* a request context: index == the next request index, and never beyond the closing request */
struct v_sp v_make_ctx(struct v_Server *parent, Token *ct, int index, v_hreq req)
__CPROVER_requires(!T(g_deleted) && req != 0 && index + 1 == g_conn->req_index && index == g_req0 + (int)g_ctxs)
__CPROVER_requires(index <= g_conn->close_index)
__CPROVER_requires(T(g_last) == (g_conn->close_index == index))
__CPROVER_assigns(g_ctxs) __CPROVER_ensures(g_ctxs == __CPROVER_old(g_ctxs) + 1);
/* the handler chain: may answer now or later (commitRespond advances res_index) */
void Srv_handle(Srv *self, struct v_sp ctx, size_t i)
__CPROVER_requires(i == 0 && g_ctxs == g_handles + 1)
__CPROVER_assigns(g_handles, g_conn->res_index) __CPROVER_ensures(g_handles == __CPROVER_old(g_handles) + 1 && g_conn->res_index >= __CPROVER_old(g_conn->res_index) && g_conn->res_index <= g_conn->req_index);
_Bool Tcp_disconnect(struct v_TcpServer *s, Token *ct) __CPROVER_requires(g_state == K_FAIL && g_disconnects == 0) __CPROVER_assigns(g_disconnects) __CPROVER_ensures(g_disconnects == 1);
size_t v_set__erase(struct v_set *s, Conn *c) __CPROVER_requires(c == g_conn && g_erases == 0) __CPROVER_assigns(g_erases) __CPROVER_ensures(g_erases == 1);
void http_server_Server_Impl_Connection__delete(Conn *c) __CPROVER_requires(c == g_conn && !T(g_deleted) && g_erases == 1 && g_disconnects == 1) __CPROVER_assigns(g_deleted) __CPROVER_ensures(g_deleted == 1);
"""
SPEC = {('prelude_early',): m.EARLY + 'struct v_Buffer { char opaque; }; typedef unsigned long v_hreq;\n', ('prelude',): PRELUDE, ('after_protos',): EXTERN,
    ('contract', 'Srv_onTcpReceived'): r"""
__CPROVER_requires(__CPROVER_is_fresh(self, sizeof(*self)) && __CPROVER_is_fresh(ct, sizeof(*ct)) && __CPROVER_is_fresh(g_conn, sizeof(Conn)) && buff == g_buf && g_buf != 0)
__CPROVER_requires(g_conn->req_index >= 0 && g_conn->req_index < 1000000 && CLOSE_INV(g_conn) && g_conn->res_index >= 0 && g_conn->res_index <= g_conn->req_index && g_readable < 1000000000 && !T(g_deleted))      /* bound: < 10^9 bytes pending in one call (keeps the int request index from overflowing) */
__CPROVER_assigns(g_readable, g_state, g_last, g_parses, g_ctxs, g_handles, g_shutdowns, g_disconnects, g_erases, g_deleted, g_req0, g_conn->close_index, g_conn->req_index, g_conn->res_index)
/* after the closing request everything received is discarded unparsed */
__CPROVER_ensures(__CPROVER_old(g_conn->close_index) != NOCLOSE ==> (g_readable == 0 && g_parses == 0 && g_ctxs == 0 && !T(g_deleted)))
/* every complete request gets exactly one context, with consecutive indices, and is handed to the handler chain once */
__CPROVER_ensures(g_ctxs == g_handles && (!T(g_deleted) ==> g_conn->req_index == __CPROVER_old(g_conn->req_index) + (int)g_ctxs))
/* the request that asks for the connection to be closed is the last one: no context beyond it; the connection stays able to deliver the responses it owes */
__CPROVER_ensures(!T(g_deleted) ==> CLOSE_INV(g_conn))
/* malformed input: the connection is dropped cleanly - disconnected, forgotten, destroyed, once each - and never touched afterwards */
__CPROVER_ensures(T(g_deleted) ==> (g_state == K_FAIL && g_disconnects == 1 && g_erases == 1))
__CPROVER_ensures(!T(g_deleted) ==> (g_disconnects == 0 && g_erases == 0))
""",
    ('ghost', 'Srv_onTcpReceived', 'entry'): 'g_parses = 0; g_ctxs = 0; g_handles = 0; g_shutdowns = 0; g_disconnects = 0; g_erases = 0; g_req0 = g_conn->req_index; size_t g_rd0 = g_readable; int g_close0 = g_conn->close_index;',
    ('loop', 'Srv_onTcpReceived', 1): r"""
__CPROVER_assigns(g_readable, g_state, g_last, g_parses, g_ctxs, g_handles, g_shutdowns, g_disconnects, g_erases, g_deleted, g_conn->close_index, g_conn->req_index, g_conn->res_index)
__CPROVER_loop_invariant(conn == g_conn && !T(g_deleted) && g_close0 == NOCLOSE && g_readable < V_MAXSZ && g_ctxs == g_handles && g_ctxs <= g_rd0 && g_readable <= g_rd0 && g_ctxs + g_readable <= g_rd0 && conn->req_index == g_req0 + (int)g_ctxs)
/* the loop goes round again only while no request has asked for the connection to be closed */
__CPROVER_loop_invariant(conn->close_index == NOCLOSE && g_disconnects == 0 && g_erases == 0 && g_conn->res_index <= g_conn->req_index)
""",
}
SPEC.update({('stub', n): True for n in STUBS + ['http_server_Server_Impl_Connection_dtor']})
H = m.H
UNITS = [UnitSpec(name='on_received', tu=TU, filter='tbox::http', more_filters=[(TU, 'tbox::network'), (TU, 'cabinet::Token'), (TU, 'tbox::util')], rename=R, spec=SPEC, clang_flags=['-fdelayed-template-parsing'],
    plugins=[HttpGlue()] + m.UNITS[0].plugins[:-1] + [OpaqueTypes(dict(m.UNITS[0].plugins[-1].patterns, **{r'^std::shared_ptr<.*>$': 'v_sp'}))], model_headers=m.UNITS[0].model_headers, opaque_records=dict(m.UNITS[0].opaque_records, **{'tbox::util::Buffer': 'struct v_Buffer', 'tbox::http::Request': 'handle:v_hreq'}),
    emit=['tbox::http::server::Server::Impl::onTcpReceived'],
    targets=[Target('onTcpReceived', H('  Srv *s; Token *ct; struct v_Buffer *b; Srv_onTcpReceived(s, ct, b);'), enforce='Srv_onTcpReceived', replace=STUBS + ['v_make_ctx', 'v_set__erase', 'http_server_Server_Impl_Connection__delete'], timeout=300,
        clause='received bytes -> contexts: one context per complete request, consecutive indices; the closing request is the last one a context is created for (rest discarded unparsed); parse failure drops the connection cleanly')])]
def native_replay(u, t, o, w, workdir):
    import replay as rp
    L = '/repo/_build/modules'
    libs = ['%s/%s/libtbox_%s.a' % (L, x, x) for x in ('http', 'network', 'event', 'util', 'base')] + ['-ldl']
    return rp.attempt('http_close_pipeline', ['modules/http/server/server_imp.cpp'], os.path.join(workdir, 'replay'), [('scenario', ['sync']), ('scenario', ['late'])], extra=libs)
