"""C15 — network::UdpSocket::onSocketEvent (modules/network/udp_socket.cpp): a received datagram is handed to the receive callback.

recvfrom(2) stub: stores at most `len` bytes; it answers the number of bytes stored - or, ONLY when MSG_TRUNC is among the flags, the real
length of the datagram, which may exceed `len`.  Decided: the callback gets the local receive buffer and a length that is both > 0 and no
larger than what recvfrom stored (so the DNS parser behind it never reads bytes that are not in the datagram), once, with cb_level_ raised;
nothing is delivered for 0 / -1 or when the event is not a read event.
"""
import os
from verif import UnitSpec, Target
from plugins import StdFunction, StdVector, OpaqueString, StringStreamSink, Syscalls
TU = 'modules/network/udp_socket.cpp'
R = {'network_UdpSocket_onSocketEvent': 'Udp_onSocketEvent', 'network_SocketFd_recvFrom': 'Sock_recvFrom', 'network_SockAddr_ctor__Kstructsockaddr_inr': 'SockAddr_from_in'}
PRELUDE = r'''
typedef struct network_UdpSocket Udp;
#define T(x) ((x) != 0)
static Udp *g_u; static size_t g_stored, g_cb_calls, g_recvs; static const void *g_buf; static size_t g_buf_len;
'''
EXTERN = r'''
ssize_t Sock_recvFrom(struct v_SocketFd *s, void *p, size_t len, int flag, struct sockaddr *a, socklen_t *al)
__CPROVER_requires(s == &g_u->socket_ && len > 0 && len < 1000000 && __CPROVER_w_ok(p, len) && __CPROVER_w_ok(a, *al) && g_recvs == 0)
__CPROVER_assigns(g_recvs, g_stored, g_buf, g_buf_len, v_errno, __CPROVER_object_whole(p), __CPROVER_object_whole(a), *al)
__CPROVER_ensures(g_recvs == 1 && g_buf == p && g_buf_len == len && g_stored <= len && __CPROVER_return_value >= -1)
__CPROVER_ensures(__CPROVER_return_value <= 0 ==> g_stored == 0)
/* without MSG_TRUNC (0x20) the answer is the number of bytes stored; with it, the real datagram length (>= what was stored) */
__CPROVER_ensures(__CPROVER_return_value > 0 ==> ((flag & 0x20) ? (size_t)__CPROVER_return_value >= g_stored && (g_stored == len || (size_t)__CPROVER_return_value == g_stored) : (size_t)__CPROVER_return_value == g_stored))
;
void SockAddr_from_in(struct v_SockAddr *self, struct sockaddr_in *a) __CPROVER_requires(__CPROVER_w_ok(self, sizeof(*self)) && __CPROVER_r_ok(a, sizeof(*a))) __CPROVER_assigns(*self) __CPROVER_ensures(1);
void v_fn_call__void_void_p_unsigned_long_tbox_network_SockAddr_r(struct v_function *f, const void *p, size_t n, struct v_SockAddr *from)
__CPROVER_requires(f == &g_u->recv_cb_ && T(f->engaged) && g_cb_calls == 0 && g_u->cb_level_ >= 1)
__CPROVER_requires(p == g_buf && n > 0 && n <= g_stored)            /* only bytes that recvfrom stored: nothing beyond the datagram, nothing beyond the buffer */
__CPROVER_assigns(g_cb_calls) __CPROVER_ensures(g_cb_calls == 1);
'''
SPEC = {('prelude_early',): 'struct v_SocketFd { char opaque; }; struct v_SockAddr { char opaque; }; struct v_Loop { char opaque; }; typedef unsigned long v_handle;\n', ('prelude',): PRELUDE, ('after_protos',): EXTERN,
    ('stub', 'Sock_recvFrom'): True, ('stub', 'SockAddr_from_in'): True, ('stub', 'network_SockAddr_dtor'): True,
    ('contract', 'Udp_onSocketEvent'): r'''
__CPROVER_requires(__CPROVER_is_fresh(self, sizeof(*self)) && self->cb_level_ >= 0 && self->cb_level_ < 1000)
__CPROVER_assigns(g_u, g_recvs, g_stored, g_buf, g_buf_len, g_cb_calls, v_errno, self->cb_level_)
__CPROVER_ensures(self->cb_level_ == __CPROVER_old(self->cb_level_) && g_cb_calls <= 1)
__CPROVER_ensures((events & 1) == 0 ==> (g_recvs == 0 && g_cb_calls == 0))
__CPROVER_ensures(g_cb_calls == 1 ==> g_stored > 0)
''',
    ('ghost', 'Udp_onSocketEvent', 'entry'): 'g_u = self; g_recvs = 0; g_cb_calls = 0; g_stored = 0;',
}
H = lambda body: '\nvoid H(void)\n{\n' + body + '\n  __CPROVER_assert(0, "VACUITY-CANARY");\n}\n'
UNITS = [UnitSpec(name='udp_socket', tu=TU, filter='tbox::network', more_filters=[(TU, 'tbox::event')], rename=R, spec=SPEC,
    plugins=[StdFunction(), StdVector(), OpaqueString(), StringStreamSink(), Syscalls()], model_headers=['fn_model.h', 'vec_model.h', 'misc_model.h'],
    opaque_records={'tbox::network::SocketFd': 'struct v_SocketFd', 'tbox::network::SockAddr': 'struct v_SockAddr', 'tbox::event::Loop': 'struct v_Loop', 'tbox::event::FdEvent': 'handle:v_handle'},
    emit=['tbox::network::UdpSocket::onSocketEvent'],
    targets=[Target('onSocketEvent', H('  Udp *u; short ev; Udp_onSocketEvent(u, ev);'), enforce='Udp_onSocketEvent', replace=['Sock_recvFrom', 'SockAddr_from_in', 'v_fn_call__void_void_p_unsigned_long_tbox_network_SockAddr_r'],
                    clause='datagram hand-over: the callback gets only bytes that recvfrom stored (length > 0, <= stored <= buffer), once')])]
