#include <stddef.h>
#include <stdint.h>
#include <stdbool.h>
struct D { const uint8_t *start; size_t size; size_t pos; };
/* recursive name walker, shape of FetchDomain */
int walk(struct D *p, int depth_ghost)
__CPROVER_requires(__CPROVER_is_fresh(p, sizeof(*p)))
__CPROVER_requires(p->size < 600 && __CPROVER_is_fresh(p->start, p->size ? p->size : 1) && p->pos <= p->size)
__CPROVER_assigns(p->pos)
__CPROVER_ensures(p->pos <= p->size)
{
  for (;;)
  __CPROVER_assigns(p->pos)
  __CPROVER_loop_invariant(p->pos <= p->size)
  {
    if (p->pos + 1 > p->size) break;
    uint8_t len = p->start[p->pos++];
    if (len == 0) break;
    if ((len & 0xc0) == 0xc0) {
      if (p->pos + 1 > p->size) break;
      uint8_t lo = p->start[p->pos++];
      size_t off = ((len & 0x3f) << 8) | lo;
      struct D sub = *p;
      if (off < sub.size) sub.pos = off;
      walk(&sub, depth_ghost + 1);
      break;
    } else {
      if (p->pos + len > p->size) break;
      p->pos += len;
    }
  }
  return 0;
}
void harness(void) { struct D *p; int d; walk(p, d); }
