"""C11 — main::Module lifecycle (modules/main/module.cpp): initialize / start / stop / cleanup.

User hooks (onInit/onStart/onStop/onCleanup) are virtual: they are stubs returning any bool and stamping ghost state.
Per-module ghost flags  g_init_ok ("onInit succeeded and not yet undone by onCleanup"), g_started  ("onStart succeeded and
not yet undone by onStop").  The hook stubs' PRECONDITIONS are the ordering rules of the property:
   onInit only when !g_init_ok; onStart only when g_init_ok && !g_started; onStop only when g_started;
   onCleanup only when g_init_ok && !g_started (i.e. after stop).
Representation invariant, required of every public call on every pre-state and re-established on every exit:
   MINV:  g_init_ok == (state_ != kNone)   and   g_started == (state_ == kRunning)
which is "every successful init has exactly one cleanup pending, every successful start exactly one stop pending".
Recursion over the tree: calls on children go to child-view contracts (DESIGN 3.4): same effect on the child node, no structural
precondition (A-induction: everything below is a well-formed tree).  Child order: the k-th child call of a pass must be on
child k (forward passes) / child n-1-k (reverse passes) - the expectation is computed from a ghost call counter, not from the
loop variable.  Optional-child isolation: the result is false only if the own hook failed or a REQUIRED child failed.
"""
import os
from verif import UnitSpec, Target
from plugins import StdVector, OpaqueString, OpaqueJson

R = {'main_Module_initialize': 'Mod_initialize', 'main_Module_start': 'Mod_start', 'main_Module_stop': 'Mod_stop', 'main_Module_cleanup': 'Mod_cleanup',
     'main_Module_onInit': 'Mod_onInit', 'main_Module_onStart': 'Mod_onStart', 'main_Module_onStop': 'Mod_onStop', 'main_Module_onCleanup': 'Mod_onCleanup'}

EARLY = r'''
struct v_Context { char opaque; };
struct v_Variables { char opaque; };
'''
GHOST_FIELDS = '  _Bool g_init_ok, g_started;   /* ghost */\n  unsigned long g_t_init, g_t_start, g_t_stop, g_t_cleanup;   /* ghost stamps */'
PRELUDE = r'''
static unsigned long g_clock;                       /* ghost clock, advanced by every hook */
static struct main_Module_ModuleItem *g_kids;       /* ghost: children array of the module under contract (assigned at entry) */
static size_t g_nkids, g_fwd, g_rev;                /* ghost: number of children; child calls made by the forward / reverse pass */
static _Bool g_req_failed;                          /* ghost: a REQUIRED child reported failure in the forward pass */
static _Bool g_own_done, g_own_ok;                  /* ghost: the module's own init/start hook has run (parent before children) / returned true */
#define K_NONE main_Module_State_kNone
#define K_INITED main_Module_State_kInited
#define K_RUNNING main_Module_State_kRunning
/* _Bool values produced by contract havoc may carry any non-zero byte in CBMC: compare truth values, never the bytes */
#define T(x) ((x) != 0)
#define MINV(m) ((m)->state_ >= K_NONE && (m)->state_ <= K_RUNNING && T((m)->g_init_ok) == ((m)->state_ != K_NONE) && T((m)->g_started) == ((m)->state_ == K_RUNNING))
#define ITEMSZ sizeof(struct main_Module_ModuleItem)
'''
REQ = r'''
__CPROVER_requires(__CPROVER_is_fresh(self, sizeof(*self)) && MINV(self))
__CPROVER_requires(self->children_.size < 64 && __CPROVER_is_fresh(self->children_.data, (self->children_.size > 0 ? self->children_.size * ITEMSZ : 1)))   /* empty vector: begin()==end() is a valid pointer value (C++ also allows nullptr + 0) */
'''
GH = 'g_clock, g_kids, g_nkids, g_fwd, g_rev, g_req_failed, g_own_done, g_own_ok, self->state_, self->g_init_ok, self->g_started, self->g_t_init, self->g_t_start, self->g_t_stop, self->g_t_cleanup'

# ---- user hooks: stubs ----
HOOKS = r'''
_Bool Mod_onInit(struct main_Module *self, struct v_json *js_this)
__CPROVER_requires(__CPROVER_rw_ok(self, sizeof(*self)) && !self->g_init_ok && !self->g_started)       /* init only on a module that is not initialised */
__CPROVER_assigns(g_clock, g_own_done, g_own_ok, self->g_init_ok, self->g_t_init)
__CPROVER_ensures(g_clock == __CPROVER_old(g_clock) + 1 && self->g_t_init == g_clock && T(self->g_init_ok) == T(__CPROVER_return_value) && g_own_done && T(g_own_ok) == T(__CPROVER_return_value))
;
_Bool Mod_onStart(struct main_Module *self)
__CPROVER_requires(__CPROVER_rw_ok(self, sizeof(*self)) && self->g_init_ok && !self->g_started)        /* start only after a successful init */
__CPROVER_assigns(g_clock, g_own_done, g_own_ok, self->g_started, self->g_t_start)
__CPROVER_ensures(g_clock == __CPROVER_old(g_clock) + 1 && self->g_t_start == g_clock && T(self->g_started) == T(__CPROVER_return_value) && g_own_done && T(g_own_ok) == T(__CPROVER_return_value))
;
void Mod_onStop(struct main_Module *self)
__CPROVER_requires(__CPROVER_rw_ok(self, sizeof(*self)) && self->g_started)                            /* stop only for started modules */
__CPROVER_requires(g_rev == g_nkids)                                                                   /* ... after all children were stopped (reverse nesting) */
__CPROVER_assigns(g_clock, self->g_started, self->g_t_stop)
__CPROVER_ensures(g_clock == __CPROVER_old(g_clock) + 1 && self->g_t_stop == g_clock && !self->g_started)
;
void Mod_onCleanup(struct main_Module *self)
__CPROVER_requires(__CPROVER_rw_ok(self, sizeof(*self)) && self->g_init_ok && !self->g_started)        /* cleanup only after stop */
__CPROVER_requires(g_rev == g_nkids)                                                                   /* ... after all children were cleaned up */
__CPROVER_assigns(g_clock, self->g_init_ok, self->g_t_cleanup)
__CPROVER_ensures(g_clock == __CPROVER_old(g_clock) + 1 && self->g_t_cleanup == g_clock && !self->g_init_ok)
;
/* ---- child-view contracts (recursive calls through children_[i].module_ptr) ---- */
_Bool Mod_initialize__child(struct main_Module *self, struct v_json *js)
__CPROVER_requires(g_own_done)                                              /* parent's init hook ran before any child's */
__CPROVER_requires(g_fwd < g_nkids && self == g_kids[g_fwd].module_ptr)     /* children in registration order, each once */
__CPROVER_assigns(g_clock, g_fwd, g_req_failed)
__CPROVER_ensures(g_fwd == __CPROVER_old(g_fwd) + 1 && g_clock >= __CPROVER_old(g_clock))
__CPROVER_ensures(T(g_req_failed) == (T(__CPROVER_old(g_req_failed)) || (!__CPROVER_return_value && T(g_kids[__CPROVER_old(g_fwd)].required))))
;
_Bool Mod_start__child(struct main_Module *self)
__CPROVER_requires(g_own_done)
__CPROVER_requires(g_fwd < g_nkids && self == g_kids[g_fwd].module_ptr)
__CPROVER_assigns(g_clock, g_fwd, g_req_failed)
__CPROVER_ensures(g_fwd == __CPROVER_old(g_fwd) + 1 && g_clock >= __CPROVER_old(g_clock))
__CPROVER_ensures(T(g_req_failed) == (T(__CPROVER_old(g_req_failed)) || (!__CPROVER_return_value && T(g_kids[__CPROVER_old(g_fwd)].required))))
;
void Mod_stop__child(struct main_Module *self)
__CPROVER_requires(g_rev < g_nkids && self == g_kids[g_nkids - 1 - g_rev].module_ptr)      /* exactly the reverse order */
__CPROVER_assigns(g_clock, g_rev)
__CPROVER_ensures(g_rev == __CPROVER_old(g_rev) + 1 && g_clock >= __CPROVER_old(g_clock))
;
void Mod_cleanup__child(struct main_Module *self)
__CPROVER_requires(g_rev < g_nkids && self == g_kids[g_nkids - 1 - g_rev].module_ptr)
__CPROVER_assigns(g_clock, g_rev)
__CPROVER_ensures(g_rev == __CPROVER_old(g_rev) + 1 && g_clock >= __CPROVER_old(g_clock))
;
'''
ENTRY = 'g_kids = self->children_.data; g_nkids = self->children_.size; g_fwd = 0; g_rev = 0; g_req_failed = 0; g_own_done = 0; g_own_ok = 0;'

ENTRY_REV = 'g_kids = self->children_.data; g_nkids = self->children_.size; g_rev = 0;'
GH_REV = 'g_clock, g_kids, g_nkids, g_rev, self->state_, self->g_init_ok, self->g_started, self->g_t_init, self->g_t_start, self->g_t_stop, self->g_t_cleanup'
SPEC = {
    ('prelude_early',): EARLY, ('ghost_fields', 'main_Module'): GHOST_FIELDS, ('after_protos',): HOOKS,
    ('stub', 'Mod_onInit'): True, ('stub', 'Mod_onStart'): True, ('stub', 'Mod_onStop'): True, ('stub', 'Mod_onCleanup'): True,
    ('call_as', 'Mod_initialize', 'Mod_initialize'): 'Mod_initialize__child', ('call_as', 'Mod_start', 'Mod_start'): 'Mod_start__child',
    ('call_as', 'Mod_stop', 'Mod_stop'): 'Mod_stop__child', ('call_as', 'Mod_cleanup', 'Mod_cleanup'): 'Mod_cleanup__child',
    ('contract', 'Mod_initialize'): REQ + r'''
__CPROVER_assigns(''' + GH + r''')
__CPROVER_ensures(MINV(self))
__CPROVER_ensures(__CPROVER_return_value ? self->state_ == K_INITED : self->state_ == __CPROVER_old(self->state_))
__CPROVER_ensures(__CPROVER_return_value ==> (g_fwd == g_nkids && !g_req_failed))      /* success: every child was visited, optional failures tolerated */
__CPROVER_ensures((__CPROVER_old(self->state_) == K_NONE && g_own_ok && !g_req_failed && g_fwd == g_nkids) ==> __CPROVER_return_value)   /* failure only for own hook / required child */
''',
    ('ghost', 'Mod_initialize', 'entry'): ENTRY,
    ('loop', 'Mod_initialize', 1): r'''
__CPROVER_assigns(__i1, g_clock, g_fwd, g_req_failed)
__CPROVER_loop_invariant(__i1 <= __r1->size && g_fwd == __i1 && !g_req_failed)
__CPROVER_decreases(__r1->size - __i1)
''',
    ('contract', 'Mod_start'): REQ + r'''
__CPROVER_assigns(''' + GH + r''')
__CPROVER_ensures(MINV(self))
__CPROVER_ensures(__CPROVER_return_value ? self->state_ == K_RUNNING : self->state_ == __CPROVER_old(self->state_))
__CPROVER_ensures(__CPROVER_return_value ==> (g_fwd == g_nkids && !g_req_failed))
__CPROVER_ensures((__CPROVER_old(self->state_) == K_INITED && g_own_ok && !g_req_failed && g_fwd == g_nkids) ==> __CPROVER_return_value)
''',
    ('ghost', 'Mod_start', 'entry'): ENTRY,
    ('loop', 'Mod_start', 1): r'''
__CPROVER_assigns(__i1, g_clock, g_fwd, g_req_failed)
__CPROVER_loop_invariant(__i1 <= __r1->size && g_fwd == __i1 && !g_req_failed)
__CPROVER_decreases(__r1->size - __i1)
''',
    ('contract', 'Mod_stop'): REQ + r'''
__CPROVER_assigns(''' + GH_REV + r''')
__CPROVER_ensures(MINV(self) && !self->g_started)
__CPROVER_ensures(self->state_ == (__CPROVER_old(self->state_) == K_RUNNING ? K_INITED : __CPROVER_old(self->state_)))
__CPROVER_ensures(__CPROVER_old(self->state_) == K_RUNNING ==> g_rev == g_nkids)        /* every child was stopped */
''',
    ('ghost', 'Mod_stop', 'entry'): ENTRY_REV,
    ('loop', 'Mod_stop', 1): r'''
__CPROVER_assigns(iter, g_clock, g_rev)
__CPROVER_loop_invariant(g_rev <= g_nkids && iter == self->children_.data + (g_nkids - g_rev))
__CPROVER_decreases(g_nkids - g_rev)
''',
    ('contract', 'Mod_cleanup'): REQ + r'''
__CPROVER_assigns(''' + GH_REV + r''')
__CPROVER_ensures(MINV(self) && self->state_ == K_NONE)
__CPROVER_ensures(__CPROVER_old(self->state_) != K_NONE ==> g_rev == g_nkids)           /* every child was cleaned up */
''',
    ('ghost', 'Mod_cleanup', 'entry'): ENTRY_REV,
    ('ghost', 'Mod_cleanup', 'after_call:Mod_stop:1'): ENTRY_REV,
    ('loop', 'Mod_cleanup', 1): r'''
__CPROVER_assigns(iter, g_clock, g_rev)
__CPROVER_loop_invariant(g_rev <= g_nkids && iter == self->children_.data + (g_nkids - g_rev))
__CPROVER_decreases(g_nkids - g_rev)
''',
}

H = lambda body: '\nvoid H(void)\n{\n' + body + '\n  __CPROVER_assert(0, "VACUITY-CANARY");\n}\n'
CHILD = ['Mod_onInit', 'Mod_onStart', 'Mod_onStop', 'Mod_onCleanup', 'Mod_initialize__child', 'Mod_start__child', 'Mod_stop__child', 'Mod_cleanup__child']

REPLAY_SOURCES = ['modules/main/module.cpp', 'modules/util/variables.cpp', 'modules/base/log_impl.cpp']
def native_replay(u, t, o, w, workdir):
    import replay as rp
    return rp.attempt('module', REPLAY_SOURCES, os.path.join(workdir, 'replay'), [('native-search', ['search'])])

UNITS = [UnitSpec(
    name='module', tu='modules/main/module.cpp', filter='tbox::main', rename=R, spec=SPEC, prelude=PRELUDE,
    clang_flags=['-include', 'tbox/base/json.hpp'],
    plugins=[StdVector(), OpaqueString(), OpaqueJson()], model_headers=['vec_model.h', 'misc_model.h'],
    opaque_records={'tbox::main::Context': 'struct v_Context', 'tbox::util::Variables': 'struct v_Variables'},
    emit=['tbox::main::Module::initialize', 'tbox::main::Module::start', 'tbox::main::Module::stop', 'tbox::main::Module::cleanup'],
    not_covered=['Module::add/addAs/toJson (lambda, Json)', 'Main() sequencing in run_in_frontend/run_in_backend'],
    targets=[
        Target('initialize', H('  struct main_Module *m; struct v_json *js; Mod_initialize(m, js);'), enforce='Mod_initialize', replace=CHILD + ['Mod_cleanup'],
               clause='initialize: own hook first, children in order, balance invariant on every exit (also when a required child fails), optional failures tolerated'),
        Target('start', H('  struct main_Module *m; Mod_start(m);'), enforce='Mod_start', replace=CHILD + ['Mod_stop'],
               clause='start: only from Inited, own hook first, children in order, balance invariant on every exit'),
        Target('stop', H('  struct main_Module *m; Mod_stop(m);'), enforce='Mod_stop', replace=CHILD,
               clause='stop: children in exact reverse order, then own hook; only for a running module'),
        Target('cleanup', H('  struct main_Module *m; Mod_cleanup(m);'), enforce='Mod_cleanup', replace=CHILD + ['Mod_stop'],
               clause='cleanup: stop first, children in exact reverse order, then own hook; ends in kNone with nothing pending'),
    ],
)]
