"""C15 — DNS reply parsing: FetchDomain (modules/network/dns_request.cpp), the name decoder with compression pointers.

Proved against the util::Deserializer contracts of C19 (imported, same text).  std::ostringstream is a write-only sink
(contents abstract), so WHAT name is produced is not decided here; decided are:
  U  recursion on compression pointers is bounded: the jump budget is a measure that the recursive call must strictly decrease and
     keep non-negative (child-view contract precondition, checked at the call site);
  U  every read stays inside the datagram (Deserializer contracts + checked results), the label buffer is written only up to
     its length, the label loop terminates (each round consumes at least one byte: decreases clause), for every datagram;
"""
import os, importlib.util
from verif import UnitSpec, Target, VERIF
from plugins import StdFunction, StdVector, OpaqueString, StringStreamSink

_s = importlib.util.spec_from_file_location('c19_ser', os.path.join(VERIF, 'specs', 'C19', 'serializer.py'))
ser = importlib.util.module_from_spec(_s); _s.loader.exec_module(ser)
R = dict(ser.R); R.update({'network_FetchDomain': 'FetchDomain', 'util_Deserializer_ctor__Ktbox_util_Deserializerr': 'Des_ctor_copy'})
PRELUDE = ser.PRELUDE + 'static int g_jl0;   /* ghost: jump budget of the call under contract */\n'
CHILD = r'''
/* child-view contract of the recursive call (on a copy of the parser positioned by the compression pointer) */
struct v_str FetchDomain__child(struct util_Deserializer *parser, int jump_left)
__CPROVER_requires(__CPROVER_rw_ok(parser, sizeof(*parser)) && DWF(parser))
__CPROVER_requires(jump_left >= 0 && jump_left < g_jl0)            /* the recursion measure strictly decreases and stays non-negative: bounded recursion */
__CPROVER_assigns(parser->pos_, __exc)
__CPROVER_ensures(DWF(parser) && __exc == __CPROVER_old(__exc))
;
'''
SPEC = {
    ('after_protos',): CHILD,
    ('call_as_free', 'FetchDomain', 'FetchDomain'): 'FetchDomain__child',
    ('contract', 'Des_shr_u8'): ser.SPEC[('contract', 'Des_shr_u8')],
    ('contract', 'Des_fetch_raw'): ser.SPEC[('contract', 'Des_fetch_raw')],
    ('params', 'Des_fetch_raw'): ['p', 'size'],
    ('contract', 'Des_set_pos'): ser.SPEC[('contract', 'Des_set_pos')],
    ('ghost', 'FetchDomain', 'entry'): 'g_jl0 = jump_left;',
    ('contract', 'FetchDomain'): r'''
__CPROVER_requires(jump_left >= 0 && jump_left <= 10)
__CPROVER_requires(__CPROVER_is_fresh(parser, sizeof(*parser)) && DWF(parser) && __CPROVER_is_fresh(parser->start_, (parser->size_ > 0 ? parser->size_ : 1)))
__CPROVER_assigns(parser->pos_, __exc, v_mc_off, g_jl0)
__CPROVER_ensures(DWF(parser) && __exc == 0)
''',
    ('loop', 'FetchDomain', 1): r'''
__CPROVER_assigns(first, oss, parser->pos_, __exc, v_mc_off)
__CPROVER_loop_invariant(DWF(parser) && __exc == 0)
__CPROVER_decreases(parser->size_ - parser->pos_)
''',
}
H = lambda body: '\nvoid H(void)\n{\n  __exc = 0;\n' + body + '\n  __CPROVER_assert(0, "VACUITY-CANARY");\n}\n'

UNITS = [
  UnitSpec(
    name='fetch_domain', tu='modules/network/dns_request.cpp', filter='tbox::network',
    more_filters=[('modules/network/dns_request.cpp', 'tbox::util'), ('modules/network/dns_request.cpp', 'operator>>')],
    rename=R, spec=SPEC, prelude=PRELUDE, plugins=[StdFunction(), StdVector(), OpaqueString(), StringStreamSink()], model_headers=['fn_model.h', 'vec_model.h', 'misc_model.h'],
    emit=['tbox::network::FetchDomain'],
    targets=[
        Target('FetchDomain', H('  struct util_Deserializer *p; int j; FetchDomain(p, j);'), enforce='FetchDomain',
               replace=['Des_shr_u8', 'Des_fetch_raw', 'Des_set_pos', 'FetchDomain__child'],
               clause='FetchDomain: reads inside the datagram, label loop terminates, parser stays well-formed, for every datagram'),
    ],
)]

REPLAY_SOURCES = ['modules/network/dns_request.cpp']
def native_replay(u, t, o, w, workdir):
    import replay as rp
    libs = [os.path.join(rp.REPO if os.path.isdir(os.path.join(rp.REPO, '_build')) else '/repo', '_build/modules/%s/libtbox_%s.a' % (m, m)) for m in ('network', 'eventx', 'event', 'util', 'base')]
    return rp.attempt('dns', REPLAY_SOURCES, os.path.join(workdir, 'replay'), [('native-search', ['search'])], extra=libs + ['-ldl'])
