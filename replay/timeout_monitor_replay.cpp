// native replay driver for eventx::TimeoutMonitor<int>: real loop, 5 ms ticks; values re-added from the timeout callback
#include <cstdio>
#include <cstdlib>
#include <cstring>
#include <vector>
#include <map>
#include <tbox/event/loop.h>
#include <tbox/event/timer_event.h>
#include <tbox/eventx/timeout_monitor.hpp>
using namespace tbox;
int main(int, char **) {
  for (int ring = 1; ring <= 3; ++ring) for (int readd = 0; readd <= 2; ++readd) {
    event::Loop *loop = event::Loop::New(); std::map<int, int> seen; int budget = readd;
    { eventx::TimeoutMonitor<int> tm(loop); tm.initialize(std::chrono::milliseconds(5), ring);
      tm.setCallback([&](const int &v) { ++seen[v]; if (budget > 0) { --budget; tm.add(v + 100); } });
      tm.add(1); tm.add(2);
      loop->exitLoop(std::chrono::milliseconds(5 * ring * 4 + 60)); loop->runLoop();
      int want = 2 + readd; int got = 0; bool dup = false; for (auto &kv : seen) { got += kv.second; if (kv.second != 1) dup = true; }
      if (got != want || dup) { printf("VIOLATION: TimeoutMonitor(ring %d): %d values added (%d from the timeout callback) but %d timeout reports%s\n", ring, want, readd, got, dup ? " (a value reported twice)" : ""); delete loop; return 1; }
      tm.cleanup(); }
    delete loop; }
  return 0;
}
