#include <stddef.h>
#include <stdbool.h>
#include <ctype.h>
int v_isgraph(int c) __CPROVER_requires(c >= -128 && c <= 255) __CPROVER_assigns() __CPROVER_ensures(__CPROVER_return_value == 0 || __CPROVER_return_value == 1 || 1);
int FindEndPos(const char *str_ptr, size_t str_len)
__CPROVER_requires(str_len <= 0x7ffffffe && __CPROVER_is_fresh(str_ptr, str_len ? str_len : 1))
__CPROVER_assigns()
__CPROVER_ensures(__CPROVER_return_value >= -1 && (__CPROVER_return_value <= 0 || (size_t)__CPROVER_return_value <= str_len))
{
    bool is_started = false;
    int braces_level = 0;
    int square_level = 0;
    bool in_string = false;

    for (size_t i = 0; i < str_len; ++i)
    __CPROVER_assigns(i, is_started, braces_level, square_level, in_string)
    __CPROVER_loop_invariant((in_string ==> i >= 1) && i <= str_len && braces_level >= 0 && square_level >= 0 && (size_t)braces_level <= i && (size_t)square_level <= i)
    __CPROVER_decreases(str_len - i)
    {
        char ch = str_ptr[i];
        if (!is_started && v_isgraph(ch))
            is_started = true;

        if (ch == '"') {
            if (in_string) {
                in_string = false;
                for (size_t j = (i - 1); j != 0 && str_ptr[j] == '\\'; --j)
                __CPROVER_assigns(j, in_string)
                __CPROVER_loop_invariant(j < i)
                __CPROVER_decreases(j)
                    in_string = !in_string;
            } else {
                in_string = true;
            }
        } else {
            if (in_string)
                continue;

            switch (ch) {
                case '[': ++square_level; break;
                case ']': --square_level; break;
                case '{': ++braces_level; break;
                case '}': --braces_level; break;
            }
        }

        if (braces_level == 0 &&
            square_level == 0 &&
            !in_string &&
            is_started) {
            return i + 1;
        }

        if (braces_level < 0 || square_level < 0)
            return -1;
    }

    return 0;
}
void harness(void) { const char *p; size_t n; FindEndPos(p, n); }
