// WorkThread: construct, run a task, destroy - repeatedly.  Under ThreadSanitizer the stop flag written by cleanup() and read by the
// worker's wait predicate (under the lock) must not race.
#include <tbox/eventx/work_thread.h>
#include <tbox/event/loop.h>
#include <thread>
#include <chrono>
#include <cstdio>
#include <atomic>
using namespace tbox;
int main() {
    auto loop = event::Loop::New();
    std::atomic<int> ran{0};
    for (int round = 0; round < 300; ++round) {
        eventx::WorkThread wt(loop);
        wt.execute([&]{ ++ran; });
        if (round % 3 == 0) std::this_thread::sleep_for(std::chrono::microseconds(200));
        wt.cleanup();
    }
    printf("rounds done, ran=%d\n", (int)ran);
    delete loop;
    return 0;
}
