"""C04 — SignalHandlerFunc (modules/event/common_loop_signal.cpp): the process-wide handler installed for a subscribed signal.

The context table and the set of listening loops' pipes are oracles (one tracked pipe); calls through the saved handler are indirect-call
stubs.  Decided for every saved disposition:
 - "a handler that was installed before the first subscription is still invoked": saved with SA_SIGINFO -> its three-argument form is
   called once (if non-null) with the signal, the siginfo and the context; otherwise its one-argument form is called once - and NEVER
   when the saved disposition is SIG_DFL, SIG_IGN or SIG_ERR (those are not functions);
 - every loop that listens to the signal gets exactly one write of the whole signal number into its pipe (tracked pipe visited once).
Not decided: async-signal-safety (the handler indexes a std::map), the kernel delivering the signal at all.
"""
import os, importlib.util
from verif import UnitSpec, Target, VERIF
_s = importlib.util.spec_from_file_location('c04_loop', os.path.join(VERIF, 'specs', 'C04', 'loop_signal.py'))
m = importlib.util.module_from_spec(_s); _s.loader.exec_module(m)
R = dict(m.R)
PRELUDE = r"""
typedef struct event_SignalCtx Ctx;
#define T(x) ((x) != 0)
static Ctx g_ctx; static int g_signo, g_tfd;                  /* the context of the delivered signal; a tracked listening loop's pipe */
static _Bool g_visited, g_cur_tracked; static size_t g_old_calls, g_writes_tracked, g_writes; static _Bool g_old_info;
"""
EXTERN = r"""
Ctx *v_ctxmap__index(struct v_ctxmap *mp, int signo) __CPROVER_requires(signo == g_signo) __CPROVER_assigns() __CPROVER_ensures(__CPROVER_return_value == &g_ctx);
/* the handler that was installed before the first subscription: a real function (never SIG_DFL / SIG_IGN / SIG_ERR), called once, with the signal */
void v_indirect__void_int(v_fnptr f, int signo) __CPROVER_requires(f != (v_fnptr)0 && f != (v_fnptr)1 && f != (v_fnptr)-1 && f == (v_fnptr)g_ctx.old_handler.sa_handler && !(g_ctx.old_handler.sa_flags & SA_SIGINFO) && signo == g_signo && g_old_calls == 0)
  __CPROVER_assigns(g_old_calls, g_old_info) __CPROVER_ensures(g_old_calls == 1 && g_old_info == 0);
void v_indirect__void_int_siginfo_t_p_void_p(v_fnptr f, int signo, siginfo_t *si, void *ctx) __CPROVER_requires(f != (v_fnptr)0 && f == (v_fnptr)g_ctx.old_handler.sa_sigaction && (g_ctx.old_handler.sa_flags & SA_SIGINFO) && signo == g_signo && g_old_calls == 0)
  __CPROVER_assigns(g_old_calls, g_old_info) __CPROVER_ensures(g_old_calls == 1 && g_old_info == 1);
/* the pipes of the listening loops: every one handed out exactly once, the tracked one among them */
long v_fdset__begin(struct v_fdset *s) __CPROVER_requires(s == &g_ctx.write_fds) __CPROVER_assigns(g_visited, g_cur_tracked)
  __CPROVER_ensures((g_cur_tracked == 0 || g_cur_tracked == 1) && __CPROVER_return_value != 0 && g_visited == g_cur_tracked);
long v_fdset__next(struct v_fdset *s, long it) __CPROVER_requires(it != 0) __CPROVER_assigns(g_visited, g_cur_tracked)
  __CPROVER_ensures((g_cur_tracked == 0 || g_cur_tracked == 1) && (g_visited == 0 || g_visited == 1))
  __CPROVER_ensures(__CPROVER_return_value == 0 ? (T(__CPROVER_old(g_visited)) && g_visited == 1 && g_cur_tracked == 0) : (T(g_cur_tracked) ? (!T(__CPROVER_old(g_visited)) && g_visited == 1) : g_visited == __CPROVER_old(g_visited)));
int v_fdset__deref(struct v_fdset *s, long it) __CPROVER_requires(it != 0) __CPROVER_assigns() __CPROVER_ensures(T(g_cur_tracked) ? __CPROVER_return_value == g_tfd : __CPROVER_return_value != g_tfd);
/* one whole signal number per loop */
ssize_t v_sys_write(int fd, const void *buf, size_t n) __CPROVER_requires(n == sizeof(int) && __CPROVER_r_ok(buf, sizeof(int)) && *(const int *)buf == g_signo) __CPROVER_assigns(g_writes, g_writes_tracked)
  __CPROVER_ensures(g_writes == __CPROVER_old(g_writes) + 1 && g_writes_tracked == __CPROVER_old(g_writes_tracked) + (fd == g_tfd ? 1 : 0));
"""
SPEC = {('prelude_early',): m.EARLY, ('prelude',): PRELUDE, ('after_protos',): EXTERN,
    ('contract', 'event_SignalHandlerFunc'): r"""
__CPROVER_requires(1)
__CPROVER_assigns(g_signo, g_visited, g_cur_tracked, g_old_calls, g_old_info, g_writes, g_writes_tracked)
/* a handler installed before the first subscription is still invoked - exactly once, in the form it was installed with - and is not invoked
   when the previous disposition was default / ignore */
__CPROVER_ensures((g_ctx.old_handler.sa_flags & SA_SIGINFO) ? (g_old_calls == (g_ctx.old_handler.sa_sigaction != 0 ? 1 : 0))
                  : (g_old_calls == (((v_fnptr)g_ctx.old_handler.sa_handler != (v_fnptr)0 && (v_fnptr)g_ctx.old_handler.sa_handler != (v_fnptr)1 && (v_fnptr)g_ctx.old_handler.sa_handler != (v_fnptr)-1)      /* SIG_DFL, SIG_IGN, SIG_ERR as code addresses, the way the printer renders the comparison */ ? 1 : 0)))
/* every loop that listens to the signal gets the signal number written into its pipe exactly once (tracked loop) */
__CPROVER_ensures(g_writes_tracked == 1)
""",
    ('ghost', 'event_SignalHandlerFunc', 'entry'): 'g_signo = signo; g_old_calls = 0; g_writes = 0; g_writes_tracked = 0;',
    ('ghost', 'event_SignalHandlerFunc', 'before_loop:1'): 'size_t g_w0 = g_writes_tracked;',
    ('loop', 'event_SignalHandlerFunc', 1): r"""
__CPROVER_assigns(__it1, g_visited, g_cur_tracked, g_writes, g_writes_tracked)
__CPROVER_loop_invariant((g_cur_tracked == 0 || g_cur_tracked == 1) && (g_visited == 0 || g_visited == 1) && (T(g_cur_tracked) ==> T(g_visited)) && (__it1 == 0 ==> (T(g_visited) && !T(g_cur_tracked))))
__CPROVER_loop_invariant(g_w0 == 0 && g_writes_tracked == ((T(g_visited) && !(__it1 != 0 && T(g_cur_tracked))) ? 1 : 0))
""",
}
H = m.H
U0 = m.UNITS[0]
UNITS = [UnitSpec(name='signal_handler', tu=m.TU, filter='tbox::event', more_filters=[(m.TU, f) for f in m.FILTERS], rename=R, spec=SPEC, emit=['tbox::event::SignalHandlerFunc'],
    plugins=U0.plugins, model_headers=U0.model_headers, opaque_records=U0.opaque_records,
    targets=[Target('SignalHandlerFunc', H('  int s; siginfo_t *i; void *c; event_SignalHandlerFunc(s, i, c);'), enforce='event_SignalHandlerFunc', replace=['v_ctxmap__index', 'v_indirect__void_int', 'v_indirect__void_int_siginfo_t_p_void_p', 'v_fdset__begin', 'v_fdset__next', 'v_fdset__deref', 'v_sys_write'], timeout=300,
        clause='process-wide handler: the previously installed handler is still invoked (once, never for default/ignore dispositions); every listening loop gets the signal number written into its pipe exactly once')])]

def native_replay(u, t, o, w, workdir):
    import replay as rp
    L = '/repo/_build/modules'
    libs = ['%s/event/libtbox_event.a' % L, '%s/util/libtbox_util.a' % L, '%s/base/libtbox_base.a' % L, '-ldl']
    return rp.attempt('signal_burst', ['modules/event/common_loop_signal.cpp'], os.path.join(workdir, 'replay'), [('scenario', ['epoll', 'ign']), ('scenario', ['epoll'])], extra=libs)
