#include <tbox/eventx/thread_pool.h>
#include <tbox/event/loop.h>
#include <thread>
#include <chrono>
#include <cstdio>
#include <atomic>
using namespace tbox;
int main() {
    auto loop = event::Loop::New();
    eventx::ThreadPool tp(loop);
    std::atomic<int> ran{0};
    int lost = 0;
    for (int round = 0; round < 300; ++round) {
        tp.initialize(1, 1);
        int before = ran;
        tp.execute([&]{ ++ran; });
        for (int i = 0; i < 200 && ran == before; ++i) std::this_thread::sleep_for(std::chrono::milliseconds(1));
        if (ran == before) { ++lost; printf("round %d: task never ran within 200ms after re-initialize\n", round); }
        tp.cleanup();
    }
    printf("lost=%d\n", lost);
    delete loop;
    return lost ? 1 : 0;
}
